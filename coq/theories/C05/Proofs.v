(* C05 Proofs. *)
From God Require Import Base.Prelude C05.Model C05.Spec.
From Coq Require Import String Ascii.
Local Open Scope Z_scope.

(* ------------------------------------------------------------------ universe: embedded fields are structs *)
Definition anon_ok (f : field) : bool :=
  if f_anon f then match deref (f_ty f) with Struct _ => true | _ => false end else true.

Fixpoint wf_ty (t : ty) : bool :=
  match t with
  | Prim _ => true
  | Ptr t' | Slice t' | Map t' => wf_ty t'
  | Struct fs => forallb (fun f => wf_ty (f_ty f) && anon_ok f) fs
  end.
Definition wf_field (f : field) : bool := wf_ty (f_ty f) && anon_ok f.

Lemma wf_deref t : wf_ty t = true -> wf_ty (deref t) = true.
Proof. destruct t; simpl; auto. Qed.

Lemma wf_struct_fields fs f : wf_ty (Struct fs) = true -> In f fs -> wf_field f = true.
Proof. simpl. intros H Hin. rewrite forallb_forall in H. apply H. assumption. Qed.

(* ------------------------------------------------------------------ generic facts on bind / mapM *)
Definition np {A} (r : result A) : Prop := r <> Panic.

Lemma np_ok {A} (a : A) : np (Ok a). Proof. discriminate. Qed.
Lemma np_err {A} e : np (@Err A e). Proof. discriminate. Qed.
Lemma np_bind {A B} (r : result A) (f : A -> result B) : np r -> (forall a, np (f a)) -> np (bind r f).
Proof. destruct r; simpl; intros H1 H2; [apply H2 | discriminate | exfalso; apply H1; reflexivity]. Qed.
Lemma np_mapM {A B} (f : A -> result B) l : (forall a, In a l -> np (f a)) -> np (mapM f l).
Proof.
  induction l as [|a r IH]; simpl; intro H; [apply np_ok|].
  apply np_bind; [apply H; auto|]. intro b. apply np_bind; [apply IH; intros; apply H; auto|]. intro; apply np_ok.
Qed.

Lemma bind_ok {A B} (r : result A) (f : A -> result B) b : bind r f = Ok b -> exists a, r = Ok a /\ f a = Ok b.
Proof. destruct r; simpl; intro H; try discriminate. eauto. Qed.

Lemma mapM_ok {A B} (f : A -> result B) l bs : mapM f l = Ok bs -> Forall2 (fun a b => f a = Ok b) l bs.
Proof.
  revert bs. induction l as [|a r IH]; simpl; intros bs H.
  - inversion H. constructor.
  - apply bind_ok in H as [b [Hb H]]. apply bind_ok in H as [bs' [Hbs H]]. inversion H; subst. constructor; auto.
Qed.

Lemma mapM_err_in {A B} (f : A -> result B) l a : In a l -> (forall b, f a <> Ok b) -> forall bs, mapM f l <> Ok bs.
Proof.
  intros Hin Hne bs H. apply mapM_ok in H. revert bs H. induction l as [|x r IH]; [destruct Hin|]. intros bs H.
  inversion H; subst. destruct Hin as [<-|Hin]; [eapply Hne; eauto | eapply IH; eauto].
Qed.

Ltac np_leaf := first [apply np_ok | apply np_err | discriminate].

(* ------------------------------------------------------------------ c05_never_panics *)
Lemma np_convert_set k s fi : np (convert_set k s fi).
Proof. unfold convert_set. repeat (match goal with |- context [match ?x with _ => _ end] => destruct x end); np_leaf. Qed.

Lemma np_json_number t o raw fi : np (json_number t o raw fi).
Proof. unfold json_number. repeat (match goal with |- context [match ?x with _ => _ end] => destruct x end); np_leaf. Qed.

Lemma np_from_string t o d : np (from_string t o d).
Proof.
  unfold from_string. destruct (deref t); try np_leaf. destruct d; try np_leaf.
  - destruct (negb (in_options o raw)); [np_leaf|]. destruct (negb (range_ok_tok o raw fi)); [np_leaf|].
    apply np_bind; [apply np_convert_set | intro; np_leaf].
  - destruct (negb (in_options o s)); [np_leaf|]. apply np_bind; [apply np_convert_set|]. intro a. destruct (range_ok_val o a); np_leaf.
Qed.

Section NP.
  Variable rec_struct : list field -> obj -> result val.
  Variable rec_slice : ty -> ty -> jv -> result val.
  Variable rec_map : ty -> jv -> result val.
  Variable rec_field : field -> obj -> result val.
  Hypothesis Hs : forall fs m, wf_ty (Struct fs) = true -> np (rec_struct fs m).
  Hypothesis Hl : forall t et d, wf_ty et = true -> np (rec_slice t et d).
  Hypothesis Hm : forall et d, wf_ty et = true -> np (rec_map et d).
  Hypothesis Hf : forall f m, wf_field f = true -> np (rec_field f m).

  Lemma np_fill_map t d : wf_ty t = true -> np (fill_map rec_map t d).
  Proof. unfold fill_map. destruct t; simpl; intros; try np_leaf. apply Hm; assumption. Qed.

  Lemma np_field_primitive t o d : wf_ty t = true -> np (field_primitive rec_slice t o d).
  Proof.
    intro W. apply wf_deref in W. unfold field_primitive. destruct (deref t) eqn:E; simpl in W.
    - destruct k; destruct d; try np_leaf; try apply np_json_number;
        repeat (match goal with |- context [match ?x with _ => _ end] => destruct x end); np_leaf.
    - destruct d; try np_leaf; apply np_json_number.
    - destruct d; try np_leaf; try apply np_json_number. apply Hl; assumption.
    - destruct d; try np_leaf; apply np_json_number.
    - destruct d; try np_leaf; apply np_json_number.
  Qed.

  Lemma np_slice_value et x : wf_ty et = true -> np (slice_value rec_map et x).
  Proof.
    intro W. unfold slice_value.
    repeat (match goal with
            | |- np (Ok _) => apply np_ok
            | |- np (Err _) => apply np_err
            | |- np (bind _ _) => apply np_bind; [|intro]
            | |- np (convert_set _ _ _) => apply np_convert_set
            | |- np (rec_map _ _) => apply Hm; simpl in W; assumption
            | |- np (match ?x with _ => _ end) => destruct x
            end).
  Qed.

  Lemma np_from_string_slice t et d : wf_ty et = true -> np (from_string_slice rec_map t et d).
  Proof.
    intro W. unfold from_string_slice. destruct d; try np_leaf. destruct pj as [pj|]; [|np_leaf].
    destruct t; try np_leaf. destruct et; try np_leaf;
      (destruct pj; try np_leaf; apply np_bind; [apply np_mapM; intros; apply np_slice_value; assumption | intro; np_leaf]).
  Qed.

  Lemma np_not_from_string t o d : wf_ty t = true -> np (not_from_string rec_struct rec_slice rec_map t o d).
  Proof.
    intro W. pose proof (wf_deref _ W) as W'. unfold not_from_string.
    destruct (vkind d) eqn:K; try (apply np_field_primitive; assumption).
    - destruct (deref t) eqn:E; try (apply np_field_primitive; assumption); try np_leaf.
      + destruct k; try (apply np_field_primitive; assumption). destruct d; try np_leaf. destruct (parse_dur s); np_leaf.
      + apply np_from_string_slice. exact W'.
    - destruct (deref t) eqn:E; try (apply np_field_primitive; assumption).
      + apply np_fill_map; assumption.
      + destruct d; try np_leaf. apply np_bind; [apply Hs; assumption | intro; np_leaf].
  Qed.

  Lemma np_with_value t o d : wf_ty t = true -> np (with_value rec_struct rec_slice rec_map t o d).
  Proof.
    intro W. unfold with_value. destruct d; try (destruct (o_optional o); np_leaf);
      (destruct (deref t); [destruct (o_string o); [apply np_from_string | apply np_not_from_string; assumption] | apply np_not_from_string; assumption ..]).
  Qed.

  Lemma np_without_value t o : wf_ty t = true -> np (without_value rec_struct t o).
  Proof.
    intro W. pose proof (wf_deref _ W) as W'. unfold without_value. destruct (o_default o).
    - destruct (deref t); try np_leaf. destruct k; try (apply np_bind; [apply np_convert_set | intro; np_leaf]).
      destruct (parse_dur s); np_leaf.
    - destruct (o_optional o); [np_leaf|]. destruct (deref t) eqn:E; try np_leaf.
      destruct (ty_required (Struct fs)); [np_leaf|]. apply np_bind; [apply Hs; assumption | intro; np_leaf].
  Qed.

  Lemma np_anon_optional t sub m : wf_ty (Struct sub) = true -> np (anon_optional rec_field t sub m).
  Proof.
    intro W. unfold anon_optional. apply np_bind.
    - apply np_mapM. intros sf Hin. destruct (olookup (f_key sf) m); [|np_leaf].
      apply np_bind; [apply Hf; eapply wf_struct_fields; eauto | intro; np_leaf].
    - intro rs. repeat (match goal with |- context [if ?x then _ else _] => destruct x end); np_leaf.
  Qed.

  Lemma np_process_field f m : wf_field f = true -> np (process_field rec_struct rec_slice rec_map rec_field f m).
  Proof.
    intro W. unfold wf_field in W. apply andb_true_iff in W as [W A]. unfold process_field.
    apply np_bind; [unfold resolve_opts; repeat (match goal with |- context [match ?x with _ => _ end] => destruct x end); np_leaf|]. intro o'.
    destruct (f_anon f) eqn:An.
    - destruct (olookup (f_key f) m); [np_leaf|]. unfold anon_ok in A. rewrite An in A.
      pose proof (wf_deref _ W) as W'. destruct (deref (f_ty f)) eqn:E; try discriminate.
      destruct (o_optional o'); [apply np_anon_optional; assumption|].
      apply np_bind; [|intro; np_leaf]. apply np_mapM. intros sf Hin. apply Hf. eapply wf_struct_fields; eauto.
    - destruct (olookup (f_key f) m); [apply np_with_value | apply np_without_value]; assumption.
  Qed.

  Lemma np_slice_elem et x : wf_ty et = true -> np (slice_elem rec_struct rec_slice rec_map et x).
  Proof.
    intro W. pose proof (wf_deref _ W) as W'. unfold slice_elem. destruct (deref et) eqn:E; try (apply np_slice_value; assumption).
    - destruct (is_ptr et); [np_leaf|]. apply Hl. assumption.
    - destruct x; try np_leaf. apply np_bind; [apply Hs; assumption | intro; np_leaf].
  Qed.

  Lemma np_fill_slice_body t et d : wf_ty et = true -> np (fill_slice_body rec_struct rec_slice rec_map t et d).
  Proof.
    intro W. unfold fill_slice_body. destruct t; try np_leaf. destruct d; try np_leaf. destruct l; [np_leaf|].
    apply np_bind.
    - apply np_mapM. intros x _. destruct (is_null x); [np_leaf | apply np_slice_elem; assumption].
    - intro vs. destruct (forallb is_null (j :: l)); np_leaf.
  Qed.

  Lemma np_map_elem et x : wf_ty et = true -> np (map_elem rec_struct rec_slice rec_map et x).
  Proof.
    intro W. pose proof (wf_deref _ W) as W'. unfold map_elem.
    destruct (is_ptr et && negb match deref et with Struct _ => true | _ => false end); [np_leaf|].
    destruct (deref et) eqn:E; try np_leaf.
    - destruct x; try np_leaf; [destruct k; np_leaf | apply np_convert_set | destruct k; np_leaf].
    - apply Hl. assumption.
    - destruct x; try np_leaf. apply Hm. assumption.
    - destruct x; try np_leaf. apply np_bind; [apply Hs; assumption | intro; np_leaf].
  Qed.

  Lemma np_gen_map_body et d : wf_ty et = true -> np (gen_map_body rec_struct rec_slice rec_map et d).
  Proof.
    intro W. unfold gen_map_body. destruct d; try np_leaf. apply np_bind; [|intro; np_leaf].
    apply np_mapM. intros kv _. apply np_bind; [apply np_map_elem; assumption | intro; np_leaf].
  Qed.
End NP.

Lemma never_panics_fuel : forall n,
  (forall fs m, wf_ty (Struct fs) = true -> np (unm_struct n fs m)) /\
  (forall f m, wf_field f = true -> np (unm_field n f m)) /\
  (forall t et d, wf_ty et = true -> np (fill_slice n t et d)) /\
  (forall et d, wf_ty et = true -> np (gen_map n et d)).
Proof.
  induction n as [|n [IHs [IHf [IHl IHm]]]].
  - repeat split; intros; simpl; np_leaf.
  - repeat split; intros; simpl.
    + apply np_bind; [|intro; np_leaf]. apply np_mapM. intros f Hin. apply IHf. eapply wf_struct_fields; eauto.
    + apply np_process_field; auto.
    + apply np_fill_slice_body; auto.
    + apply np_gen_map_body; auto.
Qed.

Lemma never_panics : forall n t d, wf_ty t = true -> unmarshal n t d <> Panic.
Proof.
  intros n t d W. unfold unmarshal. destruct t; try discriminate. destruct d; try discriminate.
  apply (proj1 (never_panics_fuel n)). assumption.
Qed.

(* ------------------------------------------------------------------ text parsers *)
Lemma parse_udec_signed s z : parse_udec s = Some z -> parse_signed s = Some z.
Proof.
  destruct s as [|c r]; [discriminate|]. unfold parse_signed. intro H.
  destruct (Ascii.eqb c "-") eqn:E1; [apply Ascii.eqb_eq in E1; subst; discriminate|].
  destruct (Ascii.eqb c "+") eqn:E2; [apply Ascii.eqb_eq in E2; subst; discriminate|]. exact H.
Qed.

Lemma parse_int64_signed s z : parse_int64 s = Some z -> parse_signed s = Some z /\ fits_int W64 z = true.
Proof.
  unfold parse_int64. destruct (parse_signed s) as [z'|]; [|discriminate].
  destruct ((- 2 ^ 63 <=? z') && (z' <? 2 ^ 63)) eqn:E; [|discriminate]. intro H; inversion H; subst. split; [reflexivity | exact E].
Qed.

Lemma parse_uint64_signed s z : parse_uint64 s = Some z -> parse_signed s = Some z.
Proof.
  unfold parse_uint64. destruct (parse_udec s) as [z'|] eqn:E; [|discriminate]. destruct (z' <? 2 ^ 64); [|discriminate].
  intro H; inversion H; subst. apply parse_udec_signed. exact E.
Qed.

Lemma digit_of_range c d : digit_of c = Some d -> 0 <= d <= 9.
Proof. unfold digit_of. destruct ((48 <=? Z.of_nat (nat_of_ascii c)) && (Z.of_nat (nat_of_ascii c) <=? 57)) eqn:E; [|discriminate]. intro H; inversion H. lia. Qed.

Lemma dur_loop_nonneg s : forall total num u d,
  dur_loop s total num u = Some d -> 0 <= total -> (forall n, num = Some n -> 0 <= n) -> 0 <= d <= 2 ^ 63.
Proof.
  induction s as [|c r IH]; intros total num u d H Ht Hn; cbn [dur_loop] in H.
  - destruct num as [n|]; [|discriminate]. destruct u; [discriminate|]. destruct (unit_ns (String a u)) as [m|] eqn:Eu; [|discriminate].
    destruct ((n <=? 2 ^ 63) && (n <=? 2 ^ 63 / m) && (total + n * m <=? 2 ^ 63)) eqn:E; [|discriminate].
    inversion H; subst. assert (0 <= n) by (apply Hn; reflexivity).
    assert (0 < m). { unfold unit_ns in Eu. repeat (match type of Eu with (if ?x then _ else _) = _ => destruct x end); inversion Eu; lia. }
    split; [nia | lia].
  - destruct (is_digit c) eqn:Ed.
    + unfold is_digit in Ed. destruct (digit_of c) as [dg|] eqn:Edg; [|discriminate]. apply digit_of_range in Edg.
      destruct num as [n|]; destruct u.
      * eapply IH; [exact H | assumption |]. intros n0 E; inversion E. assert (0 <= n) by (apply Hn; reflexivity). nia.
      * destruct (unit_ns (String a u)) as [m|] eqn:Eu; [|discriminate].
        destruct ((n <=? 2 ^ 63) && (n <=? 2 ^ 63 / m) && (total + n * m <=? 2 ^ 63)) eqn:E; [|discriminate].
        assert (0 <= n) by (apply Hn; reflexivity).
        assert (0 < m). { unfold unit_ns in Eu. repeat (match type of Eu with (if ?x then _ else _) = _ => destruct x end); inversion Eu; lia. }
        eapply IH; [exact H | nia |]. intros n0 E0; inversion E0; lia.
      * eapply IH; [exact H | assumption |]. intros n0 E; inversion E; lia.
      * discriminate.
    + destruct num as [n|]; [|discriminate]. destruct (Ascii.eqb c "."); [discriminate|]. eapply IH; eauto.
Qed.

Lemma dur_body_fits neg r z : dur_body neg r = Some z -> fits_int W64 z = true.
Proof.
  unfold dur_body. destruct (String.eqb r "0"); [intro H; inversion H; reflexivity|].
  destruct (dur_loop r 0 None EmptyString) as [d|] eqn:E; [|discriminate].
  apply dur_loop_nonneg in E; [|lia|discriminate]. destruct neg.
  - intro H; inversion H; subst. unfold fits_int. simpl bits. lia.
  - destruct (d <=? 2 ^ 63 - 1) eqn:E2; [|discriminate]. intro H; inversion H; subst. unfold fits_int. simpl bits. lia.
Qed.

Lemma parse_dur_fits s z : parse_dur s = Some z -> fits_int W64 z = true.
Proof.
  unfold parse_dur. destruct s as [|c r]; [apply dur_body_fits|].
  destruct (Ascii.eqb c "-"); [apply dur_body_fits|]. destruct (Ascii.eqb c "+"); apply dur_body_fits.
Qed.

(* ------------------------------------------------------------------ exactness of every scalar the code writes *)
Lemma deref_prim t k : deref t = Prim k -> t = Prim k \/ t = Ptr (Prim k).
Proof. destruct t; simpl; intro H; try discriminate; [left | right]; congruence. Qed.

Lemma denotes_signed s z : parse_signed s = Some z -> denotes_int s z = true.
Proof. unfold denotes_int, denotes_int0. intros ->. rewrite Z.eqb_refl. reflexivity. Qed.

Lemma convert_set_exact pj k s fi v : convert_set k s fi = Ok v ->
  leaf_agrees k (match fi with Some i => JNum s i | None => JStr s pj end) v = true.
Proof.
  unfold convert_set. destruct k.
  - destruct (parse_bool s) eqn:E; [|discriminate]. intro H; inversion H; subst. simpl. destruct fi; rewrite E; apply eqb_reflx.
  - destruct (parse_int64 s) eqn:E; [|discriminate]. destruct (fits_int w z) eqn:F; [|discriminate]. intro H; inversion H; subst.
    apply parse_int64_signed in E as [E _]. simpl. destruct fi; rewrite (denotes_signed _ _ E), F; reflexivity.
  - destruct (parse_uint64 s) eqn:E; [|discriminate]. destruct (fits_uint w z) eqn:F; [|discriminate]. intro H; inversion H; subst.
    apply parse_uint64_signed in E. simpl. destruct fi; rewrite (denotes_signed _ _ E), F; reflexivity.
  - destruct fi as [i|]; [|discriminate]. destruct (fi_fits64 i) eqn:F1; [|discriminate]. destruct (fi_fits32 i); [|discriminate].
    intro H; inversion H; subst. simpl. rewrite F1. destruct (fi_canon i); simpl; rewrite ?String.eqb_refl; reflexivity.
  - destruct fi as [i|]; [|discriminate]. destruct (fi_fits64 i) eqn:F1; [|discriminate].
    intro H; inversion H; subst. simpl. rewrite F1. destruct (fi_canon i); simpl; rewrite ?String.eqb_refl; reflexivity.
  - intro H; inversion H; subst. simpl. destruct fi; apply String.eqb_refl.
  - destruct (parse_int64 s) eqn:E; [|discriminate]. intro H; inversion H; subst.
    apply parse_int64_signed in E as [E F]. simpl. rewrite F. destruct fi; rewrite (denotes_signed _ _ E); simpl; rewrite ?orb_true_r; reflexivity.
Qed.

Definition is_int_ty (t : ty) : bool := match deref t with Prim (KInt _) | Prim (KUint _) | Prim KDur => true | _ => false end.

Lemma in_options_value o d s : text_of d = Some s -> in_options o s = true -> value_in_options o d = true.
Proof.
  unfold value_in_options. intros T H. destruct (o_options o); [reflexivity|].
  destruct d; simpl in *; try discriminate; rewrite ?T; inversion T; subst; exact H.
Qed.

Lemma range_tok_value o raw fi z : range_ok_tok o raw fi = true -> parse_signed raw = Some z ->
  value_in_range o (VInt z) = true /\ value_in_range o (VPtr (VInt z)) = true.
Proof.
  unfold range_ok_tok, value_in_range. destruct (o_range o); [|split; reflexivity]. intros H E. rewrite E in H.
  apply andb_true_iff in H as [_ H]. split; simpl; exact H.
Qed.

Lemma json_number_exact t o raw fi w : json_number t o raw fi = Ok w ->
  agrees t (JNum raw fi) w = true /\ value_in_options o (JNum raw fi) = true /\
  (is_int_ty t = true -> value_in_range o w = true).
Proof.
  unfold json_number. destruct (range_ok_tok o raw fi) eqn:R; [|discriminate]. destruct (in_options o raw) eqn:Op; [|discriminate]. simpl negb. cbv iota.
  intro H. split; [|split; [eapply in_options_value; [reflexivity | exact Op] |]].
  - destruct (deref t) as [k| | | |] eqn:D; try discriminate. apply deref_prim in D. destruct k; try discriminate.
    + destruct (parse_int64 raw) eqn:E; [|discriminate]. destruct (fits_int w0 z) eqn:F; [|discriminate]. inversion H; subst.
      apply parse_int64_signed in E as [E _]. destruct D; subst; simpl; rewrite (denotes_signed _ _ E), F; reflexivity.
    + destruct (parse_int64 raw) eqn:E; [|discriminate]. destruct (z <? 0); [discriminate|]. destruct (fits_uint w0 z) eqn:F; [|discriminate]. inversion H; subst.
      apply parse_int64_signed in E as [E _]. destruct D; subst; simpl; rewrite (denotes_signed _ _ E), F; reflexivity.
    + destruct (fi_fits64 fi) eqn:F1; [|discriminate]. destruct (fi_fits32 fi); [|discriminate]. inversion H; subst.
      destruct D; subst; simpl; rewrite F1; destruct (fi_canon fi); simpl; rewrite ?String.eqb_refl; reflexivity.
    + destruct (fi_fits64 fi) eqn:F1; [|discriminate]. inversion H; subst.
      destruct D; subst; simpl; rewrite F1; destruct (fi_canon fi); simpl; rewrite ?String.eqb_refl; reflexivity.
    + destruct (parse_int64 raw) eqn:E; [|discriminate]. inversion H; subst.
      apply parse_int64_signed in E as [E F]. destruct D; subst; simpl; rewrite (denotes_signed _ _ E), F; reflexivity.
  - intro NF. unfold is_int_ty in NF. destruct (deref t) as [k| | | |] eqn:D; try discriminate. apply deref_prim in D. destruct k; try discriminate.
    + destruct (parse_int64 raw) eqn:E; [|discriminate]. destruct (fits_int w0 z); [|discriminate]. inversion H; subst.
      apply parse_int64_signed in E as [E _]. destruct (range_tok_value _ _ _ _ R E). destruct D; subst; assumption.
    + destruct (parse_int64 raw) eqn:E; [|discriminate]. destruct (z <? 0); [discriminate|]. destruct (fits_uint w0 z); [|discriminate]. inversion H; subst.
      apply parse_int64_signed in E as [E _]. destruct (range_tok_value _ _ _ _ R E). destruct D; subst; assumption.
    + destruct (parse_int64 raw) eqn:E; [|discriminate]. inversion H; subst.
      apply parse_int64_signed in E as [E _]. destruct (range_tok_value _ _ _ _ R E). destruct D; subst; assumption.
Qed.

Lemma range_val_value o v t : range_ok_val o v = true -> value_in_range o (wrap_ptr t v) = true.
Proof.
  unfold range_ok_val, value_in_range. destruct (o_range o); [|reflexivity]. intros H.
  unfold wrap_ptr. destruct (is_ptr t); destruct v; try discriminate; simpl; exact H.
Qed.

Lemma agrees_wrap_prim t k d v : deref t = Prim k -> leaf_agrees k d v = true -> agrees t d (wrap_ptr t v) = true.
Proof. intros D H. apply deref_prim in D. destruct D; subst; simpl; exact H. Qed.

Lemma from_string_exact t o d w : from_string t o d = Ok w ->
  agrees t d w = true /\ value_in_options o d = true /\ (is_int_ty t = true -> value_in_range o w = true).
Proof.
  unfold from_string. destruct (deref t) as [k| | | |] eqn:D; try discriminate. destruct d; try discriminate.
  - destruct (in_options o raw) eqn:Op; [|discriminate]. destruct (range_ok_tok o raw fi) eqn:R; [|discriminate]. simpl negb. cbv iota.
    intro H. apply bind_ok in H as [v [Hc H]]. inversion H; subst. pose proof (convert_set_exact None _ _ _ _ Hc) as L. simpl in L.
    split; [eapply agrees_wrap_prim; eauto|]. split; [eapply in_options_value; [reflexivity|exact Op]|].
    intro NF. unfold is_int_ty in NF. rewrite D in NF.
    unfold value_in_range. destruct (o_range o) eqn:Rg; [|reflexivity].
    unfold range_ok_tok in R. rewrite Rg in R. apply andb_true_iff in R as [_ R].
    unfold convert_set in Hc. destruct k; try discriminate.
    + destruct (parse_int64 raw) eqn:E; [|discriminate]. destruct (fits_int w z); inversion Hc; subst.
      apply parse_int64_signed in E as [E _]. rewrite E in R. unfold wrap_ptr; destruct (is_ptr t); exact R.
    + destruct (parse_uint64 raw) eqn:E; [|discriminate]. destruct (fits_uint w z); inversion Hc; subst.
      apply parse_uint64_signed in E. rewrite E in R. unfold wrap_ptr; destruct (is_ptr t); exact R.
    + destruct (parse_int64 raw) eqn:E; [|discriminate]. inversion Hc; subst.
      apply parse_int64_signed in E as [E _]. rewrite E in R. unfold wrap_ptr; destruct (is_ptr t); exact R.
  - destruct (in_options o s) eqn:Op; [|discriminate]. simpl negb. cbv iota.
    intro H. apply bind_ok in H as [v [Hc H]]. destruct (range_ok_val o v) eqn:R; [|discriminate]. inversion H; subst.
    pose proof (convert_set_exact None _ _ _ _ Hc) as L. simpl in L.
    split; [eapply agrees_wrap_prim; eauto|]. split; [eapply in_options_value; [reflexivity|exact Op]|].
    intro NF. apply range_val_value; assumption.
Qed.

(* options=/range= on a Duration field without the `string` option are not consulted by the code
   (fillDurationValue): not in the enforced domain *)
Definition dur_opts_ok (t : ty) (o : fopts) : Prop :=
  deref t = Prim KDur -> o_string o = false -> o_options o = [] /\ o_range o = None.

Section Clauses.
  Variable rec_struct : list field -> obj -> result val.
  Variable rec_slice : ty -> ty -> jv -> result val.
  Variable rec_map : ty -> jv -> result val.

  Lemma field_primitive_prim_exact t o d w k : deref t = Prim k -> field_primitive rec_slice t o d = Ok w ->
    agrees t d w = true /\ value_in_options o d = true /\ (is_int_ty t = true -> value_in_range o w = true).
  Proof.
    intros D. unfold field_primitive. rewrite D. destruct d; try (destruct k; discriminate).
    - destruct k; try discriminate. destruct (in_options o (if b then "true" else "false")) eqn:Op; [|discriminate]. simpl negb. cbv iota.
      destruct (o_range o) eqn:Rg; [discriminate|]. intro H; inversion H; subst.
      split; [eapply agrees_wrap_prim; [exact D | simpl; apply eqb_reflx]|].
      split; [eapply in_options_value; [reflexivity | exact Op]|]. intro NF. unfold is_int_ty in NF. rewrite D in NF. discriminate.
    - intro H. assert (J : json_number t o raw fi = Ok w) by (destruct k; exact H). apply json_number_exact. exact J.
    - destruct k; try discriminate. destruct (in_options o s) eqn:Op; [|discriminate]. simpl negb. cbv iota.
      destruct (o_range o) eqn:Rg; [discriminate|]. intro H; inversion H; subst.
      split; [eapply agrees_wrap_prim; [exact D | simpl; apply String.eqb_refl]|].
      split; [eapply in_options_value; [reflexivity | exact Op]|]. intro NF. unfold is_int_ty in NF. rewrite D in NF. discriminate.
  Qed.

  Lemma with_value_prim_exact t o d w k : deref t = Prim k -> dur_opts_ok t o -> d <> JNull ->
    with_value rec_struct rec_slice rec_map t o d = Ok w ->
    agrees t d w = true /\ value_in_options o d = true /\ (is_int_ty t = true -> value_in_range o w = true).
  Proof.
    intros D DO Hn H. unfold with_value in H. rewrite D in H.
    assert (H' : (if o_string o then from_string t o d else not_from_string rec_struct rec_slice rec_map t o d) = Ok w)
      by (destruct d; [congruence | exact H ..]). clear H.
    destruct (o_string o) eqn:OS; [apply from_string_exact; exact H'|].
    unfold not_from_string in H'. rewrite D in H'.
    destruct (vkind d) eqn:K; try (eapply field_primitive_prim_exact; [exact D | destruct k; exact H']).
    destruct k; try (eapply field_primitive_prim_exact; [exact D | exact H']).
    destruct d; try discriminate. destruct (parse_dur s) eqn:E; [|discriminate]. inversion H'; subst.
    destruct (DO D OS) as [O1 O2]. split; [|split].
    - eapply agrees_wrap_prim; [exact D|]. simpl. rewrite (parse_dur_fits _ _ E), E, Z.eqb_refl. reflexivity.
    - unfold value_in_options. rewrite O1. reflexivity.
    - intros _. unfold value_in_range. rewrite O2. reflexivity.
  Qed.

  (* ---------------- absent fields *)
  Definition required_kind (t : ty) : Prop :=
    match deref t with
    | Struct fs => ty_required (Struct fs) = true           (* a struct none of whose fields is required is implicitly optional *)
    | _ => True                                             (* scalars, pointers, slices and maps *)
    end.

  Lemma without_value_required t o : o_default o = None -> o_optional o = false -> required_kind t ->
    forall w, without_value rec_struct t o <> Ok w.
  Proof.
    intros Hd Ho Hk w. unfold without_value. rewrite Hd, Ho. unfold required_kind in Hk.
    destruct (deref t); try discriminate. rewrite Hk. discriminate.
  Qed.

  Definition default_image (t : ty) (dv : string) (w : val) : Prop :=
    exists v0, w = wrap_ptr t v0 /\
      match deref t with
      | Prim KDur => exists z, parse_dur dv = Some z /\ v0 = VInt z
      | Prim k => leaf_agrees k (JStr dv None) v0 = true
      | _ => False
      end.

  Lemma without_value_default t o dv w : o_default o = Some dv -> without_value rec_struct t o = Ok w ->
    default_image t dv w.
  Proof.
    intros Hd. unfold without_value, default_image. rewrite Hd. destruct (deref t) as [k| | | |]; try discriminate.
    destruct k; try (intro H; apply bind_ok in H as [v0 [Hc H]]; inversion H; subst; exists v0; split; [reflexivity|];
                     exact (convert_set_exact None _ _ None _ Hc)).
    destruct (parse_dur dv) eqn:E; [|discriminate]. intro H; inversion H; subst. exists (VInt z). split; [reflexivity|]. exists z. auto.
  Qed.

  Lemma without_value_optional t o : o_default o = None -> o_optional o = true ->
    without_value rec_struct t o = Ok (zero_val t).
  Proof. intros Hd Ho. unfold without_value. rewrite Hd, Ho. reflexivity. Qed.

  Lemma with_value_null t o w : with_value rec_struct rec_slice rec_map t o JNull = Ok w ->
    o_optional o = true /\ w = zero_val t.
  Proof. unfold with_value. destruct (o_optional o); [|discriminate]. intro H; inversion H; auto. Qed.
End Clauses.

(* ------------------------------------------------------------------ from a struct to its fields *)
Lemma unm_struct_fields n fs m v : unm_struct n fs m = Ok v ->
  exists n' vs, n = S n' /\ v = VStruct vs /\ Forall2 (fun f w => unm_field n' f m = Ok w) fs vs.
Proof.
  destruct n as [|n']; simpl; [discriminate|]. intro H. apply bind_ok in H as [vs [Hm H]]. inversion H; subst.
  exists n', vs. repeat split. apply mapM_ok. exact Hm.
Qed.

Lemma Forall2_nth {A B} (R : A -> B -> Prop) l1 l2 : Forall2 R l1 l2 ->
  forall i a b, nth_error l1 i = Some a -> nth_error l2 i = Some b -> R a b.
Proof.
  induction 1; intros i a b Ha Hb; destruct i; simpl in *; try discriminate.
  - inversion Ha; inversion Hb; subst; assumption.
  - eapply IHForall2; eauto.
Qed.

Lemma Forall2_nth_ex {A B} (R : A -> B -> Prop) l1 l2 : Forall2 R l1 l2 ->
  forall i a, nth_error l1 i = Some a -> exists b, nth_error l2 i = Some b /\ R a b.
Proof.
  induction 1; intros i a Ha; destruct i; simpl in *; try discriminate.
  - inversion Ha; subst. eauto.
  - eapply IHForall2; eauto.
Qed.

(* ---- toOptionsWithContext: only the optional flag is resolved, every other option survives (4c6e8a8) *)
Lemma resolve_nodep o k m : o_dep o = None -> resolve_opts o k m = Ok o.
Proof. unfold resolve_opts. intros ->. destruct (o_optional o); reflexivity. Qed.

Lemma resolve_keeps o k m o' : resolve_opts o k m = Ok o' ->
  o_default o' = o_default o /\ o_options o' = o_options o /\ o_range o' = o_range o /\ o_string o' = o_string o /\ o_dep o' = o_dep o.
Proof.
  unfold resolve_opts. destruct (o_optional o); [|intro H; inversion H; subst; repeat split; try reflexivity; try assumption].
  destruct (o_dep o) as [[[] dep]|] eqn:D; [| |intro H; inversion H; subst; repeat split; try reflexivity; try assumption].
  - destruct (String.eqb dep ""); [discriminate|]. destruct (Bool.eqb _ _); [discriminate|]. intro H; inversion H; subst. simpl. repeat split; try reflexivity; try assumption.
  - destruct (Bool.eqb _ _); [|discriminate]. intro H; inversion H; subst. simpl. repeat split; try reflexivity; try assumption.
Qed.

Lemma resolve_semantics o k m o' : resolve_opts o k m = Ok o' ->
  match o_dep o with
  | _ => True end /\
  (o_optional o = false -> o' = o) /\
  (o_optional o = true -> o_dep o = None -> o' = o) /\
  (forall dep, o_optional o = true -> o_dep o = Some (false, dep) ->
     has_key dep m = has_key k m /\ o_optional o' = negb (has_key dep m)) /\
  (forall dep, o_optional o = true -> o_dep o = Some (true, dep) ->
     has_key dep m = negb (has_key k m) /\ o_optional o' = has_key dep m).
Proof.
  unfold resolve_opts. intro H. split; [destruct (o_dep o); exact I|]. split; [intros E; rewrite E in H; inversion H; reflexivity|].
  split; [intros E D; rewrite E, D in H; inversion H; reflexivity|]. split.
  - intros dep E D. rewrite E, D in H. destruct (Bool.eqb (has_key dep m) (has_key k m)) eqn:B; [|discriminate].
    apply eqb_prop in B. inversion H; subst. simpl. auto.
  - intros dep E D. rewrite E, D in H. destruct (String.eqb dep ""); [discriminate|].
    destruct (Bool.eqb (has_key dep m) (has_key k m)) eqn:B; [discriminate|]. inversion H; subst. simpl. split; [|reflexivity].
    destruct (has_key dep m), (has_key k m); simpl in *; try reflexivity; discriminate.
Qed.

Lemma value_in_options_resolve o k m o' d : resolve_opts o k m = Ok o' -> value_in_options o' d = value_in_options o d.
Proof.
  intro H. destruct (resolve_keeps _ _ _ _ H) as [_ [E _]]. unfold value_in_options. rewrite E.
  assert (G : forall x, doc_in_options o' x = doc_in_options o x).
  { fix IH 1. intro x. destruct x; simpl; try reflexivity; try (unfold in_options; rewrite E; reflexivity).
    - induction l as [|a r IHl]; simpl; [reflexivity|]. rewrite IH, IHl. reflexivity.
    - induction m0 as [|[k0 a] r IHl]; simpl; [reflexivity|]. rewrite IH, IHl. reflexivity. }
  destruct (o_options o); [reflexivity|]. apply G.
Qed.

Lemma value_in_range_resolve o k m o' v : resolve_opts o k m = Ok o' -> value_in_range o' v = value_in_range o v.
Proof. intro H. destruct (resolve_keeps _ _ _ _ H) as [_ [_ [E _]]]. unfold value_in_range. rewrite E. reflexivity. Qed.

(* the i-th named field of a successfully unmarshalled struct was produced by with_value / without_value, under the
   options resolved by toOptionsWithContext *)
Lemma named_field_result n fs m vs i f : unm_struct n fs m = Ok (VStruct vs) ->
  nth_error fs i = Some f -> f_anon f = false ->
  exists n' w o', nth_error vs i = Some w /\ resolve_opts (f_opts f) (f_key f) m = Ok o' /\
    match olookup (f_key f) m with
    | None => without_value (unm_struct n') (f_ty f) o' = Ok w
    | Some d => with_value (unm_struct n') (fill_slice n') (gen_map n') (f_ty f) o' d = Ok w
    end.
Proof.
  intros H Hi Ha. apply unm_struct_fields in H as [n1 [vs' [-> [E F]]]]. inversion E; subst vs'.
  destruct (Forall2_nth_ex _ _ _ F _ _ Hi) as [w [Hw Hf]].
  destruct n1 as [|n2]; [discriminate|]. simpl in Hf. unfold process_field in Hf. apply bind_ok in Hf as [o' [Ho Hf]]. rewrite Ha in Hf.
  exists n2, w, o'. split; [exact Hw|]. split; [exact Ho|]. destruct (olookup (f_key f) m); exact Hf.
Qed.

(* an optional=dep / optional=!dep mismatch makes the struct fail *)
Lemma struct_dep_mismatch n fs m i f e : nth_error fs i = Some f -> f_anon f = false ->
  resolve_opts (f_opts f) (f_key f) m = Err e -> forall v, unm_struct n fs m <> Ok v.
Proof.
  intros Hi Ha Hr v H. destruct (unm_struct_fields _ _ _ _ H) as [n' [vs [-> [-> _]]]].
  destruct (named_field_result _ _ _ _ _ _ H Hi Ha) as [n2 [w [o' [_ [Ho _]]]]]. congruence.
Qed.

(* "required" = the RESOLVED optional flag is off *)
Lemma struct_required n fs m i f o' : nth_error fs i = Some f -> f_anon f = false ->
  olookup (f_key f) m = None -> resolve_opts (f_opts f) (f_key f) m = Ok o' ->
  o_default (f_opts f) = None -> o_optional o' = false -> required_kind (f_ty f) ->
  forall v, unm_struct n fs m <> Ok v.
Proof.
  intros Hi Ha Hk Hr Hd Ho Hrk v H. destruct (unm_struct_fields _ _ _ _ H) as [n' [vs [-> [-> _]]]].
  destruct (named_field_result _ _ _ _ _ _ H Hi Ha) as [n2 [w [o2 [_ [Ho2 Hw]]]]]. rewrite Hk in Hw.
  assert (o2 = o') by congruence. subst. destruct (resolve_keeps _ _ _ _ Hr) as [Ed _].
  eapply without_value_required; [rewrite Ed; exact Hd | exact Ho | exact Hrk | exact Hw].
Qed.

Lemma struct_default n fs m vs i f dv w : unm_struct n fs m = Ok (VStruct vs) ->
  nth_error fs i = Some f -> nth_error vs i = Some w -> f_anon f = false ->
  olookup (f_key f) m = None -> o_default (f_opts f) = Some dv -> default_image (f_ty f) dv w.
Proof.
  intros H Hi Hv Ha Hk Hd. destruct (named_field_result _ _ _ _ _ _ H Hi Ha) as [n2 [w' [o' [Hw' [Ho Hw]]]]]. rewrite Hk in Hw.
  assert (w' = w) by congruence. subst. destruct (resolve_keeps _ _ _ _ Ho) as [Ed _].
  eapply without_value_default; [rewrite Ed; exact Hd | exact Hw].
Qed.

Lemma struct_optional_zero n fs m vs i f w o' : unm_struct n fs m = Ok (VStruct vs) ->
  nth_error fs i = Some f -> nth_error vs i = Some w -> f_anon f = false ->
  resolve_opts (f_opts f) (f_key f) m = Ok o' ->
  o_default (f_opts f) = None -> o_optional o' = true ->
  olookup (f_key f) m = None \/ olookup (f_key f) m = Some JNull -> w = zero_val (f_ty f).
Proof.
  intros H Hi Hv Ha Hr Hd Ho Hk. destruct (named_field_result _ _ _ _ _ _ H Hi Ha) as [n2 [w' [o2 [Hw' [Ho2 Hw]]]]].
  assert (w' = w) by congruence. assert (o2 = o') by congruence. subst. destruct (resolve_keeps _ _ _ _ Hr) as [Ed _].
  destruct Hk as [Hk|Hk]; rewrite Hk in Hw.
  - rewrite without_value_optional in Hw; [congruence | rewrite Ed; exact Hd | exact Ho].
  - apply with_value_null in Hw as [_ Hw]. exact Hw.
Qed.

Lemma dur_opts_ok_resolve t o k m o' : resolve_opts o k m = Ok o' -> dur_opts_ok t o -> dur_opts_ok t o'.
Proof.
  intros H DO D S. destruct (resolve_keeps _ _ _ _ H) as [_ [E1 [E2 [E3 _]]]]. rewrite E1, E2. apply DO; [exact D | rewrite <- E3; exact S].
Qed.

Lemma struct_scalar_present n fs m vs i f w d k : unm_struct n fs m = Ok (VStruct vs) ->
  nth_error fs i = Some f -> nth_error vs i = Some w -> f_anon f = false ->
  deref (f_ty f) = Prim k -> dur_opts_ok (f_ty f) (f_opts f) ->
  olookup (f_key f) m = Some d -> d <> JNull ->
  agrees (f_ty f) d w = true /\ value_in_options (f_opts f) d = true /\
  (is_int_ty (f_ty f) = true -> value_in_range (f_opts f) w = true).
Proof.
  intros H Hi Hv Ha D DO Hk Hn. destruct (named_field_result _ _ _ _ _ _ H Hi Ha) as [n2 [w' [o' [Hw' [Ho Hw]]]]]. rewrite Hk in Hw.
  assert (w' = w) by congruence. subst.
  destruct (with_value_prim_exact _ _ _ _ _ _ _ _ D (dur_opts_ok_resolve _ _ _ _ _ Ho DO) Hn Hw) as [A [O R]].
  rewrite (value_in_options_resolve _ _ _ _ d Ho) in O. split; [exact A|]. split; [exact O|].
  intro I. rewrite <- (value_in_range_resolve _ _ _ _ w Ho). apply R. exact I.
Qed.

(* ------------------------------------------------------------------ JSON == YAML on the common subset *)
Definition finfo_eqb (a b : finfo) : bool :=
  Bool.eqb (fi_fits64 a) (fi_fits64 b) && Bool.eqb (fi_fits32 a) (fi_fits32 b) && Bool.eqb (fi_canon a) (fi_canon b).
Lemma finfo_eqb_eq a b : finfo_eqb a b = true -> a = b.
Proof.
  destruct a, b; unfold finfo_eqb; simpl. intro H. apply andb_true_iff in H as [H H3]. apply andb_true_iff in H as [H1 H2].
  apply eqb_prop in H1, H2, H3. subst. reflexivity.
Qed.

(* "the same content": scalar by scalar; an integer is written canonically in JSON; yaml null has no counterpart *)
Fixpoint same_content (y : yv) (j : jv) {struct y} : bool :=
  match y, j with
  | YBool b, JBool b' => Bool.eqb b b'
  | YInt z, JNum raw fi => String.eqb raw (render_z z) && finfo_eqb fi (int_fi z)
  | YFloat raw fi, JNum raw' fi' => String.eqb raw raw' && finfo_eqb fi fi'
  | YStr s pj, JStr s' pj' =>                            (* strings that are themselves JSON texts: not covered here *)
      String.eqb s s' && match pj, pj' with None, None => true | _, _ => false end
  | YSeq l, JArr l' => all2 (fun a b => same_content a b) l l'
  | YMap m, JObj m' => all2 (fun p q => String.eqb (fst p) (fst q) && same_content (snd p) (snd q)) m m'
  | _, _ => false
  end.

Lemma yaml_same : forall y j, same_content y j = true -> yaml_to_json y = j.
Proof.
  fix IH 1. intros y j. destruct y; destruct j; simpl; try discriminate; intro H.
  - apply eqb_prop in H. subst. reflexivity.
  - apply andb_true_iff in H as [H1 H2]. apply String.eqb_eq in H1. apply finfo_eqb_eq in H2. subst. reflexivity.
  - apply andb_true_iff in H as [H1 H2]. apply String.eqb_eq in H1. apply finfo_eqb_eq in H2. subst. reflexivity.
  - apply andb_true_iff in H as [H1 H2]. apply String.eqb_eq in H1. subst. destruct pj; [discriminate|]. destruct pj0; [discriminate|]. reflexivity.
  - f_equal. revert l0 H. induction l as [|a r IHl]; intros [|b r'] H; simpl in *; try discriminate; [reflexivity|].
    apply andb_true_iff in H as [H1 H2]. f_equal; [apply IH; exact H1 | apply IHl; exact H2].
  - f_equal. revert m0 H. induction m as [|[k a] r IHl]; intros [|[k' b] r'] H; simpl in *; try discriminate; [reflexivity|].
    apply andb_true_iff in H as [H1 H2]. apply andb_true_iff in H1 as [H0 H1]. apply String.eqb_eq in H0. subst.
    f_equal; [f_equal; apply IH; exact H1 | apply IHl; exact H2].
Qed.

Lemma json_yaml_agree n t y j : same_content y j = true -> unmarshal n t (yaml_to_json y) = unmarshal n t j.
Proof. intro H. rewrite (yaml_same _ _ H). reflexivity. Qed.

(* ------------------------------------------------------------------ conf key canonicalisation *)
Fixpoint str_all (p : ascii -> bool) (s : string) : bool :=
  match s with EmptyString => true | String c r => p c && str_all p r end.
Definition is_letter (c : ascii) : bool := is_cap c || is_low c.
Definition is_alnum (c : ascii) : bool := is_letter c || is_digit c.

Lemma ascii_low_facts c : is_low c = true ->
  is_cap c = false /\ is_cap (upper_ascii c) = true /\ is_low (upper_ascii c) = false /\
  lower_ascii (upper_ascii c) = c /\ lower_ascii c = c /\ upper_ascii (upper_ascii c) = upper_ascii c.
Proof. destruct c as [[] [] [] [] [] [] [] []]; intro H; try discriminate H; vm_compute; repeat split. Qed.

Lemma ascii_alnum_facts c : is_alnum c = true ->
  Ascii.eqb c " " = false /\ Ascii.eqb c "009" = false /\ Ascii.eqb c "_" = false.
Proof. destruct c as [[] [] [] [] [] [] [] []]; intro H; try discriminate H; vm_compute; repeat split. Qed.

(* inside a word (boundary = false) letters and digits are copied *)
Lemma camel_loop_alnum a : str_all is_alnum a = true -> forall rest cn,
  exists cn', camel_loop (a ++ rest) cn false = (a ++ camel_loop rest cn' false)%string /\ (a = EmptyString -> cn' = cn).
Proof.
  induction a as [|c r IH]; simpl; intros H rest cn; [exists cn; auto|].
  apply andb_true_iff in H as [Hc Hr]. destruct (ascii_alnum_facts _ Hc) as [E1 [E2 E3]].
  destruct (is_cap c || is_low c) eqn:L.
  - destruct (IH Hr rest false) as [cn' [E _]]. exists cn'. rewrite E. split; [reflexivity | discriminate].
  - rewrite E1, E2, E3. simpl. destruct (IH Hr rest true) as [cn' [E _]]. exists cn'. rewrite E. split; [reflexivity | discriminate].
Qed.

Lemma camel_loop_alnum_fix a cn : str_all is_alnum a = true -> camel_loop a cn false = a.
Proof.
  intro H. destruct (camel_loop_alnum a H EmptyString cn) as [cn' [E _]].
  assert (A : forall s : string, (s ++ "")%string = s) by (induction s; simpl; congruence).
  rewrite A in E. rewrite E. simpl. apply A.
Qed.

(* user_name / UserName / userName: snake_case, another initial letter case and lowerCamel are identified *)
Lemma conf_key_forms c0 a c1 b : is_low c0 = true -> str_all is_alnum a = true -> is_low c1 = true ->
  let canon := to_camel_case (String c0 (a ++ String (upper_ascii c1) b)) in
  to_camel_case (String c0 (a ++ String "_" (String c1 b))) = canon /\
  to_camel_case (String (upper_ascii c0) (a ++ String (upper_ascii c1) b)) = canon.
Proof.
  intros H0 Ha H1. destruct (ascii_low_facts _ H0) as [A1 [A2 [A3 [A4 [A5 A6]]]]]. destruct (ascii_low_facts _ H1) as [B1 [B2 [B3 [B4 [B5 B6]]]]].
  unfold to_camel_case. cbn [camel_loop]. rewrite H0, A1, A2, A3. simpl orb. cbn iota. simpl andb. cbn iota. rewrite A4, A5.
  destruct (camel_loop_alnum a Ha (String "_" (String c1 b)) false) as [x [E1 _]].
  destruct (camel_loop_alnum a Ha (String (upper_ascii c1) b) false) as [y [E2 _]].
  rewrite E1, E2. cbn [camel_loop]. rewrite H1, B1, B2, B3.
  replace (is_cap "_" || is_low "_") with false by reflexivity. replace (Ascii.eqb "_" " " || Ascii.eqb "_" "009") with false by reflexivity.
  replace (Ascii.eqb "_" "_") with true by reflexivity. simpl orb. simpl andb. cbn iota. split; reflexivity.
Qed.

(* canonical lowerCamel keys are fixed points, hence toCamelCase is idempotent on all three spellings *)
Lemma conf_key_fixpoint c0 r : is_low c0 = true -> str_all is_alnum r = true -> to_camel_case (String c0 r) = String c0 r.
Proof.
  intros H0 Hr. destruct (ascii_low_facts _ H0) as [A1 [_ [_ [_ [A5 _]]]]].
  unfold to_camel_case. cbn [camel_loop]. rewrite H0, A1. simpl. rewrite A5. f_equal. apply camel_loop_alnum_fix. exact Hr.
Qed.

(* ------------------------------------------------------------------ an all-optional struct accepts the empty selection *)
Lemma mapM_all_ok {A B} (f : A -> result B) (g : A -> B) l : (forall a, In a l -> f a = Ok (g a)) -> mapM f l = Ok (map g l).
Proof.
  induction l as [|a r IH]; simpl; intro H; [reflexivity|]. rewrite (H a) by auto. simpl. rewrite IH by (intros; apply H; auto). reflexivity.
Qed.

Lemma optional_succeeds n fs m :
  (forall f, In f fs -> f_anon f = false /\ o_optional (f_opts f) = true /\ o_dep (f_opts f) = None /\
                        o_default (f_opts f) = None /\ olookup (f_key f) m = None) ->
  unm_struct (S (S n)) fs m = Ok (VStruct (map (fun f => zero_val (f_ty f)) fs)).
Proof.
  intro H. cbn [unm_struct].
  rewrite (mapM_all_ok (fun f => unm_field (S n) f m) (fun f => zero_val (f_ty f))); [reflexivity|].
  intros f Hin. destruct (H f Hin) as [Ha [Ho [Hdep [Hd Hk]]]]. cbn [unm_field]. unfold process_field.
  rewrite (resolve_nodep _ _ _ Hdep). simpl. rewrite Ha, Hk.
  apply without_value_optional; assumption.
Qed.

(* ================================================================== c05_exact: the full statement *)
Definition no_options (o : fopts) : bool := match o_options o with [] => true | _ => false end.
Definition no_range (o : fopts) : bool := match o_range o with None => true | _ => false end.
Definition no_default (o : fopts) : bool := match o_default o with None => true | _ => false end.

(* the domain on which the code enforces options= / range= (everything else was probed on the Go code and is
   NOT enforced: Duration without `string`, slice / map / struct fields) *)
Definition opts_okb (t : ty) (o : fopts) : bool :=
  match deref t with
  | Prim (KInt _) | Prim (KUint _) => true                 (* options= and range=: every path *)
  | Prim KDur => o_string o || (no_options o && no_range o) (* only as `string`-tagged integer of nanoseconds *)
  | Prim _ => no_range o                                   (* bool, string, floats: options= enforced; float range opaque *)
  | _ => no_options o && no_range o                        (* containers: never applied to elements *)
  end.

(* embedded: a struct; an optional one has only named members without default= (processAnonymousFieldOptional
   does not apply defaults of absent members) *)
(* a declared default lies inside the declared options= / range= (the code never checks it) *)
Definition default_okb (t : ty) (o : fopts) : bool :=
  match o_default o with
  | None => true
  | Some dv =>
      in_options o dv &&
      match o_range o with
      | None => true
      | Some r =>
          match deref t with
          | Prim KDur => match parse_dur dv with Some z => in_range r z | None => true end
          | _ => match parse_signed dv with Some z => in_range r z | None => true end
          end
      end
  end.

(* embedded: a struct; an optional one has only named members without default= and without optional=dep
   (processAnonymousFieldOptional does not apply defaults of absent members) *)
Definition field_okb (f : field) : bool :=
  if f_anon f then
    match deref (f_ty f) with
    | Struct sub =>
        match o_dep (f_opts f) with
        | None => if o_optional (f_opts f)
                  then forallb (fun sf => negb (f_anon sf) && no_default (f_opts sf) &&
                                          match o_dep (f_opts sf) with None => true | _ => false end) sub
                  else true
        | Some _ => false
        end
    | _ => false
    end
  else opts_okb (f_ty f) (f_opts f) && default_okb (f_ty f) (f_opts f).

Fixpoint wfx (t : ty) : bool :=
  match t with
  | Prim _ => true
  | Ptr t' | Slice t' | Map t' => wfx t'
  | Struct fs => forallb (fun f => wfx (f_ty f) && field_okb f) fs
  end.
Definition wfx_field (f : field) : bool := wfx (f_ty f) && field_okb f.

Lemma wfx_deref t : wfx t = true -> wfx (deref t) = true.
Proof. destruct t; simpl; auto. Qed.
Lemma wfx_struct_fields fs f : wfx (Struct fs) = true -> In f fs -> wfx_field f = true.
Proof. simpl. intros H Hin. rewrite forallb_forall in H. apply H. assumption. Qed.

Lemma all2_Forall2 {A B} (R : A -> B -> bool) l1 l2 : Forall2 (fun a b => R a b = true) l1 l2 -> all2 R l1 l2 = true.
Proof. induction 1; simpl; [reflexivity|]. rewrite H, IHForall2. reflexivity. Qed.

Lemma val_eqb_refl : forall v, val_eqb v v = true.
Proof.
  fix IH 1. intro v. destruct v; simpl; try reflexivity.
  - apply eqb_reflx.
  - apply Z.eqb_refl.
  - destruct (canon && canon); [apply String.eqb_refl | reflexivity].
  - apply String.eqb_refl.
  - apply IH.
  - induction l as [|a r IHl]; simpl; [reflexivity|]. rewrite IH, IHl. reflexivity.
  - induction m as [|[k a] r IHl]; simpl; [reflexivity|]. rewrite String.eqb_refl, IH, IHl. reflexivity.
  - induction l as [|a r IHl]; simpl; [reflexivity|]. rewrite IH, IHl. reflexivity.
Qed.

Lemma agrees_wrap t d v : agrees (deref t) d v = true -> agrees t d (wrap_ptr t v) = true.
Proof. destruct t; simpl; auto. Qed.
Lemma unwrap_wrap t v : unwrap t (wrap_ptr t v) = Some v.
Proof. unfold unwrap, wrap_ptr. destruct (is_ptr t); reflexivity. Qed.

Lemma json_number_nonprim t o raw fi w : (forall k, deref t <> Prim k) -> json_number t o raw fi <> Ok w.
Proof.
  intros N. unfold json_number. destruct (negb (range_ok_tok o raw fi)); [discriminate|]. destruct (negb (in_options o raw)); [discriminate|].
  destruct (deref t) eqn:D; try discriminate. exfalso. eapply N. reflexivity.
Qed.

Lemma filter_len_le {A} (p q : A -> bool) l : (List.length (filter (fun x => p x && q x) l) <= List.length (filter p l))%nat.
Proof. induction l as [|a r IH]; simpl; [lia|]. destruct (p a), (q a); simpl; lia. Qed.
Lemma filter_len_eq {A} (p q : A -> bool) l :
  List.length (filter p l) = List.length (filter (fun x => p x && q x) l) -> forall x, In x l -> p x = true -> q x = true.
Proof.
  induction l as [|a r IH]; simpl; intros E x Hin Hp; [destruct Hin|].
  pose proof (filter_len_le p q r) as Le.
  destruct (p a) eqn:Pa, (q a) eqn:Qa; simpl in E; destruct Hin as [<-|Hin]; try congruence; try (apply IH; auto; lia); try lia.
Qed.

Lemma Forall2_impl {A B} (R1 R2 : A -> B -> Prop) l1 l2 : (forall a b, R1 a b -> R2 a b) -> Forall2 R1 l1 l2 -> Forall2 R2 l1 l2.
Proof. intros H F. induction F; constructor; auto. Qed.

Section Exact.
  Variable rec_struct : list field -> obj -> result val.
  Variable rec_slice : ty -> ty -> jv -> result val.
  Variable rec_map : ty -> jv -> result val.
  Variable rec_field : field -> obj -> result val.
  Hypothesis Hs : forall fs m v, wfx (Struct fs) = true -> rec_struct fs m = Ok v -> agrees (Struct fs) (JObj m) v = true.
  Hypothesis Hl : forall t et d v, wfx et = true -> rec_slice t et d = Ok v -> (exists e, t = Slice e) /\ agrees (Slice et) d v = true.
  Hypothesis Hm : forall et d v, wfx et = true -> rec_map et d = Ok v -> agrees (Map et) d v = true.
  Hypothesis Hf : forall f m w, wfx_field f = true -> rec_field f m = Ok w -> field_agrees f m w = true.

  Lemma x_slice_value et x w : wfx et = true -> slice_value rec_map et x = Ok w -> agrees et x w = true.
  Proof.
    intros W H. unfold slice_value in H. destruct x; try discriminate.
    - destruct et as [k|t1| | |]; try discriminate; [destruct k; try discriminate; inversion H; simpl; apply eqb_reflx|].
      destruct t1 as [k| | | |]; try discriminate. destruct k; try discriminate. inversion H. simpl. apply eqb_reflx.
    - destruct et as [k|t1| | |]; try discriminate; [exact (convert_set_exact None _ _ (Some fi) _ H)|].
      destruct t1 as [k| | | |]; try discriminate. apply bind_ok in H as [v [Hc H]]. inversion H; subst. exact (convert_set_exact None _ _ (Some fi) _ Hc).
    - destruct et as [k|t1| | |]; try discriminate; [exact (convert_set_exact pj _ _ None _ H)|].
      destruct t1 as [k| | | |]; try discriminate. apply bind_ok in H as [v [Hc H]]. inversion H; subst. exact (convert_set_exact pj _ _ None _ Hc).
    - destruct et; try discriminate. apply Hm; assumption.
  Qed.

  Lemma slice_value_nonnull et l vs : mapM (slice_value rec_map et) l = Ok vs -> forallb is_null l = true -> l = [].
  Proof.
    destruct l as [|x r]; [reflexivity|]. simpl. intros H N. apply andb_true_iff in N as [N _].
    destruct x; discriminate.
  Qed.

  Lemma x_with_value t o d w : wfx t = true -> opts_okb t o = true -> d <> JNull ->
    with_value rec_struct rec_slice rec_map t o d = Ok w ->
    agrees t d w && value_in_options o d && value_in_range o w = true.
  Proof.
    intros W OK Hn H. pose proof (wfx_deref _ W) as W'. unfold opts_okb in OK.
    destruct (deref t) as [k|t1|et|et|fs] eqn:D.
    - (* scalars and pointers to scalars *)
      assert (DO : dur_opts_ok t o).
      { intros Dk OS. rewrite D in Dk. inversion Dk; subst k. rewrite OS in OK. simpl in OK. apply andb_true_iff in OK as [O1 O2].
        unfold no_options in O1. unfold no_range in O2. destruct (o_options o); [|discriminate]. destruct (o_range o); [discriminate|]. auto. }
      destruct (with_value_prim_exact _ _ _ _ _ _ _ _ D DO Hn H) as [A [O R]]. rewrite A, O. simpl.
      destruct (is_int_ty t) eqn:I; [apply R; reflexivity|]. unfold is_int_ty in I. rewrite D in I.
      unfold value_in_range. destruct k; try discriminate; unfold no_range in OK; destruct (o_range o); try discriminate; reflexivity.
    - (* pointer to pointer: nothing is accepted *)
      exfalso. unfold with_value, not_from_string, field_primitive in H. rewrite D in H.
      destruct d; try congruence; simpl in H; try discriminate. eapply json_number_nonprim; [|exact H]. intros k E. rewrite D in E. discriminate.
    - apply andb_true_iff in OK as [O1 O2]. unfold no_options in O1. unfold no_range in O2.
      assert (VO : value_in_options o d = true) by (unfold value_in_options; destruct (o_options o); [reflexivity|discriminate]).
      assert (VR : value_in_range o w = true) by (unfold value_in_range; destruct (o_range o); [discriminate|reflexivity]).
      rewrite VO, VR, !andb_true_r.
      unfold with_value, not_from_string, field_primitive in H. rewrite D in H.
      destruct d; try congruence; simpl in H; try discriminate.
      try (exfalso; eapply json_number_nonprim; [|exact H]; intros k0 E0; rewrite D in E0; discriminate).
      + (* fillSliceFromString *)
        unfold from_string_slice in H. destruct pj as [pj|]; [|discriminate].
        destruct t as [| | t0 | |]; try discriminate. simpl in D. inversion D; subst t0.
        assert (G : match pj with
                    | JArr l => bind (mapM (slice_value rec_map et) l) (fun vs => Ok (VSlice vs))
                    | JNull => Ok (VSlice [])
                    | _ => Err E_parse end = Ok w) by (destruct et; try discriminate; exact H).
        clear H. destruct pj; try discriminate.
        * inversion G. reflexivity.
        * apply bind_ok in G as [vs [Hvs G]]. inversion G; subst. cbn [agrees agrees_t].
          destruct l as [|x l]; [inversion Hvs; reflexivity|].
          pose proof Hvs as Hvs'. apply mapM_ok in Hvs.
          destruct (forallb is_null (x :: l)) eqn:N; [apply (slice_value_nonnull _ _ _ Hvs') in N; discriminate|].
          assert (A : all2 (fun x w => if is_null x then val_eqb w (zero_val et) else agrees et x w) (x :: l) vs = true).
          { apply all2_Forall2. eapply Forall2_impl; [|exact Hvs]. intros a b Hab. simpl in Hab.
            destruct (is_null a) eqn:Na; [destruct a; discriminate | apply x_slice_value; assumption]. }
          inversion Hvs; subst. simpl negb. rewrite andb_true_l. exact A.
      + apply Hl in H as [[e ->] A]; [|exact W']. simpl in D. inversion D; subst. exact A.
    - apply andb_true_iff in OK as [O1 O2]. unfold no_options in O1. unfold no_range in O2.
      assert (VO : value_in_options o d = true) by (unfold value_in_options; destruct (o_options o); [reflexivity|discriminate]).
      assert (VR : value_in_range o w = true) by (unfold value_in_range; destruct (o_range o); [discriminate|reflexivity]).
      rewrite VO, VR, !andb_true_r.
      unfold with_value, not_from_string, field_primitive, fill_map in H. rewrite D in H.
      destruct d; try congruence; simpl in H; try discriminate.
      try (exfalso; eapply json_number_nonprim; [|exact H]; intros k0 E0; rewrite D in E0; discriminate).
      destruct t; simpl in D; try discriminate. inversion D; subst. apply Hm; assumption.
    - apply andb_true_iff in OK as [O1 O2]. unfold no_options in O1. unfold no_range in O2.
      assert (VO : value_in_options o d = true) by (unfold value_in_options; destruct (o_options o); [reflexivity|discriminate]).
      assert (VR : value_in_range o w = true) by (unfold value_in_range; destruct (o_range o); [discriminate|reflexivity]).
      rewrite VO, VR, !andb_true_r.
      unfold with_value, not_from_string, field_primitive in H. rewrite D in H.
      destruct d; try congruence; simpl in H; try discriminate.
      try (exfalso; eapply json_number_nonprim; [|exact H]; intros k0 E0; rewrite D in E0; discriminate).
      apply bind_ok in H as [v [Hv H]]. inversion H; subst. apply agrees_wrap. rewrite D. apply Hs; assumption.
  Qed.

  (* the `None` branch of field_agrees *)
  Lemma x_without_value t o w : wfx t = true -> opts_okb t o = true -> default_okb t o = true ->
    without_value rec_struct t o = Ok w ->
    match o_default o with
    | Some dv =>
        match deref t, unwrap t w with
        | Prim KDur, Some (VInt z) => match parse_dur dv with Some z' => z =? z' | None => false end
        | Prim k, Some w' => leaf_agrees k (JStr dv None) w'
        | _, _ => false
        end && (tol_eqb TNone TDefault || (in_options o dv && value_in_range o w))
    | None =>
        if o_optional o then val_eqb w (zero_val t)
        else match deref t, unwrap t w with
             | Struct sub, Some w' => negb (ty_required (deref t)) && agrees (deref t) (JObj []) w'
             | _, _ => false
             end
    end = true.
  Proof.
    intros W OK DK H. pose proof (wfx_deref _ W) as W'. unfold without_value in H. unfold default_okb in DK. unfold opts_okb in OK.
    destruct (o_default o) as [dv|].
    - apply andb_true_iff in DK as [DO DR]. change (tol_eqb TNone TDefault) with false. rewrite DO, orb_false_l, andb_true_l.
      destruct (deref t) as [k| | | |] eqn:D; try discriminate.
      assert (NR : no_range o = true -> forall v, value_in_range o v = true).
      { unfold no_range, value_in_range. destruct (o_range o); [discriminate|reflexivity]. }
      assert (RG : forall z, match o_range o with Some r => in_range r z = true | None => True end ->
                   value_in_range o (wrap_ptr t (VInt z)) = true).
      { intros z Hz. unfold value_in_range. destruct (o_range o) as [r|]; [|reflexivity].
        unfold wrap_ptr. destruct (is_ptr t); simpl; exact Hz. }
      destruct k.
      + apply bind_ok in H as [v0 [Hc H]]. inversion H; subst. rewrite unwrap_wrap, (convert_set_exact None _ _ None _ Hc), NR by exact OK. reflexivity.
      + apply bind_ok in H as [v0 [Hc H]]. inversion H; subst. rewrite unwrap_wrap, (convert_set_exact None _ _ None _ Hc). simpl.
        unfold convert_set in Hc. destruct (parse_int64 dv) eqn:E; [|discriminate]. destruct (fits_int w0 z); inversion Hc; subst.
        apply parse_int64_signed in E as [E _]. apply RG. destruct (o_range o); [|exact I]. rewrite E in DR. exact DR.
      + apply bind_ok in H as [v0 [Hc H]]. inversion H; subst. rewrite unwrap_wrap, (convert_set_exact None _ _ None _ Hc). simpl.
        unfold convert_set in Hc. destruct (parse_uint64 dv) eqn:E; [|discriminate]. destruct (fits_uint w0 z); inversion Hc; subst.
        apply parse_uint64_signed in E. apply RG. destruct (o_range o); [|exact I]. rewrite E in DR. exact DR.
      + apply bind_ok in H as [v0 [Hc H]]. discriminate.
      + apply bind_ok in H as [v0 [Hc H]]. discriminate.
      + apply bind_ok in H as [v0 [Hc H]]. inversion H; subst. rewrite unwrap_wrap, (convert_set_exact None _ _ None _ Hc), NR by exact OK. reflexivity.
      + destruct (parse_dur dv) eqn:E; [|discriminate]. inversion H; subst. rewrite unwrap_wrap, Z.eqb_refl. simpl.
        apply RG. destruct (o_range o); [|exact I]. simpl in DR. exact DR.
    - destruct (o_optional o); [inversion H; apply val_eqb_refl|].
      destruct (deref t) as [k| | | |fs] eqn:D; try discriminate.
      destruct (ty_required (Struct fs)) eqn:R; [discriminate|]. apply bind_ok in H as [v [Hv H]]. inversion H; subst.
      rewrite unwrap_wrap. simpl negb. apply Hs; assumption.
  Qed.

  Lemma x_anon_members sub m : forall rs,
    (forall sf, In sf sub -> wfx_field sf = true /\ f_anon sf = false /\ o_default (f_opts sf) = None /\ o_dep (f_opts sf) = None /\
                             (o_optional (f_opts sf) = false -> olookup (f_key sf) m <> None)) ->
    mapM (fun sf => match olookup (f_key sf) m with
                    | Some _ => bind (rec_field sf m) (fun v => Ok (v, true))
                    | None => Ok (zero_val (f_ty sf), false)
                    end) sub = Ok rs ->
    all2 (fun f w => field_agrees f m w) sub (map fst rs) = true.
  Proof.
    induction sub as [|sf r IH]; simpl; intros rs P H.
    - inversion H. reflexivity.
    - apply bind_ok in H as [b [Hb H]]. apply bind_ok in H as [bs [Hbs H]]. inversion H; subst. simpl.
      rewrite (IH bs) by (auto; intros; apply P; auto). rewrite andb_true_r.
      destruct (P sf (or_introl eq_refl)) as [Wf [An [Df [Dp Req]]]].
      destruct (olookup (f_key sf) m) eqn:K.
      + apply bind_ok in Hb as [v [Hv Hb]]. inversion Hb; subst. simpl. apply Hf; assumption.
      + inversion Hb; subst. simpl. unfold field_agrees, field_agrees_t. rewrite (resolve_nodep _ _ _ Dp), An, K, Df.
        destruct (o_optional (f_opts sf)); [apply val_eqb_refl|]. exfalso. apply Req; reflexivity.
  Qed.

  Lemma opts_okb_resolve t o k m o' : resolve_opts o k m = Ok o' -> opts_okb t o' = opts_okb t o.
  Proof.
    intro H. destruct (resolve_keeps _ _ _ _ H) as [_ [E1 [E2 [E3 _]]]]. unfold opts_okb, no_options, no_range. rewrite E1, E2, E3. reflexivity.
  Qed.
  Lemma default_okb_resolve t o k m o' : resolve_opts o k m = Ok o' -> default_okb t o' = default_okb t o.
  Proof.
    intro H. destruct (resolve_keeps _ _ _ _ H) as [E0 [E1 [E2 _]]]. unfold default_okb, in_options. rewrite E0, E1, E2. reflexivity.
  Qed.

  Lemma x_process_field f m w : wfx_field f = true ->
    process_field rec_struct rec_slice rec_map rec_field f m = Ok w -> field_agrees f m w = true.
  Proof.
    intros Wf H. unfold wfx_field in Wf. apply andb_true_iff in Wf as [W OK]. unfold field_okb in OK.
    unfold process_field in H. apply bind_ok in H as [o [Ho H]]. unfold field_agrees, field_agrees_t. rewrite Ho.
    destruct (f_anon f) eqn:An.
    - unfold has_key. destruct (olookup (f_key f) m); [discriminate|]. simpl negb. rewrite andb_true_l.
      pose proof (wfx_deref _ W) as W'. destruct (deref (f_ty f)) as [| | | |sub] eqn:D; try discriminate.
      destruct (o_dep (f_opts f)) eqn:Dp; [discriminate|]. rewrite (resolve_nodep _ _ _ Dp) in Ho. inversion Ho; subst o.
      destruct (o_optional (f_opts f)) eqn:Op.
      + (* processAnonymousFieldOptional *)
        unfold anon_optional in H. apply bind_ok in H as [rs [Hrs H]].
        destruct (existsb snd rs).
        * destruct (Nat.eqb _ _) eqn:Cnt in H; [|discriminate]. inversion H; subst. apply Nat.eqb_eq in Cnt.
          apply orb_true_iff. right. rewrite unwrap_wrap. fold agrees. rewrite agrees_struct.
          apply (x_anon_members sub m rs); [|exact Hrs]. intros sf Hin.
          rewrite forallb_forall in OK. specialize (OK sf Hin). apply andb_true_iff in OK as [O12 O3]. apply andb_true_iff in O12 as [O1 O2].
          split; [eapply wfx_struct_fields; eauto|]. split; [destruct (f_anon sf); [discriminate|reflexivity]|].
          split; [unfold no_default in O2; destruct (o_default (f_opts sf)); [discriminate|reflexivity]|].
          split; [destruct (o_dep (f_opts sf)); [discriminate|reflexivity]|].
          intros Ho' K.
          pose proof (filter_len_eq (fun sf => negb (o_optional (f_opts sf)))
                        (fun sf => match olookup (f_key sf) m with Some _ => true | None => false end) sub Cnt sf Hin) as Q.
          cbv beta in Q. rewrite Ho', K in Q. specialize (Q eq_refl). discriminate.
        * inversion H; subst. rewrite val_eqb_refl. reflexivity.
      + apply bind_ok in H as [vs [Hvs H]]. inversion H; subst. apply orb_true_iff. right. rewrite unwrap_wrap. fold agrees. rewrite agrees_struct.
        apply all2_Forall2. apply mapM_ok in Hvs.
        assert (G : forall l vs0, (forall sf, In sf l -> In sf sub) -> Forall2 (fun a b => rec_field a m = Ok b) l vs0 ->
                                  Forall2 (fun a b => field_agrees a m b = true) l vs0).
        { induction 2; constructor; [apply Hf; [eapply wfx_struct_fields; [exact W'|]; apply H0; left; reflexivity | assumption]|].
          apply IHForall2. intros; apply H0; right; assumption. }
        apply G; auto.
    - apply andb_true_iff in OK as [OK DK].
      rewrite <- (opts_okb_resolve _ _ _ _ _ Ho) in OK. rewrite <- (default_okb_resolve _ _ _ _ _ Ho) in DK.
      destruct (olookup (f_key f) m) as [d|] eqn:K.
      + destruct d; try (change (tol_eqb TNone TNone) with true; simpl negb; rewrite andb_false_l, orb_false_l, andb_assoc;
                         apply x_with_value; [assumption | assumption | discriminate | exact H]).
        unfold with_value in H. destruct (o_optional o); [|discriminate]. inversion H. apply val_eqb_refl.
      + fold agrees. exact (x_without_value _ _ _ W OK DK H).
  Qed.

  Lemma x_slice_elem et x w : wfx et = true -> slice_elem rec_struct rec_slice rec_map et x = Ok w -> agrees et x w = true.
  Proof.
    intros W H. pose proof (wfx_deref _ W) as W'. unfold slice_elem in H.
    destruct (deref et) as [k|t1|et2|et2|fs] eqn:D; try (apply x_slice_value; assumption).
    - destruct (is_ptr et) eqn:P; [discriminate|]. apply Hl in H as [[e E] A]; [|exact W'].
      destruct et; simpl in D, P; try discriminate. inversion D; subst. exact A.
    - destruct x; try discriminate. apply bind_ok in H as [v [Hv H]]. inversion H; subst. apply agrees_wrap. rewrite D. apply Hs; assumption.
  Qed.

  Lemma x_fill_slice_body t et d v : wfx et = true -> fill_slice_body rec_struct rec_slice rec_map t et d = Ok v ->
    (exists e, t = Slice e) /\ agrees (Slice et) d v = true.
  Proof.
    intros W H. unfold fill_slice_body in H. destruct t; try discriminate. split; [eauto|].
    destruct d; try discriminate. destruct l as [|x l]; [inversion H; reflexivity|].
    apply bind_ok in H as [vs [Hvs H]]. apply mapM_ok in Hvs.
    destruct (forallb is_null (x :: l)) eqn:N; inversion H; subst.
    - simpl. exact N.
    - assert (A : all2 (fun x w => if is_null x then val_eqb w (zero_val et) else agrees et x w) (x :: l) vs = true).
      { apply all2_Forall2. eapply Forall2_impl; [|exact Hvs]. intros a b Hab. simpl in Hab.
        destruct (is_null a); [inversion Hab; apply val_eqb_refl | apply x_slice_elem; assumption]. }
      inversion Hvs; subst. unfold agrees; cbn [agrees_t]; fold agrees. rewrite N. simpl negb. rewrite andb_true_l. exact A.
  Qed.

  Lemma x_map_elem et x w : wfx et = true -> map_elem rec_struct rec_slice rec_map et x = Ok w -> agrees et x w = true.
  Proof.
    intros W H. pose proof (wfx_deref _ W) as W'. unfold map_elem in H.
    destruct (is_ptr et && negb match deref et with Struct _ => true | _ => false end) eqn:P; [discriminate|].
    destruct (deref et) as [k|t1|et2|et2|fs] eqn:D; try discriminate.
    - assert (E : et = Prim k). { destruct et; simpl in D, P; try discriminate; try congruence; try (subst; simpl in P; discriminate). }
      subst et. destruct x; try discriminate.
      + destruct k; try discriminate. inversion H. simpl. apply eqb_reflx.
      + exact (convert_set_exact None _ _ (Some fi) _ H).
      + destruct k; try discriminate. inversion H. simpl. apply String.eqb_refl.
    - assert (E : et = Slice et2). { destruct et; simpl in D, P; try discriminate; try congruence; try (subst; simpl in P; discriminate). }
      subst et. apply Hl in H as [_ A]; assumption.
    - assert (E : et = Map et2). { destruct et; simpl in D, P; try discriminate; try congruence; try (subst; simpl in P; discriminate). }
      subst et. destruct x; try discriminate. apply Hm; assumption.
    - destruct x; try discriminate. apply bind_ok in H as [v [Hv H]]. inversion H; subst. apply agrees_wrap. rewrite D. apply Hs; assumption.
  Qed.

  Lemma x_gen_map_body et d v : wfx et = true -> gen_map_body rec_struct rec_slice rec_map et d = Ok v -> agrees (Map et) d v = true.
  Proof.
    intros W H. unfold gen_map_body in H. destruct d; try discriminate. apply bind_ok in H as [l [Hl' H]]. inversion H; subst.
    unfold agrees; cbn [agrees_t]; fold agrees. apply all2_Forall2. apply mapM_ok in Hl'. eapply Forall2_impl; [|exact Hl']. intros [k x] [k' w] Hab. simpl in *.
    apply bind_ok in Hab as [w0 [Hw Hab]]. inversion Hab; subst. rewrite String.eqb_refl. apply x_map_elem; assumption.
  Qed.
End Exact.

Lemma exact_fuel : forall n,
  (forall fs m v, wfx (Struct fs) = true -> unm_struct n fs m = Ok v -> agrees (Struct fs) (JObj m) v = true) /\
  (forall f m w, wfx_field f = true -> unm_field n f m = Ok w -> field_agrees f m w = true) /\
  (forall t et d v, wfx et = true -> fill_slice n t et d = Ok v -> (exists e, t = Slice e) /\ agrees (Slice et) d v = true) /\
  (forall et d v, wfx et = true -> gen_map n et d = Ok v -> agrees (Map et) d v = true).
Proof.
  induction n as [|n [IHs [IHf [IHl IHm]]]].
  - repeat split; intros; simpl in *; discriminate.
  - split; [|split; [|split]].
    + intros fs m v W H. cbn [unm_struct] in H. apply bind_ok in H as [vs [Hvs H]]. inversion H; subst.
      rewrite agrees_struct. apply all2_Forall2. apply mapM_ok in Hvs.
      assert (G : forall l vs0, (forall f, In f l -> In f fs) -> Forall2 (fun a b => unm_field n a m = Ok b) l vs0 ->
                                Forall2 (fun a b => field_agrees a m b = true) l vs0).
      { induction 2; constructor; [apply IHf; [eapply wfx_struct_fields; [exact W|]; apply H0; left; reflexivity | assumption]|].
        apply IHForall2. intros; apply H0; right; assumption. }
      apply G; auto.
    + intros f m w W H. cbn [unm_field] in H. eapply x_process_field; eauto.
    + intros t et d v W H. cbn [fill_slice] in H. eapply x_fill_slice_body; eauto.
    + intros et d v W H. cbn [gen_map] in H. eapply x_gen_map_body; eauto.
Qed.

Lemma exact : forall n t d v, wfx t = true -> unmarshal n t d = Ok v -> agrees t d v = true.
Proof.
  intros n t d v W H. unfold unmarshal in H. destruct t; try discriminate. destruct d; try discriminate.
  eapply (proj1 (exact_fuel n)); eauto.
Qed.

(* ------------------------------------------------------------------ the domain of options= / range= enforcement *)
Definition options_enforced_on (t : ty) (o : fopts) : Prop :=
  exists k, deref t = Prim k /\ (k = KDur -> o_string o = true).
Definition range_enforced_on (t : ty) (o : fopts) : Prop :=
  exists k, deref t = Prim k /\
    ((exists w, k = KInt w) \/ (exists w, k = KUint w) \/ (k = KDur /\ o_string o = true)).

Lemma struct_options_enforced n fs m vs i f w d : unm_struct n fs m = Ok (VStruct vs) ->
  nth_error fs i = Some f -> nth_error vs i = Some w -> f_anon f = false ->
  options_enforced_on (f_ty f) (f_opts f) -> olookup (f_key f) m = Some d -> d <> JNull ->
  value_in_options (f_opts f) d = true.
Proof.
  intros H Hi Hv Ha [k [D S]] Hk Hn.
  eapply struct_scalar_present; eauto. intros Dk OS. rewrite D in Dk. inversion Dk; subst. rewrite S in OS by reflexivity. discriminate.
Qed.

Lemma struct_range_enforced n fs m vs i f w d : unm_struct n fs m = Ok (VStruct vs) ->
  nth_error fs i = Some f -> nth_error vs i = Some w -> f_anon f = false ->
  range_enforced_on (f_ty f) (f_opts f) -> olookup (f_key f) m = Some d -> d <> JNull ->
  value_in_range (f_opts f) w = true.
Proof.
  intros H Hi Hv Ha [k [D S]] Hk Hn.
  assert (DO : dur_opts_ok (f_ty f) (f_opts f)).
  { intros Dk OS. rewrite D in Dk. inversion Dk; subst. destruct S as [[w0 E]|[[w0 E]|[_ E]]]; try discriminate. rewrite E in OS. discriminate. }
  destruct (struct_scalar_present _ _ _ _ _ _ _ _ _ H Hi Hv Ha D DO Hk Hn) as [_ [_ R]]. apply R.
  unfold is_int_ty. rewrite D. destruct S as [[w0 ->]|[[w0 ->]|[-> _]]]; reflexivity.
Qed.

(* ------------------------------------------------------------------ round trip of the transport parts *)
Section TransportRT.
  Variable esc unesc : string -> string.
  Hypothesis unesc_esc : forall s, unesc (esc s) = s.
  Variable canon : string -> string.
  Variable trim : string -> string.

  Lemma path_roundtrip p m w : fill_path esc p m = Some w ->
    match_path unesc p w = Some (map (fun n => (n, match olookup n m with Some v => v | None => EmptyString end)) (path_vars p)).
  Proof.
    revert w. induction p as [|s r IH]; simpl; intros w H.
    - inversion H. reflexivity.
    - destruct s as [s|n].
      + destruct (fill_path esc r m) as [w'|]; [|discriminate]. inversion H; subst. rewrite String.eqb_refl. apply IH. reflexivity.
      + destruct (olookup n m) as [v|] eqn:K; [|discriminate]. destruct (String.eqb v ""); [discriminate|].
        destruct (fill_path esc r m) as [w'|]; [|discriminate]. inversion H; subst. rewrite (IH w' eq_refl). simpl. rewrite unesc_esc, K. reflexivity.
  Qed.

  Lemma fill_path_defined p m : (forall n, In n (path_vars p) -> exists v, olookup n m = Some v /\ v <> EmptyString) ->
    exists w, fill_path esc p m = Some w.
  Proof.
    induction p as [|s r IH]; simpl; intro H; [eauto|]. destruct s as [s|n].
    - destruct IH as [w E]; [intros; apply H; assumption|]. rewrite E. simpl. eauto.
    - destruct (H n (or_introl eq_refl)) as [v [E Hv]]. rewrite E.
      destruct (String.eqb v "") eqn:Ev; [apply String.eqb_eq in Ev; contradiction|].
      destruct IH as [w E']; [intros; apply H; right; assumption|]. rewrite E'. simpl. eauto.
  Qed.

  Lemma query_roundtrip m : (forall kv, In kv m -> snd kv <> EmptyString) -> parse_query unesc (build_query esc m) = m.
  Proof.
    unfold parse_query, build_query. induction m as [|[k v] r IH]; simpl; intro H; [reflexivity|].
    rewrite unesc_esc. destruct (String.eqb v "") eqn:E.
    - apply String.eqb_eq in E. exfalso. apply (H (k, v)); auto.
    - simpl. f_equal. apply IH. intros; apply H; auto.
  Qed.

  Lemma header_roundtrip m : NoDup (map (fun kv => canon (fst kv)) m) -> (forall kv, In kv m -> trim (snd kv) = snd kv) ->
    forall k v, In (k, v) m -> header_get canon k (transport_header trim (build_header canon m)) = Some v.
  Proof.
    unfold header_get, transport_header, build_header, olookup. induction m as [|[k0 v0] r IH]; simpl; intros ND T k v Hin; [destruct Hin|].
    inversion ND as [|x l Hnot ND']; subst. destruct Hin as [E|Hin].
    - inversion E; subst. rewrite String.eqb_refl. f_equal. apply (T (k, v)). auto.
    - destruct (String.eqb (canon k) (canon k0)) eqn:Ek.
      + apply String.eqb_eq in Ek. exfalso. apply Hnot. rewrite <- Ek. apply (in_map (fun kv => canon (fst kv)) r (k, v)). exact Hin.
      + apply IH; auto.
  Qed.
End TransportRT.

(* ------------------------------------------------------------------ the integer syntax accepted on the from-string paths
   (convertType: strconv.ParseInt(s, 10, 64) / ParseUint(s, 10, 64)) *)
Lemma parse_digits_only s : forall acc z, parse_digits s acc = Some z -> str_all is_digit s = true.
Proof.
  induction s as [|c r IH]; simpl; intros acc z H; [reflexivity|]. unfold is_digit.
  destruct (digit_of c); [|discriminate]. simpl. eapply IH; eauto.
Qed.
Lemma parse_digits_some s : forall acc, str_all is_digit s = true -> exists z, parse_digits s acc = Some z.
Proof.
  induction s as [|c r IH]; simpl; intros acc H; [eauto|]. apply andb_true_iff in H as [H1 H2]. unfold is_digit in H1.
  destruct (digit_of c); [|discriminate]. apply IH. exact H2.
Qed.

Definition digits_syntax (s : string) : bool := match s with EmptyString => false | _ => str_all is_digit s end.
Definition int_syntax (s : string) : bool :=
  match s with
  | String c r => if Ascii.eqb c "-" || Ascii.eqb c "+" then digits_syntax r else digits_syntax s
  | EmptyString => false
  end.

Lemma parse_udec_syntax s : (exists z, parse_udec s = Some z) <-> digits_syntax s = true.
Proof.
  unfold parse_udec, digits_syntax. destruct s as [|c r]; [split; [intros [z H]; discriminate | discriminate]|]. split.
  - intros [z H]. eapply parse_digits_only; eauto.
  - apply parse_digits_some.
Qed.

Lemma parse_signed_syntax s : (exists z, parse_signed s = Some z) <-> int_syntax s = true.
Proof.
  unfold parse_signed, int_syntax. destruct s as [|c r]; [split; [intros [z H]; discriminate | discriminate]|].
  destruct (Ascii.eqb c "-") eqn:E1; simpl orb.
  - rewrite <- parse_udec_syntax. split; intros [z H].
    + destruct (parse_udec r); [eauto | discriminate].
    + rewrite H. simpl. eauto.
  - destruct (Ascii.eqb c "+") eqn:E2; simpl orb; apply parse_udec_syntax.
Qed.

(* ------------------------------------------------------------------ a form-tagged string member and its zero value *)
Lemma form_string_back_spec optional dflt sent :
  form_string_back optional dflt sent = Some sent <->
  (sent <> EmptyString \/ dflt = Some EmptyString \/ (dflt = None /\ optional = true)).
Proof.
  unfold form_string_back. destruct (String.eqb sent "") eqn:E.
  - apply String.eqb_eq in E. subst. split.
    + destruct dflt as [d|]; [intro H; inversion H; auto|]. destruct optional; [auto | discriminate].
    + intros [H|[H|[H1 H2]]]; [contradiction | subst; reflexivity | subst; reflexivity].
  - split; [intros _; left; intro H; subst; discriminate | reflexivity].
Qed.

(* ------------------------------------------------------------------ Marshal: where a member ends up *)
Lemma marshal_field_entry tg f v p k w : marshal_field tg f v = Ok (p, k, w) ->
  k = f_key f /\ p = match tg with Some t => t | None => EmptyString end /\
  ((tg = None \/ o_string (f_opts f) = false) -> w = v) /\
  (tg <> None -> o_string (f_opts f) = true -> exists s, sprint v = Some s /\ w = VStr s).
Proof.
  unfold marshal_field. destruct tg as [t|]; [|intro H; inversion H; subst; repeat split; auto; intros N; contradiction].
  destruct (negb (negb (opts_nil (f_opts f)) && o_optional (f_opts f)) && negb (nonempty_required (f_ty f) v)); [discriminate|].
  destruct (negb (negb (opts_nil (f_opts f)))) eqn:N.
  - intro H; inversion H; subst. repeat split; auto. intros _ S. exfalso. unfold opts_nil in N. rewrite S in N.
    rewrite !andb_false_r in N. discriminate.
  - intro H. apply bind_ok in H as [[] [_ H]]. apply bind_ok in H as [[] [_ H]].
    destruct (o_string (f_opts f)) eqn:S.
    + destruct (sprint v) eqn:Sp; [|discriminate]. inversion H; subst. repeat split; auto.
      * intros [Hn|Hn]; discriminate.
      * intros _ _. eauto.
    + inversion H; subst. repeat split; auto. intros _ Hs. discriminate.
Qed.

Lemma marshal_rows fs : forall vs rows, marshal fs vs = Ok rows ->
  Forall2 (fun tfv row => marshal_field (fst (fst tfv)) (snd (fst tfv)) (snd tfv) = Ok row) (combine fs vs) rows.
Proof.
  induction fs as [|[tg f] r IH]; intros [|v vr] rows H; simpl in *; try discriminate.
  - inversion H. constructor.
  - apply bind_ok in H as [e [He H]]. apply bind_ok in H as [es [Hes H]]. inversion H; subst. constructor; [exact He | apply IH; exact Hes].
Qed.

(* ------------------------------------------------------------------ form values are exact and present *)
Lemma form_doc_present k s pj rest ps : s <> EmptyString ->
  exists m, form_doc ((k, JStr s pj :: rest) :: ps) = JObj m /\ olookup k m = Some (JStr s pj).
Proof.
  intro Hs. unfold form_doc. simpl. destruct (String.eqb s "") eqn:E; [apply String.eqb_eq in E; contradiction|].
  eexists. split; [reflexivity|]. unfold olookup. simpl. rewrite String.eqb_refl. reflexivity.
Qed.

Lemma from_string_str_exact t o s pj w : deref t = Prim KStr -> from_string t o (JStr s pj) = Ok w -> w = wrap_ptr t (VStr s).
Proof.
  intros D. unfold from_string. rewrite D. destruct (negb (in_options o s)); [discriminate|]. simpl.
  destruct (range_ok_val o (VStr s)); [|discriminate]. intro H; inversion H; reflexivity.
Qed.

Lemma reader_chunking decode n t c1 c2 : fold_right append EmptyString c1 = fold_right append EmptyString c2 ->
  unmarshal_reader decode n t c1 = unmarshal_reader decode n t c2.
Proof. unfold unmarshal_reader. intros ->. reflexivity. Qed.

(* ------------------------------------------------------------------ options= are matched exactly *)
Lemma in_options_exact o s : in_options o s = true <-> (o_options o = [] \/ In s (o_options o)).
Proof.
  unfold in_options. destruct (o_options o) as [|a l] eqn:E; [split; auto|]. rewrite existsb_exists. split.
  - intros [x [Hin Hx]]. apply String.eqb_eq in Hx. subst. right. exact Hin.
  - intros [H|H]; [discriminate|]. exists s. split; [exact H | apply String.eqb_refl].
Qed.

Lemma env_value_options t o ev v : env_value t o ev = Ok v -> in_options o ev = true.
Proof. unfold env_value. destruct (in_options o ev); [reflexivity | discriminate]. Qed.

(* ------------------------------------------------------------------ inherit *)
Lemma olookup_app {V} k (a b : list (string * V)) :
  olookup k (a ++ b) = match olookup k a with Some x => Some x | None => olookup k b end.
Proof.
  unfold olookup. induction a as [|[k' v'] r IH]; simpl; [reflexivity|]. destruct (String.eqb k k'); [reflexivity | exact IH].
Qed.

Lemma olookup_filter_absent k (vm pm : obj) : has_key k vm = false ->
  olookup k (filter (fun kv => negb (has_key (fst kv) vm)) pm) = olookup k pm.
Proof.
  intro H. unfold olookup. induction pm as [|[k' v'] r IH]; simpl; [reflexivity|].
  destruct (String.eqb k k') eqn:E.
  - apply String.eqb_eq in E. subst k'. rewrite H. simpl. rewrite String.eqb_refl. reflexivity.
  - destruct (has_key k' vm); simpl; [exact IH | rewrite E; exact IH].
Qed.

Lemma inh_merge_lookup k m anc vm pm : olookup k m = Some (JObj vm) -> inh_lookup k anc = Some (JObj pm) ->
  exists merged, inh_lookup k (m :: anc) = Some (JObj merged) /\
    forall key, olookup key merged = match olookup key vm with Some x => Some x | None => olookup key pm end.
Proof.
  intros Hm Ha. simpl. rewrite Hm, Ha. eexists. split; [reflexivity|]. intro key. rewrite olookup_app.
  destruct (olookup key vm) eqn:E; [reflexivity|]. apply olookup_filter_absent. unfold has_key. rewrite E. reflexivity.
Qed.
