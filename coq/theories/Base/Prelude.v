(* Base.Prelude: imports and small helpers shared by every model. Stdlib only. *)
From Coq Require Export List ZArith NArith Arith Lia Bool.
From Coq Require Export ZifyBool ZifyNat ZifyN.
Export ListNotations.

Ltac Zify.zify_post_hook ::= Z.div_mod_to_equations.

(* result of an operation that may fail or panic in the Go code *)
Inductive result (A : Type) : Type :=
| Ok (a : A)
| Err (e : nat)
| Panic.
Arguments Ok {A} a.
Arguments Err {A} e.
Arguments Panic {A}.

(* association lists keyed by nat / N / Z with decidable equality *)
Section Assoc.
  Context {K V : Type} (eqb : K -> K -> bool).
  Fixpoint alookup (k : K) (m : list (K * V)) : option V :=
    match m with
    | [] => None
    | (k', v) :: r => if eqb k k' then Some v else alookup k r
    end.
  Fixpoint aremove (k : K) (m : list (K * V)) : list (K * V) :=
    match m with
    | [] => []
    | (k', v) :: r => if eqb k k' then aremove k r else (k', v) :: aremove k r
    end.
  Definition aset (k : K) (v : V) (m : list (K * V)) : list (K * V) :=
    (k, v) :: aremove k m.
End Assoc.

Definition list_eqb {A} (eqb : A -> A -> bool) : list A -> list A -> bool :=
  fix go l1 l2 :=
    match l1, l2 with
    | [], [] => true
    | a :: r1, b :: r2 => eqb a b && go r1 r2
    | _, _ => false
    end.

Definition option_eqb {A} (eqb : A -> A -> bool) (a b : option A) : bool :=
  match a, b with
  | None, None => true
  | Some x, Some y => eqb x y
  | _, _ => false
  end.

Lemma list_eqb_eq {A} (eqb : A -> A -> bool) :
  (forall a b, eqb a b = true <-> a = b) ->
  forall l1 l2, list_eqb eqb l1 l2 = true <-> l1 = l2.
Proof.
  intros H l1; induction l1 as [|a r IH]; intros [|b r2]; simpl; split; intro E; try congruence; try discriminate.
  - apply andb_true_iff in E as [E1 E2]. apply H in E1. apply IH in E2. congruence.
  - inversion E; subst. apply andb_true_iff; split; [apply H; reflexivity | apply IH; reflexivity].
Qed.
