(* C06 Spec: the cache-aside property as a small abstract object.
   - a reference database (rows by primary id, one indexed column) and its "view" through cache
     keys: what a correct cache entry of a key must encode;
   - the expected answer of a read;
   - the TTL window of a stored entry;
   - the retry schedule of a failed delete. *)
From God Require Import Base.Prelude.
Local Open Scope Z_scope.

(* cache keys: primary key of a row / unique-index key *)
Inductive key := PK (id : nat) | IX (i : nat).
Definition key_eqb (a b : key) : bool :=
  match a, b with
  | PK x, PK y => Nat.eqb x y
  | IX x, IX y => Nat.eqb x y
  | _, _ => false
  end.

(* what a Redis string can hold: "*" | JSON row | JSON primary key | anything else *)
Inductive cval := VStar | VRow (id ix val : nat) | VPk (id : nat) | VBad (g : nat).
Definition cval_eqb (a b : cval) : bool :=
  match a, b with
  | VStar, VStar => true
  | VRow a1 a2 a3, VRow b1 b2 b3 => Nat.eqb a1 b1 && Nat.eqb a2 b2 && Nat.eqb a3 b3
  | VPk x, VPk y => Nat.eqb x y
  | VBad x, VBad y => Nat.eqb x y
  | _, _ => false
  end.

(* what a caller can get back *)
Inductive rres := RRow (id ix val : nat) | RNotFound | RCacheErr | ROk | RExecErr | RUnmodelled
  | RCtxErr    (* the caller's context error (context.Canceled) *)
  | RDbErr.    (* the error of the database query (other than not-found) *)
Definition rres_eqb (a b : rres) : bool :=
  match a, b with
  | RRow a1 a2 a3, RRow b1 b2 b3 => Nat.eqb a1 b1 && Nat.eqb a2 b2 && Nat.eqb a3 b3
  | RNotFound, RNotFound | RCacheErr, RCacheErr | ROk, ROk | RExecErr, RExecErr | RUnmodelled, RUnmodelled
  | RCtxErr, RCtxErr | RDbErr, RDbErr => true
  | _, _ => false
  end.

(* ---- reference database: row id |-> (indexed column, payload) ---- *)
Definition table := list (option (nat * nat)).
Definition db_row (t : table) (id : nat) : option (nat * nat) := nth id t None.
Fixpoint find_from (base : nat) (t : table) (i : nat) : option (nat * (nat * nat)) :=
  match t with
  | [] => None
  | Some (ix, v) :: r => if Nat.eqb ix i then Some (base, (ix, v)) else find_from (S base) r i
  | None :: r => find_from (S base) r i
  end.
Definition db_find (t : table) (i : nat) : option (nat * (nat * nat)) := find_from 0 t i.

Fixpoint set_nth (n : nat) (x : option (nat * nat)) (t : table) : table :=
  match n, t with
  | O, [] => [x]
  | O, _ :: r => x :: r
  | S n, [] => None :: set_nth n x []
  | S n, y :: r => y :: set_nth n x r
  end.

Inductive write := WPut (id ix val : nat) | WDel (id : nat) | WFail.
Definition apply_write (w : write) (t : table) : option table :=
  match w with
  | WPut id ix v => Some (set_nth id (Some (ix, v)) t)
  | WDel id => Some (set_nth id None t)
  | WFail => None
  end.

(* the value a correct, live cache entry of key k encodes (None: only the placeholder is correct) *)
Definition view (t : table) (k : key) : option cval :=
  match k with
  | PK id => match db_row t id with Some (ix, v) => Some (VRow id ix v) | None => None end
  | IX i => match db_find t i with Some (pk, _) => Some (VPk pk) | None => None end
  end.

(* the answer a coherent read gives *)
Definition expect_row (t : table) (id : nat) : rres :=
  match db_row t id with Some (ix, v) => RRow id ix v | None => RNotFound end.
Definition expect_index (t : table) (i : nat) : rres :=
  match db_find t i with Some (pk, (ix, v)) => RRow pk ix v | None => RNotFound end.

(* ---- TTL window: e in nanoseconds, TTLs in whole seconds ---- *)
Definition sec : Z := 1000000000.
Definition ceil_secs (d : Z) : Z := (d + sec - 1) / sec.
(* the statement's own numbers (hand-written; Link.v proves the regenerated Go constants equal them):
   the row stored through an index outlives the index entry by 5 s *)
Definition safe_gap : Z := 5 * sec.
(* [ceil(0.95 e), ceil(1.05 e)] for a configured expiry that is a multiple of 20 ns (e = 20 q) *)
Definition ttl_lo (e : Z) : Z := ceil_secs (19 * (e / 20)).
Definition ttl_hi (e : Z) : Z := ceil_secs (21 * (e / 20)).
Definition in_window (e ttl : Z) : Prop := ttl_lo e <= ttl <= ttl_hi e.
Definition in_windowb (e ttl : Z) : bool := (ttl_lo e <=? ttl) && (ttl <=? ttl_hi e).

(* ---- retry schedule of a failed delete (seconds after the failure, cumulative) ---- *)
Definition delays : list Z := [1; 5; 60; 300; 3600].
Definition schedule : list Z := [1; 6; 66; 366; 3966].

(* attempts L = (tick, succeeded) of one failed delete at tick t0: they sit on the schedule, every
   attempt but the last failed, nothing follows a success, at most |schedule| attempts *)
Fixpoint retry_okb (t0 : Z) (sch : list Z) (L : list (Z * bool)) : bool :=
  match L, sch with
  | [], _ => true
  | (t, ok) :: L', c :: sch' =>
      (t =? t0 + c) && (if ok then match L' with [] => true | _ => false end else retry_okb t0 sch' L')
  | _ :: _, [] => false
  end.

(* ... and the retries really happen: at tick `tk` an unfinished chain is still waiting for a
   scheduled attempt that lies in the future *)
Definition retry_live (tk t0 : Z) (L : list (Z * bool)) : bool :=
  if existsb snd L then true
  else match nth_error schedule (List.length L) with
       | Some c => tk <? t0 + c
       | None => true
       end.

Definition retry_spec (tk t0 : Z) (L : list (Z * bool)) : bool :=
  retry_okb t0 schedule L && retry_live tk t0 L.
