(* C06 Link: the definitions regenerated from the Go sources by gogen are the ones the model and the
   property statement use. *)
From God Require Import Base.Prelude C06.Spec C06.Model C06.Proofs C06.ProofsTtl C06.ProofsRetry C06.ProofsCluster C06.Exec.
From Coq Require Import QArith String.
From GodGen Require C06_Gen.
Local Open Scope Z_scope.

(* cleaner.go nextDelay is the model's delay table, for every duration *)
Lemma link_nextDelay : forall d,
  C06_Gen.nextDelay d = match next_delay d with Some x => (x, true) | None => (0, false) end.
Proof.
  intro d. unfold C06_Gen.nextDelay, next_delay, GenEnv.go_eqb, sec.
  destruct (Z.eq_dec d 1000000000) as [->|H1]; [reflexivity|].
  destruct (Z.eq_dec d 5000000000) as [->|H2]; [reflexivity|].
  destruct (Z.eq_dec d 60000000000) as [->|H3]; [reflexivity|].
  destruct (Z.eq_dec d 300000000000) as [->|H4]; [reflexivity|].
  assert (E : forall x, d <> x -> (d =? x) = false) by (intros; apply Z.eqb_neq; assumption).
  rewrite !E by (first [exact H1 | exact H2 | exact H3 | exact H4]). reflexivity.
Qed.

(* ... and that table is the schedule of the property: +1 s, +5 s, +60 s, +300 s, +3600 s, then give up *)
Lemma link_delay_table :
  C06_Gen.nextDelay (1 * sec) = (5 * sec, true) /\ C06_Gen.nextDelay (5 * sec) = (60 * sec, true) /\
  C06_Gen.nextDelay (60 * sec) = (300 * sec, true) /\ C06_Gen.nextDelay (300 * sec) = (3600 * sec, true) /\
  C06_Gen.nextDelay (3600 * sec) = (0, false) /\
  map (fun d => d * sec) delays = [1 * sec; 5 * sec; 60 * sec; 300 * sec; 3600 * sec] /\
  schedule = [1; 1 + 5; 1 + 5 + 60; 1 + 5 + 60 + 300; 1 + 5 + 60 + 300 + 3600].
Proof. repeat split; reflexivity. Qed.

Lemma link_expireDeviation : C06_Gen.expireDeviation = expire_deviation /\ expire_deviation = (1 # 20)%Q.
Proof. split; reflexivity. Qed.

(* every draw u in [0,1) gives a factor in [0.95, 1.05] *)
Lemma link_factor u : (0 <= u)%Q -> (u <= 1)%Q -> draw_ok (factor C06_Gen.expireDeviation u).
Proof. destruct link_expireDeviation as [-> ->]. apply factor_ok. Qed.

Lemma link_placeholder : C06_Gen.notFoundPlaceholder = "*"%string.
Proof. reflexivity. Qed.

Lemma link_wheel_slots : C06_Gen.timingWheelSlots = 300.
Proof. reflexivity. Qed.

Lemma link_safe_gap : C06_Gen.cacheSafeGapBetweenIndexAndPrimary = safe_gap /\ safe_gap = 5 * sec.
Proof. split; reflexivity. Qed.

(* the draws Exec replays use the statement's deviation, which is the code's *)
Lemma link_exec_fac m : fac m = factor C06_Gen.expireDeviation (m # 1024).
Proof. reflexivity. Qed.
Lemma link_exec_gap c : gap (cfg_of c) = C06_Gen.cacheSafeGapBetweenIndexAndPrimary.
Proof. reflexivity. Qed.

Lemma link_defaults : C06_Gen.defaultExpire = default_expire /\ C06_Gen.defaultNotFoundExpire = default_nfexpire /\
  C06_Gen.defaultExpire = 7 * 24 * 3600 * sec /\ C06_Gen.defaultNotFoundExpire = 60 * sec /\
  dur_ok C06_Gen.defaultExpire /\ dur_ok C06_Gen.defaultNotFoundExpire.
Proof. repeat split; try reflexivity; discriminate. Qed.

(* call skeletons the model transcribes *)
(* clean: run the task; return on success; else nextDelay and SetTimer, else report *)
Lemma link_clean_calls : C06_Gen.clean_calls =
  ["dt.task"; "return"; "nextDelay"; "timingWheel.SetTimer"; "formatKeys"; "fmt.Sprintf"; "logx.Error";
   "stat.Report"; "taskRunner.Schedule"]%string.
Proof. reflexivity. Qed.
Lemma link_add_calls : C06_Gen.add_calls = ["stringx.Randn"; "timingWheel.SetTimer"]%string.
Proof. reflexivity. Qed.
(* ExecCtx: the database first, then the cache keys *)
Lemma link_exec_calls : C06_Gen.exec_calls = ["exec"; "return"; "cc.DelCacheCtx"; "return"; "return"]%string.
Proof. reflexivity. Qed.
(* doTake: cache first; the query only after a miss; placeholder on not-found; cacheVal after success *)
Lemma link_take_calls : C06_Gen.take_calls =
  ["logx.WithContext"; "n.doGetCache"; "return"; "return"; "query"; "n.setCacheWithNotFound"; "logger.Error";
   "return"; "n.stat.IncrDbFails"; "return"; "cacheVal"; "logger.Error"; "jsonx.Marshal"; "return";
   "n.barrier.DoEx"; "return"; "return"; "n.stat.IncrTotal"; "n.stat.IncrHit"; "jsonx.Unmarshal"; "return"]%string.
Proof. reflexivity. Qed.

(* ---- soundness of what Exec evaluates ---- *)
(* Exec runs the cluster form of the model; with one node it is the node model the theorems speak of *)
Lemma exec_one_node c e n o :
  cstep place0 c (e, [n]) (COp o) = let '(e', n', r) := step c (e, n) o in (e', [n'], r).
Proof. apply cluster1_is_node. Qed.

(* Exec's attempt extraction is the one of the retry theorem *)
Lemma exec_attempts : attempts = att.
Proof. reflexivity. Qed.

(* Exec's window test is the Spec's window *)
Lemma in_windowb_spec e ttl : in_windowb e ttl = true <-> in_window e ttl.
Proof. unfold in_windowb, in_window. lia. Qed.

(* ---- the concurrent model ---- *)
From God Require Import C06.ProofsConc.
From God Require C18.Conc.

(* ExecCtx: the database write comes first, the cache delete second (ModelConc.CA with wfirst = true) *)
Lemma link_exec_write_first :
  nth 0 C06_Gen.exec_calls ""%string = "exec"%string /\ nth 2 C06_Gen.exec_calls ""%string = "cc.DelCacheCtx"%string.
Proof. split; reflexivity. Qed.

(* doTake: the cache read, the query and the cache write all sit inside the function given to barrier.DoEx *)
Lemma link_take_inside_doex :
  firstn 15 C06_Gen.take_calls =
  ["logx.WithContext"; "n.doGetCache"; "return"; "return"; "query"; "n.setCacheWithNotFound"; "logger.Error";
   "return"; "n.stat.IncrDbFails"; "return"; "cacheVal"; "logger.Error"; "jsonx.Marshal"; "return"; "n.barrier.DoEx"]%string.
Proof. reflexivity. Qed.

(* the state Exec compares with the observations is reached by a schedule, so the theorems apply to it *)
Lemma exec_conc_final_one_query c t u :
  CA.querying (pc_of (conc_final c) t) = true -> CA.querying (pc_of (conc_final c) u) = true ->
  key_of (conc_final c) t = key_of (conc_final c) u -> t = u.
Proof.
  intros Ht Hu Hk.
  assert (HF : FL (conc_final c)).
  { unfold conc_final. apply (C18.Conc.replay_inv CA.step CA.busy FL); [intros; eapply FL_step; eauto | apply FL_init]. }
  destruct HF as [_ B].
  assert (L : forall p, CA.querying p = true -> exists f, CA.leader_of p = Some f) by (intros p; destruct p; simpl; try discriminate; eauto).
  destruct (L _ Ht) as [f Hf]. destruct (L _ Hu) as [g Hg]. eapply B; eauto.
Qed.

Lemma exec_conc_final_coherent c k :
  CA.raced (conc_final c) = false -> (forall u, CA.wpending (pc_of (conc_final c) u) = true -> key_of (conc_final c) u <> k) ->
  CA.cache (conc_final c) k = None \/ CA.cache (conc_final c) k = Some (CA.db (conc_final c) k).
Proof.
  intros Hr Hw.
  assert (HC : CO (conc_final c)).
  { unfold conc_final. apply (C18.Conc.replay_inv CA.step CA.busy CO); [intros; eapply CO_step; eauto | apply CO_init]. }
  destruct HC as (_ & _ & C). destruct (CA.cache (conc_final c) k) as [x|] eqn:E; [|auto]. right.
  destruct (C k x E) as [->|[?|(u & Pu & Ku)]]; [reflexivity | congruence | exfalso; eapply Hw; eauto].
Qed.
