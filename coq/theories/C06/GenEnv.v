(* C06 GenEnv: identifiers the GoLite translation of lib/store/cache/cleaner.go refers to. *)
From Coq Require Import ZArith.
Definition go_eqb : Z -> Z -> bool := Z.eqb.
