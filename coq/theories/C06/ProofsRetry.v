(* C06 Proofs, part 4: the cleaner. Over every history (any interleaving of operations, fault switches
   and timer ticks) the attempts on a failed delete follow the schedule. *)
From God Require Import Base.Prelude C06.Spec C06.Model C06.Proofs.
From Coq Require Import QArith.
Local Open Scope Z_scope.

Definition ev_id (e : event) : nat := match e with EvArm i _ _ => i | EvTry i _ _ => i end.
Definition att (lg : list event) (j : nat) : list (Z * bool) :=
  flat_map (fun e => match e with EvTry i t ok => if Nat.eqb i j then [(t, ok)] else [] | _ => [] end) lg.

Lemma att_snoc_try lg i tk ok j :
  att (lg ++ [EvTry i tk ok]) j = att lg j ++ (if Nat.eqb i j then [(tk, ok)] else []).
Proof. unfold att. rewrite flat_map_app. simpl. rewrite app_nil_r. reflexivity. Qed.
Lemma att_snoc_arm lg i tk ks j : att (lg ++ [EvArm i tk ks]) j = att lg j.
Proof. unfold att. rewrite flat_map_app. simpl. rewrite app_nil_r. reflexivity. Qed.
Lemma att_fresh lg j : (forall e, In e lg -> ev_id e <> j) -> att lg j = [].
Proof.
  induction lg as [|e lg IH]; intro H; simpl; [reflexivity|].
  rewrite IH by (intros; apply H; right; assumption).
  destruct e as [i t ks|i t ok]; [reflexivity|]. simpl.
  destruct (Nat.eqb_spec i j); [|reflexivity]. exfalso. apply (H (EvTry i t ok)); [left; reflexivity|assumption].
Qed.

Definition falses (t0 : Z) (m : nat) : list (Z * bool) := map (fun c => (t0 + c, false)) (firstn m schedule).
Definition delay_ns (m : nat) : Z := nth m delays 0 * sec.

Lemma okb_falses t0 m : (m <= 5)%nat -> retry_okb t0 schedule (falses t0 m) = true.
Proof. intro H. destruct m as [|[|[|[|[|[|?]]]]]]; try lia; simpl; rewrite ?Z.eqb_refl; reflexivity. Qed.
Lemma okb_falses_true t0 m : (m < 5)%nat ->
  retry_okb t0 schedule (falses t0 m ++ [(t0 + nth m schedule 0, true)]) = true.
Proof. intro H. destruct m as [|[|[|[|[|?]]]]]; try lia; simpl; rewrite ?Z.eqb_refl; reflexivity. Qed.
Lemma falses_snoc t0 m : (m < 5)%nat -> falses t0 m ++ [(t0 + nth m schedule 0, false)] = falses t0 (S m).
Proof. intro H. destruct m as [|[|[|[|[|?]]]]]; try lia; reflexivity. Qed.
Lemma falses_no_success t0 m : existsb snd (falses t0 m) = false.
Proof. unfold falses. induction (firstn m schedule); simpl; auto. Qed.
Lemma falses_length t0 m : (m <= 5)%nat -> List.length (falses t0 m) = m.
Proof. intro H. unfold falses. rewrite map_length, firstn_length. simpl. lia. Qed.
Lemma next_delay_stage m : (m < 5)%nat ->
  next_delay (delay_ns m) = (if (m <? 4)%nat then Some (delay_ns (S m)) else None) /\
  ((m < 4)%nat -> delay_ns (S m) / sec = nth (S m) schedule 0 - nth m schedule 0 /\
                   0 < nth (S m) schedule 0 - nth m schedule 0).
Proof. intro H. destruct m as [|[|[|[|[|?]]]]]; try lia; split; try reflexivity; intro; try lia; split; reflexivity. Qed.
Lemma delay0 : delay_ns 0 = sec /\ sec / sec = nth 0 schedule 0.
Proof. split; reflexivity. Qed.

Definition chain_ok (lg : list event) (P : list task) (j : nat) (t0 : Z) : Prop :=
  (exists m t, (m < 5)%nat /\ att lg j = falses t0 m /\ In t P /\ t_id t = j /\
               t_delay t = delay_ns m /\ t_due t = t0 + nth m schedule 0)
  \/ (~ In j (map t_id P) /\ retry_okb t0 schedule (att lg j) = true /\
      (existsb snd (att lg j) = true \/ List.length (att lg j) = 5%nat)).

(* F: tasks taken off the timer in the current tick and not yet run *)
Definition JF (n : node) (F : list task) : Prop :=
  (forall t, In t (pending n) -> tick n < t_due t) /\
  (forall t, In t F -> t_due t = tick n) /\
  NoDup (map t_id (pending n ++ F)) /\
  (forall t, In t (pending n ++ F) -> (t_id t < next_id n)%nat) /\
  (forall e, In e (log n) -> (ev_id e < next_id n)%nat) /\
  (forall j t0 ks, In (EvArm j t0 ks) (log n) -> chain_ok (log n) (pending n ++ F) j t0).

Lemma JF_init : JF init_node [].
Proof. repeat split; simpl; try tauto; try constructor. Qed.

Lemma NoDup_map_inj {A B} (f : A -> B) l a b : NoDup (map f l) -> In a l -> In b l -> f a = f b -> a = b.
Proof.
  induction l as [|x l IH]; simpl; intros Hn Ha Hb E; [tauto|]. inversion Hn as [|? ? Hx Hn']; subst.
  destruct Ha as [->|Ha], Hb as [->|Hb]; auto.
  - exfalso. apply Hx. rewrite E. apply in_map. assumption.
  - exfalso. apply Hx. rewrite <- E. apply in_map. assumption.
Qed.

Lemma NoDup_snoc {A} (l : list A) a : NoDup l -> ~ In a l -> NoDup (l ++ [a]).
Proof.
  induction l as [|x l IH]; simpl; intros Hn Ha; [constructor; [tauto|constructor]|].
  inversion Hn; subst. constructor.
  - intro H. apply in_app_iff in H as [H|[H|[]]]; [tauto | subst; tauto].
  - apply IH; tauto.
Qed.

(* the operations that do not touch the cleaner *)
Definition same_cl (n n' : node) : Prop :=
  tick n' = tick n /\ pending n' = pending n /\ next_id n' = next_id n /\ log n' = log n.
Lemma same_cl_JF n n' F : same_cl n n' -> JF n F -> JF n' F.
Proof. intros (A & B & C & D). unfold JF. rewrite A, B, C, D. tauto. Qed.
Lemma same_cl_refl n : same_cl n n. Proof. repeat split. Qed.
Lemma same_cl_trans a b c : same_cl a b -> same_cl b c -> same_cl a c.
Proof. unfold same_cl. intuition congruence. Qed.

Lemma same_cl_swe n k v d : same_cl n (fst (set_with_expire n k v d)).
Proof. unfold set_with_expire. destruct (fset n); repeat split. Qed.
Lemma same_cl_do_get {A} (dec : cval -> dres A) n k : same_cl n (fst (do_get dec n k)).
Proof.
  unfold do_get. destruct (fget n); [repeat split|]. destruct (live n k) as [[| | |]|]; try (repeat split);
    match goal with |- context [dec ?v] => destruct (dec v) end; try (repeat split); destruct (fdel n); repeat split.
Qed.
Lemma same_cl_take_pk c f e n id : same_cl n (snd (fst (take_pk c f e n id))).
Proof.
  unfold take_pk. pose proof (same_cl_do_get dec_row n (PK id)) as S.
  destruct (do_get dec_row n (PK id)) as [n1 g]. simpl in S.
  destruct g as [[[a b] v]| | | |]; simpl; auto.
  destruct (db_row (db e) id) as [[ix v]|]; simpl; (eapply same_cl_trans; [exact S|]); apply same_cl_swe.
Qed.
Lemma same_cl_take_pk_dberr e n id : same_cl n (snd (fst (take_pk_dberr e n id))).
Proof.
  unfold take_pk_dberr. pose proof (same_cl_do_get dec_row n (PK id)) as S.
  destruct (do_get dec_row n (PK id)) as [n1 g]. simpl in S.
  destruct g as [[[a b] v]| | | |]; simpl; auto.
Qed.
Lemma same_cl_qri c f1 f2 e n i : same_cl n (snd (fst (query_row_index c f1 f2 e n i))).
Proof.
  unfold query_row_index. pose proof (same_cl_do_get dec_pk n (IX i)) as S.
  destruct (do_get dec_pk n (IX i)) as [n1 g]. simpl in S.
  destruct g as [pk| | | |]; simpl; auto.
  - eapply same_cl_trans; [exact S|]. apply same_cl_take_pk.
  - destruct (db_find (db e) i) as [[pk [ix v]]|]; simpl.
    + pose proof (same_cl_swe n1 (PK pk) (VRow pk ix v) (around f1 (expire c) + gap c)) as S2.
      destruct (set_with_expire n1 (PK pk) (VRow pk ix v) (around f1 (expire c) + gap c)) as [n2 ok]. simpl in S2.
      destruct ok; simpl.
      * eapply same_cl_trans; [exact S|]. eapply same_cl_trans; [exact S2|]. apply same_cl_swe.
      * eapply same_cl_trans; eauto.
    + eapply same_cl_trans; [exact S|]. apply same_cl_swe.
Qed.

(* a failed delete arms a fresh chain *)
Lemma JF_add_clean_task n ks : JF n [] -> JF (add_clean_task n ks) [].
Proof.
  intros (J1 & _ & J3 & J4 & J5 & J6). rewrite app_nil_r in J3, J4, J6.
  unfold JF, add_clean_task, arm. simpl. rewrite !app_nil_r.
  set (t := mkT (next_id n) (tick n + sec / sec) sec ks).
  assert (Fresh : ~ In (next_id n) (map t_id (pending n))).
  { intro H. apply in_map_iff in H as (t' & E & Hin). apply J4 in Hin. lia. }
  refine (conj _ (conj _ (conj _ (conj _ (conj _ _))))).
  - intros t' H. apply in_app_iff in H as [H|[<-|[]]]; [auto|]. simpl. change (sec / sec) with 1. lia.
  - intros t' [].
  - rewrite map_app. simpl. apply NoDup_snoc; assumption.
  - intros t' H. apply in_app_iff in H as [H|[<-|[]]]; [apply J4 in H; lia | simpl; lia].
  - intros e H. apply in_app_iff in H as [H|[<-|[]]]; [apply J5 in H; lia | simpl; lia].
  - intros j t0 ks0 H. apply in_app_iff in H as [H|[E|[]]].
    + pose proof (J5 _ H) as Hlt. simpl in Hlt.
      destruct (J6 _ _ _ H) as [(m & t' & A & B & C & D & E & G)|(A & B & C)].
      * left. exists m, t'. rewrite att_snoc_arm. repeat split; auto. apply in_app_iff. auto.
      * right. rewrite att_snoc_arm. repeat split; auto. rewrite map_app. simpl.
        intro X. apply in_app_iff in X as [X|[X|[]]]; [auto | lia].
    + inversion E; subst. left. exists 0%nat, t. rewrite att_snoc_arm.
      rewrite att_fresh by (intros e He; apply J5 in He; lia).
      split; [lia|]. split; [reflexivity|]. split; [apply in_app_iff; right; left; reflexivity|].
      repeat split.
Qed.

(* what clean does to the cleaner's own fields *)
Lemma clean_fields n t :
  tick (clean n t) = tick n /\ next_id (clean n t) = next_id n /\
  log (clean n t) = log n ++ [EvTry (t_id t) (tick n) (negb (fdel n))] /\
  pending (clean n t) =
    if fdel n then match next_delay (t_delay t) with
                   | Some d' => pending n ++ [mkT (t_id t) (tick n + d' / sec) d' (t_keys t)]
                   | None => pending n end
    else pending n.
Proof.
  unfold clean. destruct (fdel n); simpl; [|repeat split].
  destruct (next_delay (t_delay t)); repeat split.
Qed.

Lemma JF_clean n t F : JF n (t :: F) -> JF (clean n t) F.
Proof.
  intros (J1 & J2 & J3 & J4 & J5 & J6).
  destruct (clean_fields n t) as (Ct & Cn & Cl & Cp).
  set (j := t_id t) in *. set (tk := tick n) in *.
  assert (Hdue : t_due t = tk) by (apply J2; left; reflexivity).
  assert (Hj : (j < next_id n)%nat) by (apply J4; apply in_app_iff; right; left; reflexivity).
  rewrite map_app in J3. simpl in J3. fold j in J3.
  pose proof (NoDup_remove_1 _ _ _ J3) as ND. pose proof (NoDup_remove_2 _ _ _ J3) as NI.
  rewrite <- map_app in ND, NI.
  (* the chain of t itself *)
  assert (Own : forall t0 ks, In (EvArm j t0 ks) (log n) ->
            exists m, (m < 5)%nat /\ att (log n) j = falses t0 m /\ t_delay t = delay_ns m /\ tk = t0 + nth m schedule 0).
  { intros t0 ks H. destruct (J6 _ _ _ H) as [(m & t' & A & B & C & D & E & G)|(A & _)].
    - assert (t' = t).
      { eapply (NoDup_map_inj t_id (pending n ++ t :: F)); eauto.
        - rewrite map_app. simpl. exact J3.
        - apply in_app_iff. right. left. reflexivity. }
      subst t'. exists m. repeat split; auto. congruence.
    - exfalso. apply A. rewrite map_app. simpl. apply in_app_iff. right. left. reflexivity. }
  (* chains of the other tasks are untouched *)
  assert (Other : forall P', (forall x, In x (pending n ++ F) -> In x (P' ++ F)) ->
            (forall x, In x (P' ++ F) -> In x (pending n ++ F) \/ t_id x = j) ->
            forall j' t0 ks, j' <> j -> In (EvArm j' t0 ks) (log n) ->
            chain_ok (log n ++ [EvTry j tk (negb (fdel n))]) (P' ++ F) j' t0).
  { intros P' Sub Sup j' t0 ks Hne H. unfold chain_ok. rewrite att_snoc_try.
    destruct (Nat.eqb_spec j j'); [congruence|]. rewrite app_nil_r.
    destruct (J6 _ _ _ H) as [(m & t' & A & B & C & D & E & G)|(A & B)].
    - left. exists m, t'. repeat split; auto. apply Sub. apply in_app_iff in C as [C|[C|C]].
      + apply in_app_iff; auto.
      + exfalso. apply Hne. rewrite <- D, <- C. reflexivity.
      + apply in_app_iff; auto.
    - right. split; [|assumption]. intro X. apply in_map_iff in X as (x & Ex & Hx).
      destruct (Sup x Hx) as [Hx'|Hx']; [|congruence].
      apply A. apply in_map_iff. exists x. split; [assumption|].
      apply in_app_iff in Hx' as [?|?]; apply in_app_iff; [left|right; right]; assumption. }
  unfold JF. rewrite Ct, Cn, Cl. fold tk.
  destruct (fdel n) eqn:Fd; cbn [negb] in *.
  - (* the delete failed again *)
    destruct (next_delay (t_delay t)) as [d'|] eqn:ND'; rewrite Cp.
    + (* re-armed *)
      set (t2 := mkT j (tk + d' / sec) d' (t_keys t)).
      refine (conj _ (conj _ (conj _ (conj _ (conj _ _))))).
      * intros x H. apply in_app_iff in H as [H|[<-|[]]]; [auto|]. simpl.
        (* the new delay is positive: it is a stage of the table *)
        unfold next_delay in ND'. unfold sec in *.
        repeat match type of ND' with (if ?b then _ else _) = _ => destruct b end; inversion ND'; subst; simpl; lia.
      * intros x H. apply J2. right. assumption.
      * rewrite <- app_assoc, map_app. simpl. exact J3.
      * intros x H. apply in_app_iff in H as [H|H]; [apply in_app_iff in H as [H|[<-|[]]]|].
        -- apply J4. apply in_app_iff. auto.
        -- exact Hj.
        -- apply J4. apply in_app_iff. right. right. assumption.
      * intros e H. apply in_app_iff in H as [H|[<-|[]]]; [auto | exact Hj].
      * intros j' t0 ks H. apply in_app_iff in H as [H|[E|[]]]; [|discriminate].
        destruct (Nat.eq_dec j' j) as [->|Hne].
        -- destruct (Own _ _ H) as (m & Hm & A & D & G).
           destruct (next_delay_stage m Hm) as [N1 N2]. rewrite <- D, ND' in N1.
           destruct (Nat.ltb_spec m 4) as [Hm4|Hm4]; [|discriminate]. inversion N1; subst d'.
           destruct (N2 Hm4) as [N3 N4].
           left. exists (S m), t2. unfold chain_ok. rewrite att_snoc_try, Nat.eqb_refl, A, G, falses_snoc by assumption.
           split; [lia|]. split; [reflexivity|].
           split; [apply in_app_iff; left; apply in_app_iff; right; left; reflexivity|].
           split; [reflexivity|]. split; [reflexivity|].
           unfold t2. cbn [t_due]. rewrite N3. lia.
        -- apply (Other (pending n ++ [t2])) with (ks := ks); auto.
           ++ intros x Hx. apply in_app_iff in Hx as [?|?]; apply in_app_iff; [left; apply in_app_iff|]; auto.
           ++ intros x Hx. apply in_app_iff in Hx as [Hx|Hx]; [apply in_app_iff in Hx as [?|[<-|[]]]|].
              ** left. apply in_app_iff. auto.
              ** right. reflexivity.
              ** left. apply in_app_iff. auto.
    + (* the table is exhausted *)
      refine (conj _ (conj _ (conj _ (conj _ (conj _ _))))); auto.
      * intros x H. apply J2. right. assumption.
      * intros x H. apply J4. apply in_app_iff in H as [?|?]; apply in_app_iff; auto. right. right. assumption.
      * intros e H. apply in_app_iff in H as [H|[<-|[]]]; [auto | exact Hj].
      * intros j' t0 ks H. apply in_app_iff in H as [H|[E|[]]]; [|discriminate].
        destruct (Nat.eq_dec j' j) as [->|Hne].
        -- destruct (Own _ _ H) as (m & Hm & A & D & G).
           destruct (next_delay_stage m Hm) as [N1 _]. rewrite <- D, ND' in N1.
           destruct (Nat.ltb_spec m 4) as [Hm4|Hm4]; [discriminate|]. assert (m = 4%nat) by lia. subst m.
           right. rewrite att_snoc_try, Nat.eqb_refl, A, G, falses_snoc by lia.
           split; [exact NI|]. split; [apply okb_falses; lia|]. right. apply falses_length. lia.
        -- apply (Other (pending n)) with (ks := ks); auto.
  - (* deleted: the chain ends *)
    rewrite Cp. refine (conj _ (conj _ (conj _ (conj _ (conj _ _))))); auto.
    + intros x H. apply J2. right. assumption.
    + intros x H. apply J4. apply in_app_iff in H as [?|?]; apply in_app_iff; auto. right. right. assumption.
    + intros e H. apply in_app_iff in H as [H|[<-|[]]]; [auto | exact Hj].
    + intros j' t0 ks H. apply in_app_iff in H as [H|[E|[]]]; [|discriminate].
      destruct (Nat.eq_dec j' j) as [->|Hne].
      * destruct (Own _ _ H) as (m & Hm & A & D & G).
        right. rewrite att_snoc_try, Nat.eqb_refl, A, G.
        split; [exact NI|]. split; [apply okb_falses_true; assumption|]. left.
        rewrite existsb_app. simpl. apply orb_true_r.
      * apply (Other (pending n)) with (ks := ks); auto.
Qed.

From Coq Require Import Permutation.

Lemma perm_filter {A} (p : A -> bool) l : Permutation (filter (fun x => negb (p x)) l ++ filter p l) l.
Proof.
  induction l as [|a l IH]; simpl; [constructor|]. destruct (p a); simpl.
  - apply Permutation_sym. apply Permutation_cons_app. apply Permutation_sym. exact IH.
  - constructor. exact IH.
Qed.

Lemma chain_ok_ext lg P P' j t0 : (forall x, In x P <-> In x P') -> chain_ok lg P j t0 -> chain_ok lg P' j t0.
Proof.
  intros E [(m & t & A & B & C & D)|(A & B)]; [left; exists m, t; repeat split; try tauto; apply E; tauto|].
  right. split; [|assumption]. intro X. apply A. apply in_map_iff in X as (x & Ex & Hx).
  apply in_map_iff. exists x. split; [assumption|apply E; assumption].
Qed.

Lemma JF_fold_clean F : forall n, JF n F -> JF (fold_left clean F n) [].
Proof. induction F as [|t F IH]; intros n H; simpl; [assumption|]. apply IH. apply JF_clean. assumption. Qed.

Lemma JF_do_tick n : JF n [] -> JF (do_tick n) [].
Proof.
  intros (J1 & _ & J3 & J4 & J5 & J6). rewrite app_nil_r in J3, J4, J6.
  unfold do_tick. apply JF_fold_clean. simpl.
  set (tk := tick n + 1). set (due := filter (is_due tk) (pending n)).
  set (rest := filter (fun t => negb (is_due tk t)) (pending n)).
  assert (Mem : forall x, In x (pending n) <-> In x (rest ++ due)).
  { intro x. split; intro H.
    - eapply Permutation_in; [apply Permutation_sym; apply perm_filter | exact H].
    - eapply Permutation_in; [apply perm_filter | exact H]. }
  unfold JF. simpl. refine (conj _ (conj _ (conj _ (conj _ (conj _ _))))).
  - intros t H. apply filter_In in H as [_ H]. unfold is_due in H. lia.
  - intros t H. apply filter_In in H as [Hin H]. unfold is_due in H. apply J1 in Hin. lia.
  - eapply Permutation_NoDup; [|exact J3]. apply Permutation_map. apply Permutation_sym. apply perm_filter.
  - intros t H. apply J4. apply Mem. exact H.
  - exact J5.
  - intros j t0 ks H. eapply chain_ok_ext; [exact Mem|]. eauto.
Qed.

Lemma JF_del_ctx n ks : JF n [] -> JF (del_ctx n ks) [].
Proof.
  intro H. unfold del_ctx. destruct ks as [|k ks]; [assumption|].
  destruct (fdel n); [apply JF_add_clean_task; assumption|].
  eapply same_cl_JF; [|exact H]. repeat split.
Qed.

Lemma JF_step c s o : JF (snd s) [] -> JF (snd (step_st c s o)) [].
Proof.
  destruct s as [e n]. unfold step_st. simpl. intro H.
  destruct o as [id f|i f1 f2|w ks|ks|k v f|dt| |g s0 d|k g ttl|kc|ide]; simpl.
  - eapply same_cl_JF; [apply same_cl_take_pk|]. exact H.
  - eapply same_cl_JF; [apply same_cl_qri|]. exact H.
  - unfold exec. destruct (apply_write w (db e)); simpl; [apply JF_del_ctx|]; assumption.
  - apply JF_del_ctx. assumption.
  - unfold set_cache. pose proof (same_cl_swe n k v (around f (expire c))) as S.
    destruct (set_with_expire n k v (around f (expire c))). simpl in *. eapply same_cl_JF; eauto.
  - eapply same_cl_JF; [|exact H]. repeat split.
  - apply JF_do_tick. assumption.
  - eapply same_cl_JF; [|exact H]. repeat split.
  - eapply same_cl_JF; [|exact H]. repeat split.
  - exact H.
  - eapply same_cl_JF; [apply same_cl_take_pk_dberr|]. exact H.
Qed.

Lemma JF_run c ops : forall s, JF (snd s) [] -> JF (snd (run c ops s)) [].
Proof. induction ops as [|o r IH]; intros s H; simpl; [assumption|]. apply IH. apply JF_step. assumption. Qed.

Lemma JF_spec n j t0 ks : JF n [] -> In (EvArm j t0 ks) (log n) -> retry_spec (tick n) t0 (att (log n) j) = true.
Proof.
  intros (J1 & _ & _ & _ & _ & J6) H. specialize (J6 _ _ _ H). rewrite app_nil_r in J6.
  unfold retry_spec, retry_live. destruct J6 as [(m & t & A & B & C & D & E & G)|(A & B & C)].
  - rewrite B, okb_falses by lia. rewrite falses_no_success, falses_length by lia. simpl.
    rewrite (nth_error_nth' schedule 0) by (simpl; lia). apply J1 in C. lia.
  - rewrite B. simpl. destruct (existsb snd (att (log n) j)); [reflexivity|].
    destruct C as [C|C]; [discriminate|]. rewrite C. reflexivity.
Qed.

(* the theorem: on every history, every armed chain follows the schedule and is alive or finished *)
Lemma retry_schedule c ops :
  let n := snd (run c ops (init_env, init_node)) in
  forall j t0 ks, In (EvArm j t0 ks) (log n) -> retry_spec (tick n) t0 (att (log n) j) = true.
Proof. intros n j t0 ks. apply JF_spec. apply JF_run. apply JF_init. Qed.

(* a delete that fails arms a chain, with the keys it was asked to remove *)
Lemma failed_delete_arms n ks : ks <> [] -> fdel n = true ->
  log (del_ctx n ks) = log n ++ [EvArm (next_id n) (tick n) ks] /\
  exists t, In t (pending (del_ctx n ks)) /\ t_id t = next_id n /\ t_due t = tick n + 1 /\ t_keys t = ks.
Proof.
  intros Hk Fd. unfold del_ctx. destruct ks as [|k ks]; [congruence|]. rewrite Fd.
  unfold add_clean_task, arm. simpl. split; [reflexivity|].
  eexists. split; [apply in_app_iff; right; left; reflexivity|]. repeat split.
Qed.
