(* C06 Proofs, part 2: TTL window, index gap, placeholder shielding. *)
From God Require Import Base.Prelude C06.Spec C06.Model C06.Proofs.
From Coq Require Import QArith Qround Lqa.
Local Open Scope Z_scope.

(* ================= TTL window ================= *)
Lemma ceil_secs_mono a b : a <= b -> ceil_secs a <= ceil_secs b.
Proof. intro H. unfold ceil_secs, sec. apply Z.div_le_mono; lia. Qed.

Lemma ceil_secs_add a k : ceil_secs (a + k * sec) = ceil_secs a + k.
Proof. unfold ceil_secs. replace (a + k * sec + sec - 1) with (a + sec - 1 + k * sec) by lia.
  apply Z.div_add. unfold sec. lia. Qed.

Lemma around_window f q : (19 # 20 <= f)%Q -> (f <= 21 # 20)%Q -> 0 <= q ->
  19 * q <= around f (20 * q) <= 21 * q.
Proof.
  intros Hl Hh Hq. unfold around.
  assert (Q0 : (0 <= inject_Z (20 * q))%Q) by (change 0%Q with (inject_Z 0); rewrite <- Zle_Qle; lia).
  split.
  - replace (19 * q) with (Qfloor (inject_Z (19 * q))) by apply Qfloor_Z.
    apply Qfloor_resp_le.
    assert (E : (inject_Z (19 * q) == (19 # 20) * inject_Z (20 * q))%Q) by (unfold Qeq, Qmult, inject_Z; cbn [Qnum Qden]; lia).
    rewrite E. apply Qmult_le_compat_r; assumption.
  - replace (21 * q) with (Qfloor (inject_Z (21 * q))) by apply Qfloor_Z.
    apply Qfloor_resp_le.
    assert (E : (inject_Z (21 * q) == (21 # 20) * inject_Z (20 * q))%Q) by (unfold Qeq, Qmult, inject_Z; cbn [Qnum Qden]; lia).
    rewrite E. apply Qmult_le_compat_r; assumption.
Qed.

Definition draw_ok (f : Q) : Prop := (19 # 20 <= f)%Q /\ (f <= 21 # 20)%Q.
Definition dur_ok (e : Z) : Prop := 0 <= e /\ e mod 20 = 0.

Lemma ttl_window f e : draw_ok f -> dur_ok e -> in_window e (ceil_secs (around f e)).
Proof.
  intros [Hl Hh] [He Hm]. unfold in_window, ttl_lo, ttl_hi.
  assert (E : e = 20 * (e / 20)) by (pose proof (Z.div_mod e 20); lia).
  assert (Hq : 0 <= e / 20) by (apply Z.div_pos; lia).
  pose proof (around_window f (e / 20) Hl Hh Hq) as [A B]. rewrite <- E in A, B.
  split; apply ceil_secs_mono; assumption.
Qed.

(* the factor of an actual draw u in [0,1] with deviation 1/20 is a legal one *)
Lemma factor_ok u : (0 <= u)%Q -> (u <= 1)%Q -> draw_ok (factor (1 # 20) u).
Proof. intros H0 H1. unfold draw_ok, factor. split; lra. Qed.

(* what one operation may store: placeholders within the window of nfexpire, values within the window of
   expire, primary rows written through an index within that window + gap *)
Definition freshP (c : cfg) (nw : Z) (k : key) (v : cval) (x : Z) : Prop :=
  match v with
  | VStar => in_window (nfexpire c) (x - nw)
  | _ => in_window (expire c) (x - nw) \/ in_window (expire c) (x - nw - gap c / sec)
  end.

Definition draws_ok (o : op) : Prop :=
  match o with
  | QueryRow _ f => draw_ok f
  | QueryRowIndex _ f1 f2 => draw_ok f1 /\ draw_ok f2
  | SetCache _ v f => draw_ok f /\ v <> VStar
  | Corrupt _ _ _ => False
  | Advance _ => False
  | Fault _ _ _ => False   (* Advance / Fault / Corrupt do not go through the cache code *)
  | _ => True
  end.

Lemma ttl_step c s o : dur_ok (expire c) -> dur_ok (nfexpire c) -> gap c mod sec = 0 -> draws_ok o ->
  upd (freshP c (now (snd s))) (snd s) (snd (step_st c s o)).
Proof.
  intros He Hn Hg Hd. destruct s as [e n]. unfold step_st. simpl.
  assert (W1 : forall f, draw_ok f -> in_window (nfexpire c) (now n + ceil_secs (around f (nfexpire c)) - now n)).
  { intros f Hf. replace (now n + _ - now n) with (ceil_secs (around f (nfexpire c))) by lia. apply ttl_window; assumption. }
  assert (W2 : forall f, draw_ok f -> in_window (expire c) (now n + ceil_secs (around f (expire c)) - now n)).
  { intros f Hf. replace (now n + _ - now n) with (ceil_secs (around f (expire c))) by lia. apply ttl_window; assumption. }
  assert (W3 : forall f, draw_ok f -> in_window (expire c) (now n + ceil_secs (around f (expire c) + gap c) - now n - gap c / sec)).
  { intros f Hf. assert (G : gap c = gap c / sec * sec) by (pose proof (Z.div_mod (gap c) sec); unfold sec in *; lia).
    rewrite G at 1. rewrite ceil_secs_add.
    replace (now n + _ - now n - gap c / sec) with (ceil_secs (around f (expire c))) by lia. apply ttl_window; assumption. }
  destruct o as [id f|i f1 f2|w ks|ks|k v f|dt| |g s0 d|k g ttl|kc|ide]; simpl in *.
  - pose proof (take_pk_upd (freshP c (now n)) c f e n id) as T.
    destruct (take_pk c f e n id) as [[e' n'] r]. apply T; simpl; auto.
  - destruct Hd as [D1 D2].
    pose proof (query_row_index_upd (freshP c (now n)) c f1 f2 e n i) as T.
    destruct (query_row_index c f1 f2 e n i) as [[e' n'] r]. apply T; simpl; auto.
  - unfold exec. destruct (apply_write w (db e)); simpl; [apply upd_del_ctx | apply upd_refl].
  - apply upd_del_ctx.
  - unfold set_cache. destruct Hd as [D1 D2].
    pose proof (upd_set_with_expire (freshP c (now n)) n k v (around f (expire c))) as U.
    destruct (set_with_expire n k v (around f (expire c))). apply U.
    destruct v; simpl; auto. congruence.
  - contradiction.
  - apply upd_do_tick.
  - contradiction.
  - contradiction.
  - apply upd_refl.
  - pose proof (take_pk_dberr_upd (freshP c (now n)) e n ide) as T.
    destruct (take_pk_dberr e n ide) as [[e' n'] r]. apply T.
Qed.

(* ================= index gap ================= *)
Lemma index_gap c f1 f2 e n i pk x : gap c = 5 * sec ->
  let '(e', n', r) := query_row_index c f1 f2 e n i in
  entry n' (IX i) = Some (VPk pk, x) -> entry n (IX i) <> Some (VPk pk, x) ->
  exists ix v, entry n' (PK pk) = Some (VRow pk ix v, x + 5) /\ r = RRow pk ix v /\
               db_row (db e) pk = Some (ix, v).
Proof.
  intro G. unfold query_row_index.
  pose proof (do_get_cases dec_pk n (IX i)) as C.
  pose proof (upd_do_get (fun _ _ _ => False) dec_pk n (IX i)) as (_ & _ & _ & _ & U).
  destruct (do_get dec_pk n (IX i)) as [n1 g] eqn:DG. destruct C as (N & _ & Fs & Fd & C). simpl in U.
  assert (E1 : entry n1 (IX i) = entry n (IX i) \/ entry n1 (IX i) = None).
  { destruct (U (IX i)) as [?|[?|(? & ? & _ & [])]]; auto. }
  destruct g as [pk'| | | |].
  - destruct C as (_ & -> & _).
    pose proof (take_pk_upd (fun k _ _ => k <> IX i) c f2 e n pk') as T.
    destruct (take_pk c f2 e n pk') as [[e' n'] r]. intros H1 H2. exfalso.
    destruct T as [(_ & _ & _ & _ & U') _]; try (intros; discriminate).
    destruct (U' (IX i)) as [E|[E|(? & ? & _ & E)]]; congruence.
  - destruct (db_find (db e) i) as [[pk' [ix v]]|] eqn:F.
    + unfold set_with_expire. destruct (fset n1) eqn:Fs1.
      * intros H1 H2. exfalso. destruct E1; congruence.
      * simpl. rewrite Fs1. simpl.
        intros H1 H2. rewrite entry_setex_eq in H1. simpl in H1. inversion H1; subst.
        exists ix, v. rewrite entry_setex_neq by discriminate. rewrite entry_setex_eq.
        apply db_find_row in F as [R _]. repeat split; auto. do 2 f_equal.
        rewrite G. rewrite ceil_secs_add. lia.
    + unfold set_not_found, set_with_expire. destruct (fset n1); simpl; intros H1 H2.
      * exfalso. destruct E1; congruence.
      * rewrite entry_setex_eq in H1. discriminate.
  - destruct C as (_ & _ & ->). intros; congruence.
  - destruct C as (_ & ->). intros; congruence.
  - destruct C as (_ & -> & _). intros; congruence.
Qed.

(* as time passes the index entry dies first *)
Lemma index_gap_later n i pk v x dt : entry n (IX i) = Some (VPk pk, x) -> entry n (PK pk) = Some (v, x + 5) ->
  live (set_now n (now n + dt)) (IX i) = Some (VPk pk) -> live (set_now n (now n + dt)) (PK pk) = Some v.
Proof.
  unfold live. change (entry (set_now n (now n + dt))) with (entry n). simpl. intros -> ->.
  destruct (now n + dt <? x) eqn:A; [|discriminate].
  intros _. assert (now n + dt <? x + 5 = true) as -> by lia. reflexivity.
Qed.

(* options with a duration <= 0 (or no option) leave the defaults, whose TTLs are proper ones *)
Lemma effective_default d dflt : d <= 0 -> effective (Some d) dflt = dflt /\ effective None dflt = dflt.
Proof. intro H. unfold effective. destruct (Z.leb_spec d 0); [auto|lia]. Qed.
Lemma effective_positive g dflt : 0 < dflt -> 0 < effective g dflt.
Proof. intro H. unfold effective. destruct g as [d|]; [|assumption]. destruct (Z.leb_spec d 0); lia. Qed.

(* no upper bound on the expiry anywhere above; and from one second on the TTL is at least one second, so
   SETEX never degenerates into "no expiry" *)
Lemma ttl_positive f e : draw_ok f -> dur_ok e -> sec <= e -> 1 <= ceil_secs (around f e).
Proof.
  intros Hf He Hs. pose proof (ttl_window f e Hf He) as [L _]. eapply Z.le_trans; [|exact L].
  unfold ttl_lo, ceil_secs. destruct He as [_ Hm].
  assert (E : e = 20 * (e / 20)) by (pose proof (Z.div_mod e 20); lia).
  apply Z.div_le_lower_bound; unfold sec in *; lia.
Qed.
