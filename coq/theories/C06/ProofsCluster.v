(* C06 Proofs, part 5: the cluster is a product of node models with per-key dispatch. *)
From God Require Import Base.Prelude C06.Spec C06.Model C06.Proofs C06.ProofsRetry.
From Coq Require Import QArith.
Local Open Scope Z_scope.

Lemma filter_true {A} (l : list A) : filter (fun _ => true) l = l.
Proof. induction l; simpl; congruence. Qed.

(* ---- a one-node cluster is the node model (this is how Exec runs the sqlc / node levels) ---- *)
Definition place0 : key -> nat := fun _ => 0%nat.

Lemma cluster1_is_node c e n o :
  cstep place0 c (e, [n]) (COp o) = let '(e', n', r) := step c (e, n) o in (e', [n'], r).
Proof.
  destruct o as [id f|i f1 f2|w ks|ks|k v f|dt| |g s0 d|k g ttl|kc|ide]; simpl.
  - unfold c_take_pk, place0. simpl. destruct (take_pk c f e n id) as [[e' n'] r]. reflexivity.
  - unfold c_query_row_index, query_row_index, place0. simpl.
    destruct (do_get dec_pk n (IX i)) as [n1 g]. destruct g as [pk| | | |]; simpl; try reflexivity.
    destruct (db_find (db e) i) as [[pk [ix v]]|]; simpl; [|reflexivity].
    unfold c_set_with_expire, on_node. simpl.
    destruct (set_with_expire n1 (PK pk) (VRow pk ix v) (around f1 (expire c) + gap c)) as [n2 ok]. simpl.
    destruct ok; [|reflexivity]. simpl.
    destruct (set_with_expire n2 (IX i) (VPk pk) (around f1 (expire c))) as [n3 ok3]. reflexivity.
  - unfold exec. destruct (apply_write w (db e)); [|reflexivity].
    unfold c_del, place0. simpl. rewrite filter_true. reflexivity.
  - unfold c_del, place0. simpl. rewrite filter_true. reflexivity.
  - unfold on_node, place0. simpl. destruct (set_cache c f n k v) as [n1 r]. reflexivity.
  - reflexivity.
  - reflexivity.
  - reflexivity.
  - reflexivity.
  - reflexivity.
  - unfold place0. simpl. destruct (take_pk_dberr e n ide) as [[e' n'] r]. reflexivity.
Qed.

(* ---- per-key dispatch: a single-key operation is the node operation on the key's node ---- *)
Section Dispatch.
  Variable place : key -> nat.

  Lemma dispatch_query_row c e ns id f n : nth_error ns (place (PK id)) = Some n ->
    cstep place c (e, ns) (COp (QueryRow id f)) =
    let '(e', n', r) := step c (e, n) (QueryRow id f) in (e', Model.upd (place (PK id)) n' ns, r).
  Proof. intro H. simpl. unfold c_take_pk. rewrite H. reflexivity. Qed.

  Lemma dispatch_set_cache c e ns k v f n : nth_error ns (place k) = Some n ->
    cstep place c (e, ns) (COp (SetCache k v f)) =
    let '(e', n', r) := step c (e, n) (SetCache k v f) in (e', Model.upd (place k) n' ns, r).
  Proof. intro H. simpl. unfold on_node. rewrite H. destruct (set_cache c f n k v). reflexivity. Qed.

  (* when the index key and the primary key sit on the same node the cluster read is the node read *)
  Lemma nth_error_upd {A} j (x : A) l y : nth_error l j = Some y -> nth_error (Model.upd j x l) j = Some x.
  Proof. revert j. induction l as [|a l IH]; intros [|j] H; simpl in *; try discriminate; auto. Qed.
  Lemma upd_upd {A} j (x y : A) l : Model.upd j x (Model.upd j y l) = Model.upd j x l.
  Proof. revert j. induction l as [|a l IH]; intros [|j]; simpl; auto. f_equal. apply IH. Qed.

  (* a multi-key delete is one node-level delete per node, with the keys placed there *)
  Lemma c_del_from_nth ns ks : forall b j n, nth_error ns j = Some n ->
    nth_error (c_del_from place b ns ks) j = Some (del_ctx n (filter (fun k => Nat.eqb (place k) (b + j)) ks)).
  Proof.
    induction ns as [|a ns IH]; intros b [|j] n H; simpl in *; try discriminate.
    - inversion H; subst. rewrite Nat.add_0_r. reflexivity.
    - rewrite (IH (S b) j n H). do 2 f_equal. apply filter_ext. intro k. f_equal. lia.
  Qed.
  Lemma dispatch_del ns ks j n : nth_error ns j = Some n ->
    nth_error (c_del place ns ks) j = Some (del_ctx n (filter (fun k => Nat.eqb (place k) j) ks)).
  Proof. intro H. unfold c_del. rewrite (c_del_from_nth ns ks 0 j n H). reflexivity. Qed.
  Lemma c_del_length ns ks : forall b, List.length (c_del_from place b ns ks) = List.length ns.
  Proof. induction ns; intro b; simpl; auto. Qed.

  (* ---- every node of a cluster run is a node run as far as its cleaner is concerned: the retry
     schedule holds on every node of every cluster history ---- *)
  Definition all_JF (ns : list node) : Prop := Forall (fun n => JF n []) ns.

  Lemma all_JF_upd ns j n : all_JF ns -> JF n [] -> all_JF (Model.upd j n ns).
  Proof.
    unfold all_JF. revert j. induction ns as [|a ns IH]; intros [|j] H Hn; simpl; auto;
      inversion H; subst; constructor; auto.
  Qed.
  Lemma all_JF_nth ns j n : all_JF ns -> nth_error ns j = Some n -> JF n [].
  Proof. intros H E. unfold all_JF in H. rewrite Forall_forall in H. apply H. eapply nth_error_In; eauto. Qed.
  Lemma all_JF_map ns (f : node -> node) : (forall n, JF n [] -> JF (f n) []) -> all_JF ns -> all_JF (map f ns).
  Proof. intros Hf H. unfold all_JF in *. induction H; simpl; constructor; auto. Qed.
  Lemma all_JF_c_del ns ks : forall b, all_JF ns -> all_JF (c_del_from place b ns ks).
  Proof.
    induction ns as [|a ns IH]; intros b H; simpl; [constructor|]. inversion H; subst.
    constructor; [apply JF_del_ctx; assumption | apply IH; assumption].
  Qed.

  Lemma all_JF_on_node {R} ns k (d : R) (f : node -> node * R) :
    (forall n, JF n [] -> JF (fst (f n)) []) -> all_JF ns -> all_JF (fst (on_node place ns k d f)).
  Proof.
    intros Hf H. unfold on_node. destruct (nth_error ns (place k)) as [n|] eqn:E; [|assumption].
    specialize (Hf n (all_JF_nth _ _ _ H E)). destruct (f n) as [n' r]. simpl in *. apply all_JF_upd; assumption.
  Qed.

  Lemma all_JF_take_pk c f e ns id : all_JF ns -> all_JF (snd (fst (c_take_pk place c f e ns id))).
  Proof.
    intro H. unfold c_take_pk. destruct (nth_error ns (place (PK id))) as [n|] eqn:E; [|assumption].
    pose proof (same_cl_take_pk c f e n id) as S. destruct (take_pk c f e n id) as [[e' n'] r]. simpl in *.
    apply all_JF_upd; [assumption|]. eapply same_cl_JF; [exact S|]. eapply all_JF_nth; eauto.
  Qed.

  Lemma all_JF_cstep c s o : all_JF (snd s) -> all_JF (snd (cstep_st place c s o)).
  Proof.
    destruct s as [e ns]. unfold cstep_st. intro H. destruct o as [o|j g s0 d]; simpl.
    - destruct o as [id f|i f1 f2|w ks|ks|k v f|dt| |g s0 d|k g ttl|kc|ide]; simpl.
      + apply all_JF_take_pk. assumption.
      + unfold c_query_row_index. destruct (nth_error ns (place (IX i))) as [n|] eqn:E; [|assumption].
        pose proof (same_cl_do_get dec_pk n (IX i)) as S. destruct (do_get dec_pk n (IX i)) as [n1 g]. simpl in S.
        assert (H1 : all_JF (Model.upd (place (IX i)) n1 ns)).
        { apply all_JF_upd; [assumption|]. eapply same_cl_JF; [exact S|]. eapply all_JF_nth; eauto. }
        destruct g as [pk| | | |]; simpl; auto.
        * apply all_JF_take_pk. assumption.
        * destruct (db_find (db e) i) as [[pk [ix v]]|]; simpl.
          -- unfold c_set_with_expire.
             pose proof (all_JF_on_node (Model.upd (place (IX i)) n1 ns) (PK pk) false
                           (fun n0 => set_with_expire n0 (PK pk) (VRow pk ix v) (around f1 (expire c) + gap c))) as A.
             destruct (on_node place (Model.upd (place (IX i)) n1 ns) (PK pk) false _) as [ns2 ok]. simpl in A.
             assert (H2 : all_JF ns2).
             { apply A; [|assumption]. intros n0 Hn0. eapply same_cl_JF; [apply same_cl_swe|assumption]. }
             destruct ok; simpl; [|assumption].
             apply all_JF_on_node; [|assumption]. intros n0 Hn0. eapply same_cl_JF; [apply same_cl_swe|assumption].
          -- apply all_JF_on_node; [|assumption]. intros n0 Hn0. simpl. unfold set_not_found.
             eapply same_cl_JF; [apply same_cl_swe|assumption].
      + destruct (apply_write w (db e)); simpl; [apply all_JF_c_del|]; assumption.
      + apply all_JF_c_del. assumption.
      + pose proof (all_JF_on_node ns k RNotFound (fun n => set_cache c f n k v)) as A.
        destruct (on_node place ns k RNotFound _) as [ns1 r]. simpl in *. apply A; [|assumption].
        intros n0 Hn0. unfold set_cache. pose proof (same_cl_swe n0 k v (around f (expire c))) as S.
        destruct (set_with_expire n0 k v (around f (expire c))). simpl in *. eapply same_cl_JF; eauto.
      + apply all_JF_map; [|assumption]. intros n0 Hn0. eapply same_cl_JF; [|exact Hn0]. repeat split.
      + apply all_JF_map; [|assumption]. apply JF_do_tick.
      + apply all_JF_map; [|assumption]. intros n0 Hn0. eapply same_cl_JF; [|exact Hn0]. repeat split.
      + apply all_JF_on_node; [|assumption]. intros n0 Hn0. simpl. eapply same_cl_JF; [|exact Hn0]. repeat split.
      + assumption.
      + destruct (nth_error ns (place (PK ide))) as [n|] eqn:E; [|assumption].
        pose proof (same_cl_take_pk_dberr e n ide) as S. destruct (take_pk_dberr e n ide) as [[e' n'] r]. simpl in *.
        apply all_JF_upd; [assumption|]. eapply same_cl_JF; [exact S|]. eapply all_JF_nth; eauto.
    - destruct (nth_error ns j) as [n|] eqn:E; [|assumption].
      apply all_JF_upd; [assumption|]. eapply same_cl_JF; [|eapply all_JF_nth; eauto]. repeat split.
  Qed.

  Lemma all_JF_crun c ops : forall s, all_JF (snd s) -> all_JF (snd (crun place c ops s)).
  Proof. induction ops as [|o r IH]; intros s H; simpl; [assumption|]. apply IH. apply all_JF_cstep. assumption. Qed.

  Lemma cluster_retry_schedule c N ops :
    Forall (fun n => forall j t0 ks, In (EvArm j t0 ks) (log n) -> retry_spec (tick n) t0 (att (log n) j) = true)
           (snd (crun place c ops (init_env, repeat init_node N))).
  Proof.
    assert (H : all_JF (snd (crun place c ops (init_env, repeat init_node N)))).
    { apply all_JF_crun. simpl. unfold all_JF. apply Forall_forall. intros n Hn. apply repeat_spec in Hn. subst. apply JF_init. }
    unfold all_JF in H. rewrite Forall_forall in *. intros n Hn j t0 ks. apply JF_spec. apply H. assumption.
  Qed.
End Dispatch.
