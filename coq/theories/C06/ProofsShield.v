(* C06 Proofs, part 3: a not-found read leaves a placeholder that shields the database. *)
From God Require Import Base.Prelude C06.Spec C06.Model C06.Proofs.
From Coq Require Import QArith.
Local Open Scope Z_scope.

Inductive shield_op (id : nat) : op -> Prop :=
| so_read f : shield_op id (QueryRow id f)
| so_adv dt : shield_op id (Advance dt).

(* a read that meets a live placeholder changes nothing and does not reach the database *)
Lemma placeholder_hit c f e n id : fget n = false -> live n (PK id) = Some VStar ->
  take_pk c f e n id = (e, n, RNotFound).
Proof. intros Fg L. unfold take_pk, do_get. rewrite Fg, L. reflexivity. Qed.

(* a not-found read leaves a live placeholder (written now if the database was asked) *)
Lemma not_found_leaves_placeholder c f e n id :
  fget n = false -> fset n = false -> 0 < ceil_secs (around f (nfexpire c)) ->
  let '(e', n', r) := take_pk c f e n id in
  r = RNotFound ->
  fget n' = false /\ now n' = now n /\
  exists x, entry n' (PK id) = Some (VStar, x) /\ now n < x /\
            (dbq e' <> dbq e -> x = now n + ceil_secs (around f (nfexpire c))).
Proof.
  intros Fg Fs Hpos. unfold take_pk. pose proof (do_get_cases dec_row n (PK id)) as C.
  destruct (do_get dec_row n (PK id)) as [n1 g]. destruct C as (N & Fg1 & Fs1 & _ & C).
  destruct g as [[[a b] v]| | | |]; try discriminate.
  - destruct (db_row (db e) id) as [[ix v]|]; [discriminate|]. intros _.
    unfold set_not_found, set_with_expire. rewrite Fs1, Fs. simpl.
    split; [congruence|]. split; [assumption|].
    exists (now n1 + ceil_secs (around f (nfexpire c))). rewrite entry_setex_eq.
    split; [reflexivity|]. split; [lia|]. intros _. congruence.
  - destruct C as (_ & L & ->). intros _. split; [assumption|]. split; [reflexivity|].
    unfold live in L. destruct (entry n (PK id)) as [[v x]|]; [|discriminate].
    destruct (now n <? x) eqn:A; [|discriminate]. inversion L; subst.
    exists x. split; [reflexivity|]. split; [lia|]. intro H. congruence.
Qed.

Lemma take_pk_now c f e n id : now (snd (fst (take_pk c f e n id))) = now n.
Proof.
  pose proof (take_pk_upd (fun _ _ _ => True) c f e n id) as T.
  destruct (take_pk c f e n id) as [[e' n'] r]. destruct T as [(N & _) _]; auto.
Qed.

Lemma shield_mono c id ops : Forall (shield_op id) ops -> forall s, now (snd s) <= now (snd (run c ops s)).
Proof.
  induction 1 as [|o ops Ho _ IH]; intro s; simpl; [lia|].
  eapply Z.le_trans; [|apply IH]. destruct s as [e n]. unfold step_st. destruct Ho; simpl.
  - rewrite take_pk_now. lia.
  - lia.
Qed.

Lemma shield_run c id x ops : Forall (shield_op id) ops ->
  forall s, fget (snd s) = false -> entry (snd s) (PK id) = Some (VStar, x) ->
  now (snd (run c ops s)) < x ->
  fst (run c ops s) = fst s /\ fget (snd (run c ops s)) = false /\
  entry (snd (run c ops s)) (PK id) = Some (VStar, x).
Proof.
  induction 1 as [|o ops Ho Hops IH]; intros s Fg E Hn; simpl in *; [auto|].
  pose proof (shield_mono c id ops Hops (step_st c s o)) as M.
  destruct s as [e n]. simpl in *. destruct Ho as [f|dt]; unfold step_st in *; simpl in *.
  - rewrite take_pk_now in M.
    assert (L : live n (PK id) = Some VStar).
    { unfold live. rewrite E. assert (now n <? x = true) as -> by lia. reflexivity. }
    rewrite (placeholder_hit c f e n id Fg L) in *. simpl in *. apply IH; assumption.
  - destruct (IH (e, set_now n (now n + Z.max 0 dt))) as (A & B & C); simpl; auto.
Qed.

Lemma placeholder_shields c f e n id : fget n = false -> fset n = false ->
  0 < ceil_secs (around f (nfexpire c)) ->
  let s1 := step_st c (e, n) (QueryRow id f) in
  step_res c (e, n) (QueryRow id f) = RNotFound ->
  exists x, now n < x /\
    (dbq (fst s1) <> dbq e -> x = now n + ceil_secs (around f (nfexpire c))) /\
    forall ops, Forall (shield_op id) ops -> now (snd (run c ops s1)) < x ->
      forall f', step_res c (run c ops s1) (QueryRow id f') = RNotFound /\
                 dbq (fst (step_st c (run c ops s1) (QueryRow id f'))) = dbq (fst s1).
Proof.
  intros Fg Fs Hpos. unfold step_st, step_res. simpl.
  pose proof (not_found_leaves_placeholder c f e n id Fg Fs Hpos) as L.
  destruct (take_pk c f e n id) as [[e' n'] r]. simpl. intro R.
  destruct (L R) as (Fg' & N & x & E & Hx & Hq). exists x. split; [assumption|]. split; [assumption|].
  intros ops Hops Hn f'.
  destruct (shield_run c id x ops Hops (e', n') Fg' E Hn) as (A & B & C).
  destruct (run c ops (e', n')) as [e2 n2]. simpl in *. subst e2.
  assert (L2 : live n2 (PK id) = Some VStar).
  { unfold live. rewrite C. assert (now n2 <? x = true) as -> by lia. reflexivity. }
  rewrite (placeholder_hit c f' e' n2 id B L2). simpl. auto.
Qed.

(* one execution of the function doTake hands to the single-flight barrier asks the database at most once *)
Lemma take_pk_one_query c f e n id : (dbq (fst (fst (take_pk c f e n id))) <= S (dbq e))%nat.
Proof.
  unfold take_pk. destruct (do_get dec_row n (PK id)) as [n1 g].
  destruct g as [[[a b] v]| | | |]; simpl; try lia. destruct (db_row (db e) id) as [[ix v]|]; simpl; lia.
Qed.
