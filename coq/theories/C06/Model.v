(* C06 Model: executable transcription of the cache-aside path
     lib/store/sqlc/cachedsql.go  (CachedConn.ExecCtx, QueryRowCtx, QueryRowIndexCtx, SetCacheCtx, DelCacheCtx)
     lib/store/cache/node.go      (DelCtx, SetWithExpireCtx, TakeCtx, TakeWithExpireCtx, doGetCache, doTake,
                                   processCache, setCacheWithNotFound, asyncRetryDelCache)
     lib/store/cache/cleaner.go   (AddCleanTask, clean, nextDelay) over an ABSTRACT timer
     lib/store/cache/cluster.go   (per-key dispatch)
     lib/mathx/unstable.go        (AroundDuration, the draw resolved to its factor)
   Redis is a map key |-> (value, absolute expiry second) with three fault switches (GET / SET / DEL
   fail); the database is Spec.table with a query counter; time is in whole seconds, durations in ns.
   Sequential histories only: barrier.DoEx (single flight) runs its function directly. *)
From God Require Import Base.Prelude C06.Spec.
From Coq Require Import QArith Qround.
Local Open Scope Z_scope.

(* ---------- lib/mathx/unstable.go ---------- *)
(* AroundDuration(base) = time.Duration((1 + dev - 2*dev*u) * float64(base)), u the draw in [0,1) *)
Definition factor (dev u : Q) : Q := (1 + dev - 2 * dev * u)%Q.
(* the statement's +/-5 % (hand-written; Link.link_expireDeviation ties cache.expireDeviation to it) *)
Definition expire_deviation : Q := (1 # 20)%Q.
Definition around (f : Q) (base : Z) : Z := Qfloor (f * inject_Z base).

(* option.go newOptions: an option that is not given, or given with a duration <= 0, leaves the package default
   (defaultExpire = 7 days, defaultNotFoundExpire = 1 minute; hand-written, tied to the sources by Link.link_defaults) *)
Definition default_expire : Z := 7 * 24 * 3600 * 1000000000.
Definition default_nfexpire : Z := 60 * 1000000000.
Definition effective (given : option Z) (dflt : Z) : Z :=
  match given with
  | Some d => if d <=? 0 then dflt else d
  | None => dflt
  end.

(* options.go: Expire / NotFoundExpire (ns) ; cachedsql.go:14 the index/primary safety gap (ns) *)
Record cfg := mkC { expire : Z; nfexpire : Z; gap : Z }.

(* ---------- state ---------- *)
(* cleaner.go:25 delayTask + the wheel's due tick; t_id stands for the random timer key *)
Record task := mkT { t_id : nat; t_due : Z; t_delay : Z; t_keys : list key }.
Inductive event := EvArm (id : nat) (tk : Z) (ks : list key) | EvTry (id : nat) (tk : Z) (ok : bool).

Record node := mkN {
  redis : list (key * (cval * Z));
  now : Z;                           (* Redis server clock, seconds *)
  fget : bool; fset : bool; fdel : bool;  (* injected faults: GET / SET / DEL answer an error *)
  tick : Z;                          (* ticks of the cleaner's timer (1 s each) *)
  pending : list task;
  next_id : nat;
  log : list event
}.
Record env := mkE { db : table; dbq : nat }.

Definition init_node : node := mkN [] 0 false false false 0 [] 0 [].
Definition init_env : env := mkE [] 0.

Definition set_redis (n : node) (r : list (key * (cval * Z))) : node :=
  mkN r (now n) (fget n) (fset n) (fdel n) (tick n) (pending n) (next_id n) (log n).
Definition set_now (n : node) (t : Z) : node :=
  mkN (redis n) t (fget n) (fset n) (fdel n) (tick n) (pending n) (next_id n) (log n).
Definition set_faults (n : node) (g s d : bool) : node :=
  mkN (redis n) (now n) g s d (tick n) (pending n) (next_id n) (log n).
Definition set_tick (n : node) (t : Z) : node :=
  mkN (redis n) (now n) (fget n) (fset n) (fdel n) t (pending n) (next_id n) (log n).
Definition set_pending (n : node) (p : list task) : node :=
  mkN (redis n) (now n) (fget n) (fset n) (fdel n) (tick n) p (next_id n) (log n).
Definition set_next_id (n : node) (i : nat) : node :=
  mkN (redis n) (now n) (fget n) (fset n) (fdel n) (tick n) (pending n) i (log n).
Definition add_log (n : node) (e : event) : node :=
  mkN (redis n) (now n) (fget n) (fset n) (fdel n) (tick n) (pending n) (next_id n) (log n ++ [e]).
Definition incr_q (e : env) : env := mkE (db e) (S (dbq e)).

(* ---------- Redis primitives (lib/store/redis GetCtx / SetExCtx / DelCtx when they succeed) ---------- *)
Definition entry (n : node) (k : key) : option (cval * Z) := alookup key_eqb k (redis n).
Definition live (n : node) (k : key) : option cval :=
  match entry n k with
  | Some (v, e) => if now n <? e then Some v else None
  | None => None
  end.
Definition r_setex (n : node) (k : key) (v : cval) (ttl : Z) : node :=
  set_redis n (aset key_eqb k (v, now n + ttl) (redis n)).
Definition r_del (n : node) (ks : list key) : node :=
  set_redis n (fold_left (fun r k => aremove key_eqb k r) ks (redis n)).

(* node.go:111 SetWithExpireCtx -> SetExCtx(key, json, int(math.Ceil(expire.Seconds()))) ; error returned *)
Definition set_with_expire (n : node) (k : key) (v : cval) (d : Z) : node * bool :=
  if fset n then (n, false) else (r_setex n k v (ceil_secs d), true).

(* ---------- lib/store/cache/cleaner.go over the abstract timer ---------- *)
(* timingWheel.SetTimer(key, dt, d): due at the current tick + floor(d / 1s) *)
Definition arm (n : node) (id : nat) (d : Z) (ks : list key) : node :=
  set_pending n (pending n ++ [mkT id (tick n + d / sec) d ks]).

(* cleaner.go:42 AddCleanTask: delay = time.Second, fresh random key *)
Definition add_clean_task (n : node) (ks : list key) : node :=
  let id := next_id n in
  add_log (set_next_id (arm n id sec ks) (S id)) (EvArm id (tick n) ks).

(* cleaner.go:71 nextDelay *)
Definition next_delay (d : Z) : option Z :=
  if d =? sec then Some (5 * sec)
  else if d =? 5 * sec then Some (60 * sec)
  else if d =? 60 * sec then Some (300 * sec)
  else if d =? 300 * sec then Some (3600 * sec)
  else None.

(* cleaner.go:50 clean: run the task (rds.Del(keys...)); nil -> done; else re-arm with nextDelay or give up *)
Definition clean (n : node) (t : task) : node :=
  let ok := negb (fdel n) in
  let n1 := if ok then r_del n (t_keys t) else n in
  let n2 := add_log n1 (EvTry (t_id t) (tick n) ok) in
  if ok then n2
  else match next_delay (t_delay t) with
       | Some d' => arm n2 (t_id t) d' (t_keys t)
       | None => n2
       end.

(* one tick of the abstract timer: the tasks that are due fire, in order *)
Definition is_due (tk : Z) (t : task) : bool := t_due t <=? tk.
Definition do_tick (n : node) : node :=
  let tk := tick n + 1 in
  let n0 := set_tick n tk in
  fold_left clean (filter (is_due tk) (pending n0))
            (set_pending n0 (filter (fun t => negb (is_due tk t)) (pending n0))).

(* ---------- lib/store/cache/node.go ---------- *)
(* node.go:64 DelCtx (rds.Type = node): one DEL; failure -> asyncRetryDelCache -> AddCleanTask; returns nil *)
Definition del_ctx (n : node) (ks : list key) : node :=
  match ks with
  | [] => n
  | _ => if fdel n then add_clean_task n ks else r_del n ks
  end.

(* jsonx.Unmarshal of the cached string into the destination type *)
Inductive dres (A : Type) := DOk (a : A) | DBad | DOther.
Arguments DOk {A} a. Arguments DBad {A}. Arguments DOther {A}.
(* destination: the row struct *)
Definition dec_row (v : cval) : dres (nat * nat * nat) :=
  match v with VRow a b c => DOk (a, b, c) | _ => DBad end.
(* destination: *any (the primary key); a JSON object also unmarshals (into a map): not modelled *)
Definition dec_pk (v : cval) : dres nat :=
  match v with VPk a => DOk a | VRow _ _ _ => DOther | _ => DBad end.

Inductive gres (A : Type) := GHit (a : A) | GMiss | GStar | GErr | GOther.
Arguments GHit {A} a. Arguments GMiss {A}. Arguments GStar {A}. Arguments GErr {A}. Arguments GOther {A}.

(* node.go:169 doGetCache + node.go:239 processCache *)
Definition do_get {A} (dec : cval -> dres A) (n : node) (k : key) : node * gres A :=
  if fget n then (n, GErr)                               (* redis error: returned as is *)
  else match live n k with
       | None => (n, GMiss)                              (* "" -> errNotFound *)
       | Some VStar => (n, GStar)                        (* "*" -> errPlaceholder *)
       | Some v =>
           match dec v with
           | DOk a => (n, GHit a)
           | DBad => ((if fdel n then n else r_del n [k]), GMiss)  (* delete (error only logged), reload *)
           | DOther => (n, GOther)
           end
       end.

(* node.go:263 setCacheWithNotFound (error only logged) *)
Definition set_not_found (c : cfg) (f : Q) (n : node) (k : key) : node :=
  fst (set_with_expire n k VStar (around f (nfexpire c))).

(* cachedsql.go:133 QueryRowCtx = node.go:141 TakeCtx -> doTake with query = primary-key lookup and
   cacheVal = SetCtx(key, val) = SetWithExpireCtx(..., aroundDuration(expire)) (error only logged) *)
Definition take_pk (c : cfg) (f : Q) (e : env) (n : node) (id : nat) : env * node * rres :=
  let (n1, g) := do_get dec_row n (PK id) in
  match g with
  | GErr => (e, n1, RCacheErr)
  | GStar => (e, n1, RNotFound)
  | GOther => (e, n1, RUnmodelled)
  | GHit (a, b, v) => (e, n1, RRow a b v)
  | GMiss =>
      let e1 := incr_q e in
      match db_row (db e) id with
      | None => (e1, set_not_found c f n1 (PK id), RNotFound)
      | Some (ix, v) =>
          (e1, fst (set_with_expire n1 (PK id) (VRow id ix v) (around f (expire c))), RRow id ix v)
      end
  end.

(* doTake when the query fails with another error (node.go:209-212): the cache answers if it can; after a miss the
   error is returned (IncrDbFails) and nothing is stored *)
Definition take_pk_dberr (e : env) (n : node) (id : nat) : env * node * rres :=
  let (n1, g) := do_get dec_row n (PK id) in
  match g with
  | GErr => (e, n1, RCacheErr)
  | GStar => (e, n1, RNotFound)
  | GOther => (e, n1, RUnmodelled)
  | GHit (a, b, v) => (e, n1, RRow a b v)
  | GMiss => (incr_q e, n1, RDbErr)
  end.

(* cachedsql.go:153 QueryRowIndexCtx on one node: TakeWithExpireCtx draws the expiry first (f1); the
   index query stores the row under the primary key with expire + gap and returns that set's error;
   then the index entry is stored with expire; on an index hit the row is taken by primary key (f2) *)
Definition query_row_index (c : cfg) (f1 f2 : Q) (e : env) (n : node) (i : nat) : env * node * rres :=
  let ex := around f1 (expire c) in
  let (n1, g) := do_get dec_pk n (IX i) in
  match g with
  | GErr => (e, n1, RCacheErr)
  | GStar => (e, n1, RNotFound)
  | GOther => (e, n1, RUnmodelled)
  | GHit pk => take_pk c f2 e n1 pk
  | GMiss =>
      let e1 := incr_q e in
      match db_find (db e) i with
      | None => (e1, set_not_found c f2 n1 (IX i), RNotFound)
      | Some (pk, (ix, v)) =>
          let (n2, ok) := set_with_expire n1 (PK pk) (VRow pk ix v) (ex + gap c) in
          if ok then (e1, fst (set_with_expire n2 (IX i) (VPk pk) ex), RRow pk ix v)
          else (e1, n2, RCacheErr)
      end
  end.

(* cachedsql.go:100 ExecCtx: exec against the DB; on success DelCacheCtx(keys...) (which returns nil) *)
Definition exec (e : env) (n : node) (w : write) (ks : list key) : env * node * rres :=
  match apply_write w (db e) with
  | None => (e, n, RExecErr)
  | Some t' => (mkE t' (dbq e), del_ctx n ks, ROk)
  end.

(* cachedsql.go:211 SetCacheCtx = node.SetCtx: the set error is returned *)
Definition set_cache (c : cfg) (f : Q) (n : node) (k : key) (v : cval) : node * rres :=
  let (n1, ok) := set_with_expire n k v (around f (expire c)) in
  (n1, if ok then ROk else RCacheErr).

(* ---------- histories on one node ---------- *)
Inductive op :=
| QueryRow (id : nat) (f : Q)
| QueryRowIndex (i : nat) (f1 f2 : Q)
| Exec (w : write) (ks : list key)
| DelCache (ks : list key)
| SetCache (k : key) (v : cval) (f : Q)
| Advance (dt : Z)                     (* Redis time passes *)
| Tick                                 (* the cleaner's timer ticks once *)
| Fault (g s d : bool)                 (* Down = Fault true true true, Up = Fault false false false *)
| Corrupt (k : key) (g : nat) (ttl : Z) (* somebody else writes a non-JSON string *)
| QueryCancelled (k : key)            (* QueryRow (PK) / QueryRowIndex (IX) with an already cancelled context *)
| QueryRowDbErr (id : nat).           (* QueryRow whose database query fails with an error other than not-found *)

Definition step (c : cfg) (s : env * node) (o : op) : env * node * rres :=
  let (e, n) := s in
  match o with
  | QueryRow id f => take_pk c f e n id
  | QueryRowIndex i f1 f2 => query_row_index c f1 f2 e n i
  | Exec w ks => exec e n w ks
  | DelCache ks => (e, del_ctx n ks, ROk)
  | SetCache k v f => let (n1, r) := set_cache c f n k v in (e, n1, r)
  | Advance dt => (e, set_now n (now n + Z.max 0 dt), ROk)
  | Tick => (e, do_tick n, ROk)
  | Fault g s d => (e, set_faults n g s d, ROk)
  | Corrupt k g ttl => (e, r_setex n k (VBad g) ttl, ROk)
  (* node.go:169-175 doGetCache: rds.GetCtx under a cancelled context answers context.Canceled, which doTake
     returns as it is (node.go:196-202): no database query, nothing stored *)
  | QueryCancelled k => (e, n, RCtxErr)
  | QueryRowDbErr id => take_pk_dberr e n id
  end.

Definition step_st (c : cfg) (s : env * node) (o : op) : env * node := fst (step c s o).
Definition step_res (c : cfg) (s : env * node) (o : op) : rres := snd (step c s o).
Definition run (c : cfg) (ops : list op) (s : env * node) : env * node := fold_left (step_st c) ops s.

(* ---------- lib/store/cache/cluster.go: per-key dispatch over a key |-> node function ---------- *)
(* the dispatcher (consistent hash, C13) is a total function on a non-empty ring; here a function
   place : key -> nat with place k < number of nodes (otherwise the cluster answers errNotFound) *)
Definition upd {A} (j : nat) (x : A) (l : list A) : list A :=
  (fix go (j : nat) (l : list A) := match l, j with
     | [], _ => []
     | _ :: r, O => x :: r
     | y :: r, S j' => y :: go j' r end) j l.

Section Cluster.
  Variable place : key -> nat.

  Definition on_node {R} (ns : list node) (k : key) (dflt : R) (f : node -> node * R) : list node * R :=
    match nth_error ns (place k) with
    | Some n => let (n', r) := f n in (upd (place k) n' ns, r)
    | None => (ns, dflt)
    end.

  (* cluster.go:22 DelCtx: keys grouped per node, one node.DelCtx per group *)
  Fixpoint c_del_from (j : nat) (ns : list node) (ks : list key) : list node :=
    match ns with
    | [] => []
    | n :: r => del_ctx n (filter (fun k => Nat.eqb (place k) j) ks) :: c_del_from (S j) r ks
    end.
  Definition c_del (ns : list node) (ks : list key) : list node := c_del_from 0 ns ks.

  Definition c_take_pk (c : cfg) (f : Q) (e : env) (ns : list node) (id : nat) : env * list node * rres :=
    match nth_error ns (place (PK id)) with
    | Some n => let '(e', n', r) := take_pk c f e n id in (e', upd (place (PK id)) n' ns, r)
    | None => (e, ns, RNotFound)
    end.

  Definition c_set_with_expire (ns : list node) (k : key) (v : cval) (d : Z) : list node * bool :=
    on_node ns k false (fun n => set_with_expire n k v d).

  (* QueryRowIndexCtx through the cluster: the index key and the primary key may live on different nodes *)
  Definition c_query_row_index (c : cfg) (f1 f2 : Q) (e : env) (ns : list node) (i : nat) : env * list node * rres :=
    let ex := around f1 (expire c) in
    match nth_error ns (place (IX i)) with
    | None => (e, ns, RNotFound)
    | Some n =>
        let (n1, g) := do_get dec_pk n (IX i) in
        let ns1 := upd (place (IX i)) n1 ns in
        match g with
        | GErr => (e, ns1, RCacheErr)
        | GStar => (e, ns1, RNotFound)
        | GOther => (e, ns1, RUnmodelled)
        | GHit pk => c_take_pk c f2 e ns1 pk
        | GMiss =>
            let e1 := incr_q e in
            match db_find (db e) i with
            | None =>
                (e1, fst (on_node ns1 (IX i) tt (fun n => (set_not_found c f2 n (IX i), tt))), RNotFound)
            | Some (pk, (ix, v)) =>
                let (ns2, ok) := c_set_with_expire ns1 (PK pk) (VRow pk ix v) (ex + gap c) in
                if ok then (e1, fst (c_set_with_expire ns2 (IX i) (VPk pk) ex), RRow pk ix v)
                else (e1, ns2, RCacheErr)
            end
        end
    end.

  (* cluster ops: the node-level ops plus a per-node fault switch *)
  Inductive cop := COp (o : op) | CFault (j : nat) (g s d : bool).

  Definition cstep (c : cfg) (s : env * list node) (o : cop) : env * list node * rres :=
    let (e, ns) := s in
    match o with
    | CFault j g s d =>
        (e, match nth_error ns j with Some n => upd j (set_faults n g s d) ns | None => ns end, ROk)
    | COp (QueryRow id f) => c_take_pk c f e ns id
    | COp (QueryRowIndex i f1 f2) => c_query_row_index c f1 f2 e ns i
    | COp (Exec w ks) =>
        match apply_write w (db e) with
        | None => (e, ns, RExecErr)
        | Some t' => (mkE t' (dbq e), c_del ns ks, ROk)
        end
    | COp (DelCache ks) => (e, c_del ns ks, ROk)
    | COp (SetCache k v f) =>
        let (ns1, r) := on_node ns k RNotFound (fun n => set_cache c f n k v) in (e, ns1, r)
    | COp (Advance dt) => (e, map (fun n => set_now n (now n + Z.max 0 dt)) ns, ROk)
    | COp Tick => (e, map do_tick ns, ROk)
    | COp (Fault g s d) => (e, map (fun n => set_faults n g s d) ns, ROk)
    | COp (Corrupt k g ttl) => (e, fst (on_node ns k tt (fun n => (r_setex n k (VBad g) ttl, tt))), ROk)
    | COp (QueryCancelled k) => (e, ns, RCtxErr)
    | COp (QueryRowDbErr id) =>
        match nth_error ns (place (PK id)) with
        | Some n => let '(e', n', r) := take_pk_dberr e n id in (e', upd (place (PK id)) n' ns, r)
        | None => (e, ns, RNotFound)
        end
    end.

  Definition cstep_st (c : cfg) (s : env * list node) (o : cop) : env * list node := fst (cstep c s o).
  Definition crun (c : cfg) (ops : list cop) (s : env * list node) : env * list node :=
    fold_left (cstep_st c) ops s.
End Cluster.
