(* C06 ProofsConc: the concurrent cache-aside LTS (ModelConc.CA), for ALL schedules and any number of
   threads: at most one database query in flight per key; coherence of the cache at every state in which
   no writer sits between its write and its delete and no reader has stored a value it read before a
   later write; witnesses for the classic read/write race and for the wrong order delete-then-write. *)
From God Require Import Base.Prelude C06.ModelConc.
From God Require C18.Conc.
Import C18.Conc CA.

Definition key_of (s : state) (u : nat) : nat := k_key (t_op (ts s u)).
Definition pc_of (s : state) (u : nat) : pc := t_pc (ts s u).

(* ---------- flights: one executing call per key ---------- *)
Definition FL (s : state) : Prop :=
  (forall u f, leader_of (pc_of s u) = Some f -> flights s (key_of s u) = Some f) /\
  (forall u v f g, leader_of (pc_of s u) = Some f -> leader_of (pc_of s v) = Some g ->
                   key_of s u = key_of s v -> u = v).

Lemma FL_same s s' : flights s' = flights s ->
  (forall u, leader_of (pc_of s' u) = leader_of (pc_of s u) /\
             (leader_of (pc_of s u) <> None -> key_of s' u = key_of s u)) ->
  FL s -> FL s'.
Proof.
  intros Hf Hu [A B]. split.
  - intros u f H. destruct (Hu u) as [E K]. rewrite E in H. rewrite Hf, K by congruence. auto.
  - intros u v f g H1 H2 Hk. destruct (Hu u) as [E1 K1]. destruct (Hu v) as [E2 K2].
    rewrite E1 in H1. rewrite E2 in H2. rewrite K1, K2 in Hk by congruence. eauto.
Qed.

Lemma mark_leader k x : leader_of (t_pc (mark k x)) = leader_of (t_pc x) /\ k_key (t_op (mark k x)) = k_key (t_op x).
Proof. unfold mark. destruct (Nat.eqb _ k); [|auto]. destruct (t_pc x) eqn:E; simpl; rewrite ?E; auto. Qed.

Ltac upd_cases u t := destruct (Nat.eq_dec u t) as [->|?]; [rewrite ?upd_same | rewrite ?upd_other by assumption].

Lemma FL_step l s s' : FL s -> step l s = Some s' -> FL s'.
Proof.
  intros HF H. destruct l as [t|g|d]; simpl in H.
  2:{ inversion H; subst. apply FL_same with (s := s); [reflexivity| |exact HF]. intro u. unfold pc_of, key_of. simpl. auto. }
  2:{ inversion H; subst. apply FL_same with (s := s); [reflexivity| |exact HF]. intro u. unfold pc_of, key_of. simpl.
      upd_cases u d; simpl; auto. }
  pose proof HF as [A B].
  (* steps that keep the flight table and every thread's leadership *)
  assert (Same : forall x' tr dq rc ca dbv,
            leader_of (t_pc x') = leader_of (t_pc (ts s t)) ->
            (leader_of (t_pc (ts s t)) <> None -> k_key (t_op x') = k_key (t_op (ts s t))) ->
            FL (mk (wfirst s) dbv ca (flights s) (fres s) (next s) (open s) (upd (ts s) t x') dq rc tr)).
  { intros x' tr dq rc ca dbv E K. apply FL_same with (s := s); [reflexivity| |exact HF]. intro u. unfold pc_of, key_of. simpl.
    upd_cases u t; auto. }
  assert (SameW : forall x' tr dq rc ca dbv k,
            leader_of (t_pc x') = None -> leader_of (t_pc (ts s t)) = None ->
            FL (mk (wfirst s) dbv ca (flights s) (fres s) (next s) (open s) (upd (fun u => mark k (ts s u)) t x') dq rc tr)).
  { intros x' tr dq rc ca dbv k E E0. apply FL_same with (s := s); [reflexivity| |exact HF]. intro u. unfold pc_of, key_of. simpl.
    upd_cases u t; [rewrite E, E0; split; [reflexivity|congruence]|]. destruct (mark_leader k (ts s u)) as [M1 M2].
    rewrite M1, M2. auto. }
  destruct (t_pc (ts s t)) eqn:P.
  - (* Idle *) destruct (t_todo (ts s t)) as [|o rest]; [discriminate|]. inversion H; subst.
    apply Same; simpl; [destruct (k_set o); destruct (k_writer o); reflexivity | congruence].
  - (* RStart *) destruct (flights s (k_key (t_op (ts s t)))) as [f|] eqn:Fk.
    + inversion H; subst. apply Same; simpl; congruence.
    + inversion H; subst. clear H. split.
      * intros u f Hl. unfold pc_of, key_of in *. simpl in *. revert Hl. upd_cases u t; simpl; intro Hl.
        -- inversion Hl; subst. simpl. rewrite ?upd_same. reflexivity.
        -- pose proof (A u f Hl) as Au. unfold key_of in Au.
           rewrite upd_other; [assumption|]. intro E. rewrite E in Au. congruence.
      * intros u v f g H1 H2 Hk. unfold pc_of, key_of in *. simpl in *.
        revert H1 H2 Hk. upd_cases u t; upd_cases v t; simpl; intros H1 H2 Hk; auto.
        -- exfalso. pose proof (A v g H2) as Av. unfold key_of in Av. rewrite <- Hk in Av. congruence.
        -- exfalso. pose proof (A u f H1) as Au. unfold key_of in Au. rewrite Hk in Au. congruence.
        -- eapply B; eauto.
  - (* RWait *) destruct (fres s f); [|discriminate]. inversion H; subst. apply Same; simpl; congruence.
  - (* RGet *) destruct (t_cancel (ts s t)); [inversion H; subst; apply Same; simpl; auto|].
    destruct (cache s (k_key (t_op (ts s t)))); inversion H; subst; apply Same; simpl; auto.
  - (* RQ0 *) destruct (t_cancel (ts s t)); [inversion H; subst; apply Same; simpl; auto|].
    destruct (gate_open _ _); [|discriminate]. inversion H; subst. apply Same; simpl; auto.
  - (* RQ1 *) destruct (t_cancel (ts s t)); [inversion H; subst; apply Same; simpl; auto|].
    destruct (gate_open _ _); [|discriminate]. inversion H; subst. apply Same; simpl; auto.
  - (* RSet *) destruct (gate_open _ _); [|discriminate]. inversion H; subst. apply Same; simpl; auto.
  - (* REnd: the flight is unregistered *)
    inversion H; subst. clear H. split.
    + intros u f0 Hl. unfold pc_of, key_of in *. simpl in *. revert Hl. upd_cases u t; simpl; intro Hl; [discriminate|].
      rewrite upd_other; [apply A; assumption|]. intro E.
      assert (u = t); [|contradiction]. eapply B; [exact Hl | unfold pc_of; rewrite P; reflexivity | exact E].
    + intros u v f0 g H1 H2 Hk. unfold pc_of, key_of in *. simpl in *.
      revert H1 H2 Hk. upd_cases u t; upd_cases v t; simpl; intros H1 H2 Hk; try discriminate; auto. eapply B; eauto.
  - (* W0 *) destruct (wfirst s); destruct (gate_open _ _); try discriminate; inversion H; subst.
    + apply SameW; simpl; auto.
    + apply Same; simpl; auto.
  - (* W1 *) destruct (gate_open _ _); [|discriminate]. inversion H; subst. apply Same; simpl; auto.
  - (* W2 *) destruct (wfirst s); destruct (gate_open _ _); try discriminate; inversion H; subst.
    + apply Same; simpl; auto.
    + apply SameW; simpl; auto.
  - (* SSet *) inversion H; subst. apply Same; simpl; auto.
Qed.

Lemma FL_init wf scripts : FL (init wf scripts).
Proof. split; unfold pc_of; simpl; intros; discriminate. Qed.

Lemma one_query_in_flight wf scripts sched t u :
  let s := run step sched (init wf scripts) in
  querying (pc_of s t) = true -> querying (pc_of s u) = true -> key_of s t = key_of s u -> t = u.
Proof.
  intros s Ht Hu Hk.
  assert (HF : FL s) by (apply (run_inv step FL); [intros; eapply FL_step; eauto | apply FL_init]).
  destruct HF as [_ B].
  assert (L : forall p, querying p = true -> exists f, leader_of p = Some f) by (intros p; destruct p; simpl; try discriminate; eauto).
  destruct (L _ Ht) as [f Hf]. destruct (L _ Hu) as [g Hg]. eapply B; eauto.
Qed.

(* ---------- coherence under concurrency (write, then delete) ---------- *)
Definition fresh_val (p : pc) : option nat :=
  match p with RQ1 _ v false | RSet _ v false => Some v | _ => None end.

Definition CO (s : state) : Prop :=
  wfirst s = true /\
  (* a reader that has read the database with no write since carries the current row *)
  (forall u v, fresh_val (pc_of s u) = Some v -> v = db s (key_of s u)) /\
  (* a cache entry is the current row, unless a writer has written and not yet deleted, or a reader stored
     a value it had read before a later write *)
  (forall k x, cache s k = Some x ->
     x = db s k \/ raced s = true \/ exists u, wpending (pc_of s u) = true /\ key_of s u = k).

Lemma CO_same s s' : wfirst s' = wfirst s -> db s' = db s -> cache s' = cache s -> raced s' = raced s ->
  (forall u v, fresh_val (pc_of s' u) = Some v ->
     (fresh_val (pc_of s u) = Some v /\ key_of s' u = key_of s u) \/ v = db s (key_of s' u)) ->
  (forall u, wpending (pc_of s u) = true -> wpending (pc_of s' u) = true /\ key_of s' u = key_of s u) ->
  CO s -> CO s'.
Proof.
  intros Hw Hd Hc Hr HR HP (W & R & C). split; [congruence|]. split.
  - intros u v H. rewrite Hd. destruct (HR u v H) as [[H1 H2]|H1]; [rewrite H2; auto | assumption].
  - intros k x H. rewrite Hc in H. rewrite Hd, Hr. destruct (C k x H) as [?|[?|(u & P & K)]]; auto.
    right; right. exists u. destruct (HP u P) as [P' K']. split; [assumption|congruence].
Qed.

Lemma mark_props k x :
  k_key (t_op (mark k x)) = k_key (t_op x) /\ wpending (t_pc (mark k x)) = wpending (t_pc x) /\
  (forall v, fresh_val (t_pc (mark k x)) = Some v -> fresh_val (t_pc x) = Some v /\ k_key (t_op x) <> k).
Proof.
  unfold mark. destruct (Nat.eqb_spec (k_key (t_op x)) k) as [E|E].
  - destruct (t_pc x) eqn:P; simpl; rewrite ?P; repeat split; auto; try discriminate.
  - repeat split; auto.
Qed.

Lemma CO_step l s s' : CO s -> step l s = Some s' -> CO s'.
Proof.
  intros HC H. destruct l as [t|g|d]; simpl in H.
  2:{ inversion H; subst. apply CO_same with (s := s); auto; intros; unfold pc_of, key_of in *; simpl in *; auto. }
  2:{ inversion H; subst. apply CO_same with (s := s); auto; unfold pc_of, key_of; simpl.
      - intros u v. upd_cases u d; simpl; auto.
      - intros u. upd_cases u d; simpl; auto. }
  pose proof HC as (W & R & C).
  (* steps that change only thread t's control state *)
  assert (Same : forall x' tr dq,
            (forall v, fresh_val (t_pc x') = Some v ->
               (fresh_val (t_pc (ts s t)) = Some v /\ k_key (t_op x') = k_key (t_op (ts s t))) \/ v = db s (k_key (t_op x'))) ->
            (wpending (t_pc (ts s t)) = true -> wpending (t_pc x') = true /\ k_key (t_op x') = k_key (t_op (ts s t))) ->
            CO (mk (wfirst s) (db s) (cache s) (flights s) (fres s) (next s) (open s) (upd (ts s) t x') dq (raced s) tr)).
  { intros x' tr dq HR HP. apply CO_same with (s := s); auto; unfold pc_of, key_of; simpl.
    - intros u v. upd_cases u t; auto.
    - intros u. upd_cases u t; auto. }
  destruct (t_pc (ts s t)) eqn:P.
  - destruct (t_todo (ts s t)) as [|o rest]; [discriminate|]. inversion H; subst.
    apply Same; simpl; [destruct (k_set o); destruct (k_writer o); discriminate | discriminate].
  - destruct (flights s (k_key (t_op (ts s t)))) as [f|].
    + inversion H; subst. apply Same; simpl; discriminate.
    + inversion H; subst. apply CO_same with (s := s); auto; unfold pc_of, key_of; simpl.
      * intros u v. upd_cases u t; simpl; [discriminate|auto].
      * intros u. upd_cases u t; simpl; [rewrite P; discriminate|auto].
  - destruct (fres s f); [|discriminate]. inversion H; subst. apply Same; simpl; discriminate.
  - destruct (t_cancel (ts s t)); [inversion H; subst; apply Same; simpl; discriminate|].
    destruct (cache s (k_key (t_op (ts s t)))); inversion H; subst; apply Same; simpl; discriminate.
  - destruct (t_cancel (ts s t)); [inversion H; subst; apply Same; simpl; discriminate|].
    destruct (gate_open _ _); [|discriminate]. inversion H; subst. apply Same; simpl; [|discriminate].
    intros v E. inversion E; subst. right. reflexivity.
  - destruct (t_cancel (ts s t)); [inversion H; subst; apply Same; simpl; discriminate|].
    destruct (gate_open _ _); [|discriminate]. inversion H; subst. apply Same; simpl; [|discriminate].
    intros v0 E. left. split; [|reflexivity]. destruct d; [discriminate|assumption].
  - (* RSet: the entry is written *)
    destruct (gate_open _ _); [|discriminate]. inversion H; subst. clear H. split; [assumption|]. split.
    + intros u v0. unfold pc_of, key_of. simpl. upd_cases u t; simpl; [discriminate|]. apply R.
    + intros k x. simpl. unfold upd at 1. destruct (Nat.eqb_spec k (k_key (t_op (ts s t)))) as [->|Hk].
      * intro E. inversion E; subst. destruct d; [right; left; apply orb_true_r|].
        left. apply (R t x). unfold pc_of. rewrite P. reflexivity.
      * intro E. destruct (C k x E) as [?|[Hr|(u & Pu & Ku)]]; auto.
        -- right; left. rewrite Hr. reflexivity.
        -- right; right. exists u. unfold pc_of, key_of in *. simpl. upd_cases u t; [rewrite P in Pu; discriminate|auto].
  - inversion H; subst. apply CO_same with (s := s); auto; unfold pc_of, key_of; simpl.
    + intros u v. upd_cases u t; simpl; [discriminate|auto].
    + intros u. upd_cases u t; simpl; [rewrite P; discriminate|auto].
  - (* W0: the database write *)
    rewrite W in H. destruct (gate_open _ _); [|discriminate]. inversion H; subst. clear H.
    set (k := k_key (t_op (ts s t))). split; [reflexivity|]. split.
    + intros u v. unfold pc_of, key_of. simpl. upd_cases u t; simpl; [discriminate|].
      intro E. destruct (mark_props k (ts s u)) as (K & _ & F). destruct (F v E) as [E' Hne].
      rewrite K. rewrite upd_other by assumption. apply R. assumption.
    + intros k' x E. simpl in *. destruct (Nat.eq_dec k' k) as [->|Hk].
      * right; right. exists t. unfold pc_of, key_of. simpl. rewrite upd_same. simpl. auto.
      * rewrite upd_other by assumption. destruct (C k' x E) as [?|[?|(u & Pu & Ku)]]; auto.
        right; right. exists u. unfold pc_of, key_of in *. simpl. upd_cases u t; [rewrite P in Pu; discriminate|].
        destruct (mark_props k (ts s u)) as (K & Wp & _). rewrite K, Wp. auto.
  - destruct (gate_open _ _); [|discriminate]. inversion H; subst. apply Same; simpl; [discriminate|auto].
  - (* W2: the delete *)
    rewrite W in H. destruct (gate_open _ _); [|discriminate]. inversion H; subst. clear H.
    set (k := k_key (t_op (ts s t))). split; [reflexivity|]. split.
    + intros u v. unfold pc_of, key_of. simpl. upd_cases u t; simpl; [discriminate|]. apply R.
    + intros k' x. simpl. unfold upd at 1. destruct (Nat.eqb_spec k' k) as [->|Hk]; [discriminate|].
      intro E. destruct (C k' x E) as [?|[?|(u & Pu & Ku)]]; auto.
      right; right. exists u. unfold pc_of, key_of in *. simpl. upd_cases u t; [exfalso; apply Hk; symmetry; exact Ku|auto].
  - (* SSet: the caller's row is stored *)
    inversion H; subst. clear H. split; [assumption|]. split.
    + intros u v0. unfold pc_of, key_of. simpl. upd_cases u t; simpl; [discriminate|]. apply R.
    + intros k x. simpl. unfold upd at 1. destruct (Nat.eqb_spec k (k_key (t_op (ts s t)))) as [->|Hk].
      * intro E. inversion E; subst.
        destruct (Nat.eqb_spec (k_val (t_op (ts s t))) (db s (k_key (t_op (ts s t))))) as [Ev|Ev];
          [left; exact Ev | right; left; apply orb_true_r].
      * intro E. destruct (C k x E) as [?|[Hr|(u & Pu & Ku)]]; auto.
        -- right; left. rewrite Hr. reflexivity.
        -- right; right. exists u. unfold pc_of, key_of in *. simpl. upd_cases u t; [rewrite P in Pu; discriminate|auto].
Qed.

Lemma CO_init scripts : CO (init true scripts).
Proof. split; [reflexivity|]. split; unfold pc_of; simpl; intros; discriminate. Qed.

(* every schedule, any number of readers and writers: once no writer sits between its write and its
   delete, and no reader has stored a value read before a later write, the cache holds nothing but
   current rows *)
Lemma coherent_concurrent scripts sched k :
  let s := run step sched (init true scripts) in
  raced s = false -> (forall u, wpending (pc_of s u) = true -> key_of s u <> k) ->
  cache s k = None \/ cache s k = Some (db s k).
Proof.
  intros s Hr Hw.
  assert (HC : CO s) by (apply (run_inv step CO); [intros; eapply CO_step; eauto | apply CO_init]).
  destruct HC as (_ & _ & C). destruct (cache s k) as [x|] eqn:E; [|auto]. right.
  destruct (C k x E) as [->|[?|(u & Pu & Ku)]]; [reflexivity | congruence | exfalso; eapply Hw; eauto].
Qed.

(* ... and a read from such a state answers the current row: its GET hits the current row or misses,
   and after a miss the query reads the database *)
Lemma read_after_quiescence s t f :
  pc_of s t = RGet f -> t_cancel (ts s t) = false ->
  (cache s (key_of s t) = None \/ cache s (key_of s t) = Some (db s (key_of s t))) ->
  exists s', step (Thr t) s = Some s' /\
    (pc_of s' t = REnd f (Some (db s (key_of s t))) \/ pc_of s' t = RQ0 f).
Proof.
  unfold pc_of, key_of. intros P Cn H. simpl. rewrite P, Cn.
  destruct H as [E|E]; rewrite E; eexists; (split; [reflexivity|]); simpl; rewrite upd_same; simpl; auto.
Qed.

(* the ghost flag is raised only by a reader that stores after a write that followed its database read *)
Lemma raced_only_by_straddle l s s' : step l s = Some s' -> raced s = false -> raced s' = true ->
  exists t, l = Thr t /\
    ((exists f v, pc_of s t = RSet f v true) \/
     (pc_of s t = SSet /\ k_val (t_op (ts s t)) <> db s (key_of s t))).
Proof.
  intros H R0 R1. destruct l as [t|g|d]; simpl in H; try (inversion H; subst; simpl in R1; congruence).
  destruct (t_pc (ts s t)) eqn:P;
    repeat match type of H with
           | match ?x with _ => _ end = _ => destruct x eqn:?
           | (if ?x then _ else _) = _ => destruct x eqn:?
           end; try discriminate; inversion H; subst; simpl in R1; try congruence.
  - rewrite R0 in R1. simpl in R1. subst. exists t. split; [reflexivity|]. left. exists f, v. unfold pc_of. auto.
  - rewrite R0 in R1. simpl in R1. exists t. split; [reflexivity|]. right. unfold pc_of, key_of. split; [assumption|].
    intro E. rewrite E, Nat.eqb_refl in R1. discriminate.
Qed.

(* ---------- the limits, with their witness schedules ---------- *)
Definition reader (k ga gb gc : nat) : cop := mkcop false k 0 ga gb gc false.
Definition writer (k v ga gb gc : nat) : cop := mkcop true k v ga gb gc false.
Definition setter (k v : nat) : cop := mkcop false k v 0 0 0 true.

(* the classic cache-aside race of the UNMODIFIED code: the reader queries (row 3), the writer writes 5 and
   deletes, the reader stores 3.  Everybody has finished, the entry is stale, and raced is set. *)
Lemma race_witness :
  let scripts := fun t => match t with 0 => [writer 0 3 0 0 0] | 1 => [reader 0 0 7 0] | 2 => [writer 0 5 0 0 0] | _ => [] end in
  let sched := [Thr 0; Thr 0; Thr 0; Thr 0; Thr 1; Thr 1; Thr 1; Thr 1; Thr 2; Thr 2; Thr 2; Thr 2;
                Open 7; Thr 1; Thr 1; Thr 1] in
  let s := run step sched (init true scripts) in
  (forall t, pc_of s t = Idle) /\ cache s 0 = Some 3 /\ db s 0 = 5 /\ raced s = true.
Proof. vm_compute. split; [intros [|[|[|t]]]; reflexivity | repeat split]. Qed.

(* delete-then-write (NOT the order of ExecCtx): a reader that runs entirely between the two steps of the
   writer leaves a stale entry although it stored exactly what it had just read (raced stays false) *)
Lemma delete_first_witness :
  let scripts := fun t => match t with 0 => [writer 0 3 0 0 0] | 1 => [writer 0 5 7 0 0] | 2 => [reader 0 0 0 0] | _ => [] end in
  let sched := [Thr 0; Thr 0; Thr 0; Thr 0; Thr 1; Thr 1; Thr 2; Thr 2; Thr 2; Thr 2; Thr 2; Thr 2; Thr 2; Thr 2;
                Open 7; Thr 1; Thr 1] in
  let s := run step sched (init false scripts) in
  (forall t, pc_of s t = Idle) /\ cache s 0 = Some 3 /\ db s 0 = 5 /\ raced s = false.
Proof. vm_compute. split; [intros [|[|[|t]]]; reflexivity | repeat split]. Qed.

(* ---------- a call whose context is cancelled never reaches the database ---------- *)
Lemma cancelled_no_query s s' t : step (Thr t) s = Some s' -> t_cancel (ts s t) = true ->
  dbq s' = dbq s /\ t_cancel (ts s' t) = true /\
  (forall f, pc_of s t = RGet f -> pc_of s' t = REnd f None /\ trace s' = trace s /\ cache s' = cache s) /\
  (querying (pc_of s' t) = true -> querying (pc_of s t) = true).
Proof.
  unfold pc_of. simpl. intros H C. rewrite C in H.
  destruct (t_pc (ts s t)) eqn:P;
    repeat match type of H with
           | match ?x with _ => _ end = _ => destruct x eqn:?
           | (if ?x then _ else _) = _ => destruct x eqn:?
           end; try discriminate; inversion H; subst; simpl; rewrite ?upd_same; simpl;
    repeat split; auto; try (intros; discriminate); try congruence;
    try (intros f0 E; inversion E; subst; repeat split; reflexivity).
  destruct (k_set c); destruct (k_writer c); discriminate.
Qed.

(* ---------- what a waiter of a flight receives ---------- *)
(* a waiter returns the result its flight's executing call published ... *)
Lemma waiter_result s s' t f : pc_of s t = RWait f -> step (Thr t) s = Some s' ->
  exists r, fres s f = Some r /\ t_res (ts s' t) = (false, r) :: t_res (ts s t) /\ pc_of s' t = Idle.
Proof.
  unfold pc_of. simpl. intros P H. rewrite P in H. destruct (fres s f) as [r|]; [|discriminate].
  inversion H; subst. exists r. simpl. rewrite upd_same. simpl. auto.
Qed.

(* ... and that published result is never changed by anything anybody does afterwards -- further calls of the
   executing goroutine on other keys included: only the end of the executing call of flight f writes fres f *)
Lemma flight_result_stable l s s' f r : step l s = Some s' -> fres s f = Some r ->
  (forall t r', l = Thr t -> pc_of s t <> REnd f r') -> fres s' f = Some r.
Proof.
  intros H F N. destruct l as [t|g|d]; simpl in H; try (inversion H; subst; exact F).
  specialize (N t). unfold pc_of in N.
  destruct (t_pc (ts s t)) eqn:P;
    repeat match type of H with
           | match ?x with _ => _ end = _ => destruct x eqn:?
           | (if ?x then _ else _) = _ => destruct x eqn:?
           end; try discriminate; inversion H; subst; simpl; try exact F.
  destruct (Nat.eq_dec f f0) as [->|Hne]; [exfalso; eapply N; reflexivity | rewrite upd_other by assumption; exact F].
Qed.
