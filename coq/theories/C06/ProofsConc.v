(* C06 ProofsConc: the concurrent cache-aside LTS (ModelConc.CA), for ALL schedules and any number of
   threads: at most one database query in flight per key; coherence of the cache at every state in which
   no writer sits between its write and its delete and no reader has stored a value it read before a
   later write; witnesses for the classic read/write race and for the wrong order delete-then-write. *)
From God Require Import Base.Prelude C06.ModelConc.
From God Require C18.Conc.
Import C18.Conc CA.

Definition key_of (s : state) (u : nat) : nat := k_key (t_op (ts s u)).
Definition pc_of (s : state) (u : nat) : pc := t_pc (ts s u).

(* ---------- flights: one executing call per key ---------- *)
Definition FL (s : state) : Prop :=
  (forall u f, leader_of (pc_of s u) = Some f -> flights s (key_of s u) = Some f) /\
  (forall u v f g, leader_of (pc_of s u) = Some f -> leader_of (pc_of s v) = Some g ->
                   key_of s u = key_of s v -> u = v).

Lemma FL_same s s' : flights s' = flights s ->
  (forall u, leader_of (pc_of s' u) = leader_of (pc_of s u) /\
             (leader_of (pc_of s u) <> None -> key_of s' u = key_of s u)) ->
  FL s -> FL s'.
Proof.
  intros Hf Hu [A B]. split.
  - intros u f H. destruct (Hu u) as [E K]. rewrite E in H. rewrite Hf, K by congruence. auto.
  - intros u v f g H1 H2 Hk. destruct (Hu u) as [E1 K1]. destruct (Hu v) as [E2 K2].
    rewrite E1 in H1. rewrite E2 in H2. rewrite K1, K2 in Hk by congruence. eauto.
Qed.

Lemma mark_leader k x : leader_of (t_pc (mark k x)) = leader_of (t_pc x) /\ k_key (t_op (mark k x)) = k_key (t_op x).
Proof. unfold mark. destruct (Nat.eqb _ k); [|auto]. destruct (t_pc x) eqn:E; simpl; rewrite ?E; auto. Qed.

Ltac upd_cases u t := destruct (Nat.eq_dec u t) as [->|?]; [rewrite ?upd_same | rewrite ?upd_other by assumption].

Lemma FL_step l s s' : FL s -> step l s = Some s' -> FL s'.
Proof.
  intros HF H. destruct l as [t|g|d]; simpl in H.
  2:{ inversion H; subst. exact HF. }
  2:{ inversion H; subst. eapply FL_same; [reflexivity| |exact HF]. intro u. unfold pc_of, key_of. simpl.
      upd_cases u d; simpl; auto. }
  pose proof HF as [A B].
  (* steps that keep the flight table and every thread's leadership *)
  assert (Same : forall x' tr dq rc ca dbv,
            leader_of (t_pc x') = leader_of (t_pc (ts s t)) ->
            (leader_of (t_pc (ts s t)) <> None -> k_key (t_op x') = k_key (t_op (ts s t))) ->
            FL (mk (wfirst s) dbv ca (flights s) (fres s) (next s) (open s) (upd (ts s) t x') dq rc tr)).
  { intros x' tr dq rc ca dbv E K. eapply FL_same; [reflexivity| |exact HF]. intro u. unfold pc_of, key_of. simpl.
    upd_cases u t; auto. }
  assert (SameW : forall x' tr dq rc ca dbv k,
            leader_of (t_pc x') = None -> leader_of (t_pc (ts s t)) = None ->
            FL (mk (wfirst s) dbv ca (flights s) (fres s) (next s) (open s) (upd (fun u => mark k (ts s u)) t x') dq rc tr)).
  { intros x' tr dq rc ca dbv k E E0. eapply FL_same; [reflexivity| |exact HF]. intro u. unfold pc_of, key_of. simpl.
    upd_cases u t; [rewrite E, E0; split; [reflexivity|congruence]|]. destruct (mark_leader k (ts s u)) as [M1 M2].
    rewrite M1, M2. auto. }
  destruct (t_pc (ts s t)) eqn:P.
  - (* Idle *) destruct (t_todo (ts s t)) as [|o rest]; [discriminate|]. inversion H; subst.
    apply Same; simpl; [destruct (k_writer o); reflexivity | congruence].
  - (* RStart *) destruct (flights s (k_key (t_op (ts s t)))) as [f|] eqn:Fk.
    + inversion H; subst. apply Same; simpl; congruence.
    + inversion H; subst. clear H. split.
      * intros u f Hl. unfold pc_of, key_of in *. simpl in *. revert Hl. upd_cases u t; simpl; intro Hl.
        -- inversion Hl; subst. apply upd_same.
        -- pose proof (A u f Hl) as Au. unfold key_of in Au.
           rewrite upd_other; [assumption|]. intro E. rewrite E in Au. congruence.
      * intros u v f g H1 H2 Hk. unfold pc_of, key_of in *. simpl in *.
        revert H1 H2 Hk. upd_cases u t; upd_cases v t; simpl; intros H1 H2 Hk; auto.
        -- exfalso. pose proof (A v g H2) as Av. unfold key_of in Av. rewrite <- Hk in Av. congruence.
        -- exfalso. pose proof (A u f H1) as Au. unfold key_of in Au. rewrite Hk in Au. congruence.
        -- eapply B; eauto.
  - (* RWait *) destruct (fres s f); [|discriminate]. inversion H; subst. apply Same; simpl; congruence.
  - (* RGet *) destruct (t_cancel (ts s t)); [inversion H; subst; apply Same; simpl; auto|].
    destruct (cache s (k_key (t_op (ts s t)))); inversion H; subst; apply Same; simpl; auto.
  - (* RQ0 *) destruct (t_cancel (ts s t)); [inversion H; subst; apply Same; simpl; auto|].
    destruct (gate_open _ _); [|discriminate]. inversion H; subst. apply Same; simpl; auto.
  - (* RQ1 *) destruct (t_cancel (ts s t)); [inversion H; subst; apply Same; simpl; auto|].
    destruct (gate_open _ _); [|discriminate]. inversion H; subst. apply Same; simpl; auto.
  - (* RSet *) destruct (gate_open _ _); [|discriminate]. inversion H; subst. apply Same; simpl; auto.
  - (* REnd: the flight is unregistered *)
    inversion H; subst. clear H. split.
    + intros u f0 Hl. unfold pc_of, key_of in *. simpl in *. revert Hl. upd_cases u t; simpl; intro Hl; [discriminate|].
      rewrite upd_other; [apply A; assumption|]. intro E.
      assert (u = t); [|contradiction]. eapply B; [exact Hl | unfold pc_of; rewrite P; reflexivity | exact E].
    + intros u v f0 g H1 H2 Hk. unfold pc_of, key_of in *. simpl in *.
      revert H1 H2 Hk. upd_cases u t; upd_cases v t; simpl; intros H1 H2 Hk; try discriminate; auto. eapply B; eauto.
  - (* W0 *) destruct (wfirst s); destruct (gate_open _ _); try discriminate; inversion H; subst.
    + apply SameW; simpl; auto. rewrite P. reflexivity.
    + apply Same; simpl; auto.
  - (* W1 *) destruct (gate_open _ _); [|discriminate]. inversion H; subst. apply Same; simpl; auto.
  - (* W2 *) destruct (wfirst s); destruct (gate_open _ _); try discriminate; inversion H; subst.
    + apply Same; simpl; auto.
    + apply SameW; simpl; auto. rewrite P. reflexivity.
Qed.

Lemma FL_init wf scripts : FL (init wf scripts).
Proof. split; unfold pc_of; simpl; intros; discriminate. Qed.

Lemma one_query_in_flight wf scripts sched t u :
  let s := run step sched (init wf scripts) in
  querying (pc_of s t) = true -> querying (pc_of s u) = true -> key_of s t = key_of s u -> t = u.
Proof.
  intros s Ht Hu Hk.
  assert (HF : FL s) by (apply (run_inv step FL); [intros; eapply FL_step; eauto | apply FL_init]).
  destruct HF as [_ B].
  assert (L : forall p, querying p = true -> exists f, leader_of p = Some f) by (intros p; destruct p; simpl; try discriminate; eauto).
  destruct (L _ Ht) as [f Hf]. destruct (L _ Hu) as [g Hg]. eapply B; eauto.
Qed.
