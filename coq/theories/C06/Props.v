(* C06 Props: the property theorems, nothing else.
   Model: one cache node (Redis map + fault switches + cleaner over an abstract 1 s timer) in front of a
   reference table; `step` is the transcription of CachedConn / cache.node / cleaner; a cluster is a list
   of nodes with per-key dispatch. Draws of the expiry jitter are explicit inputs (the factor f). *)
From God Require Import Base.Prelude C06.Spec C06.Model C06.Proofs C06.ProofsTtl C06.ProofsShield C06.ProofsRetry C06.ProofsCluster.
From God Require Import C06.ModelConc C06.ProofsConc.
From God Require C18.Conc C18.Model C18.ProofsSF.
From Coq Require Import QArith.
Local Open Scope Z_scope.

(* Coherence. Over every history in which every Exec names the keys whose view it changes, SetCache
   stores the current row and deletes do not fail (op_ok), the invariant "a live entry of k encodes the
   database's view of k, or is the placeholder and there is none, or is not JSON" holds, and the next
   read returns the database's current row / not-found -- or the cache error, if GET (or, for the index
   read, SET) is failing at that moment. *)
Theorem c06_coherent : forall c ops, hist_ok c (init_env, init_node) ops ->
  let s := run c ops (init_env, init_node) in
  Inv s /\
  (forall id f, step_res c s (QueryRow id f) = expect_row (db (fst s)) id \/
                (fget (snd s) = true /\ step_res c s (QueryRow id f) = RCacheErr)) /\
  (forall i f1 f2, step_res c s (QueryRowIndex i f1 f2) = expect_index (db (fst s)) i \/
                ((fget (snd s) = true \/ fset (snd s) = true) /\ step_res c s (QueryRowIndex i f1 f2) = RCacheErr)).
Proof. exact coherent. Qed.
Print Assumptions c06_coherent.

(* With Redis alive throughout: every read returns exactly the database's current row or not-found. *)
Theorem c06_coherent_alive : forall c ops, hist_ok c (init_env, init_node) ops -> Forall no_fault ops ->
  let s := run c ops (init_env, init_node) in
  (forall id f, step_res c s (QueryRow id f) = expect_row (db (fst s)) id) /\
  (forall i f1 f2, step_res c s (QueryRowIndex i f1 f2) = expect_index (db (fst s)) i).
Proof. exact coherent_alive. Qed.
Print Assumptions c06_coherent_alive.

(* Shielding. After a not-found read (GET and SET working) a placeholder is live until some second x
   (x = now + ceil(jittered notFoundExpire) if the database was asked); whatever reads of that key and
   passages of time follow, while now < x every read answers not-found and the query counter stays. *)
Theorem c06_placeholder_shields : forall c f e n id, fget n = false -> fset n = false ->
  0 < ceil_secs (around f (nfexpire c)) ->
  let s1 := step_st c (e, n) (QueryRow id f) in
  step_res c (e, n) (QueryRow id f) = RNotFound ->
  exists x, now n < x /\
    (dbq (fst s1) <> dbq e -> x = now n + ceil_secs (around f (nfexpire c))) /\
    forall ops, Forall (shield_op id) ops -> now (snd (run c ops s1)) < x ->
      forall f', step_res c (run c ops s1) (QueryRow id f') = RNotFound /\
                 dbq (fst (step_st c (run c ops s1) (QueryRow id f'))) = dbq (fst s1).
Proof. exact placeholder_shields. Qed.
Print Assumptions c06_placeholder_shields.

(* TTL window, arithmetic: a factor in [0.95, 1.05] and an expiry e (ns, multiple of 20 ns) give a TTL
   in [ceil(0.95 e), ceil(1.05 e)] seconds (ttl_lo / ttl_hi of Spec). *)
Theorem c06_ttl_window : forall f e, draw_ok f -> dur_ok e ->
  ttl_lo e <= ceil_secs (around f e) <= ttl_hi e.
Proof. exact ttl_window. Qed.
Print Assumptions c06_ttl_window.

(* ... for EVERY expiry: dur_ok e is 0 <= e and 20 ns | e, there is no upper bound (1 h, 101 d, 10 y alike); and
   from one second on the TTL is at least one second, so SETEX never degenerates into "no expiry". *)
Theorem c06_ttl_positive : forall f e, draw_ok f -> dur_ok e -> sec <= e ->
  1 <= ttl_lo e <= ceil_secs (around f e).
Proof.
  intros f e Hf He Hs. split; [|apply ttl_window; assumption].
  unfold ttl_lo, ceil_secs in *. destruct He as [H0 Hm].
  assert (E : e = 20 * (e / 20)) by (pose proof (Z.div_mod e 20); lia).
  apply Z.div_le_lower_bound; unfold sec in *; lia.
Qed.
Print Assumptions c06_ttl_positive.

(* Option boundary values. WithExpire(d) / WithNotFoundExpire(d) with d <= 0, like no option at all, leave the defaults
   (7 days / 1 minute): what is stored then has a TTL in the default's window, at least one second -- never "no expiry". *)
Theorem c06_option_defaults : forall f d, draw_ok f -> d <= 0 ->
  effective (Some d) default_expire = default_expire /\ effective None default_expire = default_expire /\
  effective (Some d) default_nfexpire = default_nfexpire /\ effective None default_nfexpire = default_nfexpire /\
  1 <= ttl_lo default_expire <= ceil_secs (around f (effective (Some d) default_expire)) /\
  ceil_secs (around f (effective (Some d) default_expire)) <= ttl_hi default_expire /\
  1 <= ttl_lo default_nfexpire <= ceil_secs (around f (effective (Some d) default_nfexpire)) /\
  ceil_secs (around f (effective (Some d) default_nfexpire)) <= ttl_hi default_nfexpire /\
  ttl_lo default_expire = 574560 /\ ttl_hi default_expire = 635040 /\ ttl_lo default_nfexpire = 57 /\ ttl_hi default_nfexpire = 63.
Proof.
  intros f d Hf Hd.
  destruct (effective_default d default_expire Hd) as [E1 E2]. destruct (effective_default d default_nfexpire Hd) as [N1 N2].
  rewrite E1, N1.
  assert (De : dur_ok default_expire) by (split; [discriminate | reflexivity]).
  assert (Dn : dur_ok default_nfexpire) by (split; [discriminate | reflexivity]).
  pose proof (ttl_window f default_expire Hf De) as [A B]. pose proof (ttl_window f default_nfexpire Hf Dn) as [A' B'].
  repeat split; auto; try reflexivity; try assumption; discriminate.
Qed.
Print Assumptions c06_option_defaults.

Example c06_ttl_long_expiries :
  (* 101 d and 10 y, at both ends of the jitter *)
  ceil_secs (around (19 # 20) (8726400 * sec)) = 8290080 /\ ceil_secs (around (21 # 20) (8726400 * sec)) = 9162720 /\
  ceil_secs (around (19 # 20) (315360000 * sec)) = 299592000 /\ ceil_secs (around (21 # 20) (315360000 * sec)) = 331128000 /\
  ttl_lo (315360000 * sec) = 299592000 /\ ttl_hi (315360000 * sec) = 331128000 /\ dur_ok (315360000 * sec).
Proof. repeat split; try reflexivity; discriminate. Qed.

(* TTL window, on the model: whatever a cache operation stores (every key either keeps its entry, loses
   it, or gets an entry (v, x)) has x - now in the window of notFoundExpire for the placeholder and of
   expire (or expire + the 5 s gap, for a row stored through an index) for values. *)
Theorem c06_ttl_window_stored : forall c s o, dur_ok (expire c) -> dur_ok (nfexpire c) -> gap c mod sec = 0 ->
  draws_ok o -> upd (freshP c (now (snd s))) (snd s) (snd (step_st c s o)).
Proof. exact ttl_step. Qed.
Print Assumptions c06_ttl_window_stored.

(* A cache failure other than a miss is returned; the database is not asked and nothing changes. *)
Theorem c06_error_passthrough : forall c e n, fget n = true ->
  (forall id f, take_pk c f e n id = (e, n, RCacheErr)) /\
  (forall i f1 f2, query_row_index c f1 f2 e n i = (e, n, RCacheErr)).
Proof. exact error_passthrough. Qed.
Print Assumptions c06_error_passthrough.

(* A read issued under an already cancelled context -- whether its key is cached or not -- returns the context
   error, does not ask the database and changes nothing (sequential model); and in the concurrent LTS a call
   whose context is cancelled never asks the database: none of its steps reads it, a step at the cache read
   ends the call with the context error, and it never enters a query it was not already in. *)
Theorem c06_cancelled_context_shields :
  (forall c e n k, step c (e, n) (QueryCancelled k) = (e, n, RCtxErr)) /\
  (forall place c e ns k, cstep place c (e, ns) (COp (QueryCancelled k)) = (e, ns, RCtxErr)) /\
  (forall s s' t, CA.step (C18.Conc.Thr t) s = Some s' -> CA.t_cancel (CA.ts s t) = true ->
     CA.dbq s' = CA.dbq s /\ CA.t_cancel (CA.ts s' t) = true /\
     (forall f, pc_of s t = CA.RGet f -> pc_of s' t = CA.REnd f None /\ CA.trace s' = CA.trace s /\ CA.cache s' = CA.cache s) /\
     (CA.querying (pc_of s' t) = true -> CA.querying (pc_of s t) = true)).
Proof. split; [reflexivity|]. split; [reflexivity | exact cancelled_no_query]. Qed.
Print Assumptions c06_cancelled_context_shields.

(* Index gap. An index entry written by QueryRowIndex points to a primary entry written in the same call
   that expires exactly 5 s later (same draw), so as time passes the index entry dies first. *)
Theorem c06_index_gap : forall c f1 f2 e n i pk x, gap c = 5 * sec ->
  let '(e', n', r) := query_row_index c f1 f2 e n i in
  entry n' (IX i) = Some (VPk pk, x) -> entry n (IX i) <> Some (VPk pk, x) ->
  (exists ix v, entry n' (PK pk) = Some (VRow pk ix v, x + 5) /\ r = RRow pk ix v /\ db_row (db e) pk = Some (ix, v)) /\
  forall v dt, entry n' (PK pk) = Some (v, x + 5) ->
    live (set_now n' (now n' + dt)) (IX i) = Some (VPk pk) -> live (set_now n' (now n' + dt)) (PK pk) = Some v.
Proof.
  intros c f1 f2 e n i pk x G. pose proof (index_gap c f1 f2 e n i pk x G) as H.
  destruct (query_row_index c f1 f2 e n i) as [[e' n'] r]. intros H1 H2. split; [auto|].
  intros v dt Hv. apply index_gap_later with (x := x); assumption.
Qed.
Print Assumptions c06_index_gap.

(* Retry schedule. Over every history -- any interleaving of operations, fault switches and timer ticks,
   i.e. any fault sequence -- every chain armed by a failed delete (EvArm j t0) has made its attempts
   exactly at t0+1, t0+6, t0+66, t0+366, t0+3966 (cumulative +1,+5,+60,+300,+3600 s) as far as time has
   come, every attempt but the last failed, nothing follows a success, at most 5 attempts, and an
   unfinished chain is waiting for its next scheduled attempt (retry_spec of Spec). *)
Theorem c06_retry_schedule : forall c ops,
  let n := snd (run c ops (init_env, init_node)) in
  forall j t0 ks, In (EvArm j t0 ks) (log n) -> retry_spec (tick n) t0 (att (log n) j) = true.
Proof. exact retry_schedule. Qed.
Print Assumptions c06_retry_schedule.

(* ... and a delete that fails does arm such a chain, for exactly its keys, due one tick later. *)
Theorem c06_failed_delete_retried : forall n ks, ks <> [] -> fdel n = true ->
  log (del_ctx n ks) = log n ++ [EvArm (next_id n) (tick n) ks] /\
  exists t, In t (pending (del_ctx n ks)) /\ t_id t = next_id n /\ t_due t = tick n + 1 /\ t_keys t = ks.
Proof. exact failed_delete_arms. Qed.
Print Assumptions c06_failed_delete_retried.

(* Cluster. For every key |-> node function: a single-key operation is the node operation on the key's
   node (the other nodes are untouched), a multi-key delete is one node-level delete per node with the
   keys placed there, a one-node cluster is the node model, and the retry schedule holds on every node
   of every cluster history. *)
Theorem c06_cluster_like_node : forall place : key -> nat,
  (forall c e ns id f n, nth_error ns (place (PK id)) = Some n ->
     cstep place c (e, ns) (COp (QueryRow id f)) =
     let '(e', n', r) := step c (e, n) (QueryRow id f) in (e', Model.upd (place (PK id)) n' ns, r)) /\
  (forall c e ns k v f n, nth_error ns (place k) = Some n ->
     cstep place c (e, ns) (COp (SetCache k v f)) =
     let '(e', n', r) := step c (e, n) (SetCache k v f) in (e', Model.upd (place k) n' ns, r)) /\
  (forall ns ks j n, nth_error ns j = Some n ->
     nth_error (c_del place ns ks) j = Some (del_ctx n (filter (fun k => Nat.eqb (place k) j) ks))) /\
  (forall c e n o, cstep place0 c (e, [n]) (COp o) = let '(e', n', r) := step c (e, n) o in (e', [n'], r)) /\
  (forall c N ops,
     Forall (fun n => forall j t0 ks, In (EvArm j t0 ks) (log n) -> retry_spec (tick n) t0 (att (log n) j) = true)
            (snd (crun place c ops (init_env, repeat init_node N)))).
Proof.
  intro place. split; [exact (dispatch_query_row place)|]. split; [exact (dispatch_set_cache place)|].
  split; [exact (dispatch_del place)|]. split; [exact cluster1_is_node | exact (cluster_retry_schedule place)].
Qed.
Print Assumptions c06_cluster_like_node.

(* Stampede clause: concurrent reads of one uncached key cause at most one database query at a time.
   (1) singleflight.go itself (property C18's transcription SF.step; C18.ProofsSF.sf_one_flight_per_key, which
       is what C18.Props.c18_singleflight_one_flight states;
       all schedules, any number of threads): two threads that are inside the function handed to
       Do/DoEx for the same key are the same thread -- and node.doTake queries the database only inside
       that function (Link.link_take_calls);
   (2) the concurrent cache-aside LTS ModelConc.CA, which uses DoEx through that contract: over every
       schedule of any number of readers and writers, with gates holding user code and Redis commands
       anywhere and contexts cancelled anywhere, two threads whose database query is in flight for the
       same key are the same thread;
   (3) one execution of that function asks the database at most once. *)
Theorem c06_one_query_in_flight :
  (forall scripts sched t u c d,
     let s := C18.Conc.run C18.Model.SF.step sched (C18.Model.SF.init scripts) in
     C18.Model.SF.t_pc (C18.Model.SF.ts s t) = C18.Model.SF.FnE c ->
     C18.Model.SF.t_pc (C18.Model.SF.ts s u) = C18.Model.SF.FnE d ->
     C18.Model.SF.t_key (C18.Model.SF.ts s t) = C18.Model.SF.t_key (C18.Model.SF.ts s u) -> t = u) /\
  (forall wf scripts sched t u,
     let s := C18.Conc.run CA.step sched (CA.init wf scripts) in
     CA.querying (pc_of s t) = true -> CA.querying (pc_of s u) = true -> key_of s t = key_of s u -> t = u) /\
  (forall c f e n id, (dbq (fst (fst (take_pk c f e n id))) <= S (dbq e))%nat).
Proof.
  split; [|split; [exact one_query_in_flight | exact take_pk_one_query]].
  intros scripts sched t u c d s Ht Hu Hk. subst s.
  apply (C18.ProofsSF.sf_one_flight_per_key scripts sched t u c d); [rewrite Ht | rewrite Hu | exact Hk]; reflexivity.
Qed.
Print Assumptions c06_one_query_in_flight.

(* Reads that share an in-flight query: a waiter of a flight returns exactly the result the flight's executing call
   published, and nothing anybody does afterwards changes that published result -- in particular not the further
   calls (SetCache, reads of other keys) the executing goroutine goes on to make: only the end of the executing
   call of flight f writes the result of f. *)
Theorem c06_waiter_gets_leader_result :
  (forall s s' t f, pc_of s t = CA.RWait f -> CA.step (C18.Conc.Thr t) s = Some s' ->
     exists r, CA.fres s f = Some r /\ CA.t_res (CA.ts s' t) = (false, r) :: CA.t_res (CA.ts s t) /\ pc_of s' t = CA.Idle) /\
  (forall l s s' f r, CA.step l s = Some s' -> CA.fres s f = Some r ->
     (forall t r', l = C18.Conc.Thr t -> pc_of s t <> CA.REnd f r') -> CA.fres s' f = Some r).
Proof. split; [exact waiter_result | exact flight_result_stable]. Qed.
Print Assumptions c06_waiter_gets_leader_result.

(* "never a value older than the last completed write", under concurrency.  ExecCtx is two steps (database
   write; delete the keys), doTake three (GET; query; SETEX).  Over EVERY interleaving of any number of
   such readers and writers: whenever no writer sits between its write and its delete, and no reader has
   stored a value that it had read before a later write (ghost flag raced, raised only by such a store:
   c06_raced_only_by_straddle), every cache entry is the database's current row (or its placeholder), so
   the reads that follow return it.  In particular a completed Exec leaves no stale entry unless a read
   that had queried BEFORE the write stores AFTER the delete. *)
Theorem c06_coherent_concurrent : forall scripts sched k,
  let s := C18.Conc.run CA.step sched (CA.init true scripts) in
  CA.raced s = false -> (forall u, CA.wpending (pc_of s u) = true -> key_of s u <> k) ->
  CA.cache s k = None \/ CA.cache s k = Some (CA.db s k).
Proof. exact coherent_concurrent. Qed.
Print Assumptions c06_coherent_concurrent.

Theorem c06_read_after_quiescence : forall s t f,
  pc_of s t = CA.RGet f -> CA.t_cancel (CA.ts s t) = false ->
  (CA.cache s (key_of s t) = None \/ CA.cache s (key_of s t) = Some (CA.db s (key_of s t))) ->
  exists s', CA.step (C18.Conc.Thr t) s = Some s' /\
    (pc_of s' t = CA.REnd f (Some (CA.db s (key_of s t))) \/ pc_of s' t = CA.RQ0 f).
Proof. exact read_after_quiescence. Qed.
Print Assumptions c06_read_after_quiescence.

Theorem c06_raced_only_by_straddle : forall l s s', CA.step l s = Some s' -> CA.raced s = false -> CA.raced s' = true ->
  exists t, l = C18.Conc.Thr t /\
    ((exists f v, pc_of s t = CA.RSet f v true) \/
     (pc_of s t = CA.SSet /\ CA.k_val (CA.t_op (CA.ts s t)) <> CA.db s (key_of s t))).
Proof. exact raced_only_by_straddle. Qed.
Print Assumptions c06_raced_only_by_straddle.

(* The limit of "sequential histories" in the property's quantifier: the classic cache-aside race of the
   UNMODIFIED code.  Reader queries (row 3); writer writes 5 and deletes; reader stores 3: everybody has
   finished and the entry is stale until it expires.  Replayed on the Go code by the concurrent driver
   (input_distribution label conc:stale-entry-after-race). *)
Theorem c06_concurrent_race_witness :
  let scripts := fun t : nat => match t with 0%nat => [writer 0 3 0 0 0] | 1%nat => [reader 0 0 7 0] | 2%nat => [writer 0 5 0 0 0] | _ => [] end in
  let sched := [C18.Conc.Thr 0; C18.Conc.Thr 0; C18.Conc.Thr 0; C18.Conc.Thr 0; C18.Conc.Thr 1; C18.Conc.Thr 1; C18.Conc.Thr 1;
                C18.Conc.Thr 1; C18.Conc.Thr 2; C18.Conc.Thr 2; C18.Conc.Thr 2; C18.Conc.Thr 2; C18.Conc.Open 7;
                C18.Conc.Thr 1; C18.Conc.Thr 1; C18.Conc.Thr 1] in
  let s := C18.Conc.run CA.step sched (CA.init true scripts) in
  (forall t, pc_of s t = CA.Idle) /\ CA.cache s 0 = Some 3%nat /\ CA.db s 0 = 5%nat /\ CA.raced s = true.
Proof. exact race_witness. Qed.
Print Assumptions c06_concurrent_race_witness.

(* The order inside ExecCtx matters: with delete-then-write a reader that runs ENTIRELY between the two
   steps -- it stores exactly what it has just read, raced stays false -- leaves a stale entry behind a
   completed Exec.  (The code's order is write-then-delete: Link.link_exec_calls.) *)
Theorem c06_delete_before_write_refuted :
  let scripts := fun t : nat => match t with 0%nat => [writer 0 3 0 0 0] | 1%nat => [writer 0 5 7 0 0] | 2%nat => [reader 0 0 0 0] | _ => [] end in
  let sched := [C18.Conc.Thr 0; C18.Conc.Thr 0; C18.Conc.Thr 0; C18.Conc.Thr 0; C18.Conc.Thr 1; C18.Conc.Thr 1;
                C18.Conc.Thr 2; C18.Conc.Thr 2; C18.Conc.Thr 2; C18.Conc.Thr 2; C18.Conc.Thr 2; C18.Conc.Thr 2; C18.Conc.Thr 2; C18.Conc.Thr 2;
                C18.Conc.Open 7; C18.Conc.Thr 1; C18.Conc.Thr 1] in
  let s := C18.Conc.run CA.step sched (CA.init false scripts) in
  (forall t, pc_of s t = CA.Idle) /\ CA.cache s 0 = Some 3%nat /\ CA.db s 0 = 5%nat /\ CA.raced s = false.
Proof. exact delete_first_witness. Qed.
Print Assumptions c06_delete_before_write_refuted.

(* ---------- non-vacuity ---------- *)
Definition demo_cfg : cfg := mkC (100 * sec) (10 * sec) (5 * sec).

(* a well-named history exists, a row really changes, and the read follows it; an ill-named one goes stale *)
Example c06_history_satisfiable :
  let h := [Exec (WPut 1 0 7) [PK 1; IX 0]; QueryRow 1 1; Exec (WPut 1 0 8) [PK 1]] in
  hist_ok demo_cfg (init_env, init_node) h /\
  step_res demo_cfg (run demo_cfg h (init_env, init_node)) (QueryRow 1 1) = RRow 1 0 8 /\
  step_res demo_cfg (run demo_cfg [Exec (WPut 1 0 7) [PK 1; IX 0]; QueryRow 1 1; Exec (WPut 1 0 8) []]
                         (init_env, init_node)) (QueryRow 1 1) = RRow 1 0 7.
Proof.
  split; [|split; vm_compute; reflexivity].
  simpl. split.
  - intros t' E k Hk. inversion E; subst.
    destruct k as [[|[|id]]|[|i]]; unfold db_row, db_find in Hk; simpl in Hk; try congruence; simpl; auto;
      destruct id; simpl in Hk; congruence.
  - split; [exact I|]. split; [|exact I].
    intros t' E k Hk. vm_compute in E. inversion E; subst.
    destruct k as [[|[|id]]|[|i]]; unfold db_row, db_find in Hk; simpl in Hk; try congruence; simpl; auto;
      destruct id; simpl in Hk; congruence.
Qed.

Example c06_draw_satisfiable : draw_ok 1 /\ dur_ok (expire demo_cfg) /\ dur_ok (nfexpire demo_cfg) /\
  ttl_lo (100 * sec) = 95 /\ ttl_hi (100 * sec) = 105 /\ ceil_secs (around (21 # 20) (10 * sec)) = 11.
Proof. repeat split; try reflexivity; try discriminate; unfold Qle; simpl; lia. Qed.

(* a failing delete is retried at +1 (fails), +6 (succeeds), and never again; the key is gone then *)
Example c06_retry_happens :
  let h := [Exec (WPut 1 0 7) [PK 1]; QueryRow 1 1; Fault false false true; Exec (WPut 1 0 8) [PK 1];
            Tick; Fault false false false; Tick; Tick; Tick; Tick; Tick; Tick; Tick; Tick; Tick] in
  let n := snd (run demo_cfg h (init_env, init_node)) in
  log n = [EvArm 0 0 [PK 1]; EvTry 0 1 false; EvTry 0 6 true] /\ pending n = [] /\ live n (PK 1) = None.
Proof. vm_compute. repeat split; reflexivity. Qed.

(* concurrency is not vacuous: three readers of one uncached key, the first held inside its query: the other
   two wait for it, the database is asked once, all three get the row *)
Example c06_stampede_shared :
  let scripts := fun t : nat => match t with 0%nat => [writer 0 3 0 0 0] | 1%nat => [reader 0 5 0 0] | 2%nat | 3%nat => [reader 0 0 0 0] | _ => [] end in
  let s := C18.Conc.replay CA.step CA.busy 24 [0; 1; 2; 3]%nat
             [C18.Conc.Thr 0; C18.Conc.Thr 1; C18.Conc.Thr 2; C18.Conc.Thr 3; C18.Conc.Open 5] (CA.init true scripts) in
  CA.dbq s = 1%nat /\ map (fun t => CA.t_res (CA.ts s t)) [1; 2; 3]%nat = [[(true, Some 3%nat)]; [(false, Some 3%nat)]; [(false, Some 3%nat)]].
Proof. vm_compute. split; reflexivity. Qed.
