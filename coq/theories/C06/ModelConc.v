(* C06 ModelConc: concurrent cache-aside on one node as a labelled transition system, at the
   granularity of the externally visible steps of
     node.doTake   (node.go:190-237)   DoEx { GET ; [miss:] query the database ; SETEX } ; followers share
     CachedConn.ExecCtx (cachedsql.go:100-112)   exec (database write) ; DelCacheCtx (DEL)
   Threads are naturals; each performs one call.  User code (the query function, the exec function) and
   Redis commands can be held at GATES (C18.Conc vocabulary: label [Open g] opens a gate; gate 0 is
   always open), so every interleaving of the steps is a schedule.  Label [Adv t] cancels the context
   of thread t.  Redis is alive; expiry plays no role here (no time passes).
   barrier.DoEx is modelled by its CONTRACT (property C18, c18_singleflight_share / _one_flight): a call
   joins the flight of its key if there is one, otherwise it registers a new flight and executes; when the
   executing call ends, the flight is unregistered and its waiters return its result.
   Values: database row of key k = db k (0: no row); cache entry Some 0 = the "*" placeholder, Some v = row v.
   Results: Some v (0 = not found) | None (the context error). *)
From God Require Import Base.Prelude.
From God Require C18.Conc.
Import C18.Conc.

Module CA.
  (* a call: reader (QueryRowCtx), writer (ExecCtx) or, with k_set, SetCacheCtx(key, row k_val) *)
  Record cop := mkcop { k_writer : bool; k_key : nat; k_val : nat; k_ga : nat; k_gb : nat; k_gc : nat; k_set : bool }.

  Inductive pc :=
  | Idle
  | RStart                              (* TakeCtx: barrier.DoEx looks the key up           node.go:194 *)
  | RWait (f : nat)                     (* follower of flight f: c.wg.Wait()                singleflight.go:59 *)
  | RGet (f : nat)                      (* executing call: doGetCache (GET)                 node.go:195 *)
  | RQ0 (f : nat)                       (* inside query, before the database read (gate ga) node.go:204 *)
  | RQ1 (f : nat) (v : nat) (d : bool)  (* database read v (gate gb); d: a write came since  *)
  | RSet (f : nat) (v : nat) (d : bool) (* SETEX sent, held in Redis at gate gc             node.go:205/215 *)
  | REnd (f : nat) (r : option nat)     (* fn returned: unregister the flight, wake waiters singleflight.go:72-77 *)
  | W0                                  (* ExecCtx: exec entered (gate ga)                  cachedsql.go:101 *)
  | W1                                  (* after the first step (gate gb) *)
  | W2                                  (* before the second step (gate gc) *)
  | SSet.                               (* SetCacheCtx: marshal the row, SETEX               cachedsql.go:211 *)

  Record tstate := mkt { t_pc : pc; t_op : cop; t_cancel : bool; t_todo : list cop; t_res : list (bool * option nat) }.

  Inductive cev :=
  | EQBegin (t k : nat) | EQEnd (t k : nat)      (* the database query of thread t is in flight *)
  | ESet (t k v : nat) | EDel (t k : nat) | EWrite (t k v : nat).

  Record state := mk {
    wfirst : bool;                 (* ExecCtx order: true = database write, then delete (the code) *)
    db : nat -> nat;
    cache : nat -> option nat;
    flights : nat -> option nat;   (* key -> registered flight *)
    fres : nat -> option (option nat);  (* flight -> result once its executing call ended *)
    next : nat;
    open : list nat;
    ts : nat -> tstate;
    dbq : nat;                     (* database queries so far *)
    raced : bool;                  (* ghost: some reader stored a value read before a later write *)
    trace : list cev               (* ghost: history, newest first *)
  }.

  Definition nop : cop := mkcop false 0 0 0 0 0 false.
  Definition init (wf : bool) (scripts : nat -> list cop) : state :=
    mk wf (fun _ => 0) (fun _ => None) (fun _ => None) (fun _ => None) 0 []
       (fun t => mkt Idle nop false (scripts t) []) 0 false [].

  Definition setpc (x : tstate) (p : pc) : tstate := mkt p (t_op x) (t_cancel x) (t_todo x) (t_res x).
  Definition finish (x : tstate) (fresh : bool) (r : option nat) : tstate :=
    mkt Idle (t_op x) (t_cancel x) (t_todo x) ((fresh, r) :: t_res x).

  (* a database write to key k: every reader of k that has read the database but not yet stored is now
     carrying a value older than the write *)
  Definition mark (k : nat) (x : tstate) : tstate :=
    if Nat.eqb (k_key (t_op x)) k then
      match t_pc x with
      | RQ1 f v _ => setpc x (RQ1 f v true)
      | RSet f v _ => setpc x (RSet f v true)
      | _ => x
      end
    else x.

  Definition step (l : lbl) (s : state) : option state :=
    match l with
    | Open g => Some (mk (wfirst s) (db s) (cache s) (flights s) (fres s) (next s) (g :: open s) (ts s) (dbq s) (raced s) (trace s))
    | Adv t => (* cancel the context of thread t *)
        let x := ts s t in
        Some (mk (wfirst s) (db s) (cache s) (flights s) (fres s) (next s) (open s)
                 (upd (ts s) t (mkt (t_pc x) (t_op x) true (t_todo x) (t_res x))) (dbq s) (raced s) (trace s))
    | Thr t =>
        let x := ts s t in
        let k := k_key (t_op x) in
        let go (x' : tstate) := Some (mk (wfirst s) (db s) (cache s) (flights s) (fres s) (next s) (open s) (upd (ts s) t x') (dbq s) (raced s) (trace s)) in
        let goe (x' : tstate) (e : cev) := Some (mk (wfirst s) (db s) (cache s) (flights s) (fres s) (next s) (open s) (upd (ts s) t x') (dbq s) (raced s) (e :: trace s)) in
        let do_write (x' : tstate) :=
          Some (mk (wfirst s) (upd (db s) k (k_val (t_op x))) (cache s) (flights s) (fres s) (next s) (open s)
                   (upd (fun u => mark k (ts s u)) t x') (dbq s) (raced s) (EWrite t k (k_val (t_op x)) :: trace s)) in
        let do_del (x' : tstate) :=
          Some (mk (wfirst s) (db s) (upd (cache s) k None) (flights s) (fres s) (next s) (open s)
                   (upd (ts s) t x') (dbq s) (raced s) (EDel t k :: trace s)) in
        match t_pc x with
        | Idle =>
            match t_todo x with
            | [] => None
            | o :: rest => go (mkt (if k_set o then SSet else if k_writer o then W0 else RStart) o (t_cancel x) rest (t_res x))
            end
        | RStart =>
            match flights s k with
            | Some f => go (setpc x (RWait f))
            | None =>
                Some (mk (wfirst s) (db s) (cache s) (upd (flights s) k (Some (next s))) (fres s) (S (next s)) (open s)
                         (upd (ts s) t (setpc x (RGet (next s)))) (dbq s) (raced s) (trace s))
            end
        | RWait f =>
            match fres s f with
            | Some r => go (finish x false r)
            | None => None
            end
        | RGet f =>
            if t_cancel x then go (setpc x (REnd f None))               (* GET fails with the context error: returned *)
            else match cache s k with
                 | Some v => go (setpc x (REnd f (Some v)))             (* hit, or "*" = not found *)
                 | None => goe (setpc x (RQ0 f)) (EQBegin t k)          (* miss: query *)
                 end
        | RQ0 f =>
            if t_cancel x then goe (setpc x (REnd f None)) (EQEnd t k)
            else if gate_open (open s) (k_ga (t_op x)) then
              Some (mk (wfirst s) (db s) (cache s) (flights s) (fres s) (next s) (open s)
                       (upd (ts s) t (setpc x (RQ1 f (db s k) false))) (S (dbq s)) (raced s) (trace s))
            else None
        | RQ1 f v d =>
            if t_cancel x then goe (setpc x (REnd f None)) (EQEnd t k)
            else if gate_open (open s) (k_gb (t_op x)) then goe (setpc x (RSet f v d)) (EQEnd t k)
            else None
        | RSet f v d =>
            if gate_open (open s) (k_gc (t_op x)) then
              Some (mk (wfirst s) (db s) (upd (cache s) k (Some v)) (flights s) (fres s) (next s) (open s)
                       (upd (ts s) t (setpc x (REnd f (Some v)))) (dbq s) (raced s || d) (ESet t k v :: trace s))
            else None
        | REnd f r =>
            Some (mk (wfirst s) (db s) (cache s) (upd (flights s) k None) (upd (fres s) f (Some r)) (next s) (open s)
                     (upd (ts s) t (finish x true r)) (dbq s) (raced s) (trace s))
        | SSet =>
            (* the caller's row is stored; it is a racing store unless it is the current row *)
            Some (mk (wfirst s) (db s) (upd (cache s) k (Some (k_val (t_op x)))) (flights s) (fres s) (next s) (open s)
                     (upd (ts s) t (finish x true (Some 0))) (dbq s) (raced s || negb (Nat.eqb (k_val (t_op x)) (db s k)))
                     (ESet t k (k_val (t_op x)) :: trace s))
        | W0 =>
            if wfirst s then
              if gate_open (open s) (k_ga (t_op x)) then do_write (setpc x W1) else None
            else
              if gate_open (open s) (k_gc (t_op x)) then do_del (setpc x W1) else None
        | W1 =>
            if gate_open (open s) (if wfirst s then k_gb (t_op x) else k_ga (t_op x)) then go (setpc x W2) else None
        | W2 =>
            if wfirst s then
              if gate_open (open s) (k_gc (t_op x)) then do_del (finish x true (Some 0)) else None
            else
              if gate_open (open s) (k_gb (t_op x)) then do_write (finish x true (Some 0)) else None
        end
    end.

  Definition busy (s : state) (t : nat) : bool :=
    match t_pc (ts s t) with Idle => false | _ => true end.

  (* classification used by the theorems *)
  Definition querying (p : pc) : bool := match p with RQ0 _ | RQ1 _ _ _ => true | _ => false end.
  Definition leader_of (p : pc) : option nat :=
    match p with RGet f | RQ0 f | RQ1 f _ _ | RSet f _ _ | REnd f _ => Some f | _ => None end.
  (* a writer that has written the database and not yet deleted the key (write-first order) *)
  Definition wpending (p : pc) : bool := match p with W1 | W2 => true | _ => false end.
End CA.
