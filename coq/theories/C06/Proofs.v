(* C06 Proofs, part 1: Redis primitives, the generic "what an operation may write" relation,
   coherence invariant, error pass-through, TTL window, index gap, placeholder shielding. *)
From God Require Import Base.Prelude C06.Spec C06.Model.
From Coq Require Import QArith Qround Lqa.
Local Open Scope Z_scope.

(* ---------- keys and association lists ---------- *)
Lemma key_eqb_spec a b : reflect (a = b) (key_eqb a b).
Proof.
  destruct a as [x|x], b as [y|y]; simpl; try (constructor; congruence);
    destruct (Nat.eqb_spec x y); constructor; congruence.
Qed.
Lemma key_eqb_refl a : key_eqb a a = true.
Proof. destruct (key_eqb_spec a a); congruence. Qed.
Lemma key_eq_dec (a b : key) : {a = b} + {a <> b}.
Proof. destruct (key_eqb_spec a b); auto. Qed.

Section AL.
  Context {V : Type}.
  Implicit Type m : list (key * V).
  Lemma al_remove_eq k m : alookup key_eqb k (aremove key_eqb k m) = None.
  Proof. induction m as [|[k' v] r IH]; simpl; auto. destruct (key_eqb_spec k k'); simpl; auto.
    destruct (key_eqb_spec k k'); congruence. Qed.
  Lemma al_remove_neq k k' m : k <> k' -> alookup key_eqb k (aremove key_eqb k' m) = alookup key_eqb k m.
  Proof. intro H. induction m as [|[k2 v] r IH]; simpl; auto.
    destruct (key_eqb_spec k' k2); simpl.
    - subst. destruct (key_eqb_spec k k2); congruence.
    - destruct (key_eqb_spec k k2); auto. Qed.
  Lemma al_set_eq k (v : V) m : alookup key_eqb k (aset key_eqb k v m) = Some v.
  Proof. unfold aset; simpl. rewrite key_eqb_refl. reflexivity. Qed.
  Lemma al_set_neq k k' (v : V) m : k <> k' -> alookup key_eqb k (aset key_eqb k' v m) = alookup key_eqb k m.
  Proof. intro H. unfold aset; simpl. destruct (key_eqb_spec k k'); [congruence|]. apply al_remove_neq; auto. Qed.
  Lemma al_remove_all k ks m :
    alookup key_eqb k (fold_left (fun r k => aremove key_eqb k r) ks m) =
    if existsb (key_eqb k) ks then None else alookup key_eqb k m.
  Proof.
    revert m. induction ks as [|a ks IH]; intro m; simpl; auto.
    rewrite IH. destruct (key_eqb_spec k a) as [->|Hne]; simpl.
    - rewrite al_remove_eq. destruct (existsb _ ks); reflexivity.
    - rewrite al_remove_neq by assumption. reflexivity.
  Qed.
End AL.

Lemma existsb_key_In k ks : existsb (key_eqb k) ks = true <-> In k ks.
Proof. rewrite existsb_exists. split.
  - intros [x [Hin He]]. destruct (key_eqb_spec k x); congruence.
  - intro H. exists k. split; [assumption|apply key_eqb_refl]. Qed.

(* ---------- Redis primitives ---------- *)
Lemma entry_setex_eq n k v ttl : entry (r_setex n k v ttl) k = Some (v, now n + ttl).
Proof. unfold entry, r_setex; simpl. apply al_set_eq. Qed.
Lemma entry_setex_neq n k k' v ttl : k' <> k -> entry (r_setex n k v ttl) k' = entry n k'.
Proof. intro H. unfold entry, r_setex; simpl. apply al_set_neq; assumption. Qed.
Lemma entry_del n ks k : entry (r_del n ks) k = if existsb (key_eqb k) ks then None else entry n k.
Proof. unfold entry, r_del; simpl. apply al_remove_all. Qed.

(* ---------- what an operation may do to the cache: every key keeps its entry, loses it, or gets an
   entry (v, x) satisfying P ---------- *)
Definition upd (P : key -> cval -> Z -> Prop) (n n' : node) : Prop :=
  now n' = now n /\ fget n' = fget n /\ fset n' = fset n /\ fdel n' = fdel n /\
  forall k, entry n' k = entry n k \/ entry n' k = None \/ exists v x, entry n' k = Some (v, x) /\ P k v x.

Lemma upd_refl (P : key -> cval -> Z -> Prop) n : upd P n n.
Proof. repeat split; auto. Qed.
Lemma upd_trans (P : key -> cval -> Z -> Prop) n1 n2 n3 : upd P n1 n2 -> upd P n2 n3 -> upd P n1 n3.
Proof.
  intros (A1 & A2 & A3 & A4 & A5) (B1 & B2 & B3 & B4 & B5). repeat split; try congruence.
  intro k. destruct (B5 k) as [E|[E|E]]; [rewrite E; apply A5 | auto | auto].
Qed.
Lemma upd_setex (P : key -> cval -> Z -> Prop) n k v ttl : P k v (now n + ttl) -> upd P n (r_setex n k v ttl).
Proof.
  intro H. repeat split; auto. intro k'. destruct (key_eq_dec k' k) as [->|Hne].
  - right; right. exists v, (now n + ttl). split; [apply entry_setex_eq | assumption].
  - left. apply entry_setex_neq; assumption.
Qed.
Lemma upd_del (P : key -> cval -> Z -> Prop) n ks : upd P n (r_del n ks).
Proof. repeat split; auto. intro k. rewrite entry_del. destruct (existsb _ ks); auto. Qed.
Lemma upd_same_redis (P : key -> cval -> Z -> Prop) n n' :
  redis n' = redis n -> now n' = now n -> fget n' = fget n -> fset n' = fset n -> fdel n' = fdel n -> upd P n n'.
Proof. intros. repeat split; auto. intro k. left. unfold entry. congruence. Qed.

Lemma upd_set_with_expire (P : key -> cval -> Z -> Prop) n k v d :
  P k v (now n + ceil_secs d) -> upd P n (fst (set_with_expire n k v d)).
Proof. intro H. unfold set_with_expire. destruct (fset n); simpl; [apply upd_refl | apply upd_setex; assumption]. Qed.

Lemma upd_do_get {A} (P : key -> cval -> Z -> Prop) (dec : cval -> dres A) n k : upd P n (fst (do_get dec n k)).
Proof.
  unfold do_get. destruct (fget n); simpl; [apply upd_refl|].
  destruct (live n k) as [[| | |]|]; simpl; try apply upd_refl;
    match goal with |- context [dec ?v] => destruct (dec v) end; simpl; try apply upd_refl;
    destruct (fdel n); try apply upd_refl; apply upd_del.
Qed.

Lemma upd_del_ctx (P : key -> cval -> Z -> Prop) n ks : upd P n (del_ctx n ks).
Proof.
  unfold del_ctx. destruct ks as [|k ks]; [apply upd_refl|].
  destruct (fdel n); [|apply upd_del]. apply upd_same_redis; reflexivity.
Qed.

Lemma upd_clean (P : key -> cval -> Z -> Prop) n t : upd P n (clean n t).
Proof.
  unfold clean. destruct (fdel n) eqn:Fd; simpl.
  - destruct (next_delay (t_delay t)); apply upd_same_redis; simpl; auto.
  - eapply upd_trans; [apply (upd_del P n (t_keys t))|]. apply upd_same_redis; reflexivity.
Qed.

Lemma upd_fold_clean (P : key -> cval -> Z -> Prop) ts : forall n, upd P n (fold_left clean ts n).
Proof. induction ts as [|t ts IH]; intro n; simpl; [apply upd_refl|].
  eapply upd_trans; [apply upd_clean | apply IH]. Qed.

Lemma upd_do_tick (P : key -> cval -> Z -> Prop) n : upd P n (do_tick n).
Proof.
  unfold do_tick. eapply upd_trans; [|apply upd_fold_clean]. apply upd_same_redis; reflexivity.
Qed.

(* the node after do_get, with what was read *)
Lemma do_get_cases {A} (dec : cval -> dres A) n k :
  let (n1, g) := do_get dec n k in
  now n1 = now n /\ fget n1 = fget n /\ fset n1 = fset n /\ fdel n1 = fdel n /\
  match g with
  | GErr => fget n = true /\ n1 = n
  | GMiss => fget n = false /\ (live n k = None \/ exists v, live n k = Some v /\ v <> VStar /\ dec v = DBad)
  | GStar => fget n = false /\ live n k = Some VStar /\ n1 = n
  | GHit a => fget n = false /\ n1 = n /\ exists v, live n k = Some v /\ v <> VStar /\ dec v = DOk a
  | GOther => fget n = false /\ n1 = n /\ exists v, live n k = Some v /\ dec v = DOther
  end.
Proof.
  unfold do_get. destruct (fget n) eqn:Fg; [auto 10|].
  destruct (live n k) as [v|] eqn:L; [|auto 10].
  destruct v; try (repeat split; auto; fail);
    match goal with |- context [dec ?v] => destruct (dec v) eqn:D end;
    repeat split; auto; try (destruct (fdel n) eqn:?; simpl; auto; congruence);
    try (eexists; repeat split; eauto; discriminate);
    try (right; eexists; repeat split; eauto; discriminate).
Qed.

(* ---------- the database side ---------- *)
Lemma find_from_row b t i pk r : find_from b t i = Some (pk, r) ->
  (b <= pk)%nat /\ nth (pk - b) t None = Some r /\ fst r = i.
Proof.
  revert b. induction t as [|x t IH]; intros b H; simpl in H; [discriminate|].
  destruct x as [[ix v]|].
  - destruct (Nat.eqb_spec ix i).
    + inversion H; subst. replace (pk - pk)%nat with 0%nat by lia. simpl. auto.
    + apply IH in H as (H1 & H2 & H3). split; [lia|]. split; [|assumption].
      replace (pk - b)%nat with (S (pk - S b)) by lia. exact H2.
  - apply IH in H as (H1 & H2 & H3). split; [lia|]. split; [|assumption].
    replace (pk - b)%nat with (S (pk - S b)) by lia. exact H2.
Qed.
Lemma db_find_row t i pk ix v : db_find t i = Some (pk, (ix, v)) -> db_row t pk = Some (ix, v) /\ ix = i.
Proof. intro H. apply find_from_row in H as (_ & H2 & H3). rewrite Nat.sub_0_r in H2. auto. Qed.

(* ---------- reads: generic description ---------- *)
(* take_pk writes at most the key PK id, with the values below *)
Lemma take_pk_upd (P : key -> cval -> Z -> Prop) c f e n id :
  (db_row (db e) id = None -> P (PK id) VStar (now n + ceil_secs (around f (nfexpire c)))) ->
  (forall ix v, db_row (db e) id = Some (ix, v) -> P (PK id) (VRow id ix v) (now n + ceil_secs (around f (expire c)))) ->
  let '(e', n', r) := take_pk c f e n id in upd P n n' /\ db e' = db e.
Proof.
  intros H1 H2. unfold take_pk.
  pose proof (upd_do_get P dec_row n (PK id)) as U. pose proof (do_get_cases dec_row n (PK id)) as C.
  destruct (do_get dec_row n (PK id)) as [n1 g]. simpl in U. destruct C as (N & _ & _ & _ & C).
  destruct g as [[[a b] v]| | | |]; try (split; [assumption|reflexivity]).
  destruct (db_row (db e) id) as [[ix v]|] eqn:R; (split; [|reflexivity]); (eapply upd_trans; [exact U|]).
  - apply upd_set_with_expire. rewrite N. apply H2. reflexivity.
  - unfold set_not_found. apply upd_set_with_expire. rewrite N. apply H1. reflexivity.
Qed.

Lemma take_pk_dberr_upd (P : key -> cval -> Z -> Prop) e n id :
  let '(e', n', r) := take_pk_dberr e n id in upd P n n' /\ db e' = db e.
Proof.
  unfold take_pk_dberr. pose proof (upd_do_get P dec_row n (PK id)) as U.
  destruct (do_get dec_row n (PK id)) as [n1 g]. simpl in U.
  destruct g as [[[a b] v]| | | |]; split; auto.
Qed.

Lemma query_row_index_upd (P : key -> cval -> Z -> Prop) c f1 f2 e n i :
  (forall id, db_row (db e) id = None -> P (PK id) VStar (now n + ceil_secs (around f2 (nfexpire c)))) ->
  (forall id ix v, db_row (db e) id = Some (ix, v) -> P (PK id) (VRow id ix v) (now n + ceil_secs (around f2 (expire c)))) ->
  (db_find (db e) i = None -> P (IX i) VStar (now n + ceil_secs (around f2 (nfexpire c)))) ->
  (forall pk ix v, db_find (db e) i = Some (pk, (ix, v)) ->
     P (PK pk) (VRow pk ix v) (now n + ceil_secs (around f1 (expire c) + gap c)) /\
     P (IX i) (VPk pk) (now n + ceil_secs (around f1 (expire c)))) ->
  let '(e', n', r) := query_row_index c f1 f2 e n i in upd P n n' /\ db e' = db e.
Proof.
  intros H1 H2 H3 H4. unfold query_row_index.
  pose proof (upd_do_get P dec_pk n (IX i)) as U. pose proof (do_get_cases dec_pk n (IX i)) as C.
  destruct (do_get dec_pk n (IX i)) as [n1 g]. simpl in U. destruct C as (N & _ & Fs & _ & C).
  destruct g as [pk| | | |]; try (split; [assumption|reflexivity]).
  - destruct C as (_ & -> & _).
    pose proof (take_pk_upd P c f2 e n pk (H1 pk) (H2 pk)) as T.
    destruct (take_pk c f2 e n pk) as [[e' n'] r]. exact T.
  - destruct (db_find (db e) i) as [[pk [ix v]]|] eqn:F.
    + destruct (H4 _ _ _ eq_refl) as [Ha Hb].
      unfold set_with_expire at 1. rewrite Fs. destruct (fset n) eqn:Fs'.
      * split; [assumption|reflexivity].
      * split; [|reflexivity]. eapply upd_trans; [exact U|]. eapply upd_trans.
        -- apply upd_setex. rewrite N. exact Ha.
        -- apply upd_set_with_expire. simpl. rewrite N. exact Hb.
    + split; [|reflexivity]. eapply upd_trans; [exact U|]. unfold set_not_found.
      apply upd_set_with_expire. rewrite N. apply H3. reflexivity.
Qed.

(* ================= coherence ================= *)
Definition good (t : table) (k : key) (ov : option cval) : Prop :=
  match ov with
  | None => True
  | Some VStar => view t k = None
  | Some (VBad _) => True
  | Some v => view t k = Some v
  end.
Definition Inv (s : env * node) : Prop := forall k, good (db (fst s)) k (live (snd s) k).

Definition goodP (t : table) (k : key) (v : cval) (x : Z) : Prop := good t k (Some v).

Lemma upd_Inv t n n' : upd (goodP t) n n' -> (forall k, good t k (live n k)) -> forall k, good t k (live n' k).
Proof.
  intros (N & _ & _ & _ & U) H k. unfold live in *. rewrite N. destruct (U k) as [E|[E|(v & x & E & G)]].
  - rewrite E. apply H.
  - rewrite E. exact I.
  - rewrite E. destruct (now n <? x); [exact G | exact I].
Qed.

Lemma good_ext t t' k ov : view t' k = view t k -> good t k ov -> good t' k ov.
Proof. intros E H. destruct ov as [[| | |]|]; simpl in *; congruence. Qed.

Lemma view_dec (a b : option cval) : {a = b} + {a <> b}.
Proof. repeat decide equality. Qed.

(* hypotheses of the coherence theorem, per operation (checked against the current state) *)
Definition op_ok (s : env * node) (o : op) : Prop :=
  match o with
  | Exec w ks => forall t', apply_write w (db (fst s)) = Some t' ->
                 forall k, view t' k <> view (db (fst s)) k -> In k ks   (* names the keys it changes *)
  | SetCache k v _ => view (db (fst s)) k = Some v                       (* stores the current row *)
  | Fault _ _ d => d = false                                             (* deletes do not fail *)
  | _ => True
  end.

Lemma good_pk_none t id : db_row t id = None -> goodP t (PK id) VStar 0.
Proof. intro H. unfold goodP, good, view. rewrite H. reflexivity. Qed.
Lemma good_pk_some t id ix v : db_row t id = Some (ix, v) -> good t (PK id) (Some (VRow id ix v)).
Proof. intro H. unfold good, view. rewrite H. reflexivity. Qed.

Lemma step_Inv c s o : Inv s -> fdel (snd s) = false -> op_ok s o ->
  Inv (step_st c s o) /\ fdel (snd (step_st c s o)) = false.
Proof.
  destruct s as [e n]. unfold Inv, step_st; simpl. intros HI Fd Hok.
  destruct o as [id f|i f1 f2|w ks|ks|k v f|dt| |g s0 d|k g ttl|kc|ide]; simpl.
  - pose proof (take_pk_upd (goodP (db e)) c f e n id) as T.
    destruct (take_pk c f e n id) as [[e' n'] r]. simpl.
    destruct T as [U D].
    + intro H. unfold goodP, good, view. rewrite H. reflexivity.
    + intros ix v H. unfold goodP. apply good_pk_some. assumption.
    + rewrite D. split; [eapply upd_Inv; eauto|]. destruct U as (_ & _ & _ & E & _). congruence.
  - pose proof (query_row_index_upd (goodP (db e)) c f1 f2 e n i) as T.
    destruct (query_row_index c f1 f2 e n i) as [[e' n'] r]. simpl.
    destruct T as [U D].
    + intros id H. unfold goodP, good, view. rewrite H. reflexivity.
    + intros id ix v H. apply good_pk_some. assumption.
    + intro H. unfold goodP, good, view. rewrite H. reflexivity.
    + intros pk ix v H. pose proof (db_find_row _ _ _ _ _ H) as [R _]. split.
      * apply good_pk_some. assumption.
      * unfold goodP, good, view. rewrite H. reflexivity.
    + rewrite D. split; [eapply upd_Inv; eauto|]. destruct U as (_ & _ & _ & E & _). congruence.
  - unfold exec. destruct (apply_write w (db e)) as [t'|] eqn:W; simpl; [|auto].
    split.
    + intro k. unfold del_ctx. destruct ks as [|k0 ks0]; [|rewrite Fd].
      * apply good_ext with (t := db e); [|apply HI].
        destruct (view_dec (view t' k) (view (db e) k)) as [E|E]; [assumption|].
        exfalso. exact (Hok t' W k E).
      * destruct (existsb (key_eqb k) (k0 :: ks0)) eqn:X.
        -- assert (L : live (r_del n (k0 :: ks0)) k = None) by (unfold live; rewrite entry_del, X; reflexivity).
           rewrite L. exact I.
        -- assert (L : live (r_del n (k0 :: ks0)) k = live n k) by (unfold live; rewrite entry_del, X; reflexivity).
           rewrite L. apply good_ext with (t := db e); [|apply HI].
           destruct (view_dec (view t' k) (view (db e) k)) as [E|E]; [assumption|].
           exfalso. apply (Hok t' W k) in E. apply existsb_key_In in E. congruence.
    + pose proof (upd_del_ctx (goodP (db e)) n ks) as (_ & _ & _ & E & _). congruence.
  - split; [|pose proof (upd_del_ctx (goodP (db e)) n ks) as (_ & _ & _ & E & _); congruence].
    eapply upd_Inv; [apply upd_del_ctx | exact HI].
  - unfold set_cache. pose proof (upd_set_with_expire (goodP (db e)) n k v (around f (expire c))) as U.
    destruct (set_with_expire n k v (around f (expire c))) as [n1 ok]. simpl in *.
    assert (U' : upd (goodP (db e)) n n1).
    { apply U. unfold goodP, good. simpl in Hok. destruct v; simpl; auto.
      exfalso. unfold view in Hok. destruct k; [destruct (db_row (db e) id) as [[? ?]|] | destruct (db_find (db e) i) as [[? ?]|]]; discriminate. }
    split; [eapply upd_Inv; eauto|]. destruct U' as (_ & _ & _ & E & _). congruence.
  - split; [|assumption]. intro k. specialize (HI k). unfold live in *. simpl.
    change (entry (set_now n (now n + Z.max 0 dt)) k) with (entry n k).
    destruct (entry n k) as [[v x]|]; [|exact I].
    destruct (now n + Z.max 0 dt <? x) eqn:A; [|exact I].
    assert (B : now n <? x = true) by lia. rewrite B in HI. assumption.
  - split; [|pose proof (upd_do_tick (goodP (db e)) n) as (_ & _ & _ & E & _); congruence].
    eapply upd_Inv; [apply upd_do_tick | exact HI].
  - split; [exact HI | exact Hok].
  - split; [|assumption]. eapply upd_Inv; [|exact HI]. apply upd_setex. exact I.
  - split; [exact HI | exact Fd].
  - pose proof (take_pk_dberr_upd (goodP (db e)) e n ide) as T.
    destruct (take_pk_dberr e n ide) as [[e' n'] r]. simpl. destruct T as [U D].
    rewrite D. split; [eapply upd_Inv; eauto|]. destruct U as (_ & _ & _ & E & _). congruence.
Qed.

Fixpoint hist_ok (c : cfg) (s : env * node) (ops : list op) : Prop :=
  match ops with
  | [] => True
  | o :: r => op_ok s o /\ hist_ok c (step_st c s o) r
  end.

Lemma run_Inv c ops : forall s, Inv s -> fdel (snd s) = false -> hist_ok c s ops ->
  Inv (run c ops s) /\ fdel (snd (run c ops s)) = false.
Proof.
  induction ops as [|o r IH]; intros s HI Fd H; simpl; [auto|].
  destruct H as [Ho Hr]. destruct (step_Inv c s o HI Fd Ho) as [HI' Fd']. apply IH; assumption.
Qed.

Lemma Inv_init : Inv (init_env, init_node).
Proof. intro k. exact I. Qed.

(* what a read answers under the invariant *)
Lemma take_pk_coherent c f e n id : (forall k, good (db e) k (live n k)) ->
  let r := snd (take_pk c f e n id) in
  r = expect_row (db e) id \/ (fget n = true /\ r = RCacheErr).
Proof.
  intro HI. unfold take_pk. pose proof (do_get_cases dec_row n (PK id)) as C.
  destruct (do_get dec_row n (PK id)) as [n1 g]. destruct C as (_ & _ & _ & _ & C).
  specialize (HI (PK id)). unfold expect_row.
  destruct g as [[[a b] v]| | | |]; simpl.
  - destruct C as (_ & _ & v0 & L & _ & D). rewrite L in HI. left.
    destruct v0; simpl in D; try discriminate. inversion D; subst. simpl in HI.
    destruct (db_row (db e) id) as [[ix v1]|]; [inversion HI; reflexivity | discriminate].
  - left. destruct (db_row (db e) id) as [[ix v]|]; reflexivity.
  - destruct C as (_ & L & _). rewrite L in HI. simpl in HI. left.
    destruct (db_row (db e) id) as [[ix v]|]; [discriminate | reflexivity].
  - right. tauto.
  - destruct C as (_ & _ & v0 & L & D). destruct v0; simpl in D; discriminate.
Qed.

Lemma query_row_index_coherent c f1 f2 e n i : (forall k, good (db e) k (live n k)) ->
  let r := snd (query_row_index c f1 f2 e n i) in
  r = expect_index (db e) i \/ ((fget n = true \/ fset n = true) /\ r = RCacheErr).
Proof.
  intro HI. unfold query_row_index. pose proof (do_get_cases dec_pk n (IX i)) as C.
  destruct (do_get dec_pk n (IX i)) as [n1 g]. destruct C as (_ & _ & Fs & _ & C).
  pose proof (HI (IX i)) as Hi. unfold expect_index.
  destruct g as [pk| | | |]; simpl.
  - destruct C as (Fg & -> & v0 & L & _ & D). rewrite L in Hi.
    destruct v0; simpl in D; try discriminate. inversion D; subst. simpl in Hi.
    destruct (db_find (db e) i) as [[pk' [ix v]]|] eqn:F; [|discriminate]. inversion Hi; subst.
    apply db_find_row in F as [R _].
    destruct (take_pk_coherent c f2 e n pk HI) as [E|[E _]]; [|congruence].
    left. simpl in E. rewrite E. unfold expect_row. rewrite R. reflexivity.
  - destruct (db_find (db e) i) as [[pk [ix v]]|]; [|left; reflexivity].
    unfold set_with_expire. rewrite Fs. destruct (fset n) eqn:Fs'; simpl; [right; auto | left; reflexivity].
  - destruct C as (_ & L & _). rewrite L in Hi. simpl in Hi. left.
    destruct (db_find (db e) i) as [[pk [ix v]]|]; [discriminate | reflexivity].
  - right. split; [left; tauto | reflexivity].
  - destruct C as (_ & _ & v0 & L & D). rewrite L in Hi. destruct v0; simpl in D; try discriminate.
    simpl in Hi. destruct (db_find (db e) i) as [[pk' [ix' v']]|]; discriminate.
Qed.

(* every read of a well-named, delete-fault-free history answers from the current database *)
Lemma coherent c ops : hist_ok c (init_env, init_node) ops ->
  let s := run c ops (init_env, init_node) in
  Inv s /\
  (forall id f, step_res c s (QueryRow id f) = expect_row (db (fst s)) id \/
                (fget (snd s) = true /\ step_res c s (QueryRow id f) = RCacheErr)) /\
  (forall i f1 f2, step_res c s (QueryRowIndex i f1 f2) = expect_index (db (fst s)) i \/
                ((fget (snd s) = true \/ fset (snd s) = true) /\ step_res c s (QueryRowIndex i f1 f2) = RCacheErr)).
Proof.
  intro H. destruct (run_Inv c ops _ Inv_init eq_refl H) as [HI _].
  split; [assumption|]. destruct (run c ops (init_env, init_node)) as [e n]. unfold step_res; simpl.
  split; intros.
  - apply take_pk_coherent. exact HI.
  - apply query_row_index_coherent. exact HI.
Qed.

(* Redis alive throughout: no fault is ever switched on *)
Definition alive (n : node) : Prop := fget n = false /\ fset n = false /\ fdel n = false.
Definition no_fault (o : op) : Prop := match o with Fault g s d => g = false /\ s = false /\ d = false | _ => True end.

Lemma step_alive c s o : alive (snd s) -> no_fault o -> alive (snd (step_st c s o)).
Proof.
  destruct s as [e n]. unfold alive, step_st. simpl. intros (A & B & C) H.
  assert (G : forall n', upd (fun _ _ _ => True) n n' -> fget n' = false /\ fset n' = false /\ fdel n' = false).
  { intros n' (_ & E1 & E2 & E3 & _). repeat split; congruence. }
  destruct o as [id f|i f1 f2|w ks|ks|k v f|dt| |g s0 d|k g ttl|kc|ide]; simpl.
  - pose proof (take_pk_upd (fun _ _ _ => True) c f e n id) as T.
    destruct (take_pk c f e n id) as [[e' n'] r]. apply G. apply T; auto.
  - pose proof (query_row_index_upd (fun _ _ _ => True) c f1 f2 e n i) as T.
    destruct (query_row_index c f1 f2 e n i) as [[e' n'] r]. apply G. apply T; auto.
  - unfold exec. destruct (apply_write w (db e)); simpl; [apply G; apply upd_del_ctx | auto].
  - apply G. apply upd_del_ctx.
  - unfold set_cache. pose proof (upd_set_with_expire (fun _ _ _ => True) n k v (around f (expire c)) I) as U.
    destruct (set_with_expire n k v (around f (expire c))). apply G. exact U.
  - auto.
  - apply G. apply upd_do_tick.
  - destruct H as (-> & -> & ->). auto.
  - auto.
  - auto.
  - pose proof (take_pk_dberr_upd (fun _ _ _ => True) e n ide) as T.
    destruct (take_pk_dberr e n ide) as [[e' n'] r]. apply G. apply T.
Qed.

Lemma run_alive c ops : forall s, alive (snd s) -> Forall no_fault ops -> alive (snd (run c ops s)).
Proof.
  induction ops as [|o r IH]; intros s A H; simpl; [assumption|].
  inversion H; subst. apply IH; [apply step_alive; assumption | assumption].
Qed.

Lemma coherent_alive c ops : hist_ok c (init_env, init_node) ops -> Forall no_fault ops ->
  let s := run c ops (init_env, init_node) in
  (forall id f, step_res c s (QueryRow id f) = expect_row (db (fst s)) id) /\
  (forall i f1 f2, step_res c s (QueryRowIndex i f1 f2) = expect_index (db (fst s)) i).
Proof.
  intros H F. destruct (coherent c ops H) as (_ & R1 & R2).
  pose proof (run_alive c ops (init_env, init_node) (conj eq_refl (conj eq_refl eq_refl)) F) as (A & B & _).
  split; intros.
  - destruct (R1 id f) as [E|[E _]]; [assumption | congruence].
  - destruct (R2 i f1 f2) as [E|[[E|E] _]]; [assumption | congruence | congruence].
Qed.

(* ================= error pass-through ================= *)
Lemma error_passthrough c e n : fget n = true ->
  (forall id f, take_pk c f e n id = (e, n, RCacheErr)) /\
  (forall i f1 f2, query_row_index c f1 f2 e n i = (e, n, RCacheErr)).
Proof.
  intro H. split; intros; unfold take_pk, query_row_index, do_get; rewrite H; reflexivity.
Qed.
