(* C06 Exec: checkers evaluated by vm_compute on (history, observations of the Go code).
   model_ok: the Model (cluster form; one node for the sqlc / node levels, see Link.cluster1_is_node)
             reproduces results, DB query counts, the complete Redis contents (value + TTL of every
             key after every operation) and the cleaner's event log.
   spec_ok : the observations satisfy the clauses of the property directly. *)
From God Require Import Base.Prelude.
From God Require Export C06.Spec C06.Model C06.ModelConc.
From God Require C18.Conc.
From Coq Require Import QArith.
(* no dependency on GodGen: the numbers used here are the statement's own (Spec.safe_gap, Model.expire_deviation);
   Link.v proves that the constants regenerated from the Go sources equal them *)
Local Open Scope Z_scope.

Inductive xop :=
| XQRow (id : nat) (m : Z)
| XQIdx (i : nat) (m1 m2 : Z)
| XExec (w : write) (ks : list key)
| XDel (ks : list key)
| XSet (k : key) (v : cval) (m : Z)
| XAdv (dt : Z)       (* seconds; node / cluster level: that many (Advance 1; Tick) *)
| XFault (nd : option nat) (g s d : bool)
| XCorrupt (k : key) (g : nat) (ttl : Z)
| XQRowC (id : nat)   (* QueryRow with an already cancelled context *)
| XQIdxC (i : nat)    (* QueryRowIndex with an already cancelled context *)
| XQRowE (id : nat)   (* QueryRow whose database query answers an error other than not-found *)
| XGc                 (* runtime.GC() in the driver: nothing for the model *)
| XExecC (w : write) (ks : list key)  (* ExecCtx whose context is cancelled inside the exec callback, after the write:
                                         the DEL fails with the context error and is left to the background retry *)
| XTick.              (* the cleaner's timer ticks once (CachedConn level: the driver waits for the real wheel) *)

Record oobs := mkobs { o_res : rres; o_q : nat; o_dump : list (nat * key * (cval * Z)) }.

(* concurrent cases: what the driver saw, in order *)
Inductive oev := OEv (e : CA.cev) | OStart (t k : nat) | ORet (t : nat).
Inductive clbl := LStart (t : nat) | LOpen (g : nat) | LCancel (t : nat).

Record case := mkcase {
  c_level : nat;            (* 0: CachedConn (lib/store/sqlc), 1: cache node, 2: cache cluster,
                               3: concurrent calls under a forced schedule (fields c_threads ..) *)
  c_expire : Z;             (* seconds *)
  c_nfexpire : Z;           (* seconds *)
  c_nnodes : nat;
  c_place : list nat;       (* observed dispatcher: node of every universe key *)
  c_ops : list xop;
  c_obs : list oobs;        (* one per op *)
  c_logs : list (list event); (* observed cleaner events per node *)
  c_tick : Z;
  c_threads : list CA.cop;  (* level 3: one call per thread *)
  c_sched : list clbl;
  c_events : list oev;      (* observed: query begin/end, SET, DEL, database write, call start/return *)
  c_cres : list (list (option nat));   (* observed results per thread, one per call, oldest first; None = context error *)
  c_ccache : list (option nat);        (* observed final cache entry per key *)
  c_cdb : list nat;                    (* observed final database per key *)
  c_more : list (nat * list CA.cop);   (* further calls of a thread *)
  c_pe : bool;              (* WithExpire(c_expire s) was passed (c_expire may be <= 0); otherwise no option *)
  c_pn : bool               (* WithNotFoundExpire(c_nfexpire s) was passed *)
}.

Definition universe : list key := [PK 0; PK 1; PK 2; PK 3; IX 0; IX 1; IX 2].
Definition key_index (k : key) : nat := match k with PK id => id | IX i => (4 + i)%nat end.
Definition place_of (c : case) (k : key) : nat := nth (key_index k) (c_place c) 0%nat.
(* the expiries in force (ns): what the options given to the constructor leave *)
Definition eff_e (c : case) : Z := effective (if c_pe c then Some (c_expire c * sec) else None) default_expire.
Definition eff_n (c : case) : Z := effective (if c_pn c then Some (c_nfexpire c * sec) else None) default_nfexpire.
Definition cfg_of (c : case) : cfg := mkC (eff_e c) (eff_n c) safe_gap.
Definition fac (m : Z) : Q := factor expire_deviation (m # 1024).
Definition nnodes (c : case) : nat := if Nat.eqb (c_level c) 2 then c_nnodes c else 1%nat.

(* ---------- model agreement ---------- *)
Definition expand (c : case) (o : xop) : list cop :=
  match o with
  | XQRow id m => [COp (QueryRow id (fac m))]
  | XQIdx i m1 m2 => [COp (QueryRowIndex i (fac m1) (fac m2))]
  | XExec w ks => [COp (Exec w ks)]
  | XDel ks => [COp (DelCache ks)]
  | XSet k v m => [COp (SetCache k v (fac m))]
  | XAdv dt =>
      if Nat.eqb (c_level c) 0 then [COp (Advance dt)]
      else flat_map (fun _ => [COp (Advance 1); COp Tick]) (seq 0 (Z.to_nat dt))
  | XFault None g s d => [COp (Fault g s d)]
  | XFault (Some j) g s d => [CFault j g s d]
  | XCorrupt k g ttl => [COp (Corrupt k g ttl)]
  | XQRowC id => [COp (QueryCancelled (PK id))]
  | XQIdxC i => [COp (QueryCancelled (IX i))]
  | XQRowE id => [COp (QueryRowDbErr id)]
  | XGc => []
  | XExecC w ks => [COp (Fault false false true); COp (Exec w ks); COp (Fault false false false)]
  | XTick => [COp Tick]
  end.

(* run the expansion; the result is that of the last step *)
Fixpoint run_ops (place : key -> nat) (cf : cfg) (s : env * list node) (ops : list cop) (r : rres)
  : env * list node * rres :=
  match ops with
  | [] => (s, r)
  | o :: ops' => let '(e, ns, r') := cstep place cf s o in run_ops place cf (e, ns) ops' r'
  end.

Definition entry_eqb (a b : option (cval * Z)) : bool :=
  match a, b with
  | None, None => true
  | Some (v, t), Some (v', t') => cval_eqb v v' && (t =? t')
  | _, _ => false
  end.

Definition dump_lookup (d : list (nat * key * (cval * Z))) (j : nat) (k : key) : option (cval * Z) :=
  match find (fun x => Nat.eqb (fst (fst x)) j && key_eqb (snd (fst x)) k) d with
  | Some x => Some (snd x)
  | None => None
  end.

Definition model_entry (n : node) (k : key) : option (cval * Z) :=
  match entry n k with
  | Some (v, e) => if now n <? e then Some (v, e - now n) else None
  | None => None
  end.

Definition dump_ok (ns : list node) (d : list (nat * key * (cval * Z))) : bool :=
  forallb (fun jn => forallb (fun k => entry_eqb (model_entry (snd jn) k) (dump_lookup d (fst jn) k)) universe)
          (combine (seq 0 (List.length ns)) ns).

Fixpoint model_rows (c : case) (s : env * list node) (ops : list xop) (obs : list oobs) : bool * (env * list node) :=
  match ops, obs with
  | [], [] => (true, s)
  | o :: ops', ob :: obs' =>
      let '(e, ns, r) := run_ops (place_of c) (cfg_of c) s (expand c o) ROk in
      if rres_eqb r (o_res ob) && Nat.eqb (dbq e) (o_q ob) && dump_ok ns (o_dump ob)
      then model_rows c (e, ns) ops' obs' else (false, s)
  | _, _ => (false, s)
  end.

Definition event_eqb (a b : event) : bool :=
  match a, b with
  | EvArm i t ks, EvArm i' t' ks' => Nat.eqb i i' && (t =? t') && list_eqb key_eqb ks ks'
  | EvTry i t ok, EvTry i' t' ok' => Nat.eqb i i' && (t =? t') && Bool.eqb ok ok'
  | _, _ => false
  end.

Definition model_ok_seq (c : case) : bool :=
  let '(ok, (e, ns)) := model_rows c (init_env, repeat init_node (nnodes c)) (c_ops c) (c_obs c) in
  ok &&
  (* the CachedConn-level driver cannot observe the cleaner (real wheel of another package) *)
  (if Nat.eqb (c_level c) 0 then true
   else list_eqb (list_eqb event_eqb) (map log ns) (c_logs c) && forallb (fun n => tick n =? c_tick c) ns).

(* ---------- the property, on the observations ---------- *)
Definition mem (k : key) (l : list key) : bool := existsb (key_eqb k) l.
Definition del_key (k : key) (l : list key) : list key := filter (fun x => negb (key_eqb k x)) l.
Definition add_key (k : key) (l : list key) : list key := if mem k l then l else k :: l.
Definition faults3 := (bool * bool * bool)%type.

Record sst := mkS {
  s_t : table; s_f : list faults3; s_now : Z; s_tick : Z;
  s_taint : list key;                  (* keys whose entry may legitimately be stale *)
  s_shield : list (key * Z);           (* key |-> second until which a placeholder must shield the DB *)
  s_q : nat; s_dump : list (nat * key * (cval * Z));
  s_arms : list (nat * (Z * list key)) (* deletes that failed: (node, tick, keys) *)
}.

Definition fl (s : sst) (j : nat) : faults3 := nth j (s_f s) (false, false, false).
Definition fg (f : faults3) := fst (fst f).
Definition fs (f : faults3) := snd (fst f).
Definition fd (f : faults3) := snd f.
Definition nofault (f : faults3) : bool := negb (fg f) && negb (fs f) && negb (fd f).
Definition shield_of (s : sst) (k : key) : Z :=
  match alookup key_eqb k (s_shield s) with Some t => t | None => 0 end.
Definition shielded (s : sst) (k : key) : bool := s_now s <? shield_of s k.

Definition opt_cval_eqb := option_eqb cval_eqb.

(* every entry the operation wrote has a TTL in the window *)
Definition ttl_ok (c : case) (idx : bool) (s : sst) (d : list (nat * key * (cval * Z))) : bool :=
  forallb (fun x =>
    let '(j, k, (v, ttl)) := x in
    if entry_eqb (dump_lookup (s_dump s) j k) (Some (v, ttl)) then true
    else match v with
         | VStar => in_windowb (eff_n c) ttl
         | _ => in_windowb (eff_e c) ttl ||
                (idx && match k with PK _ => in_windowb (eff_e c) (ttl - 5) | _ => false end)
         end) d.

(* deletes: failed ones taint their keys and must be retried; successful ones make the key clean *)
Definition after_del (c : case) (s : sst) (ks : list key) : sst :=
  let failed := filter (fun k => fd (fl s (place_of c k))) ks in
  let okd := filter (fun k => negb (fd (fl s (place_of c k)))) ks in
  let taint := fold_left (fun t k => add_key k t) failed (fold_left (fun t k => del_key k t) okd (s_taint s)) in
  let arms := flat_map (fun j =>
                let g := filter (fun k => Nat.eqb (place_of c k) j) ks in
                match g with [] => [] | _ => if fd (fl s j) then [(j, (s_tick s, g))] else [] end)
              (seq 0 (nnodes c)) in
  mkS (s_t s) (s_f s) (s_now s) (s_tick s) taint
      (filter (fun kt => negb (mem (fst kt) ks)) (s_shield s)) (s_q s) (s_dump s) (s_arms s ++ arms).

Definition set_shield (s : sst) (k : key) (t : Z) : sst :=
  mkS (s_t s) (s_f s) (s_now s) (s_tick s) (s_taint s) (aset key_eqb k t (s_shield s)) (s_q s) (s_dump s) (s_arms s).
Definition clear_shield (s : sst) (k : key) : sst :=
  mkS (s_t s) (s_f s) (s_now s) (s_tick s) (s_taint s) (aremove key_eqb k (s_shield s)) (s_q s) (s_dump s) (s_arms s).
Definition set_taint (s : sst) (t : list key) : sst :=
  mkS (s_t s) (s_f s) (s_now s) (s_tick s) t (s_shield s) (s_q s) (s_dump s) (s_arms s).
Definition set_table (s : sst) (t : table) : sst :=
  mkS t (s_f s) (s_now s) (s_tick s) (s_taint s) (s_shield s) (s_q s) (s_dump s) (s_arms s).

(* keys of the successful retries observed at ticks in (lo, hi] *)
Definition armed_keys (lg : list event) (id : nat) : list key :=
  flat_map (fun e => match e with EvArm i _ ks => if Nat.eqb i id then ks else [] | _ => [] end) lg.
Definition retried_keys (c : case) (lo hi : Z) : list key :=
  flat_map (fun lg => flat_map (fun e => match e with
                                          | EvTry i t true => if (lo <? t) && (t <=? hi) then armed_keys lg i else []
                                          | _ => [] end) lg) (c_logs c).

Definition spec_step (c : case) (s : sst) (o : xop) (ob : oobs) : bool * sst :=
  let e := eff_e c in
  let nfe := eff_n c in
  let same_q := Nat.eqb (o_q ob) (s_q s) in
  let one_q := Nat.eqb (o_q ob) (S (s_q s)) in
  let fin (s' : sst) := mkS (s_t s') (s_f s') (s_now s') (s_tick s') (s_taint s') (s_shield s') (o_q ob) (o_dump ob) (s_arms s') in
  match o with
  | XQRow id m =>
      let k := PK id in
      let f := fl s (place_of c k) in
      let ok :=
        (* a cache failure is returned, the DB is not asked *)
        (if fg f then rres_eqb (o_res ob) RCacheErr && same_q else true) &&
        (* coherence *)
        (if negb (fg f) && negb (mem k (s_taint s)) then rres_eqb (o_res ob) (expect_row (s_t s) id) else true) &&
        (* the placeholder shields the DB *)
        (if negb (fg f) && shielded s k then same_q else true) &&
        ttl_ok c false s (o_dump ob) in
      let s' := if nofault f && negb (shielded s k) && rres_eqb (o_res ob) RNotFound && one_q
                then set_shield s k (s_now s + ttl_lo nfe) else s in
      (ok, fin s')
  | XQIdx i m1 m2 =>
      let k := IX i in
      let f := fl s (place_of c k) in
      let clean := match db_find (s_t s) i with
                   | Some (pk, _) => negb (mem (PK pk) (s_taint s)) && nofault (fl s (place_of c (PK pk)))
                   | None => true end in
      let ok :=
        (if fg f then rres_eqb (o_res ob) RCacheErr && same_q else true) &&
        (if nofault f && negb (mem k (s_taint s)) && clean then rres_eqb (o_res ob) (expect_index (s_t s) i) else true) &&
        (if negb (fg f) && shielded s k then same_q else true) &&
        ttl_ok c true s (o_dump ob) &&
        (* the index entry written now does not outlive the primary entry it points to: the safety gap of 5 s *)
        (match dump_lookup (o_dump ob) (place_of c k) k with
         | Some (VPk pk, ttl) =>
             if entry_eqb (dump_lookup (s_dump s) (place_of c k) k) (Some (VPk pk, ttl)) then true
             else match dump_lookup (o_dump ob) (place_of c (PK pk)) (PK pk) with
                  | Some (_, ttl') => ttl' =? ttl + safe_gap / sec   (* written in the same call: 5 s later, c06_index_gap *)
                  | None => false
                  end
         | _ => true
         end) in
      let s' := if nofault f && negb (shielded s k) && negb (mem k (s_taint s)) &&
                   match db_find (s_t s) i with None => true | _ => false end &&
                   rres_eqb (o_res ob) RNotFound && one_q
                then set_shield s k (s_now s + ttl_lo nfe) else s in
      (ok, fin s')
  | XExec w ks =>
      match apply_write w (s_t s) with
      | None => (rres_eqb (o_res ob) RExecErr && same_q && ttl_ok c false s (o_dump ob), fin s)
      | Some t' =>
          (* keys whose view changes without being named may be stale from now on *)
          let unnamed := filter (fun k => negb (opt_cval_eqb (view t' k) (view (s_t s) k)) && negb (mem k ks)) universe in
          let s1 := set_taint (set_table s t') (fold_left (fun t k => add_key k t) unnamed (s_taint s)) in
          (same_q && ttl_ok c false s (o_dump ob), fin (after_del c s1 ks))
      end
  | XDel ks => (same_q && ttl_ok c false s (o_dump ob), fin (after_del c s ks))
  | XSet k v m =>
      let f := fl s (place_of c k) in
      let s1 := clear_shield s k in
      let s2 := if fs f then s1
                else if opt_cval_eqb (view (s_t s) k) (Some v) then set_taint s1 (del_key k (s_taint s1))
                     else set_taint s1 (add_key k (s_taint s1)) in
      (same_q && ttl_ok c false s (o_dump ob), fin s2)
  | XAdv dt =>
      let hi := if Nat.eqb (c_level c) 0 then s_tick s else s_tick s + Z.max 0 dt in
      let ks := retried_keys c (s_tick s) hi in
      let s1 := mkS (s_t s) (s_f s) (s_now s + Z.max 0 dt) hi
                    (fold_left (fun t k => del_key k t) ks (s_taint s))
                    (filter (fun kt => negb (mem (fst kt) ks)) (s_shield s)) (s_q s) (s_dump s) (s_arms s) in
      (* a retry that runs while DEL works on its node succeeds -- whatever became of the context of the call whose
         delete had failed *)
      let tries_ok :=
        forallb (fun jl =>
          forallb (fun e => match e with
                            | EvTry _ t ok => if (s_tick s <? t) && (t <=? hi) && negb (fd (fl s (fst jl))) then ok else true
                            | _ => true
                            end) (snd jl))
          (combine (seq 0 (List.length (c_logs c))) (c_logs c)) in
      (same_q && tries_ok, fin s1)
  | XFault None g s' d =>
      (same_q, fin (mkS (s_t s) (map (fun _ => (g, s', d)) (s_f s)) (s_now s) (s_tick s) (s_taint s) (s_shield s) (s_q s) (s_dump s) (s_arms s)))
  | XFault (Some j) g s' d =>
      (same_q, fin (mkS (s_t s) (upd j (g, s', d) (s_f s)) (s_now s) (s_tick s) (s_taint s) (s_shield s) (s_q s) (s_dump s) (s_arms s)))
  | XCorrupt k g ttl => (same_q, fin (clear_shield s k))
  (* a read under a cancelled context returns the context error and does not run the query, cached or not *)
  | XQRowC _ | XQIdxC _ => (rres_eqb (o_res ob) RCtxErr && same_q && ttl_ok c false s (o_dump ob), fin s)
  | XGc => (same_q, fin s)
  | XExecC w ks =>
      (* the database changed, the delete could not be made: the keys may be stale until the retry has run *)
      match apply_write w (s_t s) with
      | None => (same_q, fin s)
      | Some t' =>
          let unnamed := filter (fun k => negb (opt_cval_eqb (view t' k) (view (s_t s) k)) && negb (mem k ks)) universe in
          let s1 := set_taint (set_table s t') (fold_left (fun t k => add_key k t) (unnamed ++ ks) (s_taint s)) in
          (same_q, fin (mkS (s_t s1) (s_f s1) (s_now s1) (s_tick s1) (s_taint s1) (s_shield s1) (s_q s1) (s_dump s1)
                            (s_arms s1 ++ [(0%nat, (s_tick s1, ks))])))
      end
  | XTick =>
      (* the retries that were waiting have run; where DEL works they have removed their keys *)
      let ks := flat_map (fun a => if fd (fl s (fst a)) then [] else snd (snd a)) (s_arms s) in
      (same_q, fin (mkS (s_t s) (s_f s) (s_now s) (s_tick s + 1) (fold_left (fun t k => del_key k t) ks (s_taint s))
                        (filter (fun kt => negb (mem (fst kt) ks)) (s_shield s)) (s_q s) (s_dump s) (s_arms s)))
  | XQRowE id =>
      (* the database fails: the cache answers if it can (coherently); otherwise the error is returned and nothing
         is stored for the key *)
      let k := PK id in
      let j := place_of c k in
      let f := fl s j in
      let ok :=
        (if fg f then rres_eqb (o_res ob) RCacheErr && same_q else true) &&
        (if negb (fg f) && shielded s k then same_q else true) &&
        (if negb (fg f) then
           if same_q then (if mem k (s_taint s) then true else rres_eqb (o_res ob) (expect_row (s_t s) id))
           else one_q && rres_eqb (o_res ob) RDbErr &&
                match dump_lookup (o_dump ob) j k with
                | None => true
                | Some x => entry_eqb (dump_lookup (s_dump s) j k) (Some x)
                end
         else true) in
      (ok, fin s)
  end.

Fixpoint spec_rows (c : case) (s : sst) (ops : list xop) (obs : list oobs) : bool * sst :=
  match ops, obs with
  | [], [] => (true, s)
  | o :: ops', ob :: obs' =>
      let (ok, s') := spec_step c s o ob in
      if ok then spec_rows c s' ops' obs' else (false, s')
  | _, _ => (false, s)
  end.

(* the cleaner's log of one node against the retry schedule *)
Definition attempts (lg : list event) (id : nat) : list (Z * bool) :=
  flat_map (fun e => match e with EvTry i t ok => if Nat.eqb i id then [(t, ok)] else [] | _ => [] end) lg.
Definition arms_of (lg : list event) : list (nat * (Z * list key)) :=
  flat_map (fun e => match e with EvArm i t ks => [(i, (t, ks))] | _ => [] end) lg.

Definition retry_log_ok (tk : Z) (lg : list event) : bool :=
  (* every armed chain follows the schedule and is alive or finished *)
  forallb (fun a => retry_spec tk (fst (snd a)) (attempts lg (fst a))) (arms_of lg) &&
  (* no attempt without a failed delete before it *)
  forallb (fun e => match e with EvTry i _ _ => existsb (fun a => Nat.eqb (fst a) i) (arms_of lg) | _ => true end) lg.

Definition arm_eqb (a b : Z * list key) : bool := (fst a =? fst b) && list_eqb key_eqb (snd a) (snd b).

Definition spec_ok_seq (c : case) : bool :=
  let s0 := mkS [] (repeat (false, false, false) (nnodes c)) 0 0 [] [] 0 [] [] in
  let (ok, s) := spec_rows c s0 (c_ops c) (c_obs c) in
  ok &&
  (* at the CachedConn level the cleaner's wheel is the real one and is not observed *)
  (if Nat.eqb (c_level c) 0 then true
   else
     Nat.eqb (List.length (c_logs c)) (nnodes c) &&
     forallb (retry_log_ok (s_tick s)) (c_logs c) &&
     (* every failed delete armed one retry chain on its node, and nothing else did *)
     forallb (fun jl =>
        list_eqb arm_eqb (map snd (arms_of (snd jl)))
                         (map snd (filter (fun a => Nat.eqb (fst a) (fst jl)) (s_arms s))))
        (combine (seq 0 (List.length (c_logs c))) (c_logs c))).


(* ================= concurrent cases (level 3) ================= *)
Import CA.

Definition to_lbl (l : clbl) : C18.Conc.lbl :=
  match l with LStart t => C18.Conc.Thr t | LOpen g => C18.Conc.Open g | LCancel t => C18.Conc.Adv t end.

(* c_threads: the first call of every thread; a thread's further calls (made by the same goroutine right after
   the first returns) follow in c_more *)
Definition scripts_of (c : case) (t : nat) : list cop :=
  match nth_error (c_threads c) t with
  | Some o => o :: match alookup Nat.eqb t (c_more c) with Some l => l | None => [] end
  | None => []
  end.

Definition cev_eqb (a b : cev) : bool :=
  match a, b with
  | EQBegin t k, EQBegin t' k' | EQEnd t k, EQEnd t' k' | EDel t k, EDel t' k' => Nat.eqb t t' && Nat.eqb k k'
  | ESet t k v, ESet t' k' v' | EWrite t k v, EWrite t' k' v' => Nat.eqb t t' && Nat.eqb k k' && Nat.eqb v v'
  | _, _ => false
  end.

Definition cevents (c : case) : list cev :=
  flat_map (fun e => match e with OEv x => [x] | _ => [] end) (c_events c).

(* the model replays the forced schedule: one label, then every thread inside a call runs until it is
   parked or has returned (C18.Conc.replay) *)
Definition conc_final (c : case) : state :=
  C18.Conc.replay step busy 24 (seq 0 (List.length (c_threads c))) (map to_lbl (c_sched c)) (init true (scripts_of c)).

Definition model_ok_conc (c : case) : bool :=
  let s := conc_final c in
  list_eqb cev_eqb (rev (trace s)) (cevents c) &&
  list_eqb (list_eqb (option_eqb Nat.eqb))
           (map (fun t => rev (map snd (t_res (ts s t)))) (seq 0 (List.length (c_threads c))))
           (c_cres c) &&
  list_eqb (option_eqb Nat.eqb) (map (cache s) (seq 0 (List.length (c_ccache c)))) (c_ccache c) &&
  list_eqb Nat.eqb (map (db s) (seq 0 (List.length (c_cdb c)))) (c_cdb c) &&
  forallb (fun t => negb (busy s t)) (seq 0 (List.length (c_threads c))).

(* --- the property on the observed history --- *)
Definition key_of_thread (c : case) (t : nat) : nat := match nth_error (c_threads c) t with Some o => k_key o | None => 0 end.
Definition gates0 (c : case) (t : nat) : bool :=
  match nth_error (c_threads c) t with
  | Some o => Nat.eqb (k_ga o) 0 && Nat.eqb (k_gb o) 0 && Nat.eqb (k_gc o) 0
  | None => false
  end.
Definition is_writer (c : case) (t : nat) : bool :=
  match nth_error (c_threads c) t with Some o => k_writer o || k_set o | None => false end.

Record cst := mkcs {
  x_fl : list nat;              (* keys with a query in flight *)
  x_db : list (nat * nat);      (* reference database from the observed writes *)
  x_stale : list nat;           (* keys holding an entry stored by a racing reader (until the next delete) *)
  x_active : list nat;          (* threads started and not returned *)
  x_wsince : list (nat * bool); (* reader |-> a write to its key came after its query began *)
  x_expect : list (nat * nat)   (* reader |-> the row it must return (started alone in a clean period) *)
}.
Definition memn (x : nat) (l : list nat) : bool := existsb (Nat.eqb x) l.
Definition deln (x : nat) (l : list nat) : list nat := filter (fun y => negb (Nat.eqb x y)) l.
Definition dbv (s : cst) (k : nat) : nat := match alookup Nat.eqb k (x_db s) with Some v => v | None => 0 end.

(* readers whose context is cancelled before they are started *)
Fixpoint precancelled (sched : list clbl) (cancelled : list nat) : list nat :=
  match sched with
  | [] => []
  | LCancel t :: r => precancelled r (t :: cancelled)
  | LStart t :: r => if memn t cancelled then t :: precancelled r cancelled else precancelled r cancelled
  | _ :: r => precancelled r cancelled
  end.

(* was thread t started while no other thread of its key was inside a call? *)
Fixpoint started_alone (c : case) (t : nat) (es : list oev) (active : list nat) : bool :=
  match es with
  | [] => false
  | OStart u k :: r =>
      if Nat.eqb u t then negb (existsb (fun v => Nat.eqb (key_of_thread c v) k) active)
      else started_alone c t r (u :: active)
  | ORet u :: r => started_alone c t r (deln u active)
  | _ :: r => started_alone c t r active
  end.

Definition cspec_step (c : case) (s : cst) (e : oev) : bool * cst :=
  match e with
  | OEv (EQBegin t k) =>
      (* at most one database query in flight per key; none at all under a context cancelled beforehand *)
      (negb (memn k (x_fl s)) && negb (memn t (precancelled (c_sched c) [])),
       mkcs (k :: x_fl s) (x_db s) (x_stale s) (x_active s) (aset Nat.eqb t false (x_wsince s)) (x_expect s))
  | OEv (EQEnd t k) => (true, mkcs (deln k (x_fl s)) (x_db s) (x_stale s) (x_active s) (x_wsince s) (x_expect s))
  | OEv (ESet t k v) =>
      let raced := match alookup Nat.eqb t (x_wsince s) with Some b => b | None => true end in
      (true, mkcs (x_fl s) (x_db s) (if raced then k :: x_stale s else x_stale s) (x_active s) (x_wsince s) (x_expect s))
  | OEv (EWrite t k v) =>
      (* (a writer that has not returned is in x_active: nothing is expected of reads that start meanwhile;
          once it HAS returned its write must have been followed by its delete) *)
      (true, mkcs (x_fl s) (aset Nat.eqb k v (x_db s)) (x_stale s) (x_active s)
                  (map (fun tb => if Nat.eqb (key_of_thread c (fst tb)) k then (fst tb, true) else tb) (x_wsince s)) (x_expect s))
  | OEv (EDel t k) => (true, mkcs (x_fl s) (x_db s) (deln k (x_stale s)) (x_active s) (x_wsince s) (x_expect s))
  | OStart t k =>
      let alone := negb (existsb (fun u => Nat.eqb (key_of_thread c u) k) (x_active s)) in
      let ex := if alone && negb (memn k (x_stale s)) && gates0 c t && negb (is_writer c t)
                then [(t, dbv s k)] else [] in
      (true, mkcs (x_fl s) (x_db s) (x_stale s) (t :: x_active s) (x_wsince s) (ex ++ x_expect s))
  | ORet t => (true, mkcs (x_fl s) (x_db s) (x_stale s) (deln t (x_active s)) (x_wsince s) (x_expect s))
  end.

Fixpoint cspec_run (c : case) (s : cst) (es : list oev) : bool * cst :=
  match es with
  | [] => (true, s)
  | e :: r => let (ok, s') := cspec_step c s e in if ok then cspec_run c s' r else (false, s')
  end.

Definition cancelled_keys (c : case) : list nat :=
  flat_map (fun l => match l with LCancel t => [key_of_thread c t] | _ => [] end) (c_sched c).
Definition written_vals (c : case) (k : nat) : list nat :=
  flat_map (fun e => match e with OEv (EWrite _ k' v) => if Nat.eqb k k' then [v] else [] | _ => [] end) (c_events c).
Definition qbegins (c : case) (k : nat) : nat :=
  List.length (filter (fun e => match e with OEv (EQBegin _ k') => Nat.eqb k k' | _ => false end) (c_events c)).
Definition has_writer (c : case) (k : nat) : bool := existsb (fun o => k_writer o && Nat.eqb (k_key o) k) (c_threads c).

(* result of the first call of thread t (None: never ran) *)
Definition res1 (c : case) (t : nat) : option (option nat) :=
  match nth t (c_cres c) [] with [] => None | r :: _ => Some r end.

Definition spec_ok_conc (c : case) : bool :=
  let (ok, s) := cspec_run c (mkcs [] [] [] [] [] []) (c_events c) in
  ok &&
  (* a read that started alone, after every earlier operation on its key had finished and the last write had
     been followed by its delete, returns the database's current row *)
  forallb (fun tv => match res1 c (fst tv) with
                     | Some (Some v) => Nat.eqb v (snd tv)
                     | Some None => existsb (fun l => match l with LCancel t => Nat.eqb t (fst tv) | _ => false end) (c_sched c)
                                    (* its own context was cancelled: the context error is the answer *)
                     | None => false
                     end) (x_expect s) &&
  (* every reader is served: a value the database held, or the context error if a context of its key was cancelled *)
  forallb (fun t => if is_writer c t then true else
             match res1 c t with
             | None => true
             | Some None => memn (key_of_thread c t) (cancelled_keys c)
             | Some (Some v) => Nat.eqb v 0 || memn v (written_vals c (key_of_thread c t))
             end) (seq 0 (List.length (c_threads c))) &&
  (* a reader started under an already cancelled context gets the context error -- unless it joined the flight
     of a call of its key that was already under way: then it shares that call's result without any cache read
     of its own (and still never queries: see EQBegin above) *)
  forallb (fun t => if is_writer c t || negb (started_alone c t (c_events c) []) then true else
             match res1 c t with Some None => true | _ => false end) (precancelled (c_sched c) []) &&
  (* the database is shielded: without writes and cancellations a key is queried at most once *)
  forallb (fun k => if has_writer c k || memn k (cancelled_keys c) then true else Nat.leb (qbegins c k) 1)
          (seq 0 (List.length (c_cdb c))).

Definition model_ok (c : case) : bool := if Nat.eqb (c_level c) 3 then model_ok_conc c else model_ok_seq c.
Definition spec_ok (c : case) : bool := if Nat.eqb (c_level c) 3 then spec_ok_conc c else spec_ok_seq c.
