(* C02 Model: executable transcription of the server guards of gotid/god.
   REST:  api/handler/timeouthandler.go, recoverhandler.go, maxconnshandler.go, maxbyteshandler.go,
          chain order of api/engine.go bindRoute (MaxConns .. Timeout, Recover, .. MaxBytes, handler).
   RPC:   rpc/internal/serverinterceptors/timeoutinterceptor.go, crashinterceptor.go.
   Definitions only, in source order.  Concurrency is a labelled transition system: every step is one
   critical section (tw.mu held) or one channel operation of the Go code; a schedule is a list of labels. *)
From God Require Import Base.Prelude.
Local Open Scope Z_scope.

(* ------------------------------------------------------------------ data *)
(* http.Header restricted to what a handler can do with it: key id |-> list of value ids *)
Definition hdrs := list (nat * list nat).
Definition hget (k : nat) (h : hdrs) : option (list nat) := alookup Nat.eqb k h.
Definition hset (k v : nat) (h : hdrs) : hdrs := aset Nat.eqb k [v] h.                (* Header.Set *)
Definition hadd (k v : nat) (h : hdrs) : hdrs :=                                      (* Header.Add *)
  aset Nat.eqb k (match hget k h with Some l => l ++ [v] | None => [v] end) h.
Definition hdel (k : nat) (h : hdrs) : hdrs := aremove Nat.eqb k h.                   (* Header.Del *)
(* timeouthandler.go:89-92  for k, vv := range tw.h { dst[k] = vv } *)
Definition hmerge (dst src : hdrs) : hdrs := fold_right (fun kv acc => aset Nat.eqb (fst kv) (snd kv) acc) dst src.

(* The value a handler panics with.  The guards never look inside it, and since 39fe42d they do not even use it to
   decide that there IS a panic: each of them keeps a `finished` flag that is set after the protected call
   returned, and treats "not finished" as a panic (recoverhandler.go:15-25, timeouthandler.go:75-88,
   crashinterceptor.go handleCrash, timeoutinterceptor.go:28-38).  So panic(nil) -- for which recover() returns
   nil under the module's go 1.19 semantics -- is noticed like any other value.  (A runtime.Goexit() inside a
   handler leaves `finished` false as well and is therefore treated as a panic; not modelled.) *)
Inductive pvalue :=
| PVNil                      (* panic(nil) *)
| PVString                   (* panic("...") / fmt.Sprintf *)
| PVError                    (* errors.New, fmt.Errorf("%w") *)
| PVRuntime                  (* runtime.Error raised by faulty code: nil map write, nil dereference, index out of range *)
| PVStatus (code : nat)      (* an error carrying a gRPC status, e.g. status.Error(codes.NotFound, ...) *)
| PVAbort                    (* http.ErrAbortHandler *)
| PVCustom.                  (* any other non-nil value: struct, typed nil pointer, ... *)
(* does a guard notice a panic carrying v?  `!finished` does not depend on v *)
Definition recover_sees (v : pvalue) : bool := true.
(* recoverhandler.go:24  w.WriteHeader(http.StatusInternalServerError) for whatever was recovered *)
Definition recover_status (v : pvalue) : option Z := if recover_sees v then Some 500 else None.
(* crashinterceptor.go:30 status.Errorf(codes.Internal, "panic: %v", r) for whatever was recovered *)
Definition crash_code (v : pvalue) : option nat := if recover_sees v then Some 13%nat else None.

(* what a scripted handler can do with its ResponseWriter; falling off the end of the list is `return` *)
Inductive action :=
| SetHeader (k v : nat)
| AddHeader (k v : nat)
| DelHeader (k : nat)
| WriteHeader (c : Z)
| Write (bs : list nat)
| PanicA (v : pvalue).

(* what the handler sees as the result of one action *)
Inductive outcome := OOk | OWrote (n : nat) | OErrTimeout (* (0, http.ErrHandlerTimeout) *) | OPanic.

(* the real http.ResponseWriter `w` handed to timeoutHandler.ServeHTTP: its header map and the
   calls it received (WriteHeader carries the header snapshot that goes on the wire with it) *)
Inductive revent := RWriteHeader (c : Z) (snap : hdrs) | RWrite (bs : list nat).
Record rwriter := mkrw { rw_h : hdrs; rw_log : list revent }.
Definition rw_write_header (c : Z) (w : rwriter) : rwriter := mkrw (rw_h w) (rw_log w ++ [RWriteHeader c (rw_h w)]).
Definition rw_write (bs : list nat) (w : rwriter) : rwriter := mkrw (rw_h w) (rw_log w ++ [RWrite bs]).

(* timeouthandler.go:19-24 (tied to the source by Link.link_status499 / link_reason) *)
Definition statusClientClosedRequest : Z := 499.
Definition reason : list nat := [82; 101; 113; 117; 101; 115; 116; 32; 84; 105; 109; 101; 111; 117; 116]%nat.
Definition statusOK : Z := 200.
Definition statusInternalServerError : Z := 500.
Definition statusServiceUnavailable : Z := 503.
Definition statusRequestEntityTooLarge : Z := 413.

(* ------------------------------------------------------------------ timeoutWriter (timeouthandler.go:115-184) *)
Record tw := mktw {
  tw_h : hdrs;            (* h    http.Header, returned by Header(): mutated WITHOUT mu *)
  tw_wbuf : list nat;     (* wbuf bytes.Buffer *)
  tw_timedOut : bool;
  tw_wroteHeader : bool;
  tw_code : Z
}.
Definition tw0 : tw := mktw [] [] false false 0.

(* :180 checkWriteHeaderCode: panic unless 100 <= code <= 599 *)
Definition valid_code (c : Z) : bool := (100 <=? c) && (c <=? 599).

(* an informational status: 1xx except 101 Switching Protocols -- never the final status of a response *)
Definition is_info (c : Z) : bool := (100 <=? c) && (c <=? 199) && negb (c =? 101).

(* :156 writeHeaderLocked (since 184fd61 an informational code is dropped: the buffering writer cannot forward it
   early, and it must not become the final status) *)
Definition write_header_locked (t : tw) (c : Z) : result tw :=
  if negb (valid_code c) then Panic
  else if tw_timedOut t then Ok t
  else if tw_wroteHeader t then Ok t   (* superfluous WriteHeader: logged, ignored *)
  else if is_info c then Ok t
  else Ok (mktw (tw_h t) (tw_wbuf t) (tw_timedOut t) true c).

(* :174 WriteHeader (mu held) *)
Definition tw_write_header (t : tw) (c : Z) : tw * outcome :=
  match write_header_locked t c with Ok t' => (t', OOk) | _ => (t, OPanic) end.

(* :142 Write (mu held) *)
Definition tw_write (t : tw) (bs : list nat) : tw * outcome :=
  if tw_timedOut t then (t, OErrTimeout)
  else
    match (if tw_wroteHeader t then Ok t else write_header_locked t statusOK) with
    | Ok t1 => (mktw (tw_h t1) (tw_wbuf t1 ++ bs) (tw_timedOut t1) (tw_wroteHeader t1) (tw_code t1), OWrote (List.length bs))
    | _ => (t, OPanic)
    end.

Definition tw_set_h (t : tw) (h : hdrs) : tw := mktw h (tw_wbuf t) (tw_timedOut t) (tw_wroteHeader t) (tw_code t).

(* one action of the handler against the timeoutWriter: one critical section *)
Definition do_action (t : tw) (a : action) : tw * outcome :=
  match a with
  | SetHeader k v => (tw_set_h t (hset k v (tw_h t)), OOk)   (* :130 Header() returns tw.h *)
  | AddHeader k v => (tw_set_h t (hadd k v (tw_h t)), OOk)
  | DelHeader k => (tw_set_h t (hdel k (tw_h t)), OOk)
  | WriteHeader c => tw_write_header t c
  | Write bs => tw_write t bs
  | PanicA _ => (t, OPanic)
  end.

(* the value an action panics with (checkWriteHeaderCode panics with a formatted string) *)
Definition panic_value_of (a : action) : pvalue := match a with PanicA v => v | _ => PVString end.

(* ------------------------------------------------------------------ timeoutHandler.ServeHTTP as an LTS (:54-113) *)
Inductive cause := CTimeout (* ctx.Err() = DeadlineExceeded *) | CCancel (* context.Canceled *).
Inductive arm := ArmPanic | ArmDone | ArmFired.
(* handler goroutine (:73-81): executing the script / inside RecoverHandler's deferred func / gone *)
Inductive hpc := HRun (rest : list action) | HRecover | HDead.

Record state := mkst {
  st_tw : tw;
  st_rw : rwriter;
  st_h : hpc;
  st_done : bool;              (* close(done) happened *)
  st_panicked : bool;          (* panicChan <- p happened *)
  st_fired : option cause;     (* ctx.Done() closed *)
  st_sel : option arm;         (* the select of ServeHTTP has run and took this arm *)
  st_trace : list outcome      (* results of the executed actions, in order *)
}.

Definition init (rh0 : hdrs) (acts : list action) : state :=
  mkst tw0 (mkrw rh0 []) (HRun acts) false false None None [].

(* handler goroutine, one step.  `recover` = RecoverHandler sits between Timeout and the handler
   (recoverhandler.go:11-23: deferred recover() => w.WriteHeader(500) on the writer it was given = tw) *)
Definition h_step (recover : bool) (s : state) : option state :=
  match st_h s with
  | HRun (a :: rest) =>
      let (t', o) := do_action (st_tw s) a in
      let tr := st_trace s ++ [o] in
      match o with
      | OPanic =>
          let seen := recover_sees (panic_value_of a) in
          if recover
          then (* recoverhandler.go:16-25 `if finished { return }` ... w.WriteHeader(500): every unfinished call is a panic *)
               Some (mkst t' (st_rw s) (if seen then HRecover else HRun []) (st_done s) (st_panicked s) (st_fired s) (st_sel s) tr)
          else (* :77-87 `if finished { return }; p := recover(); if p == nil { p = errNilPanic }; panicChan <- p` *)
               Some (mkst t' (st_rw s) HDead (st_done s) seen (st_fired s) (st_sel s) tr)
      | _ => Some (mkst t' (st_rw s) (HRun rest) (st_done s) (st_panicked s) (st_fired s) (st_sel s) tr)
      end
  | HRun [] =>                                                                                     (* :80 close(done) *)
      Some (mkst (st_tw s) (st_rw s) HDead true (st_panicked s) (st_fired s) (st_sel s) (st_trace s))
  | HRecover =>                                                                    (* recoverhandler.go:19 *)
      match write_header_locked (st_tw s) statusInternalServerError with
      | Ok t' => Some (mkst t' (st_rw s) (HRun []) (st_done s) (st_panicked s) (st_fired s) (st_sel s) (st_trace s))
      | _ => Some (mkst (st_tw s) (st_rw s) HDead (st_done s) true (st_fired s) (st_sel s) (st_trace s))
      end
  | HDead => None
  end.

(* deadline thread: ctx.Done() closes once, for one of the two causes, or never *)
Definition fire_step (c : cause) (s : state) : option state :=
  match st_fired s with
  | Some _ => None
  | None => Some (mkst (st_tw s) (st_rw s) (st_h s) (st_done s) (st_panicked s) (Some c) (st_sel s) (st_trace s))
  end.

(* :86-97 the `done` arm, under tw.mu *)
Definition flush_done (s : state) : state :=
  let t := st_tw s in
  let dst := hmerge (rw_h (st_rw s)) (tw_h t) in
  let code := if tw_wroteHeader t then tw_code t else statusOK in
  let w := rw_write (tw_wbuf t) (rw_write_header code (mkrw dst (rw_log (st_rw s)))) in
  mkst (mktw (tw_h t) (tw_wbuf t) (tw_timedOut t) (tw_wroteHeader t) code) w
       (st_h s) (st_done s) (st_panicked s) (st_fired s) (Some ArmDone) (st_trace s).

(* :98-111 the `ctx.Done()` arm, under tw.mu (httpx.ErrorCtx with no global error handler installed
   just runs the closure: 499 on context.Canceled else 503, then the reason text) *)
Definition timeout_status (c : cause) : Z :=
  match c with CCancel => statusClientClosedRequest | CTimeout => statusServiceUnavailable end.
Definition flush_timeout (c : cause) (s : state) : state :=
  let t := st_tw s in
  let w := rw_write reason (rw_write_header (timeout_status c) (st_rw s)) in
  mkst (mktw (tw_h t) (tw_wbuf t) true (tw_wroteHeader t) (tw_code t)) w
       (st_h s) (st_done s) (st_panicked s) (st_fired s) (Some ArmFired) (st_trace s).

(* :83 select: an arm can be taken iff its channel is ready; among ready arms Go picks ANY *)
Definition sel_step (a : arm) (s : state) : option state :=
  match st_sel s with
  | Some _ => None
  | None =>
      match a with
      | ArmPanic =>                                                                        (* :84-85 panic(p) *)
          if st_panicked s
          then Some (mkst (st_tw s) (st_rw s) (st_h s) (st_done s) (st_panicked s) (st_fired s) (Some ArmPanic) (st_trace s))
          else None
      | ArmDone => if st_done s then Some (flush_done s) else None
      | ArmFired => match st_fired s with Some c => Some (flush_timeout c s) | None => None end
      end
  end.

Inductive label := LH | LFire (c : cause) | LSel (a : arm).

Definition step (recover : bool) (l : label) (s : state) : option state :=
  match l with
  | LH => h_step recover s
  | LFire c => fire_step c s
  | LSel a => sel_step a s
  end.

(* a schedule is a list of labels; None = the schedule asks for a step that is not enabled *)
Fixpoint run (recover : bool) (ls : list label) (s : state) : option state :=
  match ls with
  | [] => Some s
  | l :: r => match step recover l s with Some s' => run recover r s' | None => None end
  end.

(* the request is over: handler goroutine gone and ServeHTTP has left its select *)
Definition terminal (s : state) : bool :=
  match st_h s, st_sel s with HDead, Some _ => true | _, _ => false end.

(* ------------------------------------------------------------------ MaxBytes gate (maxbyteshandler.go:9-29) *)
(* n <= 0: middleware is the identity; else ContentLength > n => 413 and next is NOT called.
   Sits innermost of the guards, so its WriteHeader(413) is just what the "handler" seen by Recover/Timeout does. *)
Definition maxbytes_rejects (n clen : Z) : bool := (0 <? n) && (n <? clen).
Definition gated_script (n clen : Z) (acts : list action) : list action :=
  if maxbytes_rejects n clen then [WriteHeader statusRequestEntityTooLarge] else acts.

(* ------------------------------------------------------------------ bypasses of the timeout (:31-38, :55-58) *)
(* duration <= 0 (TimeoutHandler returns next) or `Upgrade: websocket`: the handler runs on the caller's
   goroutine directly against the real writer; net/http-style writer: every call is logged as is,
   a first WriteHeader outside [100,999] panics in the real writer (net/http's own checkWriteHeaderCode only
   insists on three digits, and it looks at the code only after the superfluous-call test, so once something
   is committed any code is just ignored) *)
Definition valid_code_nethttp (c : Z) : bool := (100 <=? c) && (c <=? 999).
(* net/http response.WriteHeader: an informational 1xx code (except 101) is sent at once and does NOT commit the
   response -- a final status may follow; the first other WriteHeader, or the first Write, commits *)
Definition commits (e : revent) : bool := match e with RWrite _ => true | RWriteHeader c _ => negb (is_info c) end.
Definition rw_committed (w : rwriter) : bool := existsb commits (rw_log w).

Definition direct_action (w : rwriter) (a : action) : rwriter * outcome :=
  match a with
  | SetHeader k v => (mkrw (hset k v (rw_h w)) (rw_log w), OOk)
  | AddHeader k v => (mkrw (hadd k v (rw_h w)) (rw_log w), OOk)
  | DelHeader k => (mkrw (hdel k (rw_h w)) (rw_log w), OOk)
  | WriteHeader c =>
      if rw_committed w then (rw_write_header c w, OOk)   (* superfluous: reaches the writer, ignored by it *)
      else if valid_code_nethttp c then (rw_write_header c w, OOk) else (w, OPanic)
  | Write bs => (rw_write bs w, OWrote (List.length bs))
  | PanicA _ => (w, OPanic)
  end.

(* returns (writer, trace, panic propagated to the caller of the chain) *)
Fixpoint direct_run (recover : bool) (w : rwriter) (acts : list action) (tr : list outcome) : rwriter * list outcome * bool :=
  match acts with
  | [] => (w, tr, false)
  | a :: r =>
      let (w', o) := direct_action w a in
      match o with
      | OPanic =>
          let seen := recover_sees (panic_value_of a) in
          if recover then ((if seen then rw_write_header statusInternalServerError w' else w'), tr ++ [o], false)
          else (w', tr ++ [o], seen)     (* the panic unwinds into the caller of the chain *)
      | _ => direct_run recover w' r (tr ++ [o])
      end
  end.

(* ------------------------------------------------------------------ MaxConns (maxconnshandler.go:11-40, syncx/limit.go) *)
(* n requests at most between TryBorrow and the deferred Return; the pool is a channel of capacity n *)
Inductive mpc := MOut (* not yet arrived *) | MIn (* inside next.ServeHTTP *) | MRejected (* got 503 *) | MLeft.
Record mstate := mkms { ms_pool : nat; ms_reqs : list mpc }.
Inductive mlabel := MEnter (i : nat) | MLeave (i : nat) (panics : bool).

Definition minit (reqs : nat) : mstate := mkms 0 (repeat MOut reqs).

Fixpoint set_nth {A} (i : nat) (x : A) (l : list A) : list A :=
  match l, i with
  | [], _ => []
  | _ :: r, O => x :: r
  | a :: r, S j => a :: set_nth j x r
  end.

(* limit.go TryBorrow: non-blocking send into a channel of capacity n *)
Definition try_borrow (n : Z) (pool : nat) : option nat :=
  if Z.of_nat pool <? n then Some (S pool) else None.
(* limit.go Return: non-blocking receive (an empty pool gives ErrLimitReturn, which is only logged) *)
Definition give_back (pool : nat) : nat := Nat.pred pool.

Definition mstep (n : Z) (l : mlabel) (s : mstate) : option mstate :=
  match l with
  | MEnter i =>
      match nth_error (ms_reqs s) i with
      | Some MOut =>
          if n <=? 0 then Some (mkms (ms_pool s) (set_nth i MIn (ms_reqs s)))       (* :12-16 no latch at all *)
          else match try_borrow n (ms_pool s) with
               | Some p => Some (mkms p (set_nth i MIn (ms_reqs s)))
               | None => Some (mkms (ms_pool s) (set_nth i MRejected (ms_reqs s)))    (* :31-33 WriteHeader(503) *)
               end
      | _ => None
      end
  | MLeave i _ =>          (* normal return or panic: `defer latch.Return()` runs in both cases (:23-27) *)
      match nth_error (ms_reqs s) i with
      | Some MIn =>
          if n <=? 0 then Some (mkms (ms_pool s) (set_nth i MLeft (ms_reqs s)))
          else Some (mkms (give_back (ms_pool s)) (set_nth i MLeft (ms_reqs s)))
      | _ => None
      end
  end.

Fixpoint mrun (n : Z) (ls : list mlabel) (s : mstate) : option mstate :=
  match ls with
  | [] => Some s
  | l :: r => match mstep n l s with Some s' => mrun n r s' | None => None end
  end.

Definition is_in (p : mpc) : bool := match p with MIn => true | _ => false end.
Definition inside (s : mstate) : nat := List.length (filter is_in (ms_reqs s)).

(* ------------------------------------------------------------------ RPC twin *)
(* grpc codes used by the interceptors *)
Definition codeOK : nat := 0.
Definition codeCanceled : nat := 1.
Definition codeDeadlineExceeded : nat := 4.
Definition codeInternal : nat := 13.

(* what the wrapped grpc.UnaryHandler does: returns (resp, err) or panics; err as status code, 0 = nil *)
Inductive hres := HReturn (resp : option nat) (code : nat) | HPanics (v : pvalue).
(* what the caller of the interceptor chain gets *)
Inductive rres := RResult (resp : option nat) (code : nat) | RPropagatedPanic.

Record rstate := mkrs {
  rs_pending : option hres;            (* handler goroutine has not run `resp, err = handler(ctx, req)` yet *)
  rs_val : option (option nat * nat);  (* resp, err variables once assigned (timeoutinterceptor.go:37) *)
  rs_done : bool;
  rs_panicked : bool;
  rs_fired : option cause;
  rs_out : option (arm * rres)         (* the select ran: arm taken, value returned by the interceptor *)
}.
Definition rinit (h : hres) : rstate := mkrs (Some h) None false false None None.

(* timeoutinterceptor.go:27-39: lock; resp, err = handler(); close(done); unlock -- or recover => panicChan <- *)
Definition rh_step (s : rstate) : option rstate :=
  match rs_pending s with
  | Some (HReturn r c) => Some (mkrs None (Some (r, c)) true (rs_panicked s) (rs_fired s) (rs_out s))
  | Some (HPanics v) =>       (* :28-38 `if finished { return }; p := recover(); panicChan <- fmt.Sprintf(...)`; close(done) is skipped *)
      Some (mkrs None (rs_val s) (rs_done s) (recover_sees v) (rs_fired s) (rs_out s))
  | None => None
  end.
Definition rfire_step (c : cause) (s : rstate) : option rstate :=
  match rs_fired s with
  | Some _ => None
  | None => Some (mkrs (rs_pending s) (rs_val s) (rs_done s) (rs_panicked s) (Some c) (rs_out s))
  end.
Definition deadline_code (c : cause) : nat :=
  match c with CCancel => codeCanceled | CTimeout => codeDeadlineExceeded end.
(* :41-56 select.  `crash` = UnaryCrashInterceptor is outside (crashinterceptor.go:13-19: a panic of the
   inner chain becomes status.Errorf(codes.Internal, ...) with a nil response) *)
Definition rsel_step (crash : bool) (a : arm) (s : rstate) : option rstate :=
  match rs_out s with
  | Some _ => None
  | None =>
      let out r := Some (mkrs (rs_pending s) (rs_val s) (rs_done s) (rs_panicked s) (rs_fired s) (Some (a, r))) in
      match a with
      | ArmPanic => if rs_panicked s then out (if crash then RResult None codeInternal else RPropagatedPanic) else None
      | ArmDone => if rs_done s then match rs_val s with Some (r, c) => out (RResult r c) | None => None end else None
      | ArmFired => match rs_fired s with Some c => out (RResult None (deadline_code c)) | None => None end
      end
  end.

Definition rstep (crash : bool) (l : label) (s : rstate) : option rstate :=
  match l with
  | LH => rh_step s
  | LFire c => rfire_step c s
  | LSel a => rsel_step crash a s
  end.
Fixpoint rrun (crash : bool) (ls : list label) (s : rstate) : option rstate :=
  match ls with
  | [] => Some s
  | l :: r => match rstep crash l s with Some s' => rrun crash r s' | None => None end
  end.

(* no UnaryTimeoutInterceptor installed (rpc/server.go:117 Timeout <= 0): handler on the caller's goroutine *)
Definition rpc_direct (crash : bool) (h : hres) : rres :=
  match h with
  | HReturn r c => RResult r c
  | HPanics v =>
      if recover_sees v
      then if crash then RResult None codeInternal else RPropagatedPanic
      else RResult None codeOK   (* unreachable since 39fe42d: handleCrash(&finished, ...) converts every unfinished call *)
  end.

(* ------------------------------------------------------------------ several requests through ONE middleware instance *)
(* timeoutHandler{handler, dt} and the closure of UnaryTimeoutInterceptor hold nothing mutable: tw, done,
   panicChan, ctx (REST :60-71) and resp, err, lock, done, panicChan (RPC :18-26) are created per call.  So m
   concurrent requests are the product of m copies of the per-request LTS sharing nothing; a label of the
   product names the request that moves. *)
Section Product.
  Context {S L : Type} (stp : L -> S -> option S).
  Fixpoint grun (ls : list L) (s : S) : option S :=
    match ls with
    | [] => Some s
    | l :: r => match stp l s with Some s' => grun r s' | None => None end
    end.
  Definition pstep (il : nat * L) (ss : list S) : option (list S) :=
    match nth_error ss (fst il) with
    | Some s => match stp (snd il) s with Some s' => Some (set_nth (fst il) s' ss) | None => None end
    | None => None
    end.
  Fixpoint prun (ls : list (nat * L)) (ss : list S) : option (list S) :=
    match ls with
    | [] => Some ss
    | il :: r => match pstep il ss with Some ss' => prun r ss' | None => None end
    end.
  (* what request i does in a schedule of the product *)
  Definition proj (i : nat) (ls : list (nat * L)) : list L :=
    map snd (filter (fun il => Nat.eqb (fst il) i) ls).
End Product.

(* ------------------------------------------------------------------ which deadline applies (api/engine.go) *)
(* bindRoute: handler.TimeoutHandler(ng.checkedTimeout(fr.timeout)); checkedTimeout (:136-142): the route's own
   timeout (api.WithTimeout) when positive, else the server-wide Config.Timeout; in milliseconds here.  0 = no
   deadline at all (TimeoutHandler(0) returns next: the BZero bypass). *)
Definition effective_timeout (global route : Z) : Z := if 0 <? route then route else global.
(* rpc/server.go setupInterceptors :117-120: UnaryTimeoutInterceptor(Timeout ms) is added iff Timeout > 0 *)
Definition rpc_has_timeout (timeout : Z) : bool := 0 <? timeout.

(* ------------------------------------------------------------------ pass-through writers around the guards *)
(* loghandler.go loggedResponseWriter (:93-101) and detailLoggedResponseWriter (:129-136, installed when
   Config.Verbose), response.WithCodeResponseWriter: every Write / WriteHeader is handed to the wrapped writer
   unchanged and completely; the wrapper only remembers the status code / a copy of the body for its log line. *)
Record lwriter := mklw { lw_inner : rwriter; lw_code : Z; lw_buf : list nat }.
Definition lw_write_header (c : Z) (w : lwriter) : lwriter := mklw (rw_write_header c (lw_inner w)) c (lw_buf w).
Definition lw_write (bs : list nat) (w : lwriter) : lwriter := mklw (rw_write bs (lw_inner w)) (lw_code w) (lw_buf w ++ bs).
Definition rw_apply (w : rwriter) (e : revent) : rwriter :=
  match e with RWriteHeader c _ => rw_write_header c w | RWrite bs => rw_write bs w end.
Definition lw_apply (w : lwriter) (e : revent) : lwriter :=
  match e with RWriteHeader c _ => lw_write_header c w | RWrite bs => lw_write bs w end.

(* ------------------------------------------------------------------ the assembled unary chain of a started server *)
(* rpc/internal/server.go Start: Tracing, Crash, Stat, Prometheus, Breaker, then what setupInterceptors added
   (Shedding, Timeout, Auth).  The breaker interceptor runs the rest of the chain inside googleBreaker.doReq
   (lib/breaker/googlebreaker.go:71-90, since 9a9266d): a `finished` flag, no recover at all -- an unfinished call is
   marked as a failure and the panic keeps propagating with its own value, nil included, up to the crash
   interceptor.  (Before 9a9266d doReq tested `recover() != nil` and swallowed panic(nil): D17.) *)
Definition breaker_sees (v : pvalue) : bool := true.
Definition rpc_server_direct (h : hres) : rres :=
  match h with
  | HPanics v => if breaker_sees v then rpc_direct true h else RResult None codeOK
  | _ => rpc_direct true h
  end.

(* ------------------------------------------------------------------ application-wide error handlers (api/httpx/responses.go) *)
(* httpx.SetErrorHandler(f) serves httpx.Error only, httpx.SetErrorHandlerCtx(g) serves httpx.ErrorCtx only (:42-68);
   doHandleError (:141-172): no handler => the caller's fns if any, else http.Error(400); handler => its (code, body):
   nil body => WriteHeader(code) alone, error body => http.Error(text, code), otherwise WriteJson(code, body). *)
Inductive gbody := GBNil | GBErr | GBJson.
Inductive gconf := GNone | GPlain (code : Z) (b : gbody) | GCtx (code : Z) (b : gbody).
Definition biz_err : list nat := [98; 105; 122; 10]%nat.                                   (* "biz\n" *)
Definition biz_json : list nat := [123; 34; 109; 34; 58; 34; 98; 105; 122; 34; 125]%nat.  (* {"m":"biz"} *)
Definition err_default : list nat := [118; 101; 114; 105; 102; 45; 101; 114; 114; 10]%nat. (* "verif-err\n" *)
Definition handled_calls (code : Z) (b : gbody) : list action :=
  match b with
  | GBNil => [WriteHeader code]
  | GBErr => [WriteHeader code; Write biz_err]
  | GBJson => [WriteHeader code; Write biz_json]
  end.
(* what httpx.Error(w, err) (ctx = false) / httpx.ErrorCtx(ctx, w, err) (ctx = true) does to its writer *)
Definition error_calls (g : gconf) (ctx : bool) : list action :=
  match g, ctx with
  | GPlain c b, false => handled_calls c b
  | GCtx c b, true => handled_calls c b
  | _, _ => [WriteHeader 400; Write err_default]
  end.
(* timeouthandler.go:103-110: the ctx.Done arm answers through httpx.ErrorCtx(r.Context(), w, ctx.Err(), fn): only a
   ctx error handler takes precedence over fn (499/503 + reason); a handler installed by SetErrorHandler is not
   consulted *)
Definition timeout_arm_events (g : gconf) (c : cause) (rh0 : hdrs) : list revent :=
  match g with
  | GCtx code b =>
      map (fun a => match a with WriteHeader k => RWriteHeader k rh0 | Write bs => RWrite bs | _ => RWrite [] end)
          (handled_calls code b)
  | _ => [RWriteHeader (timeout_status c) rh0; RWrite reason]
  end.
