(* C02 Exec: checkers evaluated by vm_compute on every correspondence case.
   model_ok: the LTS of Model.v, run on the schedule the driver forced, yields exactly what was observed
             (for the both-ready race: the observation is one of the outcomes the LTS allows).
   spec_ok : the observed behaviour satisfies the property (Spec.v) -- computed from the inputs and the
             observations only, never from the LTS. *)
From God Require Import Base.Prelude.
From God Require Export C02.Model C02.Spec.   (* the case files only import Exec *)
Local Open Scope Z_scope.

(* ------------------------------------------------------------------ comparisons *)
Definition universe : list nat := [0; 1; 2; 3]%nat.    (* header key ids the drivers use *)
Definition lnat_eqb := list_eqb Nat.eqb.
Definition hdrs_eqb (h1 h2 : hdrs) : bool :=
  forallb (fun k => option_eqb lnat_eqb (hget k h1) (hget k h2)) universe.
Definition revent_eqb (a b : revent) : bool :=
  match a, b with
  | RWriteHeader c1 h1, RWriteHeader c2 h2 => (c1 =? c2) && hdrs_eqb h1 h2
  | RWrite b1, RWrite b2 => lnat_eqb b1 b2
  | _, _ => false
  end.
Definition outcome_eqb (a b : outcome) : bool :=
  match a, b with
  | OOk, OOk | OErrTimeout, OErrTimeout | OPanic, OPanic => true
  | OWrote n, OWrote m => Nat.eqb n m
  | _, _ => false
  end.
Definition resp_eqb (a b : response) : bool :=
  (r_status a =? r_status b) && hdrs_eqb (r_headers a) (r_headers b) && lnat_eqb (r_body a) (r_body b).
Definition is_opanic (o : outcome) : bool := match o with OPanic => true | _ => false end.

(* ------------------------------------------------------------------ REST: timeout / recover / maxbytes *)
Inductive fire_mode :=
| FNone                          (* the deadline never comes *)
| FCut (k : nat) (c : cause)     (* ctx.Done() closes while the handler is parked after exactly k actions
                                    (if it is still alive then; otherwise never) *)
| FBoth (c : cause).             (* handler return and ctx.Done() released together: select sees both ready *)
Inductive bypass := BNone | BUpgrade (* Upgrade: websocket *) | BZero (* TimeoutHandler(0) *).

Record tcase := mktc {
  t_recover : bool;              (* chain = Timeout, [Recover,] MaxBytes, handler *)
  t_bypass : bypass;
  t_maxbytes : Z;
  t_clen : Z;                    (* r.ContentLength *)
  t_rh0 : hdrs;                  (* headers an outer middleware already put on the real writer *)
  t_acts : list action;
  t_fire : fire_mode;
  (* observations *)
  o_events : list revent;        (* calls received by the real writer, header snapshot at WriteHeader *)
  o_resp : response;             (* what httptest.ResponseRecorder.Result() shows to a client *)
  o_trace : list outcome;        (* what each executed action of the scripted handler returned *)
  o_panicked : bool              (* the chain's ServeHTTP panicked (server-level panic) *)
}.

Fixpoint h_drain (recover : bool) (fuel : nat) (s : state) : state :=
  match fuel with
  | O => s
  | S f => match h_step recover s with Some s' => h_drain recover f s' | None => s end
  end.
Definition sel_all (s : state) : list state :=
  flat_map (fun a => match sel_step a s with Some s' => [s'] | None => [] end) [ArmPanic; ArmDone; ArmFired].
Definition fire_now (c : cause) (s : state) : state :=
  match fire_step c s with Some s' => s' | None => s end.

(* the handler is parked in front of its k-th action (k = length: in front of its return) *)
Definition parked (k : nat) (s : state) : bool :=
  Nat.eqb (List.length (st_trace s)) k && negb (existsb is_opanic (st_trace s)) &&
  match st_h s with HRun _ => true | _ => false end.

(* final states the LTS allows under the forced schedule *)
Definition forced (recover : bool) (rh0 : hdrs) (script : list action) (f : fire_mode) : list state :=
  let fuel := (2 * List.length script + 4)%nat in
  let s0 := init rh0 script in
  match f with
  | FNone => map (h_drain recover fuel) (sel_all (h_drain recover fuel s0))
  | FCut k c =>
      let s1 := h_drain recover k s0 in
      if parked k s1
      then map (h_drain recover fuel) (sel_all (fire_now c s1))
      else map (h_drain recover fuel) (sel_all (h_drain recover fuel s1))
  | FBoth c => map (h_drain recover fuel) (sel_all (fire_now c (h_drain recover fuel s0)))
  end.

Definition obs_matches (events : list revent) (trace : list outcome) (panicked : bool)
           (log : list revent) (tr : list outcome) (p : bool) : bool :=
  list_eqb revent_eqb log events && list_eqb outcome_eqb tr trace && Bool.eqb p panicked.

Definition model_ok_t (c : tcase) : bool :=
  let gated := maxbytes_rejects (t_maxbytes c) (t_clen c) in
  let script := gated_script (t_maxbytes c) (t_clen c) (t_acts c) in
  (* the scripted handler is not entered when MaxBytes rejects; its own WriteHeader(413) is not an action of the script *)
  let vis (tr : list outcome) := if gated then [] else tr in
  (* the driver's cut points are positions in the scripted handler: not reached, never fired *)
  let fire := if gated then FNone else t_fire c in
  match t_bypass c with
  | BNone =>
      existsb (fun s => terminal s &&      (* only maximal runs are compared *)
                        obs_matches (o_events c) (o_trace c) (o_panicked c)
                                    (rw_log (st_rw s)) (vis (st_trace s))
                                    (match st_sel s with Some ArmPanic => true | _ => false end))
              (forced (t_recover c) (t_rh0 c) script fire)
  | _ =>
      let '(w, tr, p) := direct_run (t_recover c) (mkrw (t_rh0 c) []) script [] in
      obs_matches (o_events c) (o_trace c) (o_panicked c) (rw_log w) (vis tr) p
  end.

(* --- the property on the observations --- *)
Definition count_wh (l : list revent) : nat :=
  List.length (filter (fun e => match e with RWriteHeader _ _ => true | _ => false end) l).
Definition starts_with_wh (l : list revent) : bool :=
  match l with RWriteHeader _ _ :: _ => true | _ => false end.
(* exactly one response was committed to the real writer, and the client sees `r` *)
Definition one_response (c : tcase) (r : response) : bool :=
  negb (o_panicked c) && Nat.eqb (count_wh (o_events c)) 1 && starts_with_wh (o_events c) && resp_eqb (o_resp c) r.
(* a server-level panic: nothing was sent *)
Definition propagated (c : tcase) : bool :=
  o_panicked c && match o_events c with [] => true | _ => false end.
(* the PROPERTY's handler response (Spec.spec_response): a panic is a panic whatever value it carries *)
Definition is_handler_response (c : tcase) : bool :=
  match spec_response (t_recover c) (t_rh0 c) (t_acts c) with
  | Some r => one_response c r
  | None => propagated c
  end.
Definition is_timeout_response (c : tcase) (cs : cause) : bool :=
  one_response c (timeout_response cs (t_rh0 c)).

(* the response a handler gets when it talks to the real writer directly (no timeout guard):
   net/http semantics -- status and headers are those of the first commit *)
Definition is_commit (a : action) : bool :=
  match a with WriteHeader c => negb (is_info c) | Write _ => true | _ => false end.
Fixpoint until_commit (acts : list action) : list action :=
  match acts with
  | [] => []
  | a :: r => if is_commit a then [] else a :: until_commit r
  end.
(* status committed on a net/http writer: the first non-informational WriteHeader, or 200 by the first Write *)
Fixpoint commit_status_direct (acts : list action) : option Z :=
  match acts with
  | [] => None
  | WriteHeader c :: r => if is_info c then commit_status_direct r else Some c
  | Write _ :: _ => Some statusOK
  | _ :: r => commit_status_direct r
  end.
(* the part of the script that runs, and whether it ended in a panic: without the buffering writer an
   WriteHeader outside [100,999] only panics while nothing is committed (afterwards net/http ignores it) *)
Fixpoint direct_eff (committed : bool) (acts : list action) : list action * bool :=
  match acts with
  | [] => ([], false)
  | a :: r =>
      if match a with PanicA _ => true | WriteHeader c => negb committed && negb (valid_code_nethttp c) | _ => false end
      then ([], true)
      else let (e, p) := direct_eff (committed || is_commit a) r in (a :: e, p)
  end.
Definition direct_response (recover : bool) (rh0 : hdrs) (acts : list action) : option response :=
  let (e, p) := direct_eff false acts in
  if p && negb recover then None
  else Some (mkresp (match commit_status_direct e with
                     | Some c => c
                     | None => if p then statusInternalServerError else statusOK
                     end)
                    (fold_left hdr_op (until_commit e) rh0)
                    (spec_body e)).
(* the informational responses the client is sent before the final one *)
Definition direct_infos (acts : list action) : list Z :=
  flat_map (fun a => match a with WriteHeader c => if is_info c then [c] else [] | _ => [] end)
           (until_commit (fst (direct_eff false acts))).

Definition spec_ok_t (c : tcase) : bool :=
  if maxbytes_rejects (t_maxbytes c) (t_clen c)
  then (* 413 and the handler is not reached *)
    match o_trace c with [] => true | _ => false end &&
    negb (o_panicked c) && Nat.eqb (count_wh (o_events c)) 1 &&
    resp_eqb (o_resp c) (mkresp statusRequestEntityTooLarge (t_rh0 c) [])
  else
    match t_bypass c with
    | BNone =>
        match t_fire c with
        | FNone => is_handler_response c
        | FCut k cs =>
            if has_panic (firstn k (t_acts c)) || Nat.ltb (List.length (t_acts c)) k
            then is_handler_response c         (* the handler had finished (by panicking) before the deadline *)
            else (* parked at the deadline: the timeout response, none of the handler's bytes/headers/status,
                    and the server does not crash whatever the handler does afterwards *)
              is_timeout_response c cs
        | FBoth cs => is_handler_response c || is_timeout_response c cs
        end
    | _ =>
        match direct_response (t_recover c) (t_rh0 c) (t_acts c) with
        | Some r => negb (o_panicked c) && resp_eqb (o_resp c) r
        | None => o_panicked c
        end
    end.

(* ------------------------------------------------------------------ REST: MaxConns *)
Inductive cobs :=
| CIn                                     (* the request is inside the handler *)
| CRejected (status : Z) (ran : bool)     (* it came back without being let in: status, handler ever ran *)
| CLeft (status : Z) (propagated : bool)  (* it left the handler: client status, panic reached the caller *)
| CBad.                                   (* the op did not apply (leave of a request that is not inside) *)

Record ccase := mkcc {
  c_n : Z;                    (* MaxConns(n) *)
  c_reqs : nat;
  c_inner : bool;             (* true: MaxConns, Timeout(1h), Recover, handler ; false: MaxConns, handler *)
  c_ops : list mlabel;
  oc_ops : list cobs
}.

Definition cobs_eqb (a b : cobs) : bool :=
  match a, b with
  | CIn, CIn | CBad, CBad => true
  | CRejected s1 r1, CRejected s2 r2 => (s1 =? s2) && Bool.eqb r1 r2
  | CLeft s1 p1, CLeft s2 p2 => (s1 =? s2) && Bool.eqb p1 p2
  | _, _ => false
  end.

(* what a request that was inside shows when its (empty) handler returns / panics *)
Definition leave_obs (inner panics : bool) : cobs :=
  if inner
  then match handler_response true [] (if panics then [PanicA PVString] else []) with
       | Some r => CLeft (r_status r) false
       | None => CBad
       end
  else if panics then CLeft statusOK true     (* recorder untouched; the panic reaches MaxConns' caller *)
       else CLeft statusOK false.

Fixpoint model_conns (n : Z) (inner : bool) (s : mstate) (ops : list mlabel) (obs : list cobs) : bool :=
  match ops, obs with
  | [], [] => true
  | l :: ops', o :: obs' =>
      match mstep n l s with
      | None => cobs_eqb o CBad && model_conns n inner s ops' obs'
      | Some s' =>
          let expect :=
              match l with
              | MEnter i => match nth_error (ms_reqs s') i with
                            | Some MIn => CIn
                            | _ => CRejected statusServiceUnavailable false
                            end
              | MLeave _ p => leave_obs inner p
              end in
          cobs_eqb o expect && model_conns n inner s' ops' obs'
      end
  | _, _ => false
  end.
Definition model_ok_c (c : ccase) : bool := model_conns (c_n c) (c_inner c) (minit (c_reqs c)) (c_ops c) (oc_ops c).

(* property on the observations: count who is inside from what was observed *)
Fixpoint spec_conns (n : Z) (inner : bool) (ins : nat) (ops : list mlabel) (obs : list cobs) : bool :=
  match ops, obs with
  | [], [] => true
  | l :: ops', o :: obs' =>
      match l, o with
      | MEnter _, CIn =>
          (* let in: fine only if that keeps at most n inside (n <= 0: no limit) *)
          ((n <=? 0) || (Z.of_nat (S ins) <=? n)) && spec_conns n inner (S ins) ops' obs'
      | MEnter _, CRejected st ran =>
          (* turned away: only when n are inside; 503; handler never ran *)
          (0 <? n) && (Z.of_nat ins =? n) && (st =? statusServiceUnavailable) && negb ran &&
          spec_conns n inner ins ops' obs'
      | MLeave _ p, CLeft st prop =>
          (if inner then negb prop && (st =? (if p then statusInternalServerError else statusOK))
           else Bool.eqb prop p) &&
          spec_conns n inner (Nat.pred ins) ops' obs'
      | _, _ => false
      end
  | _, _ => false
  end.
Definition spec_ok_c (c : ccase) : bool := spec_conns (c_n c) (c_inner c) 0 (c_ops c) (oc_ops c).

(* ------------------------------------------------------------------ RPC *)
Inductive rfire := RNone | RBefore (c : cause) (* ctx.Done() while the handler is parked *) | RBoth (c : cause).
Record rcase := mkrc {
  r_crash : bool;            (* UnaryCrashInterceptor outside *)
  r_timeout : bool;          (* UnaryTimeoutInterceptor installed *)
  r_h : hres;
  r_fire : rfire;
  or_res : rres;             (* observed (resp, status code) or propagated panic *)
  or_hung : bool             (* the chain had not returned while the handler was parked after the deadline *)
}.

Definition optnat_eqb := option_eqb Nat.eqb.
Definition rres_eqb (a b : rres) : bool :=
  match a, b with
  | RResult r1 c1, RResult r2 c2 => optnat_eqb r1 r2 && Nat.eqb c1 c2
  | RPropagatedPanic, RPropagatedPanic => true
  | _, _ => false
  end.

Definition rsel_all (crash : bool) (s : rstate) : list rstate :=
  flat_map (fun a => match rsel_step crash a s with Some s' => [s'] | None => [] end) [ArmPanic; ArmDone; ArmFired].
Definition rh_now (s : rstate) : rstate := match rh_step s with Some s' => s' | None => s end.
Definition rfire_now (c : cause) (s : rstate) : rstate := match rfire_step c s with Some s' => s' | None => s end.

Definition rforced (crash : bool) (h : hres) (f : rfire) : list rstate :=
  let s0 := rinit h in
  match f with
  | RNone => rsel_all crash (rh_now s0)
  | RBefore c => map rh_now (rsel_all crash (rfire_now c s0))
  | RBoth c => rsel_all crash (rfire_now c (rh_now s0))
  end.

Definition model_ok_r (c : rcase) : bool :=
  if r_timeout c
  then match rforced (r_crash c) (r_h c) (r_fire c) with
       | [] => or_hung c     (* no select arm can be taken under this schedule: the call sits there until a deadline *)
       | l => negb (or_hung c) &&
              existsb (fun s => match rs_out s with Some (_, r) => rres_eqb r (or_res c) | None => false end) l
       end
  else negb (or_hung c) && rres_eqb (rpc_direct (r_crash c) (r_h c)) (or_res c).

Definition handler_rres (crash : bool) (h : hres) : rres :=
  match h with
  | HReturn r c => RResult r c
  | HPanics _ => if crash then RResult None codeInternal else RPropagatedPanic   (* whatever the value *)
  end.
Definition deadline_rres (c : cause) : rres :=
  RResult None (match c with CTimeout => codeDeadlineExceeded | CCancel => codeCanceled end).

Definition spec_ok_r (c : rcase) : bool :=
  negb (or_hung c) &&
  if r_timeout c
  then match r_fire c with
       | RNone => rres_eqb (or_res c) (handler_rres (r_crash c) (r_h c))
       | RBefore cs => rres_eqb (or_res c) (deadline_rres cs)             (* handler result discarded *)
       | RBoth cs => rres_eqb (or_res c) (handler_rres (r_crash c) (r_h c)) || rres_eqb (or_res c) (deadline_rres cs)
       end
  else rres_eqb (or_res c) (handler_rres (r_crash c) (r_h c)).

(* ------------------------------------------------------------------ several requests through ONE instance *)
(* The driver's schedule: which request starts, whose handler does one more action (REST) / returns (RPC),
   whose deadline comes.  By Proofs.t_requests_independent what request r does in the product is its own
   LTS under its own part of the schedule; here that part is read off the op list as a fire_mode. *)
Inductive mop := MOStart (r : nat) | MOStep (r : nat) | MOFire (r : nat).

(* deadline of request r: after as many of its actions as `step r` ops precede its `fire r` *)
Fixpoint fire_of (r : nat) (c : cause) (ops : list mop) (k : nat) : fire_mode :=
  match ops with
  | [] => FNone
  | MOFire r' :: rest => if Nat.eqb r r' then FCut k c else fire_of r c rest k
  | MOStep r' :: rest => fire_of r c rest (if Nat.eqb r r' then S k else k)
  | MOStart _ :: rest => fire_of r c rest k
  end.

Record mreq := mkmq {
  q_rh0 : hdrs; q_acts : list action; q_cause : cause;
  qo_events : list revent; qo_resp : response; qo_trace : list outcome; qo_panicked : bool;
  qo_blocked : bool      (* the request made no progress for seconds although nothing it needs was outstanding *)
}.
Record mcase := mkmc { m_recover : bool; m_ops : list mop; m_reqs : list mreq }.

Definition to_tcase (recover : bool) (ops : list mop) (r : nat) (q : mreq) : tcase :=
  mktc recover BNone 0 (-1) (q_rh0 q) (q_acts q) (fire_of r (q_cause q) ops 0)
       (qo_events q) (qo_resp q) (qo_trace q) (qo_panicked q).

Fixpoint forall_i {A} (f : nat -> A -> bool) (i : nat) (l : list A) : bool :=
  match l with [] => true | a :: r => f i a && forall_i f (S i) r end.

Definition model_ok_m (c : mcase) : bool :=
  forall_i (fun r q => negb (qo_blocked q) && model_ok_t (to_tcase (m_recover c) (m_ops c) r q)) 0 (m_reqs c).
(* every request gets exactly its own handler's response or its own timeout response, by the same cut rules
   as alone, and is never held up by the others *)
Definition spec_ok_m (c : mcase) : bool :=
  forall_i (fun r q => negb (qo_blocked q) && spec_ok_t (to_tcase (m_recover c) (m_ops c) r q)) 0 (m_reqs c).

(* RPC: `step r` lets handler r return; the deadline counts if it comes first *)
Fixpoint rfire_of (r : nat) (c : cause) (ops : list mop) : rfire :=
  match ops with
  | [] => RNone
  | MOFire r' :: rest => if Nat.eqb r r' then RBefore c else rfire_of r c rest
  | MOStep r' :: rest => if Nat.eqb r r' then RNone else rfire_of r c rest
  | MOStart _ :: rest => rfire_of r c rest
  end.
Record rmreq := mkrq { rq_h : hres; rq_cause : cause; rqo_res : rres; rqo_blocked : bool }.
Record rmcase := mkrmc { rm_crash : bool; rm_ops : list mop; rm_reqs : list rmreq }.
Definition to_rcase (crash : bool) (ops : list mop) (r : nat) (q : rmreq) : rcase :=
  mkrc crash true (rq_h q) (rfire_of r (rq_cause q) ops) (rqo_res q) (rqo_blocked q).
Definition model_ok_rm (c : rmcase) : bool :=
  forall_i (fun r q => model_ok_r (to_rcase (rm_crash c) (rm_ops c) r q)) 0 (rm_reqs c).
Definition spec_ok_rm (c : rmcase) : bool :=
  forall_i (fun r q => spec_ok_r (to_rcase (rm_crash c) (rm_ops c) r q)) 0 (rm_reqs c).

(* ------------------------------------------------------------------ configurations through the real engine / server *)
(* run-length encoded bytes: bodies of hundreds of KiB stay small as terms *)
Definition unrle (l : list (nat * nat)) : list nat := flat_map (fun bn => repeat (fst bn) (snd bn)) l.

(* One request through the chain engine.bindRoute builds for (Config.Timeout, route WithTimeout, Config.Verbose); the
   scripted handler is kept parked in front of action e_k for e_hold ms (0: never parked).  Which deadline applies is
   Model.effective_timeout; the handler overruns it iff 0 < deadline < hold. *)
Record ecase := mkec {
  e_global : Z; e_route : Z; e_verbose : bool;
  e_hold : Z; e_k : nat;
  e_cancel : bool;              (* the CLIENT goes away while the handler is parked (then what the chain wrote is observed
                                   in front of the chain, the client cannot tell) *)
  e_acts : list action;
  eo_resp : response;           (* what the http client received *)
  eo_trace : list outcome;
  eo_answered : bool;           (* the client got a well-formed response at all *)
  eo_prompt : bool;             (* ... while the handler was still parked *)
  eo_info : list Z;             (* informational (1xx) responses the client received before the final one *)
  e_ref : option (response * list Z)   (* what a plain net/http server delivered for RecoverHandler(the bare handler) *)
}.
Definition e_deadline (c : ecase) : Z := effective_timeout (e_global c) (e_route c).
Definition e_overrun (c : ecase) : bool :=
  (0 <? e_hold c) && (0 <? e_deadline c) && ((e_deadline c <? e_hold c) || e_cancel c).
(* what ends the wait: the client's cancel comes before any deadline in the cancel cases *)
Definition e_cause (c : ecase) : cause := if e_cancel c then CCancel else CTimeout.
(* the same request as a case of the in-package kind: a client that saw a response saw exactly one commit *)
Definition e_to_t (c : ecase) : tcase :=
  mktc true (if e_deadline c =? 0 then BZero else BNone) 0 (-1) [] (e_acts c)
       (if e_overrun c then FCut (e_k c) (e_cause c) else FNone)
       [RWriteHeader (r_status (eo_resp c)) (r_headers (eo_resp c)); RWrite (r_body (eo_resp c))]
       (eo_resp c) (eo_trace c) false.
(* was the handler (still alive and) parked when the deadline came?  only then can the answer come early *)
Definition e_cut_taken (c : ecase) : bool :=
  e_overrun c && negb (has_panic (firstn (e_k c) (e_acts c))) && Nat.leb (e_k c) (List.length (e_acts c)).

Definition lz_eqb := list_eqb Z.eqb.
Definition model_ok_e (c : ecase) : bool :=
  eo_answered c && Bool.eqb (eo_prompt c) (e_cut_taken c) &&
  if e_deadline c =? 0
  then (* no timeout guard in the chain: the handler talks to the real writer; compare what a client reads off it *)
    let '(w, tr, p) := direct_run true (mkrw [] []) (e_acts c) [] in
    negb p && resp_eqb (client_view w) (eo_resp c) && lz_eqb (client_infos w) (eo_info c) &&
    list_eqb outcome_eqb tr (eo_trace c)
  else lz_eqb [] (eo_info c) && model_ok_t (e_to_t c).
Definition spec_ok_e (c : ecase) : bool :=
  eo_answered c &&
  (* bounded by the deadline that applies: an overrunning handler is answered while it is still parked *)
  (if e_cut_taken c then eo_prompt c else true) &&
  spec_ok_t (e_to_t c) &&
  (if e_deadline c =? 0
   then (* exactly what net/http delivers for the bare handler: informational responses, final status, headers, body *)
     lz_eqb (eo_info c) (direct_infos (e_acts c)) &&
     match e_ref c with
     | Some (r, infos) => resp_eqb (eo_resp c) r && lz_eqb (eo_info c) infos
     | None => true
     end
   else (* behind the timeout guard: same status and bytes as the bare RecoverHandler(handler) -- in particular the 500
           of a panic that no middleware inside may swallow *)
     match e_ref c with
     | Some (r, _) => (r_status (eo_resp c) =? r_status r) && lnat_eqb (r_body (eo_resp c)) (r_body r)
     | None => true
     end).

(* A unary call through a real started rpc server built by rpc.NewServer(ServerConfig{Timeout = s_timeout ms}); the
   scripted handler ignores its context and stays parked for s_hold ms (0: returns at once).  Crash is built in. *)
Record scase := mksc {
  s_timeout : Z; s_hold : Z; s_h : hres;
  so_res : rres; so_hung : bool; so_prompt : bool;
  so_deadline : Z;       (* ms until ctx.Deadline() as the handler saw it when entered; -1: the context had no deadline *)
  so_reply : Z           (* ms the client waited for the reply *)
}.
Definition s_overrun (c : scase) : bool := (0 <? s_hold c) && (0 <? s_timeout c) && (s_timeout c <? s_hold c).
(* what crosses the wire: a response message only together with an OK status *)
Definition s_handler (c : scase) : hres :=
  match s_h c with HReturn r code => HReturn (if Nat.eqb code 0 then r else None) code | h => h end.
Definition s_to_r (c : scase) : rcase :=
  mkrc true (rpc_has_timeout (s_timeout c)) (s_handler c)
       (if s_overrun c then RBefore CTimeout else RNone) (so_res c) (so_hung c).
(* a nil message with an OK status is marshalled as the empty message: the client reads the zero value *)
Definition on_wire (r : rres) : rres :=
  match r with RResult None O => RResult (Some O) O | x => x end.
Definition model_ok_s (c : scase) : bool :=
  Bool.eqb (so_prompt c) (s_overrun c) && Bool.eqb (0 <=? so_deadline c) (rpc_has_timeout (s_timeout c)) &&
  if rpc_has_timeout (s_timeout c) then model_ok_r (s_to_r c)
  else negb (so_hung c) && rres_eqb (on_wire (rpc_server_direct (s_handler c))) (so_res c).
(* ServerConfig.Timeout is in MILLISECONDS: the handler's context expires s_timeout ms after the call came in (the handler
   is entered within half of it), and an overrunning call is answered about then -- not seconds later, not at the release *)
Definition deadline_ok (c : scase) : bool :=
  if rpc_has_timeout (s_timeout c)
  then (0 <? so_deadline c) && (s_timeout c / 10 <=? so_deadline c) && (so_deadline c <=? s_timeout c)
  else so_deadline c =? -1.
Definition reply_ok (c : scase) : bool :=
  if s_overrun c then (s_timeout c / 2 <=? so_reply c) && (so_reply c <? s_timeout c + Z.min 1000 (s_hold c - s_timeout c)) else true.
Definition spec_ok_s (c : scase) : bool :=
  (if s_overrun c then so_prompt c else true) && deadline_ok c && reply_ok c && spec_ok_r (s_to_r c).

(* ------------------------------------------------------------------ application-wide httpx error handlers *)
(* a scripted handler may also report an error through httpx.Error / httpx.ErrorCtx; what that does to its writer
   is Model.error_calls of the installed handler *)
Inductive gaction := GPrim (a : action) | GError (ctx : bool).
Record gcase := mkgc {
  g_conf : gconf; g_recover : bool; g_rh0 : hdrs; g_acts : list gaction; g_fire : fire_mode;
  go_events : list revent; go_resp : response;
  go_trace : list outcome;       (* one entry per scripted action *)
  go_panicked : bool
}.
Definition expand (g : gconf) (a : gaction) : list action :=
  match a with GPrim p => [p] | GError ctx => error_calls g ctx end.
Definition g_script (c : gcase) : list action := flat_map (expand (g_conf c)) (g_acts c).
(* the driver's cut points count scripted actions *)
Definition g_fire' (c : gcase) : fire_mode :=
  match g_fire c with
  | FCut k cs => FCut (List.length (flat_map (expand (g_conf c)) (firstn k (g_acts c)))) cs
  | f => f
  end.
Fixpoint regroup (g : gconf) (gs : list gaction) (tr : list outcome) : list outcome :=
  match gs, tr with
  | [], _ | _, [] => []
  | GPrim _ :: r, o :: t => o :: regroup g r t
  | GError ctx :: r, _ =>
      let n := List.length (error_calls g ctx) in
      (if existsb is_opanic (firstn n tr) then OPanic else OOk) :: regroup g r (skipn n tr)
  end.
Definition fired_cause (f : fire_mode) : cause := match f with FCut _ c | FBoth c => c | FNone => CTimeout end.

Definition model_ok_g (c : gcase) : bool :=
  existsb (fun s =>
             terminal s &&
             obs_matches (go_events c) (go_trace c) (go_panicked c)
                         (match st_sel s with
                          | Some ArmFired => timeout_arm_events (g_conf c) (fired_cause (g_fire c)) (g_rh0 c)
                          | _ => rw_log (st_rw s)
                          end)
                         (regroup (g_conf c) (g_acts c) (st_trace s))
                         (match st_sel s with Some ArmPanic => true | _ => false end))
          (forced (g_recover c) (g_rh0 c) (g_script c) (g_fire' c)).

(* the timeout reply that must come: 499/503 + reason unless a ctx error handler is installed, whose reply it then is *)
Definition timeout_reply (g : gconf) (cs : cause) (rh0 : hdrs) : response :=
  match g with
  | GCtx code b => mkresp code rh0 (match b with GBNil => [] | GBErr => biz_err | GBJson => biz_json end)
  | _ => timeout_response cs rh0
  end.
Definition g_to_t (c : gcase) : tcase :=
  mktc (g_recover c) BNone 0 (-1) (g_rh0 c) (g_script c) (g_fire' c) (go_events c) (go_resp c) [] (go_panicked c).
Definition spec_ok_g (c : gcase) : bool :=
  let t := g_to_t c in
  let timeout_ok cs := one_response t (timeout_reply (g_conf c) cs (g_rh0 c)) in
  match t_fire t with
  | FNone => is_handler_response t
  | FCut k cs =>
      if has_panic (firstn k (t_acts t)) || Nat.ltb (List.length (t_acts t)) k then is_handler_response t
      else timeout_ok cs
  | FBoth cs => is_handler_response t || timeout_ok cs
  end.

(* ------------------------------------------------------------------ a breaker installed through the public plumbing *)
(* b_total requests whose handler answers 500, one after the other, through BreakerHandler installed with
   Server.Use / WithMiddleware(ToMiddleware(..)): observed how many ran the handler (and got its 500), how many were
   cut off (503, handler not run), how many ended otherwise. *)
Record bcase := mkbc { b_total : nat; b_failed : nat; b_rejected : nat; b_other : nat }.
(* the breaker's own arithmetic is C01's subject; here: every request is accounted for, and the first ones are let through
   (googlebreaker protection: nothing is rejected before more than 5 requests are on record) *)
Definition model_ok_b (c : bcase) : bool :=
  Nat.eqb (b_failed c + b_rejected c) (b_total c) && Nat.eqb (b_other c) 0 && Nat.leb (Nat.min 6 (b_total c)) (b_failed c).
(* one installed middleware = one breaker: a route that only fails is cut off at some point (60 failures in a row leave a
   stateful breaker open with probability > 1 - 1e-20); a breaker rebuilt per request never rejects *)
Definition spec_ok_b (c : bcase) : bool :=
  Nat.eqb (b_other c) 0 && (Nat.ltb (b_total c) 40 || Nat.leb 1 (b_rejected c)).

(* ------------------------------------------------------------------ many requests while the stat report writer is stalled *)
(* l_total requests of a handler that answers 200 "ok" at once, through ONE route (one stat.Metrics instance) of the full
   engine chain, while stat.SetReportWriter's writer blocks: how many got exactly the handler's response, how many anything
   else, the longest a request took (ms), whether the request path stopped making progress. *)
Record lcase := mklc { l_total : nat; l_timeout : Z; l_answered : nat; l_bad : nat; l_max_ms : Z; l_hung : bool }.
(* the guards do nothing per request that depends on earlier requests (c02_requests_independent): all are answered *)
Definition model_ok_l (c : lcase) : bool :=
  negb (l_hung c) && Nat.eqb (l_answered c) (l_total c) && Nat.eqb (l_bad c) 0.
(* every request is answered by the handler, within the route timeout: recording metrics never blocks the request path *)
Definition spec_ok_l (c : lcase) : bool :=
  negb (l_hung c) && Nat.eqb (l_answered c) (l_total c) && Nat.eqb (l_bad c) 0 && (l_max_ms c <? l_timeout c).

(* ------------------------------------------------------------------ the case type vcheck evaluates *)
Inductive case := CaseT (c : tcase) | CaseC (c : ccase) | CaseR (c : rcase) | CaseM (c : mcase) | CaseRM (c : rmcase)
                | CaseE (c : ecase) | CaseS (c : scase) | CaseG (c : gcase) | CaseB (c : bcase) | CaseL (c : lcase).
Definition model_ok (c : case) : bool :=
  match c with CaseT t => model_ok_t t | CaseC k => model_ok_c k | CaseR r => model_ok_r r
               | CaseM m => model_ok_m m | CaseRM m => model_ok_rm m | CaseE e => model_ok_e e | CaseS x => model_ok_s x
               | CaseG g => model_ok_g g | CaseB b => model_ok_b b | CaseL l => model_ok_l l end.
Definition spec_ok (c : case) : bool :=
  match c with CaseT t => spec_ok_t t | CaseC k => spec_ok_c k | CaseR r => spec_ok_r r
               | CaseM m => spec_ok_m m | CaseRM m => spec_ok_rm m | CaseE e => spec_ok_e e | CaseS x => spec_ok_s x
               | CaseG g => spec_ok_g g | CaseB b => spec_ok_b b | CaseL l => spec_ok_l l end.
