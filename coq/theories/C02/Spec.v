(* C02 Spec: what a client may receive.  A response is (status, headers, body); a request through the
   timeout guard yields the handler's response or the timeout response, never a mixture. *)
From God Require Import Base.Prelude C02.Model.
Local Open Scope Z_scope.

Record response := mkresp { r_status : Z; r_headers : hdrs; r_body : list nat }.

(* an action that makes the handler panic: an explicit panic or a status code net/http refuses *)
Definition panics (a : action) : bool :=
  match a with PanicA _ => true | WriteHeader c => negb (valid_code c) | _ => false end.

(* the part of the script the handler gets to execute: everything before its first panic *)
Fixpoint effective (acts : list action) : list action :=
  match acts with [] => [] | a :: r => if panics a then [] else a :: effective r end.
Definition has_panic (acts : list action) : bool := existsb panics acts.

(* the status the handler commits: its first non-informational WriteHeader, or the implicit 200 of its first Write
   (1xx interim responses are not the response; behind the timeout guard they are not delivered at all) *)
Fixpoint commit_status (acts : list action) : option Z :=
  match acts with
  | [] => None
  | WriteHeader c :: r => if is_info c then commit_status r else Some c
  | Write _ :: _ => Some statusOK
  | _ :: r => commit_status r
  end.

Definition hdr_op (h : hdrs) (a : action) : hdrs :=
  match a with
  | SetHeader k v => hset k v h
  | AddHeader k v => hadd k v h
  | DelHeader k => hdel k h
  | _ => h
  end.
Definition spec_headers (acts : list action) : hdrs := fold_left hdr_op acts [].
Definition spec_body (acts : list action) : list nat :=
  flat_map (fun a => match a with Write bs => bs | _ => [] end) acts.

(* the value of the first panic of the script, and whether the guards notice it *)
Fixpoint first_panic (acts : list action) : option pvalue :=
  match acts with [] => None | a :: r => if panics a then Some (panic_value_of a) else first_panic r end.
Definition panic_seen (sees : pvalue -> bool) (acts : list action) : bool :=
  match first_panic acts with Some v => sees v | None => false end.

(* The handler's response when it runs to completion behind the timeout guard (buffered: headers as of
   completion).  `recover`: RecoverHandler is inside; then a panic costs the handler the rest of its
   script and yields 500 if it had not committed a status yet.  None = no handler response: the panic reaches
   the server (or, unnoticed, just ends the handler goroutine).  `sees v`: the guards notice a panic with v. *)
Definition handler_response_gen (sees : pvalue -> bool) (recover : bool) (rh0 : hdrs) (acts : list action) : option response :=
  let e := effective acts in
  if has_panic acts && negb recover then None
  else Some (mkresp
               (match commit_status e with
                | Some c => c
                | None => if panic_seen sees acts then statusInternalServerError else statusOK
                end)
               (hmerge rh0 (spec_headers e))
               (spec_body e)).
(* THE PROPERTY: every panic, whatever its value, is a panic *)
Definition spec_response := handler_response_gen (fun _ => true).
(* what the code does: a panic counts when `recover() != nil` (Model.recover_sees) *)
Definition handler_response := handler_response_gen recover_sees.

(* The timeout response: 503 (499 when the client went away), the fixed text, and no handler header. *)
Definition timeout_response (c : cause) (rh0 : hdrs) : response :=
  mkresp (timeout_status c) rh0 reason.

(* the real writer received exactly this response: one WriteHeader, then the body in one piece *)
Definition committed (w : rwriter) (r : response) : Prop :=
  rw_log w = [RWriteHeader (r_status r) (r_headers r); RWrite (r_body r)].

(* what a client reads off a net/http-style writer log: first WriteHeader wins, a Write before any
   WriteHeader commits 200 with the headers of that moment, the body is everything written *)
Fixpoint log_body (l : list revent) : list nat :=
  match l with [] => [] | RWrite bs :: r => bs ++ log_body r | _ :: r => log_body r end.
(* informational 1xx calls in front of the commit are delivered as such and do not take part in the response *)
Fixpoint skip_info (l : list revent) : list revent :=
  match l with RWriteHeader c _ :: r => if is_info c then skip_info r else l | _ => l end.
Fixpoint log_infos (l : list revent) : list Z :=
  match l with RWriteHeader c _ :: r => if is_info c then c :: log_infos r else [] | _ => [] end.
Definition client_view (w : rwriter) : response :=
  match skip_info (rw_log w) with
  | RWriteHeader c snap :: r => mkresp c snap (log_body r)
  | l => mkresp statusOK (rw_h w) (log_body l)   (* implicit 200 (also for an empty log: handler wrote nothing) *)
  end.
Definition client_infos (w : rwriter) : list Z := log_infos (rw_log w).

(* MaxConns: the number of requests inside the handler never exceeds n (for n > 0) *)
Definition conns_bounded (n : Z) (s : mstate) : Prop := 0 < n -> Z.of_nat (inside s) <= n.
