(* C02 Link: what is regenerated from the Go source every run (gen/C02_Gen.v by gogen, gen/C02_GenRpc.v by
   harness/props/c02.py) is what the model was written from: constants, middleware/interceptor order,
   synchronisation skeletons.  Plus soundness of the executable schedule construction used by Exec. *)
From Coq Require Import String Ascii.
From God Require Import Base.Prelude C02.Model C02.Spec C02.Proofs C02.Exec.
From GodGen Require C02_Gen C02_GenRpc.
Local Open Scope Z_scope.

(* ------------------------------------------------------------------ constants *)
Lemma link_status499 : C02_Gen.statusClientClosedRequest = Model.statusClientClosedRequest /\
                       Model.statusClientClosedRequest = 499.
Proof. split; reflexivity. Qed.

Definition bytes_of_string (s : string) : list nat := map nat_of_ascii (list_ascii_of_string s).
Lemma link_reason : bytes_of_string C02_Gen.reason = Model.reason.
Proof. reflexivity. Qed.

Lemma link_websocket : C02_Gen.headerUpgrade = "Upgrade"%string /\ C02_Gen.valueWebsocket = "websocket"%string.
Proof. split; reflexivity. Qed.

(* ------------------------------------------------------------------ chain order (REST) *)
Inductive guard := GMaxConns | GBreaker | GShedding | GTimeout | GRecover | GMaxBytes.
Definition guard_of (name : string) : option guard :=
  if String.eqb name "handler.MaxConns" then Some GMaxConns
  else if String.eqb name "handler.BreakerHandler" then Some GBreaker
  else if String.eqb name "handler.SheddingHandler" then Some GShedding
  else if String.eqb name "handler.TimeoutHandler" then Some GTimeout
  else if String.eqb name "handler.RecoverHandler" then Some GRecover
  else if String.eqb name "handler.MaxBytesHandler" then Some GMaxBytes
  else None.
Fixpoint guards_of (l : list string) : list guard :=
  match l with
  | [] => []
  | n :: r => match guard_of n with Some g => g :: guards_of r | None => guards_of r end
  end.

(* outermost first: MaxConns < Breaker < Shedding < Timeout < Recover < MaxBytes, each exactly once.
   This is the composition the model analyses: MaxConns counts requests around everything else, Recover
   writes its 500 into the timeoutWriter, MaxBytes' 413 is what the "handler" seen by Recover does. *)
Lemma link_rest_chain_order :
  guards_of C02_Gen.rest_chain = [GMaxConns; GBreaker; GShedding; GTimeout; GRecover; GMaxBytes].
Proof. reflexivity. Qed.

(* ------------------------------------------------------------------ chain order (RPC) *)
Inductive rguard := RGCrash | RGBreaker | RGShedding | RGTimeout.
Definition rguard_of (name : string) : option rguard :=
  if String.eqb name "serverinterceptors.UnaryCrashInterceptor" then Some RGCrash
  else if String.eqb name "serverinterceptors.UnaryBreakerInterceptor" then Some RGBreaker
  else if String.eqb name "serverinterceptors.UnarySheddingInterceptor" then Some RGShedding
  else if String.eqb name "serverinterceptors.UnaryTimeoutInterceptor" then Some RGTimeout
  else None.
Fixpoint rguards_of (l : list string) : list rguard :=
  match l with
  | [] => []
  | n :: r => match rguard_of n with Some g => g :: rguards_of r | None => rguards_of r end
  end.

(* server.Start: append(unaryInterceptors, s.unaryInterceptors...) -- the builtin literal comes first, then
   what setupInterceptors added through AddUnaryInterceptors, in the order of its calls *)
Lemma link_rpc_append : C02_Gen.rpc_append = ["unaryInterceptors"; "s.unaryInterceptors"]%string.
Proof. reflexivity. Qed.
Definition rpc_chain : list string := (C02_GenRpc.rpc_builtin ++ C02_Gen.sk_rpc_setup)%list.
Lemma link_rpc_chain_order : rguards_of rpc_chain = [RGCrash; RGBreaker; RGShedding; RGTimeout].
Proof. reflexivity. Qed.

(* ------------------------------------------------------------------ skeletons the LTS was transcribed from *)
(* timeoutHandler.ServeHTTP: websocket bypass; ctx with deadline; handler goroutine with recover => panicChan,
   close(done) after the handler; three-way select; done arm and ctx.Done arm both under tw.mu *)
Lemma link_sk_serve : C02_Gen.sk_serve =
  [
   "r.Header.Get"; "h.handler.ServeHTTP"; "return"; "r.Context"; "context.WithTimeout"; 
   "defer:cancelCtx"; "r.WithContext"; "make"; "make"; "make"; "go:func"; "{"; "defer:func"; "{"; 
   "return"; "recover"; "send:panicChan"; "}"; "h.handler.ServeHTTP"; "close"; "}"; "select"; 
   "case:"; "recv:panicChan"; "panic"; "case:"; "recv:done"; "tw.mu.Lock"; "defer:tw.mu.Unlock"; 
   "w.Header"; "w.WriteHeader"; "tw.wbuf.Bytes"; "w.Write"; "case:"; "recv:ctx.Done()"; 
   "tw.mu.Lock"; "defer:tw.mu.Unlock"; "r.Context"; "ctx.Err"; "errors.Is"; "w.WriteHeader"; 
   "w.WriteHeader"; "h.errorBody"; "io.WriteString"; "httpx.ErrorCtx"]%string.
Proof. reflexivity. Qed.

(* timeoutWriter.Write: whole body under tw.mu *)
Lemma link_sk_write : C02_Gen.sk_write =
  [
   "tw.mu.Lock"; "defer:tw.mu.Unlock"; "return"; "tw.writeHeaderLocked"; "tw.wbuf.Write"; "return"]%string.
Proof. reflexivity. Qed.

(* timeoutWriter.WriteHeader: whole body under tw.mu *)
Lemma link_sk_writeheader : C02_Gen.sk_writeheader =
  [
   "tw.mu.Lock"; "defer:tw.mu.Unlock"; "tw.writeHeaderLocked"]%string.
Proof. reflexivity. Qed.

(* writeHeaderLocked: code check first, then the switch (timedOut / superfluous / informational: return) *)
Lemma link_sk_whl : C02_Gen.sk_whl =
  [
   "checkWriteHeaderCode"; "return"; "relevantCaller"; "path.Base"; "internal.Errorf"; "return"]%string.
Proof. reflexivity. Qed.

(* RecoverHandler: deferred func returns if `finished`, else recover + 500; then next *)
Lemma link_sk_recover : C02_Gen.sk_recover =
  [
   "defer:func"; "{"; "return"; "recover"; "debug.Stack"; "fmt.Sprintf"; "internal.Error"; 
   "w.WriteHeader"; "}"; "next.ServeHTTP"; "http.HandlerFunc"; "return"]%string.
Proof. reflexivity. Qed.

(* MaxConns: TryBorrow, DEFERRED Return, next; else 503 *)
Lemma link_sk_maxconns : C02_Gen.sk_maxconns =
  [
   "return"; "return"; "syncx.NewLimit"; "latch.TryBorrow"; "defer:func"; "{"; "latch.Return"; 
   "logx.Error"; "}"; "next.ServeHTTP"; "internal.Errorf"; "w.WriteHeader"; "http.HandlerFunc"; 
   "return"; "return"]%string.
Proof. reflexivity. Qed.

(* MaxBytesHandler: 413 or next *)
Lemma link_sk_maxbytes : C02_Gen.sk_maxbytes =
  [
   "return"; "return"; "internal.Errorf"; "w.WriteHeader"; "next.ServeHTTP"; "http.HandlerFunc"; 
   "return"; "return"]%string.
Proof. reflexivity. Qed.

(* Limit.TryBorrow: non-blocking send *)
Lemma link_sk_tryborrow : C02_Gen.sk_tryborrow =
  [
   "select"; "case:"; "send:l.pool"; "return"; "default:"; "return"]%string.
Proof. reflexivity. Qed.

(* Limit.Return: capacity-0 guard (fix D19: a zero limit has no borrower, so every Return is an error;
   MaxConnsHandler only builds a Limit for n > 0), then the non-blocking receive *)
Lemma link_sk_return : C02_Gen.sk_return =
  [
   "cap"; "return"; "select"; "case:"; "recv:l.pool"; "return"; "default:"; "return"]%string.
Proof. reflexivity. Qed.

(* UnaryTimeoutInterceptor: same shape as the REST one; handler result assigned under lock before close(done) *)
Lemma link_sk_rpc_timeout : C02_Gen.sk_rpc_timeout =
  [
   "context.WithTimeout"; "defer:cancel"; "make"; "make"; "go:func"; "{"; "defer:func"; "{"; 
   "return"; "recover"; "debug.Stack"; "string"; "strings.TrimSpace"; "fmt.Sprintf"; 
   "send:panicChan"; "}"; "lock.Lock"; "defer:lock.Unlock"; "handler"; "close"; "}"; "select"; 
   "case:"; "recv:panicChan"; "panic"; "case:"; "recv:done"; "lock.Lock"; "defer:lock.Unlock"; 
   "return"; "case:"; "recv:ctx.Done()"; "ctx.Err"; "err.Error"; "status.Error"; "err.Error"; 
   "status.Error"; "return"; "return"]%string.
Proof. reflexivity. Qed.

(* UnaryCrashInterceptor: deferred handleCrash around the handler *)
Lemma link_sk_rpc_crash : C02_Gen.sk_rpc_crash =
  [
   "defer:handleCrash"; "toPanicError"; "handler"; "return"]%string.
Proof. reflexivity. Qed.

(* handleCrash: return if *finished, else the callback on recover() *)
Lemma link_sk_rpc_handlecrash : C02_Gen.sk_rpc_handlecrash =
  [
   "return"; "recover"; "handler"]%string.
Proof. reflexivity. Qed.

(* ------------------------------------------------------------------ deadline choice, pass-through writers, rpc chain assembly *)
(* engine.checkedTimeout: the route's timeout if positive, else Config.Timeout ms (Model.effective_timeout) *)
Lemma link_sk_checkedtimeout : C02_Gen.sk_checkedtimeout =
  [
   "return"; "time.Duration"; "return"]%string.
Proof. reflexivity. Qed.

(* engine.getLogHandler: DetailedLogHandler when Config.Verbose, else LogHandler *)
Lemma link_sk_getlog : C02_Gen.sk_getlog =
  [
   "return"; "return"]%string.
Proof. reflexivity. Qed.

(* detailLoggedResponseWriter.Write: copy for the log, then the WHOLE slice to the wrapped writer, whose result is returned *)
Lemma link_sk_dlw_write : C02_Gen.sk_dlw_write =
  [
   "w.buf.Write"; "w.writer.Write"; "return"]%string.
Proof. reflexivity. Qed.

(* detailLoggedResponseWriter.WriteHeader: forwarded *)
Lemma link_sk_dlw_wh : C02_Gen.sk_dlw_wh =
  [
   "w.writer.WriteHeader"]%string.
Proof. reflexivity. Qed.

(* loggedResponseWriter.Write: forwarded, result returned *)
Lemma link_sk_lw_write : C02_Gen.sk_lw_write =
  [
   "w.w.Write"; "return"]%string.
Proof. reflexivity. Qed.

(* loggedResponseWriter.WriteHeader: forwarded *)
Lemma link_sk_lw_wh : C02_Gen.sk_lw_wh =
  [
   "w.w.WriteHeader"]%string.
Proof. reflexivity. Qed.

(* WithCodeResponseWriter.Write: forwarded, result returned *)
Lemma link_sk_wc_write : C02_Gen.sk_wc_write =
  [
   "w.Writer.Write"; "return"]%string.
Proof. reflexivity. Qed.

(* WithCodeResponseWriter.WriteHeader: forwarded *)
Lemma link_sk_wc_wh : C02_Gen.sk_wc_wh =
  [
   "w.Writer.WriteHeader"]%string.
Proof. reflexivity. Qed.

(* server.Start: the built-in list, append(..., s.unaryInterceptors...) / append(..., s.streamInterceptors...), both handed to grpc.NewServer *)
Lemma link_sk_rpc_start : C02_Gen.sk_rpc_start =
  [
   "net.Listen"; "return"; "serverinterceptors.UnaryStatInterceptor"; "append"; "append"; 
   "WithUnaryServerInterceptors"; "WithStreamServerInterceptors"; "append"; "grpc.NewServer"; 
   "register"; "grpc_health_v1.RegisterHealthServer"; "s.health.Resume"; 
   "s.healthManager.MarkReady"; "health.AddProbe"; "s.health.Shutdown"; "svr.GracefulStop"; 
   "proc.AddWrapUpListener"; "defer:waitForCalled"; "svr.Serve"; "return"]%string.
Proof. reflexivity. Qed.

(* baseServer.AddUnaryInterceptors: appended to s.unaryInterceptors *)
Lemma link_sk_rpc_addunary : C02_Gen.sk_rpc_addunary =
  [
   "append"]%string.
Proof. reflexivity. Qed.

(* ------------------------------------------------------------------ public middleware plumbing; logging helper of the error paths *)
(* ToMiddleware: the guard constructor is applied ONCE, when the middleware is applied to a route handler; its ServeHTTP is the result *)
Lemma link_sk_tomiddleware : C02_Gen.sk_tomiddleware =
  [
   "handler"; "return"; "return"]%string.
Proof. reflexivity. Qed.

(* WithMiddleware: middleware(route.Handler) once per route *)
Lemma link_sk_withmiddleware : C02_Gen.sk_withmiddleware =
  [
   "len"; "make"; "middleware"; "return"]%string.
Proof. reflexivity. Qed.

(* WithMiddlewares: WithMiddleware for each, last first *)
Lemma link_sk_withmiddlewares : C02_Gen.sk_withmiddlewares =
  [
   "len"; "WithMiddleware"; "return"]%string.
Proof. reflexivity. Qed.

(* Server.Use: handed to the engine *)
Lemma link_sk_use : C02_Gen.sk_use =
  [
   "s.ng.use"]%string.
Proof. reflexivity. Qed.

(* convertMiddleware: ware(next.ServeHTTP) once per bound route *)
Lemma link_sk_convertmiddleware : C02_Gen.sk_convertmiddleware =
  [
   "ware"; "return"; "return"]%string.
Proof. reflexivity. Qed.

(* httpx.GetRemoteAddr: the X-Forwarded-For value as a whole if non-empty, else RemoteAddr -- no splitting, no indexing *)
Lemma link_sk_getremoteaddr : C02_Gen.sk_getremoteaddr =
  [
   "r.Header.Get"; "len"; "return"; "return"]%string.
Proof. reflexivity. Qed.

(* internal.formatWithReq (used by every guard's error path): Sprintf of RequestURI, GetRemoteAddr and the text *)
Lemma link_sk_formatwithreq : C02_Gen.sk_formatwithreq =
  [
   "httpx.GetRemoteAddr"; "fmt.Sprintf"; "return"]%string.
Proof. reflexivity. Qed.

(* ------------------------------------------------------------------ Exec's schedules are runs of the LTS *)
Lemma h_drain_run recover fuel : forall s, exists ls, run recover ls s = Some (h_drain recover fuel s).
Proof.
  induction fuel as [|f IH]; intro s; simpl; [exists []; reflexivity|].
  destruct (h_step recover s) as [s'|] eqn:E; [|exists []; reflexivity].
  destruct (IH s') as [ls H]. exists (LH :: ls). simpl. rewrite E. exact H.
Qed.

Lemma sel_all_run recover s s' : In s' (sel_all s) -> exists a, run recover [LSel a] s = Some s'.
Proof.
  unfold sel_all. intro H. apply in_flat_map in H as (a & _ & H). exists a. simpl.
  destruct (sel_step a s) as [x|]; [|contradiction]. destruct H as [<-|[]]. reflexivity.
Qed.

Lemma fire_now_run recover c s : exists ls, run recover ls s = Some (fire_now c s).
Proof.
  unfold fire_now. destruct (fire_step c s) as [s'|] eqn:E; [|exists []; reflexivity].
  exists [LFire c]. simpl. rewrite E. reflexivity.
Qed.

Lemma run_trans recover ls1 ls2 s1 s2 s3 :
  run recover ls1 s1 = Some s2 -> run recover ls2 s2 = Some s3 -> run recover (ls1 ++ ls2) s1 = Some s3.
Proof. intros H1 H2. rewrite run_app, H1. exact H2. Qed.

Lemma drain_sel_run recover fuel s0 s1 s :
  (exists ls, run recover ls s0 = Some s1) -> In s (map (h_drain recover fuel) (sel_all s1)) ->
  exists ls, run recover ls s0 = Some s.
Proof.
  intros [ls0 H0] H. apply in_map_iff in H as (s2 & <- & H2). destruct (sel_all_run recover _ _ H2) as [a Ha].
  destruct (h_drain_run recover fuel s2) as [ls2 Hd]. exists (ls0 ++ [LSel a] ++ ls2).
  eapply run_trans; [exact H0|]. eapply run_trans; eauto.
Qed.

(* every state model_ok compares with is reachable by a schedule of the LTS, so the theorems apply to it *)
Lemma forced_sound recover rh0 script f s :
  In s (forced recover rh0 script f) -> reachable recover rh0 script s.
Proof.
  unfold forced, reachable. set (fuel := (2 * List.length script + 4)%nat). set (s0 := init rh0 script).
  destruct f as [|k c|c]; intro H.
  - eapply drain_sel_run; [|exact H]. apply h_drain_run.
  - destruct (h_drain_run recover k s0) as [ls1 H1]. destruct (parked k (h_drain recover k s0)).
    + eapply drain_sel_run; [|exact H]. destruct (fire_now_run recover c (h_drain recover k s0)) as [ls2 H2].
      exists (ls1 ++ ls2). eapply run_trans; eauto.
    + eapply drain_sel_run; [|exact H]. destruct (h_drain_run recover fuel (h_drain recover k s0)) as [ls2 H2].
      exists (ls1 ++ ls2). eapply run_trans; eauto.
  - eapply drain_sel_run; [|exact H]. destruct (h_drain_run recover fuel s0) as [ls1 H1].
    destruct (fire_now_run recover c (h_drain recover fuel s0)) as [ls2 H2]. exists (ls1 ++ ls2). eapply run_trans; eauto.
Qed.

Lemma rforced_sound crash h f s : In s (rforced crash h f) -> exists ls, rrun crash ls (rinit h) = Some s.
Proof.
  assert (Hh : forall s, exists ls, rrun crash ls s = Some (rh_now s)).
  { intro x. unfold rh_now. destruct (rh_step x) eqn:E; [exists [LH]; simpl; rewrite E; reflexivity|exists []; reflexivity]. }
  assert (Hf : forall c s, exists ls, rrun crash ls s = Some (rfire_now c s)).
  { intros c x. unfold rfire_now. destruct (rfire_step c x) eqn:E; [exists [LFire c]; simpl; rewrite E; reflexivity|exists []; reflexivity]. }
  assert (Hs : forall s s', In s' (rsel_all crash s) -> rrun crash [LSel (match rs_out s' with Some (a, _) => a | None => ArmDone end)] s = Some s').
  { intros x x' H. unfold rsel_all in H. apply in_flat_map in H as (a & _ & H). simpl.
    destruct (rsel_step crash a x) as [y|] eqn:E; [|contradiction]. destruct H as [<-|[]].
    assert (rs_out y = Some (a, match rs_out y with Some (_, r) => r | None => RPropagatedPanic end)).
    { unfold rsel_step in E. destruct (rs_out x); [discriminate|].
      destruct a; [destruct (rs_panicked x)|destruct (rs_done x); [destruct (rs_val x) as [[? ?]|]|]|destruct (rs_fired x)];
        inversion E; subst; reflexivity. }
    rewrite H. rewrite E. reflexivity. }
  assert (T : forall l1 l2 a b c, rrun crash l1 a = Some b -> rrun crash l2 b = Some c -> rrun crash (l1 ++ l2) a = Some c).
  { induction l1 as [|l r IH]; simpl; intros l2 a b c H1 H2; [inversion H1; subst; assumption|].
    destruct (rstep crash l a); [eapply IH; eauto|discriminate]. }
  unfold rforced. destruct f as [|c|c]; intro H.
  - destruct (Hh (rinit h)) as [l1 H1]. eexists. eapply T; [exact H1|]. apply Hs. exact H.
  - apply in_map_iff in H as (s2 & <- & H2). destruct (Hf c (rinit h)) as [l1 H1]. destruct (Hh s2) as [l3 H3].
    eexists. eapply T; [exact H1|]. eapply T; [apply Hs; exact H2|exact H3].
  - destruct (Hh (rinit h)) as [l1 H1]. destruct (Hf c (rh_now (rinit h))) as [l2 H2].
    eexists. eapply T; [exact H1|]. eapply T; [exact H2|]. apply Hs. exact H.
Qed.
