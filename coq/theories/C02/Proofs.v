(* C02 Proofs: invariants of the timeout LTS over ALL scripts and schedules, refinement to Spec,
   MaxConns counter invariant, MaxBytes gate, RPC twin. *)
From God Require Import Base.Prelude C02.Model C02.Spec.
Local Open Scope Z_scope.
(* most lemmas hold whatever values the guards notice; keep `simpl` from unfolding the (constant) test *)
Local Arguments recover_sees : simpl never.

(* ================================================================== sequential handler semantics *)
(* how the handler goroutine ends: close(done) / panicChan <- p / neither (an unseen panic without Recover) *)
Inductive hend := EDone | EPanic | EStuck.

(* what RecoverHandler's deferred function leaves behind *)
Definition recover_write (t : tw) : tw * hend :=
  match write_header_locked t statusInternalServerError with Ok t' => (t', EDone) | _ => (t, EPanic) end.

(* the handler goroutine run to its end without interference: final tw and how it ended *)
Fixpoint hexec (recover : bool) (t : tw) (acts : list action) : tw * hend :=
  match acts with
  | [] => (t, EDone)
  | a :: r =>
      let (t', o) := do_action t a in
      match o with
      | OPanic =>
          let seen := recover_sees (panic_value_of a) in
          if recover then (if seen then recover_write t' else (t', EDone))
          else (t', if seen then EPanic else EStuck)
      | _ => hexec recover t' r
      end
  end.

Definition hfin (recover : bool) (t : tw) (pc : hpc) (done panicked : bool) : tw * hend :=
  match pc with
  | HRun acts => hexec recover t acts
  | HRecover => recover_write t
  | HDead => (t, if panicked then EPanic else if done then EDone else EStuck)
  end.

(* status that the done arm sends for a finished tw *)
Definition fcode (t : tw) : Z := if tw_wroteHeader t then tw_code t else statusOK.
Definition done_rw (rh0 : hdrs) (t : tw) : rwriter :=
  mkrw (hmerge rh0 (tw_h t)) [RWriteHeader (fcode t) (hmerge rh0 (tw_h t)); RWrite (tw_wbuf t)].
Definition timeout_rw (c : cause) (rh0 : hdrs) : rwriter :=
  mkrw rh0 [RWriteHeader (timeout_status c) rh0; RWrite reason].

Ltac brk H :=
  repeat match type of H with
         | context [if ?b then _ else _] => let E := fresh "E" in destruct b eqn:E; simpl in H
         end.

Lemma do_action_timedOut t a t' o : do_action t a = (t', o) -> tw_timedOut t' = tw_timedOut t.
Proof.
  destruct a; simpl; unfold tw_set_h, tw_write_header, tw_write, write_header_locked, statusOK; simpl; intro H;
    brk H; inversion H; subst; simpl; congruence.
Qed.

(* "timedOut => tw frozen": nothing but the (never flushed) header map can change, and a Write
   reports http.ErrHandlerTimeout *)
Lemma do_action_frozen t a t' o :
  tw_timedOut t = true -> do_action t a = (t', o) ->
  tw_wbuf t' = tw_wbuf t /\ tw_code t' = tw_code t /\ tw_wroteHeader t' = tw_wroteHeader t /\
  tw_timedOut t' = true /\ (forall n, o <> OWrote n) /\ (forall bs, a = Write bs -> o = OErrTimeout).
Proof.
  intros E. destruct a; simpl; unfold tw_set_h, tw_write_header, tw_write, write_header_locked; rewrite ?E; simpl; intro H;
    brk H; inversion H; subst; simpl; repeat split; auto; try discriminate.
Qed.

Lemma whl_500 t : tw_timedOut t = false ->
  write_header_locked t statusInternalServerError =
  Ok (if tw_wroteHeader t then t else mktw (tw_h t) (tw_wbuf t) false true statusInternalServerError).
Proof. intro E. unfold write_header_locked. simpl. rewrite E. destruct (tw_wroteHeader t); reflexivity. Qed.

(* ---------------------------------------------------------------- refinement of the sequential run to Spec *)
Lemma first_panic_has acts : has_panic acts = match first_panic acts with Some _ => true | None => false end.
Proof. induction acts as [|a r IH]; simpl; [reflexivity|]. destruct (panics a); simpl; auto. Qed.

Lemma hexec_spec recover : forall acts t tf e,
  tw_timedOut t = false ->
  hexec recover t acts = (tf, e) ->
  e = (if has_panic acts && negb recover then (if panic_seen recover_sees acts then EPanic else EStuck) else EDone) /\
  tw_timedOut tf = false /\
  tw_h tf = fold_left hdr_op (effective acts) (tw_h t) /\
  tw_wbuf tf = tw_wbuf t ++ spec_body (effective acts) /\
  fcode tf = (if tw_wroteHeader t then tw_code t
              else match commit_status (effective acts) with
                   | Some c => c
                   | None => if panic_seen recover_sees acts && recover then statusInternalServerError else statusOK
                   end).
Proof.
  induction acts as [|a r IH]; intros t tf e E H.
  - simpl in H. inversion H; subst. simpl. rewrite app_nil_r. unfold fcode. repeat split; auto.
    all: try (destruct (tw_wroteHeader tf); reflexivity).
  - (* what a panicking action leaves: t' agrees with t on everything the done arm reads *)
    assert (Hpanic : forall t' (b : bool), tw_timedOut t' = false -> tw_h t' = tw_h t -> tw_wbuf t' = tw_wbuf t ->
                       tw_wroteHeader t' = tw_wroteHeader t -> tw_code t' = tw_code t ->
                       (if recover then (if b then recover_write t' else (t', EDone))
                        else (t', if b then EPanic else EStuck)) = (tf, e) ->
                       e = (if true && negb recover then (if b then EPanic else EStuck) else EDone) /\
                       tw_timedOut tf = false /\ tw_h tf = tw_h t /\
                       tw_wbuf tf = tw_wbuf t ++ [] /\
                       fcode tf = (if tw_wroteHeader t then tw_code t
                                   else if b && recover then statusInternalServerError else statusOK)).
    { intros t' b E' Hh Hb Hw Hc HH. rewrite app_nil_r. destruct recover; simpl.
      - destruct b; simpl.
        + unfold recover_write in HH. rewrite whl_500 in HH by assumption. inversion HH; subst. unfold fcode.
          destruct (tw_wroteHeader t') eqn:W; rewrite <- Hw; simpl; rewrite ?W; repeat split; auto.
        + inversion HH; subst. unfold fcode. rewrite Hw, Hc. repeat split; auto.
      - rewrite andb_false_r. inversion HH; subst. unfold fcode. rewrite Hw, Hc. repeat split; auto. }
    unfold panic_seen in IH |- *. destruct a; simpl in H |- *.
    + (* SetHeader *) apply IH in H; [|assumption]. simpl in H. exact H.
    + apply IH in H; [|assumption]. simpl in H. exact H.
    + apply IH in H; [|assumption]. simpl in H. exact H.
    + (* WriteHeader *)
      unfold tw_write_header, write_header_locked in H. destruct (valid_code c) eqn:V; simpl in H |- *.
      * rewrite E in H. destruct (tw_wroteHeader t) eqn:W.
        -- apply IH in H; [|assumption]. rewrite W in H. simpl. exact H.
        -- destruct (is_info c) eqn:I.
           ++ (* informational: dropped, nothing changes *) apply IH in H; [|assumption]. rewrite W in H. exact H.
           ++ apply IH in H; [|reflexivity]. simpl in H. exact H.
      * apply (Hpanic t (recover_sees PVString)) in H; auto.
    + (* Write *)
      unfold tw_write, write_header_locked in H. rewrite E in H. destruct (tw_wroteHeader t) eqn:W; simpl in H.
      * apply IH in H; [|assumption]. simpl in H. rewrite W in H. rewrite <- app_assoc in H. exact H.
      * rewrite ?E in H. simpl in H. apply IH in H; [|reflexivity]. simpl in H. rewrite <- app_assoc in H. exact H.
    + (* PanicA *) apply (Hpanic t (recover_sees v)) in H; auto.
Qed.

Definition resp_of (rh0 : hdrs) (t : tw) : response := mkresp (fcode t) (hmerge rh0 (tw_h t)) (tw_wbuf t).

Lemma hexec_response recover rh0 acts tf :
  hexec recover tw0 acts = (tf, EDone) -> handler_response recover rh0 acts = Some (resp_of rh0 tf).
Proof.
  intro H. apply hexec_spec in H as (Hp & _ & Hh & Hb & Hc); [|reflexivity].
  unfold handler_response, handler_response_gen. unfold resp_of. rewrite Hh, Hb, Hc. simpl.
  unfold spec_headers. destruct (has_panic acts) eqn:P; simpl in *.
  - destruct recover; simpl in *; [rewrite andb_true_r; reflexivity|].
    destruct (panic_seen recover_sees acts); discriminate.
  - assert (Q : panic_seen recover_sees acts = false).
    { unfold panic_seen. rewrite first_panic_has in P. destruct (first_panic acts); [discriminate|reflexivity]. }
    rewrite Q. reflexivity.
Qed.

Lemma hexec_panics recover rh0 acts tf e :
  hexec recover tw0 acts = (tf, e) -> e <> EDone -> handler_response recover rh0 acts = None /\ recover = false.
Proof.
  intros H N. apply hexec_spec in H as (Hp & _); [|reflexivity]. unfold handler_response, handler_response_gen.
  destruct (has_panic acts && negb recover) eqn:Q; [|congruence].
  split; [reflexivity|]. destruct recover; [|reflexivity]. rewrite andb_false_r in Q. discriminate.
Qed.

(* ================================================================== the invariant of the timeout LTS *)
Definition flags (s : state) : Prop :=
  (st_done s = true -> st_h s = HDead /\ st_panicked s = false) /\
  (st_panicked s = true -> st_h s = HDead /\ st_done s = false).

Definition Inv (recover : bool) (rh0 : hdrs) (acts : list action) (s : state) : Prop :=
  flags s /\
  match st_sel s with
  | None =>            (* real writer untouched while not selected; the handler's future is its sequential run *)
      st_rw s = mkrw rh0 [] /\ tw_timedOut (st_tw s) = false /\
      hfin recover (st_tw s) (st_h s) (st_done s) (st_panicked s) = hexec recover tw0 acts
  | Some ArmPanic => st_rw s = mkrw rh0 [] /\ st_panicked s = true /\ snd (hexec recover tw0 acts) = EPanic
  | Some ArmDone => st_done s = true /\ exists tf, hexec recover tw0 acts = (tf, EDone) /\ st_rw s = done_rw rh0 tf
  | Some ArmFired => exists c, st_fired s = Some c /\ st_rw s = timeout_rw c rh0 /\ tw_timedOut (st_tw s) = true
  end.

Lemma inv_init recover rh0 acts : Inv recover rh0 acts (init rh0 acts).
Proof. unfold Inv, flags, init; simpl. repeat split; try discriminate; auto. Qed.

Lemma flags_alive s : flags s -> st_h s <> HDead -> st_done s = false /\ st_panicked s = false.
Proof.
  intros (F1 & F2) N. split.
  - destruct (st_done s); [destruct (F1 eq_refl); contradiction|reflexivity].
  - destruct (st_panicked s); [destruct (F2 eq_refl); contradiction|reflexivity].
Qed.

Lemma flags_ext s s' : st_h s' = st_h s -> st_done s' = st_done s -> st_panicked s' = st_panicked s -> flags s -> flags s'.
Proof. unfold flags. intros -> -> ->. auto. Qed.

Ltac fin := simpl; repeat split; intros; try discriminate; try congruence; auto.

Lemma h_step_flags recover s s' : flags s -> h_step recover s = Some s' -> flags s'.
Proof.
  intros F H. unfold h_step in H.
  destruct (st_h s) as [[|a rest]| |] eqn:Eh; [| | |discriminate];
    (destruct (flags_alive s F) as [Dn Pn]; [rewrite Eh; discriminate|]).
  - inversion H; subst. unfold flags. rewrite ?Pn. fin.
  - destruct (do_action (st_tw s) a) as [t' o].
    destruct o; [| | |destruct recover]; inversion H; subst; unfold flags; simpl; rewrite ?Dn, ?Pn; fin.
  - destruct (write_header_locked (st_tw s) statusInternalServerError); inversion H; subst; unfold flags; simpl;
      rewrite ?Dn, ?Pn; fin.
Qed.

(* the parts of the state an H step never touches *)
Lemma h_step_frame recover s s' : h_step recover s = Some s' ->
  st_rw s' = st_rw s /\ st_fired s' = st_fired s /\ st_sel s' = st_sel s.
Proof.
  unfold h_step. intro H. destruct (st_h s) as [[|a rest]| |]; [| | |discriminate].
  - inversion H; subst; simpl; auto.
  - destruct (do_action (st_tw s) a) as [t' o]. destruct o; try (inversion H; subst; simpl; auto; fail).
    destruct recover; inversion H; subst; simpl; auto.
  - destruct (write_header_locked (st_tw s) statusInternalServerError); inversion H; subst; simpl; auto.
Qed.

Lemma h_step_dead_none recover s : st_h s = HDead -> h_step recover s = None.
Proof. unfold h_step. intros ->. reflexivity. Qed.

Lemma h_step_timedOut recover s s' : h_step recover s = Some s' ->
  tw_timedOut (st_tw s') = tw_timedOut (st_tw s).
Proof.
  unfold h_step. intro H. destruct (st_h s) as [[|a rest]| |]; [| | |discriminate].
  - inversion H; subst; reflexivity.
  - destruct (do_action (st_tw s) a) as [t' o] eqn:D. apply do_action_timedOut in D.
    destruct o; try (inversion H; subst; simpl; auto; fail). destruct recover; inversion H; subst; simpl; auto.
  - unfold write_header_locked in H. simpl in H. destruct (tw_timedOut (st_tw s)) eqn:E.
    + inversion H; subst; simpl; auto.
    + destruct (tw_wroteHeader (st_tw s)); inversion H; subst; simpl; auto.
Qed.

Lemma h_step_hfin recover s s' :
  flags s -> tw_timedOut (st_tw s) = false -> h_step recover s = Some s' ->
  hfin recover (st_tw s') (st_h s') (st_done s') (st_panicked s') = hfin recover (st_tw s) (st_h s) (st_done s) (st_panicked s).
Proof.
  intros F E H. unfold h_step in H. destruct (st_h s) as [[|a rest]| |] eqn:Eh; [| | |discriminate];
    (destruct (flags_alive s F) as [Dn Pn]; [rewrite Eh; discriminate|]).
  - inversion H; subst; simpl. rewrite Pn. reflexivity.
  - simpl. destruct (do_action (st_tw s) a) as [t' o].
    destruct o; try (inversion H; subst; reflexivity).
    destruct recover; inversion H; subst; simpl; rewrite ?Dn.
    + destruct (recover_sees (panic_value_of a)); reflexivity.
    + destruct (recover_sees (panic_value_of a)); reflexivity.
  - simpl. unfold recover_write. destruct (write_header_locked (st_tw s) statusInternalServerError);
      inversion H; subst; reflexivity.
Qed.

Lemma step_inv recover rh0 acts l s s' :
  Inv recover rh0 acts s -> step recover l s = Some s' -> Inv recover rh0 acts s'.
Proof.
  intros [F I] H. destruct l as [|c|a]; simpl in H.
  - (* handler step *)
    pose proof (h_step_flags _ _ _ F H) as F'. pose proof (h_step_frame _ _ _ H) as (Erw & Efi & Esel).
    split; [assumption|]. rewrite Esel. destruct (st_sel s) as [[| |]|].
    + (* ArmPanic: handler is dead *) destruct I as (_ & P & _). destruct F as (_ & F2).
      destruct (F2 P) as [D _]. rewrite (h_step_dead_none _ _ D) in H. discriminate.
    + destruct I as (D & _). destruct F as (F1 & _). destruct (F1 D) as [Dd _].
      rewrite (h_step_dead_none _ _ Dd) in H. discriminate.
    + destruct I as (c & Hc & Hrw & Ht). exists c. rewrite Efi, Erw. repeat split; auto.
      rewrite (h_step_timedOut _ _ _ H). assumption.
    + destruct I as (Hrw & Ht & Hf). rewrite Erw. repeat split; auto.
      * rewrite (h_step_timedOut _ _ _ H). assumption.
      * rewrite (h_step_hfin _ _ _ F Ht H). assumption.
  - (* fire *)
    unfold fire_step in H. destruct (st_fired s) eqn:Ef; [discriminate|]. inversion H; subst; clear H.
    split; [exact F|]. simpl. destruct (st_sel s) as [[| |]|]; auto.
    destruct I as (c' & Hc & _). discriminate.
  - (* select *)
    unfold sel_step in H. destruct (st_sel s) eqn:Es; [discriminate|]. destruct I as (Hrw & Ht & Hf).
    destruct a.
    + destruct (st_panicked s) eqn:P; [|discriminate]. inversion H; subst; clear H.
      split; [apply (flags_ext s); simpl; auto|]. simpl.
      repeat split; auto. destruct F as (_ & F2). destruct (F2 P) as [D _]. rewrite D in Hf. simpl in Hf.
      rewrite <- Hf. reflexivity.
    + destruct (st_done s) eqn:D; [|discriminate]. inversion H; subst; clear H.
      pose proof F as (F1 & F2). destruct (F1 D) as [Dd Pn]. rewrite Dd, Pn in Hf. simpl in Hf.
      split; [apply (flags_ext s); simpl; auto|].
      unfold flush_done; simpl. split; [assumption|]. exists (st_tw s). split; [symmetry; exact Hf|].
      rewrite Hrw. reflexivity.
    + destruct (st_fired s) as [c|] eqn:Ef; [|discriminate]. inversion H; subst; clear H.
      split; [apply (flags_ext s); simpl; auto|]. simpl.
      exists c. rewrite Hrw. repeat split; auto.
Qed.

Lemma run_inv recover rh0 acts ls : forall s s',
  Inv recover rh0 acts s -> run recover ls s = Some s' -> Inv recover rh0 acts s'.
Proof.
  induction ls as [|l r IH]; simpl; intros s s' I H; [inversion H; subst; assumption|].
  destruct (step recover l s) as [s1|] eqn:E; [|discriminate]. eapply IH; [|exact H]. eapply step_inv; eauto.
Qed.

Lemma run_app recover ls1 : forall ls2 s, run recover (ls1 ++ ls2) s =
  match run recover ls1 s with Some s1 => run recover ls2 s1 | None => None end.
Proof. induction ls1 as [|l r IH]; simpl; intros; [reflexivity|]. destruct (step recover l s); [apply IH|reflexivity]. Qed.

Definition reachable (recover : bool) (rh0 : hdrs) (acts : list action) (s : state) : Prop :=
  exists ls, run recover ls (init rh0 acts) = Some s.

Lemma reachable_inv recover rh0 acts s : reachable recover rh0 acts s -> Inv recover rh0 acts s.
Proof. intros [ls H]. eapply run_inv; [apply inv_init|exact H]. Qed.

(* ---------------------------------------------------------------- classification of what the real writer holds *)
Lemma classify recover rh0 acts s : reachable recover rh0 acts s ->
  match st_sel s with
  | None => st_rw s = mkrw rh0 []
  | Some ArmPanic => st_rw s = mkrw rh0 [] /\ handler_response recover rh0 acts = None /\ recover = false
  | Some ArmDone => exists r, handler_response recover rh0 acts = Some r /\ committed (st_rw s) r /\ rw_h (st_rw s) = r_headers r
  | Some ArmFired => exists c, st_fired s = Some c /\ committed (st_rw s) (timeout_response c rh0) /\ rw_h (st_rw s) = rh0
  end.
Proof.
  intro R. apply reachable_inv in R as [F I]. destruct (st_sel s) as [[| |]|].
  - destruct I as (Hrw & P & Hx). split; [assumption|]. destruct (hexec recover tw0 acts) as [tf p] eqn:E.
    simpl in Hx. subst p. eapply hexec_panics; [exact E|discriminate].
  - destruct I as (D & tf & Hx & Hrw). exists (resp_of rh0 tf). split; [apply hexec_response; assumption|].
    rewrite Hrw. split; reflexivity.
  - destruct I as (c & Hc & Hrw & Ht). exists c. rewrite Hrw. repeat split; auto.
  - tauto.
Qed.

(* ---------------------------------------------------------------- once selected, the response never changes *)
Lemma step_sel_stable recover l s s' a :
  step recover l s = Some s' -> st_sel s = Some a -> st_sel s' = Some a /\ st_rw s' = st_rw s.
Proof.
  intros H Es. destruct l as [|c|b]; simpl in H.
  - apply h_step_frame in H as (-> & _ & ->). auto.
  - unfold fire_step in H. destruct (st_fired s); [discriminate|]. inversion H; subst; simpl; auto.
  - unfold sel_step in H. rewrite Es in H. discriminate.
Qed.

Lemma run_sel_stable recover ls : forall s s' a,
  run recover ls s = Some s' -> st_sel s = Some a -> st_sel s' = Some a /\ st_rw s' = st_rw s.
Proof.
  induction ls as [|l r IH]; simpl; intros s s' a H Es; [inversion H; subst; auto|].
  destruct (step recover l s) as [s1|] eqn:E; [|discriminate].
  destruct (step_sel_stable _ _ _ _ _ E Es) as [E1 E2]. destruct (IH _ _ _ H E1) as [E3 E4]. split; congruence.
Qed.

(* ---------------------------------------------------------------- after the timeout arm: tw frozen *)
Definition frozen_rel (s s' : state) : Prop :=
  tw_wbuf (st_tw s') = tw_wbuf (st_tw s) /\ tw_code (st_tw s') = tw_code (st_tw s) /\
  tw_wroteHeader (st_tw s') = tw_wroteHeader (st_tw s) /\ tw_timedOut (st_tw s') = true /\
  exists tr, st_trace s' = st_trace s ++ tr /\ Forall (fun o => forall n, o <> OWrote n) tr.

Lemma frozen_same s s' : st_tw s' = st_tw s -> st_trace s' = st_trace s -> tw_timedOut (st_tw s) = true -> frozen_rel s s'.
Proof. intros E1 E2 E. unfold frozen_rel. rewrite E1, E2. repeat split; auto. exists []. rewrite app_nil_r. auto. Qed.

Lemma frozen_trans s1 s2 s3 : frozen_rel s1 s2 -> frozen_rel s2 s3 -> frozen_rel s1 s3.
Proof.
  intros (A1 & A2 & A3 & A4 & tr1 & A5 & A6) (B1 & B2 & B3 & B4 & tr2 & B5 & B6). unfold frozen_rel.
  repeat split; try congruence. exists (tr1 ++ tr2). split; [rewrite B5, A5, app_assoc; reflexivity|].
  apply Forall_app; auto.
Qed.

Lemma h_step_frozen recover s s' :
  tw_timedOut (st_tw s) = true -> h_step recover s = Some s' -> frozen_rel s s'.
Proof.
  intros E H. unfold h_step in H. destruct (st_h s) as [[|a rest]| |]; [| | |discriminate].
  - inversion H; subst. apply frozen_same; auto.
  - destruct (do_action (st_tw s) a) as [t' o] eqn:D.
    destruct (do_action_frozen _ _ _ _ E D) as (A1 & A2 & A3 & A4 & A5 & _).
    assert (G : forall s'', st_tw s'' = t' -> st_trace s'' = st_trace s ++ [o] -> frozen_rel s s'').
    { intros s'' Hs Ht. unfold frozen_rel. rewrite Hs. repeat split; auto. exists [o]. split; [assumption|]. constructor; auto. }
    destruct o; [| | |destruct recover]; inversion H; subst; apply G; reflexivity.
  - unfold write_header_locked in H. simpl in H. rewrite E in H. inversion H; subst. apply frozen_same; auto.
Qed.

Lemma step_frozen recover l s s' a :
  st_sel s = Some a -> tw_timedOut (st_tw s) = true -> step recover l s = Some s' -> frozen_rel s s'.
Proof.
  intros Es E H. destruct l as [|c|b]; simpl in H.
  - eapply h_step_frozen; eauto.
  - unfold fire_step in H. destruct (st_fired s); [discriminate|]. inversion H; subst. apply frozen_same; auto.
  - unfold sel_step in H. rewrite Es in H. discriminate.
Qed.

Lemma run_frozen recover ls : forall s s' a,
  st_sel s = Some a -> tw_timedOut (st_tw s) = true -> run recover ls s = Some s' -> frozen_rel s s'.
Proof.
  induction ls as [|l r IH]; simpl; intros s s' a Es E H; [inversion H; subst; apply frozen_same; auto|].
  destruct (step recover l s) as [s1|] eqn:E1; [|discriminate].
  pose proof (step_frozen _ _ _ _ _ Es E E1) as F1.
  destruct (step_sel_stable _ _ _ _ _ E1 Es) as [Es1 _].
  eapply frozen_trans; [exact F1|]. eapply IH; eauto. destruct F1 as (_ & _ & _ & T & _). exact T.
Qed.

(* a Write after the timeout arm reports ErrHandlerTimeout and changes nothing *)
Lemma late_write_refused recover s s' bs rest :
  tw_timedOut (st_tw s) = true -> st_h s = HRun (Write bs :: rest) -> h_step recover s = Some s' ->
  st_trace s' = st_trace s ++ [OErrTimeout] /\ st_tw s' = st_tw s /\ st_rw s' = st_rw s.
Proof.
  intros E Eh H. unfold h_step in H. rewrite Eh in H. simpl in H. unfold tw_write in H. rewrite E in H.
  inversion H; subst; simpl; auto.
Qed.

(* ---------------------------------------------------------------- which arm: in time / late / both *)
Lemma whl_500_ok t : exists t', write_header_locked t statusInternalServerError = Ok t'.
Proof.
  unfold write_header_locked. simpl. destruct (tw_timedOut t); [eauto|]. destruct (tw_wroteHeader t); eauto.
Qed.

Lemma recover_never_panics ls : forall s s',
  st_panicked s = false -> run true ls s = Some s' -> st_panicked s' = false.
Proof.
  induction ls as [|l r IH]; simpl; intros s s' P H; [inversion H; subst; assumption|].
  destruct (step true l s) as [s1|] eqn:E; [|discriminate]. eapply IH; [|exact H].
  destruct l as [|c|a]; simpl in E.
  - unfold h_step in E. destruct (st_h s) as [[|a rest]| |]; [| | |discriminate].
    + inversion E; subst; assumption.
    + destruct (do_action (st_tw s) a) as [t' o]. destruct o; inversion E; subst; assumption.
    + destruct (whl_500_ok (st_tw s)) as [t' W]. rewrite W in E. inversion E; subst; assumption.
  - unfold fire_step in E. destruct (st_fired s); [discriminate|]. inversion E; subst; assumption.
  - unfold sel_step in E. destruct (st_sel s); [discriminate|]. destruct a.
    + rewrite P in E. discriminate.
    + destruct (st_done s); [|discriminate]. inversion E; subst; assumption.
    + destruct (st_fired s); [|discriminate]. inversion E; subst; assumption.
Qed.

Lemma arm_in_time a s s' :
  sel_step a s = Some s' -> st_fired s = None -> st_panicked s = false -> a = ArmDone.
Proof.
  unfold sel_step. destruct (st_sel s); [discriminate|]. intros H F P. destruct a; [|reflexivity|].
  - rewrite P in H. discriminate.
  - rewrite F in H. discriminate.
Qed.

Lemma arm_late a s s' :
  sel_step a s = Some s' -> st_done s = false -> st_panicked s = false -> a = ArmFired.
Proof.
  unfold sel_step. destruct (st_sel s); [discriminate|]. intros H D P. destruct a; [| |reflexivity].
  - rewrite P in H. discriminate.
  - rewrite D in H. discriminate.
Qed.

Lemma arm_both s c : st_sel s = None -> st_done s = true -> st_fired s = Some c ->
  sel_step ArmDone s = Some (flush_done s) /\ sel_step ArmFired s = Some (flush_timeout c s).
Proof. unfold sel_step. intros -> -> ->. auto. Qed.

(* ---------------------------------------------------------------- progress and termination (never hangs) *)
Definition measure (s : state) : nat :=
  (match st_h s with HRun r => 2 * List.length r + 1 | HRecover => 2 | HDead => 0 end +
   match st_sel s with None => 1 | Some _ => 0 end +
   match st_fired s with None => 1 | Some _ => 0 end)%nat.

Lemma step_measure recover l s s' : step recover l s = Some s' -> (measure s' < measure s)%nat.
Proof.
  intro H. destruct l as [|c|a]; simpl in H.
  - pose proof (h_step_frame _ _ _ H) as (_ & Ef & Es). unfold measure. rewrite Ef, Es.
    unfold h_step in H. destruct (st_h s) as [[|a rest]| |]; [| | |discriminate].
    + inversion H; subst; simpl. lia.
    + destruct (do_action (st_tw s) a) as [t' o]. destruct o; [| | |destruct recover]; inversion H; subst; simpl;
        try destruct (recover_sees (panic_value_of a)); simpl; lia.
    + destruct (write_header_locked (st_tw s) statusInternalServerError); inversion H; subst; simpl; lia.
  - unfold fire_step in H. unfold measure. destruct (st_fired s); [discriminate|]. inversion H; subst; simpl.
    destruct (st_h s); destruct (st_sel s); lia.
  - unfold sel_step in H. unfold measure. destruct (st_sel s); [discriminate|]. destruct a.
    + destruct (st_panicked s); [|discriminate]. inversion H; subst; simpl. destruct (st_h s); lia.
    + destruct (st_done s); [|discriminate]. inversion H; subst; simpl. destruct (st_h s); lia.
    + destruct (st_fired s) eqn:Ef; [|discriminate]. inversion H; subst; simpl. rewrite Ef. destruct (st_h s); lia.
Qed.

Lemma run_measure recover ls : forall s s', run recover ls s = Some s' -> (List.length ls + measure s' <= measure s)%nat.
Proof.
  induction ls as [|l r IH]; simpl; intros s s' H; [inversion H; subst; lia|].
  destruct (step recover l s) as [s1|] eqn:E; [|discriminate]. apply step_measure in E. apply IH in H. lia.
Qed.

(* a dead handler goroutine has always signalled: close(done) or a send on panicChan (every unfinished call is
   reported, whatever the panic value) *)
Lemma dead_signalled recover ls : forall s s',
  (st_h s = HDead -> st_done s = true \/ st_panicked s = true) -> run recover ls s = Some s' ->
  (st_h s' = HDead -> st_done s' = true \/ st_panicked s' = true).
Proof.
  induction ls as [|l r IH]; simpl; intros s s' J H; [inversion H; subst; assumption|].
  destruct (step recover l s) as [s1|] eqn:E; [|discriminate]. eapply IH; [|exact H]. clear IH H.
  destruct l as [|c|a]; simpl in E.
  - unfold h_step in E. destruct (st_h s) as [[|a rest]| |]; [| | |discriminate].
    + inversion E; subst; simpl; auto.
    + destruct (do_action (st_tw s) a) as [t' o]. destruct o; [| | |destruct recover]; inversion E; subst; simpl;
        try discriminate; auto.
    + destruct (write_header_locked (st_tw s) statusInternalServerError); inversion E; subst; simpl; try discriminate; auto.
  - unfold fire_step in E. destruct (st_fired s); [discriminate|]. inversion E; subst; assumption.
  - unfold sel_step in E. destruct (st_sel s); [discriminate|]. destruct a.
    + destruct (st_panicked s); [|discriminate]. inversion E; subst; assumption.
    + destruct (st_done s) eqn:D; [|discriminate]. inversion E; subst; simpl; auto.
    + destruct (st_fired s); [|discriminate]. inversion E; subst; assumption.
Qed.

Lemma progress recover rh0 acts s :
  reachable recover rh0 acts s -> terminal s = false ->
  (exists s', step recover LH s = Some s') \/ (exists a s', step recover (LSel a) s = Some s').
Proof.
  intros [ls R] T.
  pose proof (dead_signalled recover ls _ _ (fun H : st_h (init rh0 acts) = HDead => ltac:(discriminate H)) R) as J.
  unfold terminal in T. simpl.
  destruct (st_h s) as [[|a rest]| |] eqn:Eh.
  - left. unfold h_step. rewrite Eh. eauto.
  - left. unfold h_step. rewrite Eh. destruct (do_action (st_tw s) a) as [t' o]. destruct o; [| | |destruct recover]; eauto.
  - left. unfold h_step. rewrite Eh. destruct (write_header_locked (st_tw s) statusInternalServerError); eauto.
  - right. destruct (st_sel s) eqn:Es; [discriminate|]. destruct (J eq_refl) as [D|P].
    + exists ArmDone. unfold sel_step. rewrite Es, D. eauto.
    + exists ArmPanic. unfold sel_step. rewrite Es, P. eauto.
Qed.

Lemma terminal_no_step recover s : terminal s = true ->
  step recover LH s = None /\ forall a, step recover (LSel a) s = None.
Proof.
  unfold terminal. destruct (st_h s) eqn:Eh; try discriminate. destruct (st_sel s) eqn:Es; try discriminate.
  intros _. simpl. unfold h_step, sel_step. rewrite Eh, Es. auto.
Qed.

(* ================================================================== panic rules (Recover inside Timeout) *)
Lemma effective_app pre a post : has_panic pre = false -> panics a = true ->
  effective (pre ++ a :: post) = pre /\ has_panic (pre ++ a :: post) = true.
Proof.
  intros H Ha. induction pre as [|b r IH]; simpl in *.
  - rewrite Ha. auto.
  - apply orb_false_iff in H as [Hb Hr]. rewrite Hb. simpl. destruct (IH Hr) as [-> ->]. auto.
Qed.

Lemma commit_none_body pre : commit_status pre = None -> spec_body pre = [].
Proof.
  induction pre as [|a r IH]; simpl; [auto|]. destruct a; simpl; auto; try discriminate.
  destruct (is_info c); [auto|discriminate].
Qed.

Lemma first_panic_app pre a post : has_panic pre = false -> panics a = true ->
  first_panic (pre ++ a :: post) = Some (panic_value_of a).
Proof.
  intros H Ha. induction pre as [|b r IH]; simpl in *; [rewrite Ha; reflexivity|].
  apply orb_false_iff in H as [Hb Hr]. rewrite Hb. auto.
Qed.

(* a panic before any commit: 500 iff the guards notice the value, else the implicit 200 *)
Lemma panic_uncommitted_status sees rh0 pre a post :
  has_panic pre = false -> panics a = true -> commit_status pre = None ->
  handler_response_gen sees true rh0 (pre ++ a :: post) =
  Some (mkresp (if sees (panic_value_of a) then statusInternalServerError else statusOK) (hmerge rh0 (spec_headers pre)) []).
Proof.
  intros H Ha Hc. unfold handler_response_gen, panic_seen. destruct (effective_app pre a post H Ha) as [-> ->].
  rewrite (first_panic_app pre a post H Ha). simpl. rewrite Hc, (commit_none_body _ Hc). reflexivity.
Qed.

Lemma panic_committed_keeps sees rh0 pre a post c :
  has_panic pre = false -> panics a = true -> commit_status pre = Some c ->
  handler_response_gen sees true rh0 (pre ++ a :: post) =
  Some (mkresp c (hmerge rh0 (spec_headers pre)) (spec_body pre)).
Proof.
  intros H Ha Hc. unfold handler_response_gen. destruct (effective_app pre a post H Ha) as [-> ->]. simpl.
  rewrite Hc. reflexivity.
Qed.

(* the code's response is the property's response unless the first panic carries a value the guards do not
   notice and nothing was committed *)
Lemma response_is_spec_unless_unseen recover rh0 acts :
  match first_panic acts with Some v => recover_sees v = true | None => True end ->
  handler_response recover rh0 acts = spec_response recover rh0 acts.
Proof.
  intro H. unfold handler_response, spec_response, handler_response_gen, panic_seen.
  destruct (first_panic acts) as [v|]; [rewrite H|]; reflexivity.
Qed.

Lemma no_panic_effective acts : has_panic acts = false -> effective acts = acts.
Proof.
  induction acts as [|a r IH]; simpl; [auto|]. intro H. apply orb_false_iff in H as [Ha Hr]. rewrite Ha, IH; auto.
Qed.

(* ================================================================== MaxBytes *)
Lemma maxbytes_rejects_iff n clen : maxbytes_rejects n clen = true <-> 0 < n < clen.
Proof. unfold maxbytes_rejects. lia. Qed.

Lemma gate_rejects recover rh0 n clen acts : maxbytes_rejects n clen = true ->
  gated_script n clen acts = [WriteHeader statusRequestEntityTooLarge] /\
  handler_response recover rh0 (gated_script n clen acts) = Some (mkresp statusRequestEntityTooLarge rh0 []) /\
  spec_response recover rh0 (gated_script n clen acts) = Some (mkresp statusRequestEntityTooLarge rh0 []).
Proof. unfold gated_script. intros ->. repeat split; reflexivity. Qed.

Lemma gate_passes n clen acts : maxbytes_rejects n clen = false -> gated_script n clen acts = acts.
Proof. unfold gated_script. intros ->. reflexivity. Qed.

(* ================================================================== MaxConns *)
Lemma filter_set_nth {A} (f : A -> bool) y : forall (l : list A) i x,
  nth_error l i = Some x ->
  (List.length (filter f (set_nth i y l)) + (if f x then 1 else 0) =
   List.length (filter f l) + (if f y then 1 else 0))%nat.
Proof.
  induction l as [|a r IH]; intros [|i] x H; simpl in *; try discriminate.
  - inversion H; subst. destruct (f x), (f y); simpl; lia.
  - specialize (IH _ _ H). destruct (f a); simpl; lia.
Qed.

Lemma length_set_nth {A} (y : A) : forall l i, List.length (set_nth i y l) = List.length l.
Proof. induction l as [|a r IH]; intros [|i]; simpl; auto. Qed.

Definition MInv (n : Z) (s : mstate) : Prop := 0 < n -> ms_pool s = inside s /\ Z.of_nat (inside s) <= n.

Lemma minv_init n reqs : MInv n (minit reqs).
Proof.
  intro Hn. unfold minit, inside; simpl. assert (E : filter is_in (repeat MOut reqs) = []).
  { induction reqs; simpl; auto. } rewrite E. simpl. split; [reflexivity|lia].
Qed.

Lemma mstep_inv n l s s' : MInv n s -> mstep n l s = Some s' -> MInv n s'.
Proof.
  intros I H Hn. specialize (I Hn) as [Ip Ib]. assert (Hn' : (n <=? 0) = false) by lia.
  destruct l as [i|i p]; simpl in H; rewrite Hn' in H.
  - destruct (nth_error (ms_reqs s) i) as [[| | |]|] eqn:E; try discriminate.
    unfold try_borrow in H. destruct (Z.of_nat (ms_pool s) <? n) eqn:L; inversion H; subst; unfold inside in *; simpl.
    + pose proof (filter_set_nth is_in MIn _ _ _ E) as Q. simpl in Q. split; lia.
    + pose proof (filter_set_nth is_in MRejected _ _ _ E) as Q. simpl in Q. split; lia.
  - destruct (nth_error (ms_reqs s) i) as [[| | |]|] eqn:E; try discriminate.
    inversion H; subst; unfold inside, give_back in *; simpl.
    pose proof (filter_set_nth is_in MLeft _ _ _ E) as Q. simpl in Q. split; lia.
Qed.

Lemma mrun_inv n ls : forall s s', MInv n s -> mrun n ls s = Some s' -> MInv n s'.
Proof.
  induction ls as [|l r IH]; simpl; intros s s' I H; [inversion H; subst; assumption|].
  destruct (mstep n l s) as [s1|] eqn:E; [|discriminate]. eapply IH; [|exact H]. eapply mstep_inv; eauto.
Qed.

(* a request is turned away exactly when the guard is on and n requests are inside at that instant *)
Lemma enter_rejected_iff n s s' i : MInv n s -> mstep n (MEnter i) s = Some s' ->
  (nth_error (ms_reqs s') i = Some MRejected <-> 0 < n /\ Z.of_nat (inside s) = n) /\
  (nth_error (ms_reqs s') i = Some MIn <-> ~ (0 < n /\ Z.of_nat (inside s) = n)).
Proof.
  intros I H. simpl in H. destruct (nth_error (ms_reqs s) i) as [[| | |]|] eqn:E; try discriminate.
  assert (G : forall y, nth_error (set_nth i y (ms_reqs s)) i = Some y).
  { clear H I. revert i E. induction (ms_reqs s) as [|a r IH]; intros [|i] E; simpl in *; try discriminate; auto. }
  destruct (n <=? 0) eqn:Hn.
  - inversion H; subst; simpl. rewrite G. split; split; intros; try discriminate; try lia; auto.
  - assert (Hp : 0 < n) by lia. destruct (I Hp) as [Ip Ib]. unfold try_borrow in H. rewrite Ip in H.
    destruct (Z.of_nat (inside s) <? n) eqn:L; inversion H; subst; simpl; rewrite G; split; split; intros; try discriminate; try lia; auto.
Qed.

(* ================================================================== RPC twin *)
Definition RInv (crash : bool) (h : hres) (s : rstate) : Prop :=
  match rs_pending s with
  | Some h' => h' = h /\ rs_done s = false /\ rs_panicked s = false /\ rs_val s = None
  | None => match h with
            | HReturn r c => rs_done s = true /\ rs_panicked s = false /\ rs_val s = Some (r, c)
            | HPanics v => rs_done s = false /\ rs_panicked s = recover_sees v
            end
  end /\
  match rs_out s with
  | None => True
  | Some (ArmDone, res) => exists r c, h = HReturn r c /\ res = RResult r c
  | Some (ArmFired, res) => exists c, rs_fired s = Some c /\ res = RResult None (deadline_code c)
  | Some (ArmPanic, res) => (exists v, h = HPanics v /\ recover_sees v = true) /\
                            res = (if crash then RResult None codeInternal else RPropagatedPanic)
  end.

Lemma rinv_init crash h : RInv crash h (rinit h).
Proof. unfold RInv, rinit; simpl. auto. Qed.

Lemma rstep_inv crash h l s s' : RInv crash h s -> rstep crash l s = Some s' -> RInv crash h s'.
Proof.
  intros [I1 I2] H. destruct l as [|c|a]; simpl in H.
  - unfold rh_step in H. destruct (rs_pending s) as [[r c|v]|] eqn:E; [| |discriminate];
      destruct I1 as (<- & D & P & V); inversion H; subst; unfold RInv; simpl; split; auto.
  - unfold rfire_step in H. destruct (rs_fired s) eqn:F; [discriminate|]. inversion H; subst; unfold RInv; simpl.
    split; [exact I1|]. destruct (rs_out s) as [[[| |] res]|]; auto. destruct I2 as (c' & Hc & _). discriminate.
  - unfold rsel_step in H. destruct (rs_out s) eqn:O; [discriminate|]. destruct a.
    + destruct (rs_panicked s) eqn:P; [|discriminate]. inversion H; subst; unfold RInv; simpl. split; [exact I1|].
      split; [|reflexivity]. destruct (rs_pending s) as [h'|].
      * destruct I1 as (_ & _ & P' & _). congruence.
      * destruct h as [r c|v]; [destruct I1 as (_ & P' & _); congruence|]. destruct I1 as (_ & P'). exists v. split; congruence.
    + destruct (rs_done s) eqn:D; [|discriminate]. destruct (rs_val s) as [[r c]|] eqn:V; [|discriminate].
      inversion H; subst; unfold RInv; simpl. split; [exact I1|]. exists r, c. split; [|reflexivity].
      destruct (rs_pending s) as [h'|].
      * destruct I1 as (_ & D' & _). congruence.
      * destruct h; [destruct I1 as (_ & _ & V'); congruence|destruct I1 as (D' & _); congruence].
    + destruct (rs_fired s) as [c|] eqn:F; [|discriminate]. inversion H; subst; unfold RInv; simpl. split; [exact I1|].
      exists c. auto.
Qed.

Lemma rrun_inv crash h ls : forall s s', RInv crash h s -> rrun crash ls s = Some s' -> RInv crash h s'.
Proof.
  induction ls as [|l r IH]; simpl; intros s s' I H; [inversion H; subst; assumption|].
  destruct (rstep crash l s) as [s1|] eqn:E; [|discriminate]. eapply IH; [|exact H]. eapply rstep_inv; eauto.
Qed.

Lemma rrun_out_stable crash ls : forall s s' o, rrun crash ls s = Some s' -> rs_out s = Some o -> rs_out s' = Some o.
Proof.
  induction ls as [|l r IH]; simpl; intros s s' o H O; [inversion H; subst; assumption|].
  destruct (rstep crash l s) as [s1|] eqn:E; [|discriminate]. eapply IH; [exact H|].
  destruct l as [|c|a]; simpl in E.
  - unfold rh_step in E. destruct (rs_pending s) as [[? ?|]|]; inversion E; subst; simpl; assumption.
  - unfold rfire_step in E. destruct (rs_fired s); inversion E; subst; simpl; assumption.
  - unfold rsel_step in E. rewrite O in E. discriminate.
Qed.

Lemma rarm_in_time crash a s s' : rsel_step crash a s = Some s' -> rs_fired s = None -> rs_panicked s = false -> a = ArmDone.
Proof.
  unfold rsel_step. destruct (rs_out s); [discriminate|]. intros H F P. destruct a; [|reflexivity|].
  - rewrite P in H. discriminate.
  - rewrite F in H. discriminate.
Qed.

Lemma rarm_late crash a s s' : rsel_step crash a s = Some s' -> rs_done s = false -> rs_panicked s = false -> a = ArmFired.
Proof.
  unfold rsel_step. destruct (rs_out s); [discriminate|]. intros H D P. destruct a; [| |reflexivity].
  - rewrite P in H. discriminate.
  - rewrite D in H. discriminate.
Qed.

(* the interceptor always returns: while it has not, the handler step or some select arm is enabled *)
Lemma rprogress crash h s :
  (exists ls, rrun crash ls (rinit h) = Some s) -> rs_out s = None ->
  (exists s', rstep crash LH s = Some s') \/ (exists a s', rstep crash (LSel a) s = Some s').
Proof.
  intros [ls R] O. apply (rrun_inv crash h) in R; [|apply rinv_init]. destruct R as [I1 _]. simpl.
  destruct (rs_pending s) as [h'|] eqn:E.
  - left. unfold rh_step. rewrite E. destruct h'; eauto.
  - right. destruct h as [r c|v].
    + destruct I1 as (D & P & V). exists ArmDone. unfold rsel_step. rewrite O, D, V. eauto.
    + destruct I1 as (D & P). exists ArmPanic. unfold rsel_step. rewrite O, P. unfold recover_sees. eauto.
Qed.

(* ================================================================== pass-through writers, effective deadline *)
Lemma lw_transparent : forall evs w c b,
  lw_inner (fold_left lw_apply evs (mklw w c b)) = fold_left rw_apply evs w /\
  lw_buf (fold_left lw_apply evs (mklw w c b)) =
  b ++ flat_map (fun e => match e with RWrite bs => bs | _ => [] end) evs.
Proof.
  induction evs as [|e r IH]; intros w c b; simpl; [rewrite app_nil_r; auto|].
  destruct e as [c' h|bs]; simpl.
  - unfold lw_write_header; simpl. apply IH.
  - unfold lw_write; simpl. destruct (IH (rw_write bs w) c (b ++ bs)) as [A B]. split; [exact A|].
    rewrite B, <- app_assoc. reflexivity.
Qed.

Lemma effective_timeout_cases g r :
  (0 < r -> effective_timeout g r = r) /\ (r <= 0 -> effective_timeout g r = g).
Proof. unfold effective_timeout. split; intro H; destruct (0 <? r) eqn:E; lia. Qed.

Lemma t_effective_deadline : forall g r,
  (0 < r -> effective_timeout g r = r) /\
  (r <= 0 -> effective_timeout g r = g) /\
  (effective_timeout g r = 0 <-> (r <= 0 /\ g = 0) ) /\
  (forall t, rpc_has_timeout t = true <-> 0 < t).
Proof.
  intros g r. destruct (effective_timeout_cases g r) as [A B]. split; [exact A|]. split; [exact B|]. split.
  - unfold effective_timeout. destruct (0 <? r) eqn:E; lia.
  - intro t. unfold rpc_has_timeout. lia.
Qed.

(* ================================================================== application-wide error handlers *)
Lemma t_timeout_reply_ignores_plain_error_handler : forall code b c s,
  timeout_arm_events (GPlain code b) c (rw_h (st_rw s)) = timeout_arm_events GNone c (rw_h (st_rw s)) /\
  rw_log (st_rw (flush_timeout c s)) = (rw_log (st_rw s) ++ timeout_arm_events (GPlain code b) c (rw_h (st_rw s)))%list /\
  (forall ctx, error_calls (GPlain code b) true = error_calls GNone ctx) /\
  error_calls (GPlain code b) false = handled_calls code b /\
  error_calls (GCtx code b) true = handled_calls code b /\
  (forall ctx, error_calls (GCtx code b) false = error_calls GNone ctx).
Proof.
  intros code b c s. split; [reflexivity|]. split.
  - unfold flush_timeout, rw_write, rw_write_header; simpl. rewrite <- app_assoc. reflexivity.
  - repeat split; intros; try destruct ctx; reflexivity.
Qed.

(* ================================================================== one limiter per installed middleware *)
(* The bound of t_maxconns_bound is a property of ONE latch shared by all requests of the installed middleware.  A latch
   built per request (a guard constructor re-run on every call) lets everybody in: *)
Lemma t_limiter_state_is_shared : forall n, 0 < n ->
  (forall s, mstep n (MEnter 0) (minit 1) = Some s -> nth_error (ms_reqs s) 0 = Some MIn) /\
  (exists s, mstep n (MEnter 0) (minit 1) = Some s) /\
  (* whereas with one shared latch the (n+1)-th arrival is turned away *)
  (forall reqs ls s i s', mrun n ls (minit reqs) = Some s -> Z.of_nat (inside s) = n ->
     mstep n (MEnter i) s = Some s' -> nth_error (ms_reqs s') i = Some MRejected).
Proof.
  intros n Hn. assert (E : (n <=? 0) = false) by lia. split; [|split].
  - intros s H. simpl in H. rewrite E in H. unfold try_borrow in H. simpl in H.
    destruct (0 <? n) eqn:L; [|lia]. inversion H; subst. reflexivity.
  - simpl. rewrite E. unfold try_borrow. simpl. destruct (0 <? n) eqn:L; [eauto|lia].
  - intros reqs ls s i s' H Hin Hs. pose proof (mrun_inv n ls _ _ (minv_init n reqs) H) as I.
    apply (proj1 (enter_rejected_iff n s s' i I Hs)). split; assumption.
Qed.

(* ================================================================== the statements of Props.v *)
Lemma t_exactly_one_response : forall recover rh0 acts ls s,
  run recover ls (init rh0 acts) = Some s ->
  (st_sel s = None -> rw_log (st_rw s) = []) /\
  (terminal s = true ->
     (exists r, committed (st_rw s) r) \/ (st_sel s = Some ArmPanic /\ rw_log (st_rw s) = [])) /\
  (forall ls' s', st_sel s <> None -> run recover ls' s = Some s' -> st_rw s' = st_rw s).
Proof.
  intros recover rh0 acts ls s H. pose proof (classify recover rh0 acts s (ex_intro _ ls H)) as C. repeat split.
  - intro E. rewrite E in C. rewrite C. reflexivity.
  - unfold terminal. destruct (st_h s); try discriminate. destruct (st_sel s) as [[| |]|]; try discriminate; intros _.
    + right. destruct C as (-> & _). auto.
    + left. destruct C as (r & _ & Hc & _). eauto.
    + left. destruct C as (c & _ & Hc & _). eauto.
  - intros ls' s' N H'. destruct (st_sel s) as [a|] eqn:E; [|congruence].
    apply (run_sel_stable recover ls' s s' a H' E).
Qed.

Lemma t_never_hangs : forall recover rh0 acts ls s,
  run recover ls (init rh0 acts) = Some s ->
  (List.length ls <= 2 * List.length acts + 3)%nat /\
  (terminal s = false ->
     (exists s', step recover LH s = Some s') \/ (exists a s', step recover (LSel a) s = Some s')) /\
  (terminal s = true -> step recover LH s = None /\ forall a, step recover (LSel a) s = None).
Proof.
  intros recover rh0 acts ls s H. split; [|split].
  - apply run_measure in H. unfold measure, init in H; simpl in H. lia.
  - intro T. apply progress with (rh0 := rh0) (acts := acts); [exists ls; exact H|exact T].
  - apply terminal_no_step.
Qed.

Lemma t_response_is_handler_or_timeout : forall recover rh0 acts ls s,
  run recover ls (init rh0 acts) = Some s ->
  match st_sel s with
  | None => True
  | Some ArmDone => exists r, handler_response recover rh0 acts = Some r /\ committed (st_rw s) r
  | Some ArmFired => exists c, st_fired s = Some c /\ committed (st_rw s) (timeout_response c rh0)
  | Some ArmPanic => handler_response recover rh0 acts = None /\ recover = false /\ rw_log (st_rw s) = []
  end.
Proof.
  intros recover rh0 acts ls s H. pose proof (classify recover rh0 acts s (ex_intro _ ls H)) as C.
  destruct (st_sel s) as [[| |]|]; auto.
  - destruct C as (-> & A & B). auto.
  - destruct C as (r & A & B & _). eauto.
  - destruct C as (c & A & B & _). eauto.
Qed.

Lemma t_no_leak : forall recover rh0 acts ls s,
  run recover ls (init rh0 acts) = Some s ->
  (st_sel s = None -> st_rw s = mkrw rh0 [] /\ tw_timedOut (st_tw s) = false) /\
  (st_sel s = Some ArmFired ->
     (exists c, st_fired s = Some c /\
                st_rw s = mkrw rh0 [RWriteHeader (timeout_status c) rh0; RWrite reason]) /\
     tw_timedOut (st_tw s) = true /\
     forall ls' s', run recover ls' s = Some s' ->
       st_rw s' = st_rw s /\
       tw_wbuf (st_tw s') = tw_wbuf (st_tw s) /\ tw_code (st_tw s') = tw_code (st_tw s) /\
       tw_wroteHeader (st_tw s') = tw_wroteHeader (st_tw s) /\ tw_timedOut (st_tw s') = true /\
       exists tr, st_trace s' = st_trace s ++ tr /\ Forall (fun o => forall n, o <> OWrote n) tr).
Proof.
  intros recover rh0 acts ls s H. pose proof (reachable_inv recover rh0 acts s (ex_intro _ ls H)) as [_ I]. split.
  - intro E. rewrite E in I. destruct I as (A & B & _). auto.
  - intro E. rewrite E in I. destruct I as (c & Hc & Hrw & Ht). split; [|split; [exact Ht|]].
    + exists c. split; [assumption|]. rewrite Hrw. reflexivity.
    + intros ls' s' H'. destruct (run_sel_stable recover ls' s s' _ H' E) as [_ Erw].
      destruct (run_frozen recover ls' s s' _ E Ht H') as (A1 & A2 & A3 & A4 & A5). repeat split; auto.
Qed.

Lemma t_late_write_refused : forall recover rh0 acts ls s bs rest s',
  run recover ls (init rh0 acts) = Some s -> st_sel s = Some ArmFired ->
  st_h s = HRun (Write bs :: rest) -> step recover LH s = Some s' ->
  st_trace s' = st_trace s ++ [OErrTimeout] /\ st_tw s' = st_tw s /\ st_rw s' = st_rw s.
Proof.
  intros recover rh0 acts ls s bs rest s' H E Eh Hs.
  pose proof (reachable_inv recover rh0 acts s (ex_intro _ ls H)) as [_ I]. rewrite E in I.
  destruct I as (c & _ & _ & Ht). eapply late_write_refused; eauto.
Qed.

Lemma t_in_time_gets_handler : forall recover rh0 acts ls s a s',
  run recover ls (init rh0 acts) = Some s -> step recover (LSel a) s = Some s' ->
  st_fired s = None -> st_panicked s = false ->
  a = ArmDone /\ exists r, handler_response recover rh0 acts = Some r /\ committed (st_rw s') r.
Proof.
  intros recover rh0 acts ls s a s' H Hs F P. simpl in Hs. pose proof (arm_in_time _ _ _ Hs F P) as ->.
  split; [reflexivity|].
  assert (R : run recover (ls ++ [LSel ArmDone]) (init rh0 acts) = Some s') by (rewrite run_app, H; simpl; rewrite Hs; reflexivity).
  pose proof (t_response_is_handler_or_timeout _ _ _ _ _ R) as C.
  assert (E : st_sel s' = Some ArmDone).
  { unfold sel_step in Hs. destruct (st_sel s); [discriminate|]. destruct (st_done s); inversion Hs; reflexivity. }
  rewrite E in C. exact C.
Qed.

Lemma t_late_gets_timeout : forall recover rh0 acts ls s a s',
  run recover ls (init rh0 acts) = Some s -> step recover (LSel a) s = Some s' ->
  st_done s = false -> st_panicked s = false ->
  a = ArmFired /\ exists c, st_fired s = Some c /\ committed (st_rw s') (timeout_response c rh0).
Proof.
  intros recover rh0 acts ls s a s' H Hs D P. simpl in Hs. pose proof (arm_late _ _ _ Hs D P) as ->.
  split; [reflexivity|].
  assert (R : run recover (ls ++ [LSel ArmFired]) (init rh0 acts) = Some s') by (rewrite run_app, H; simpl; rewrite Hs; reflexivity).
  pose proof (t_response_is_handler_or_timeout _ _ _ _ _ R) as C.
  unfold sel_step in Hs. destruct (st_sel s); [discriminate|]. destruct (st_fired s) as [c|] eqn:F; [|discriminate].
  inversion Hs; subst. simpl in C. destruct C as (c' & Hc & Hr). simpl in Hc. rewrite F in Hc. inversion Hc; subst.
  exists c'. auto.
Qed.

Lemma t_panic_is_500_if_uncommitted :
  (forall rh0 acts ls s, run true ls (init rh0 acts) = Some s ->
     st_panicked s = false /\ st_sel s <> Some ArmPanic /\ exists r, handler_response true rh0 acts = Some r) /\
  (forall rh0 pre a post, has_panic pre = false -> panics a = true -> commit_status pre = None ->
     handler_response true rh0 (pre ++ a :: post) =
     Some (mkresp statusInternalServerError (hmerge rh0 (spec_headers pre)) [])) /\
  (forall rh0 pre a post c, has_panic pre = false -> panics a = true -> commit_status pre = Some c ->
     handler_response true rh0 (pre ++ a :: post) =
     Some (mkresp c (hmerge rh0 (spec_headers pre)) (spec_body pre))).
Proof.
  split; [|split].
  - intros rh0 acts ls s H. assert (P : st_panicked s = false) by (eapply recover_never_panics; [|exact H]; reflexivity).
    split; [exact P|]. split.
    + intro E. pose proof (reachable_inv true rh0 acts s (ex_intro _ ls H)) as [_ I]. rewrite E in I.
      destruct I as (_ & P' & _). congruence.
    + unfold handler_response, handler_response_gen. rewrite andb_false_r. eauto.
  - intros rh0 pre a post H Ha Hc. unfold handler_response. rewrite (panic_uncommitted_status _ _ _ _ _ H Ha Hc). reflexivity.
  - intros. apply panic_committed_keeps; assumption.
Qed.

(* The value a handler panics with is irrelevant: recover_status is 500 and crash_code is Internal for EVERY
   value (constant functions), the code's REST response is the property's spec_response (which treats every panic
   alike) for every script, swapping one value for another changes nothing, and the unary chain answers Internal
   under Crash with and without the timeout interceptor in between. *)
Lemma response_is_spec recover rh0 acts : handler_response recover rh0 acts = spec_response recover rh0 acts.
Proof. apply response_is_spec_unless_unseen. destruct (first_panic acts); reflexivity. Qed.

Lemma t_panic_value_irrelevant :
  (forall v, recover_status v = Some 500 /\ crash_code v = Some codeInternal) /\
  (forall recover rh0 acts, handler_response recover rh0 acts = spec_response recover rh0 acts) /\
  (forall recover rh0 pre post v w,
     handler_response recover rh0 (pre ++ PanicA v :: post) = handler_response recover rh0 (pre ++ PanicA w :: post)) /\
  (forall v,
     rpc_direct true (HPanics v) = RResult None codeInternal /\
     forall ls s a res, rrun true ls (rinit (HPanics v)) = Some s -> rs_out s = Some (a, res) ->
                        a = ArmFired \/ res = RResult None codeInternal).
Proof.
  split; [|split; [|split]].
  - intro v. split; reflexivity.
  - exact response_is_spec.
  - intros recover rh0 pre post v w. rewrite !response_is_spec.
    unfold spec_response, handler_response_gen, panic_seen.
    assert (E : effective (pre ++ PanicA v :: post) = effective (pre ++ PanicA w :: post) /\
                has_panic (pre ++ PanicA v :: post) = has_panic (pre ++ PanicA w :: post) /\
                match first_panic (pre ++ PanicA v :: post) with Some _ => true | None => false end =
                match first_panic (pre ++ PanicA w :: post) with Some _ => true | None => false end).
    { induction pre as [|b r IH]; simpl; [auto|]. destruct (panics b); [auto|].
      destruct IH as (-> & -> & ->). auto. }
    destruct E as (-> & -> & ->). reflexivity.
  - intro v. split; [reflexivity|].
    intros ls s a res H O. pose proof (proj2 (rrun_inv true (HPanics v) ls _ _ (rinv_init true (HPanics v)) H)) as C.
    rewrite O in C. destruct a.
    + right. destruct C as (_ & ->). reflexivity.
    + destruct C as (r & c & D & _). discriminate.
    + left. reflexivity.
Qed.

Lemma t_maxconns_bound : forall n reqs ls s,
  mrun n ls (minit reqs) = Some s ->
  conns_bounded n s /\
  (0 < n -> ms_pool s = inside s) /\
  (forall i s', mstep n (MEnter i) s = Some s' ->
     (nth_error (ms_reqs s') i = Some MRejected <-> 0 < n /\ Z.of_nat (inside s) = n) /\
     (nth_error (ms_reqs s') i = Some MIn <-> ~ (0 < n /\ Z.of_nat (inside s) = n))).
Proof.
  intros n reqs ls s H. pose proof (mrun_inv n ls _ _ (minv_init n reqs) H) as I.
  split; [intro Hn; apply I; assumption|]. split; [intro Hn; apply I; assumption|].
  intros i s' H0. exact (enter_rejected_iff n s s' i I H0).
Qed.

Lemma t_maxbytes_gate : forall recover rh0 n clen acts,
  (maxbytes_rejects n clen = true <-> 0 < n < clen) /\
  (0 < n < clen ->
     gated_script n clen acts = [WriteHeader statusRequestEntityTooLarge] /\
     handler_response recover rh0 (gated_script n clen acts) = Some (mkresp statusRequestEntityTooLarge rh0 [])) /\
  (~ 0 < n < clen -> gated_script n clen acts = acts).
Proof.
  intros recover rh0 n clen acts. split; [apply maxbytes_rejects_iff|]. split.
  - intro H. apply maxbytes_rejects_iff in H. destruct (gate_rejects recover rh0 n clen acts H) as (A & B & _). auto.
  - intro H. apply gate_passes. destruct (maxbytes_rejects n clen) eqn:E; [|reflexivity].
    apply maxbytes_rejects_iff in E. contradiction.
Qed.

Lemma t_rpc_result_is_handler_or_deadline : forall crash h ls s,
  rrun crash ls (rinit h) = Some s ->
  match rs_out s with
  | None => True
  | Some (ArmDone, res) => exists r c, h = HReturn r c /\ res = RResult r c
  | Some (ArmFired, res) => exists c, rs_fired s = Some c /\ res = RResult None (deadline_code c)
  | Some (ArmPanic, res) => (exists v, h = HPanics v /\ recover_sees v = true) /\
                            res = (if crash then RResult None codeInternal else RPropagatedPanic)
  end.
Proof. intros crash h ls s H. exact (proj2 (rrun_inv crash h ls _ _ (rinv_init crash h) H)). Qed.

Lemma t_rpc_exactly_one_result : forall crash h ls s,
  rrun crash ls (rinit h) = Some s ->
  (forall o ls' s', rs_out s = Some o -> rrun crash ls' s = Some s' -> rs_out s' = Some o) /\
  (rs_out s = None ->
     (exists s', rstep crash LH s = Some s') \/ (exists a s', rstep crash (LSel a) s = Some s')).
Proof.
  intros crash h ls s H. split.
  - intros o ls' s' O H'. eapply rrun_out_stable; eauto.
  - apply rprogress with (h := h). exists ls. exact H.
Qed.

Lemma t_rpc_in_time_gets_handler : forall crash h ls s a s',
  rrun crash ls (rinit h) = Some s -> rstep crash (LSel a) s = Some s' ->
  rs_fired s = None -> rs_panicked s = false -> a = ArmDone.
Proof. intros crash h ls s a s' _ H. simpl in H. eapply rarm_in_time; eauto. Qed.

Lemma t_rpc_late_gets_deadline : forall crash h ls s a s',
  rrun crash ls (rinit h) = Some s -> rstep crash (LSel a) s = Some s' ->
  rs_done s = false -> rs_panicked s = false ->
  a = ArmFired /\ exists c, rs_fired s = Some c /\ rs_out s' = Some (ArmFired, RResult None (deadline_code c)).
Proof.
  intros crash h ls s a s' _ H D P. simpl in H. pose proof (rarm_late _ _ _ _ H D P) as ->. split; [reflexivity|].
  unfold rsel_step in H. destruct (rs_out s); [discriminate|]. destruct (rs_fired s) as [c|]; [|discriminate].
  inversion H; subst. exists c. auto.
Qed.

Lemma t_rpc_panic_is_internal : forall h ls s a res,
  rrun true ls (rinit h) = Some s -> rs_out s = Some (a, res) ->
  res <> RPropagatedPanic /\ (a = ArmPanic -> res = RResult None codeInternal).
Proof.
  intros h ls s a res H O. pose proof (t_rpc_result_is_handler_or_deadline true h ls s H) as C. rewrite O in C.
  destruct a.
  - destruct C as (_ & ->). split; [discriminate|auto].
  - destruct C as (r & c & _ & ->). split; [discriminate|discriminate].
  - destruct C as (c & _ & ->). split; [discriminate|discriminate].
Qed.

(* ================================================================== concurrent requests: product of independent copies *)
Lemma nth_error_set_nth {A} (x : A) : forall l i j,
  nth_error (set_nth i x l) j =
  if Nat.eqb i j then match nth_error l j with Some _ => Some x | None => None end else nth_error l j.
Proof.
  induction l as [|a r IH]; intros [|i] [|j]; simpl; auto;
    try (destruct (Nat.eqb i j); destruct j; reflexivity).
Qed.

Section ProductProofs.
  Context {S L : Type} (stp : L -> S -> option S).

  (* a step of request i is enabled in the product iff it is enabled for request i alone: nothing another
     request does (or fails to do: a parked, abandoned handler) can delay it *)
  Lemma pstep_enabled i l ss :
    (exists ss', pstep stp (i, l) ss = Some ss') <-> (exists s s', nth_error ss i = Some s /\ stp l s = Some s').
  Proof.
    unfold pstep; simpl. split.
    - intros [ss' H]. destruct (nth_error ss i) as [s|]; [|discriminate]. destruct (stp l s) as [s'|] eqn:E; [|discriminate]. eauto.
    - intros (s & s' & -> & ->). eauto.
  Qed.

  Lemma pstep_frame i l ss ss' : pstep stp (i, l) ss = Some ss' ->
    List.length ss' = List.length ss /\
    (forall j, j <> i -> nth_error ss' j = nth_error ss j) /\
    (exists s s', nth_error ss i = Some s /\ stp l s = Some s' /\ nth_error ss' i = Some s').
  Proof.
    unfold pstep; simpl. destruct (nth_error ss i) as [s|] eqn:E; [|discriminate].
    destruct (stp l s) as [s'|] eqn:E'; [|discriminate]. intro H; inversion H; subst; clear H. repeat split.
    - apply length_set_nth.
    - intros j Hj. rewrite nth_error_set_nth. destruct (Nat.eqb i j) eqn:Q; [apply Nat.eqb_eq in Q; congruence|reflexivity].
    - exists s, s'. repeat split; auto. rewrite nth_error_set_nth, Nat.eqb_refl, E. reflexivity.
  Qed.

  Lemma prun_independent : forall ls ss ss', prun stp ls ss = Some ss' ->
    List.length ss' = List.length ss /\
    forall i s, nth_error ss i = Some s ->
      exists s', nth_error ss' i = Some s' /\ grun stp (proj i ls) s = Some s'.
  Proof.
    induction ls as [|[k l] r IH]; simpl; intros ss ss' H.
    - inversion H; subst. split; [reflexivity|]. intros i s Hs. exists s. auto.
    - destruct (pstep stp (k, l) ss) as [ss1|] eqn:E; [|discriminate].
      destruct (pstep_frame _ _ _ _ E) as (Hlen & Hother & s0 & s1 & Hs0 & Hst & Hs1).
      destruct (IH _ _ H) as [Hlen' Hall]. split; [congruence|]. intros i s Hs. unfold proj; simpl.
      destruct (Nat.eqb k i) eqn:Q.
      + apply Nat.eqb_eq in Q; subst k. rewrite Hs in Hs0; inversion Hs0; subst s0. simpl. rewrite Hst.
        apply Hall. assumption.
      + apply Hall. rewrite Hother; [assumption|]. intro C; subst. rewrite Nat.eqb_refl in Q. discriminate.
  Qed.
End ProductProofs.

Lemma grun_run recover ls : forall s, grun (step recover) ls s = run recover ls s.
Proof. induction ls as [|l r IH]; simpl; intro s; [reflexivity|]. destruct (step recover l s); auto. Qed.
Lemma grun_rrun crash ls : forall s, grun (rstep crash) ls s = rrun crash ls s.
Proof. induction ls as [|l r IH]; simpl; intro s; [reflexivity|]. destruct (rstep crash l s); auto. Qed.

(* m requests with scripts/headers reqs through one TimeoutHandler instance *)
Definition pinit (reqs : list (hdrs * list action)) : list state := map (fun q => init (fst q) (snd q)) reqs.

Lemma t_requests_independent : forall recover reqs ls ss,
  prun (step recover) ls (pinit reqs) = Some ss ->
  List.length ss = List.length reqs /\
  (forall i rh0 acts, nth_error reqs i = Some (rh0, acts) ->
     exists s, nth_error ss i = Some s /\
       (* exactly the state request i reaches ALONE under its own part of the schedule *)
       run recover (proj i ls) (init rh0 acts) = Some s /\
       (* hence exactly its own response or its own timeout response *)
       match st_sel s with
       | None => rw_log (st_rw s) = []
       | Some ArmDone => exists r, handler_response recover rh0 acts = Some r /\ committed (st_rw s) r
       | Some ArmFired => exists c, st_fired s = Some c /\ committed (st_rw s) (timeout_response c rh0)
       | Some ArmPanic => handler_response recover rh0 acts = None /\ recover = false /\ rw_log (st_rw s) = []
       end) /\
  (* and no request can be delayed by another: enabledness of its steps is its own business *)
  (forall i l, (exists ss', pstep (step recover) (i, l) ss = Some ss') <->
               (exists s s', nth_error ss i = Some s /\ step recover l s = Some s')).
Proof.
  intros recover reqs ls ss H. destruct (prun_independent _ _ _ _ H) as [Hlen Hall]. split; [|split].
  - rewrite Hlen. unfold pinit. apply map_length.
  - intros i rh0 acts Hq. assert (Hs : nth_error (pinit reqs) i = Some (init rh0 acts)).
    { unfold pinit. rewrite nth_error_map, Hq. reflexivity. }
    destruct (Hall _ _ Hs) as (s & Hn & Hr). rewrite grun_run in Hr. exists s. split; [assumption|]. split; [assumption|].
    pose proof (classify recover rh0 acts s (ex_intro _ _ Hr)) as C. destruct (st_sel s) as [[| |]|].
    + destruct C as (-> & A & B). auto.
    + destruct C as (r & A & B & _). eauto.
    + destruct C as (c & A & B & _). eauto.
    + rewrite C. reflexivity.
  - intros i l. apply pstep_enabled.
Qed.

Lemma t_rpc_requests_independent : forall crash hs ls ss,
  prun (rstep crash) ls (map rinit hs) = Some ss ->
  List.length ss = List.length hs /\
  (forall i h, nth_error hs i = Some h ->
     exists s, nth_error ss i = Some s /\ rrun crash (proj i ls) (rinit h) = Some s /\
       match rs_out s with
       | None => True
       | Some (ArmDone, res) => exists r c, h = HReturn r c /\ res = RResult r c
       | Some (ArmFired, res) => exists c, rs_fired s = Some c /\ res = RResult None (deadline_code c)
       | Some (ArmPanic, res) => (exists v, h = HPanics v /\ recover_sees v = true) /\
                            res = (if crash then RResult None codeInternal else RPropagatedPanic)
       end) /\
  (forall i l, (exists ss', pstep (rstep crash) (i, l) ss = Some ss') <->
               (exists s s', nth_error ss i = Some s /\ rstep crash l s = Some s')).
Proof.
  intros crash hs ls ss H. destruct (prun_independent _ _ _ _ H) as [Hlen Hall]. split; [|split].
  - rewrite Hlen. apply map_length.
  - intros i h Hq. assert (Hs : nth_error (map rinit hs) i = Some (rinit h)) by (rewrite nth_error_map, Hq; reflexivity).
    destruct (Hall _ _ Hs) as (s & Hn & Hr). rewrite grun_rrun in Hr. exists s. split; [assumption|]. split; [assumption|].
    exact (t_rpc_result_is_handler_or_deadline crash h _ s Hr).
  - intros i l. apply pstep_enabled.
Qed.
