(* C02 Props: the property theorems.  `run recover ls (init rh0 acts) = Some s` reads: s is reached from the
   start of a request by the schedule ls (any interleaving of handler steps LH, the deadline LFire c and
   the select LSel arm) for the handler script acts; recover = RecoverHandler inside Timeout (the generated
   chain order, c02_chain_order); rh0 = headers already on the real writer. *)
From Coq Require Import String.
From God Require Import Base.Prelude C02.Model C02.Spec C02.Proofs C02.Link.
From GodGen Require C02_Gen C02_GenRpc.
Local Open Scope Z_scope.

(* Every maximal run commits the real writer exactly once -- one WriteHeader and the body in one piece --
   or propagates a panic having written nothing; before the select nothing is written; afterwards the
   response never changes, whatever the handler goroutine still does. *)
Theorem c02_exactly_one_response : forall recover rh0 acts ls s,
  run recover ls (init rh0 acts) = Some s ->
  (st_sel s = None -> rw_log (st_rw s) = []) /\
  (terminal s = true ->
     (exists r, committed (st_rw s) r) \/ (st_sel s = Some ArmPanic /\ rw_log (st_rw s) = [])) /\
  (forall ls' s', st_sel s <> None -> run recover ls' s = Some s' -> st_rw s' = st_rw s).
Proof. exact t_exactly_one_response. Qed.
Print Assumptions c02_exactly_one_response.

(* No request hangs, with or without Recover and whatever a handler panics with: while the request is not over,
   the handler goroutine or the select can move without waiting for the deadline, and no schedule is longer
   than 2|acts|+3 steps. *)
Theorem c02_never_hangs : forall recover rh0 acts ls s,
  run recover ls (init rh0 acts) = Some s ->
  (List.length ls <= 2 * List.length acts + 3)%nat /\
  (terminal s = false ->
     (exists s', step recover LH s = Some s') \/ (exists a s', step recover (LSel a) s = Some s')) /\
  (terminal s = true -> step recover LH s = None /\ forall a, step recover (LSel a) s = None).
Proof. exact t_never_hangs. Qed.
Print Assumptions c02_never_hangs.

(* The response is the handler's (done arm) or the timeout response (ctx.Done arm); the panic arm is only
   taken when Spec says the panic reaches the server, which needs Recover to be missing. *)
Theorem c02_response_is_handler_or_timeout : forall recover rh0 acts ls s,
  run recover ls (init rh0 acts) = Some s ->
  match st_sel s with
  | None => True
  | Some ArmDone => exists r, handler_response recover rh0 acts = Some r /\ committed (st_rw s) r
  | Some ArmFired => exists c, st_fired s = Some c /\ committed (st_rw s) (timeout_response c rh0)
  | Some ArmPanic => handler_response recover rh0 acts = None /\ recover = false /\ rw_log (st_rw s) = []
  end.
Proof. exact t_response_is_handler_or_timeout. Qed.
Print Assumptions c02_response_is_handler_or_timeout.

(* No leak.  (1) until the select the real writer is untouched; (2) on the ctx.Done arm the client gets
   status 499/503, exactly the headers that were already on the real writer and the fixed text -- a value
   that does not mention the script at all, so it is the same for EVERY handler script; (3) from then on
   tw is frozen: whatever the handler does later, wbuf/code/wroteHeader do not change, no Write succeeds,
   and the real writer is never touched again. *)
Theorem c02_no_leak : forall recover rh0 acts ls s,
  run recover ls (init rh0 acts) = Some s ->
  (st_sel s = None -> st_rw s = mkrw rh0 [] /\ tw_timedOut (st_tw s) = false) /\
  (st_sel s = Some ArmFired ->
     (exists c, st_fired s = Some c /\
                st_rw s = mkrw rh0 [RWriteHeader (timeout_status c) rh0; RWrite reason]) /\
     tw_timedOut (st_tw s) = true /\
     forall ls' s', run recover ls' s = Some s' ->
       st_rw s' = st_rw s /\
       tw_wbuf (st_tw s') = tw_wbuf (st_tw s) /\ tw_code (st_tw s') = tw_code (st_tw s) /\
       tw_wroteHeader (st_tw s') = tw_wroteHeader (st_tw s) /\ tw_timedOut (st_tw s') = true /\
       exists tr, st_trace s' = st_trace s ++ tr /\ Forall (fun o => forall n, o <> OWrote n) tr).
Proof. exact t_no_leak. Qed.
Print Assumptions c02_no_leak.

(* a Write that arrives after the timeout arm gets (0, http.ErrHandlerTimeout) *)
Theorem c02_late_write_refused : forall recover rh0 acts ls s bs rest s',
  run recover ls (init rh0 acts) = Some s -> st_sel s = Some ArmFired ->
  st_h s = HRun (Write bs :: rest) -> step recover LH s = Some s' ->
  st_trace s' = st_trace s ++ [OErrTimeout] /\ st_tw s' = st_tw s /\ st_rw s' = st_rw s.
Proof. exact t_late_write_refused. Qed.
Print Assumptions c02_late_write_refused.

(* Which arm.  If the deadline has not been observed when the select runs, the client gets the handler's
   response; if the handler has not finished, the timeout response; if both are ready Go may take either. *)
Theorem c02_in_time_gets_handler : forall recover rh0 acts ls s a s',
  run recover ls (init rh0 acts) = Some s -> step recover (LSel a) s = Some s' ->
  st_fired s = None -> st_panicked s = false ->
  a = ArmDone /\ exists r, handler_response recover rh0 acts = Some r /\ committed (st_rw s') r.
Proof. exact t_in_time_gets_handler. Qed.
Print Assumptions c02_in_time_gets_handler.

Theorem c02_late_gets_timeout : forall recover rh0 acts ls s a s',
  run recover ls (init rh0 acts) = Some s -> step recover (LSel a) s = Some s' ->
  st_done s = false -> st_panicked s = false ->
  a = ArmFired /\ exists c, st_fired s = Some c /\ committed (st_rw s') (timeout_response c rh0).
Proof. exact t_late_gets_timeout. Qed.
Print Assumptions c02_late_gets_timeout.

Theorem c02_both_ready_either : forall s c,
  st_sel s = None -> st_done s = true -> st_fired s = Some c ->
  sel_step ArmDone s = Some (flush_done s) /\ sel_step ArmFired s = Some (flush_timeout c s).
Proof. exact arm_both. Qed.
Print Assumptions c02_both_ready_either.

(* With Recover inside Timeout a handler panic never becomes a server-level panic; the handler's response is
   then 500 when it had not committed a status (for every panic value, nil included: c02_panic_value_irrelevant,
   c02_panic_nil_is_a_panic), and the committed status with the bytes written so far
   otherwise.  (`panics a`: an explicit panic or a WriteHeader outside [100,599].) *)
Theorem c02_panic_is_500_if_uncommitted :
  (forall rh0 acts ls s, run true ls (init rh0 acts) = Some s ->
     st_panicked s = false /\ st_sel s <> Some ArmPanic /\ exists r, handler_response true rh0 acts = Some r) /\
  (forall rh0 pre a post, has_panic pre = false -> panics a = true -> commit_status pre = None ->
     handler_response true rh0 (pre ++ a :: post) =
     Some (mkresp statusInternalServerError (hmerge rh0 (spec_headers pre)) [])) /\
  (forall rh0 pre a post c, has_panic pre = false -> panics a = true -> commit_status pre = Some c ->
     handler_response true rh0 (pre ++ a :: post) =
     Some (mkresp c (hmerge rh0 (spec_headers pre)) (spec_body pre))).
Proof. exact t_panic_is_500_if_uncommitted. Qed.
Print Assumptions c02_panic_is_500_if_uncommitted.

(* The value a handler panics with does not matter.  recover_status / crash_code are the constant functions 500 /
   Internal on EVERY value (string, error, runtime.Error of faulty code, an error carrying a gRPC status,
   http.ErrAbortHandler, custom types, nil): the guards detect a panic by "the protected call did not finish", not
   by looking at recover()'s result.  Hence the code's response IS the property's (Spec.spec_response, which
   treats every panic alike) for every script, with or without Recover; swapping one value for another changes
   nothing; the unary chain answers Internal under Crash, with the timeout interceptor in between (every
   non-deadline outcome of the LTS) and without it (rpc_direct: the Timeout <= 0 configuration). *)
Theorem c02_panic_value_irrelevant :
  (forall v, recover_status v = Some 500 /\ crash_code v = Some codeInternal) /\
  (forall recover rh0 acts, handler_response recover rh0 acts = spec_response recover rh0 acts) /\
  (forall recover rh0 pre post v w,
     handler_response recover rh0 (pre ++ PanicA v :: post) = handler_response recover rh0 (pre ++ PanicA w :: post)) /\
  (forall v,
     rpc_direct true (HPanics v) = RResult None codeInternal /\
     forall ls s a res, rrun true ls (rinit (HPanics v)) = Some s -> rs_out s = Some (a, res) ->
                        a = ArmFired \/ res = RResult None codeInternal).
Proof. exact t_panic_value_irrelevant. Qed.
Print Assumptions c02_panic_value_irrelevant.

(* panic(nil) in particular (the former finding D16, repaired by 39fe42d; recover() returns nil for it under the
   module's go 1.19 semantics): 500 behind Recover, Internal under Crash with and without the timeout interceptor,
   and without Recover the panic is re-raised at once instead of leaving the request waiting for its deadline. *)
Theorem c02_panic_nil_is_a_panic :
  (handler_response true [] [PanicA PVNil] = Some (mkresp 500 [] []) /\
   exists s, run true [LH; LH; LH; LSel ArmDone] (init [] [PanicA PVNil]) = Some s /\ terminal s = true /\
             rw_log (st_rw s) = [RWriteHeader 500 []; RWrite []]) /\
  (rpc_direct true (HPanics PVNil) = RResult None codeInternal /\
   exists s, rrun true [LH; LSel ArmPanic] (rinit (HPanics PVNil)) = Some s /\
             rs_out s = Some (ArmPanic, RResult None codeInternal)) /\
  (exists s, run false [LH; LSel ArmPanic] (init [] [PanicA PVNil]) = Some s /\ terminal s = true /\
             rw_log (st_rw s) = []).
Proof.
  split; [|split].
  - split; [reflexivity|]. eexists. vm_compute. repeat split; reflexivity.
  - split; [reflexivity|]. eexists. vm_compute. split; reflexivity.
  - eexists. vm_compute. repeat split; reflexivity.
Qed.
Print Assumptions c02_panic_nil_is_a_panic.

(* MaxConns, for every n, number of requests and schedule of arrivals / returns / panics: at most n requests
   are inside; a request is turned away (503, handler not entered) exactly when n are inside at that instant;
   n <= 0 disables the guard. *)
Theorem c02_maxconns_bound : forall n reqs ls s,
  mrun n ls (minit reqs) = Some s ->
  conns_bounded n s /\
  (0 < n -> ms_pool s = inside s) /\
  (forall i s', mstep n (MEnter i) s = Some s' ->
     (nth_error (ms_reqs s') i = Some MRejected <-> 0 < n /\ Z.of_nat (inside s) = n) /\
     (nth_error (ms_reqs s') i = Some MIn <-> ~ (0 < n /\ Z.of_nat (inside s) = n))).
Proof. exact t_maxconns_bound. Qed.
Print Assumptions c02_maxconns_bound.

(* The limiter's state belongs to the installed middleware, not to the request: a latch built per request lets in every
   arrival whatever n, with ONE latch for all requests of the installation the arrival that finds n inside is turned away.
   (Installed through Server.Use / WithMiddleware(ToMiddleware(..)) the guard is constructed once: Link.link_sk_tomiddleware.) *)
Theorem c02_limiter_state_is_shared : forall n, 0 < n ->
  (forall s, mstep n (MEnter 0) (minit 1) = Some s -> nth_error (ms_reqs s) 0 = Some MIn) /\
  (exists s, mstep n (MEnter 0) (minit 1) = Some s) /\
  (forall reqs ls s i s', mrun n ls (minit reqs) = Some s -> Z.of_nat (inside s) = n ->
     mstep n (MEnter i) s = Some s' -> nth_error (ms_reqs s') i = Some MRejected).
Proof. exact t_limiter_state_is_shared. Qed.
Print Assumptions c02_limiter_state_is_shared.

(* MaxBytes: ContentLength > n > 0 => the script the guards see is WriteHeader(413) alone, whatever the
   handler is (it is not reached), and the response is 413 with no body; otherwise the handler runs. *)
Theorem c02_maxbytes_gate : forall recover rh0 n clen acts,
  (maxbytes_rejects n clen = true <-> 0 < n < clen) /\
  (0 < n < clen ->
     gated_script n clen acts = [WriteHeader statusRequestEntityTooLarge] /\
     handler_response recover rh0 (gated_script n clen acts) = Some (mkresp statusRequestEntityTooLarge rh0 [])) /\
  (~ 0 < n < clen -> gated_script n clen acts = acts).
Proof. exact t_maxbytes_gate. Qed.
Print Assumptions c02_maxbytes_gate.

(* ------------------------------------------------------------------ RPC twin *)
(* The interceptor returns exactly once, with the handler's (resp, err) on the done arm, (nil,
   DeadlineExceeded | Canceled) on the ctx.Done arm -- the handler's result, early or late, is discarded --
   and, Crash being outside, (nil, Internal) instead of a propagated panic. *)
Theorem c02_rpc_result_is_handler_or_deadline : forall crash h ls s,
  rrun crash ls (rinit h) = Some s ->
  match rs_out s with
  | None => True
  | Some (ArmDone, res) => exists r c, h = HReturn r c /\ res = RResult r c
  | Some (ArmFired, res) => exists c, rs_fired s = Some c /\ res = RResult None (deadline_code c)
  | Some (ArmPanic, res) => (exists v, h = HPanics v /\ recover_sees v = true) /\
                            res = (if crash then RResult None codeInternal else RPropagatedPanic)
  end.
Proof. exact t_rpc_result_is_handler_or_deadline. Qed.
Print Assumptions c02_rpc_result_is_handler_or_deadline.

Theorem c02_rpc_exactly_one_result : forall crash h ls s,
  rrun crash ls (rinit h) = Some s ->
  (forall o ls' s', rs_out s = Some o -> rrun crash ls' s = Some s' -> rs_out s' = Some o) /\
  (rs_out s = None ->
     (exists s', rstep crash LH s = Some s') \/ (exists a s', rstep crash (LSel a) s = Some s')).
Proof. exact t_rpc_exactly_one_result. Qed.
Print Assumptions c02_rpc_exactly_one_result.

Theorem c02_rpc_in_time_gets_handler : forall crash h ls s a s',
  rrun crash ls (rinit h) = Some s -> rstep crash (LSel a) s = Some s' ->
  rs_fired s = None -> rs_panicked s = false -> a = ArmDone.
Proof. exact t_rpc_in_time_gets_handler. Qed.
Print Assumptions c02_rpc_in_time_gets_handler.

Theorem c02_rpc_late_gets_deadline : forall crash h ls s a s',
  rrun crash ls (rinit h) = Some s -> rstep crash (LSel a) s = Some s' ->
  rs_done s = false -> rs_panicked s = false ->
  a = ArmFired /\ exists c, rs_fired s = Some c /\ rs_out s' = Some (ArmFired, RResult None (deadline_code c)).
Proof. exact t_rpc_late_gets_deadline. Qed.
Print Assumptions c02_rpc_late_gets_deadline.

Theorem c02_rpc_panic_is_internal : forall h ls s a res,
  rrun true ls (rinit h) = Some s -> rs_out s = Some (a, res) ->
  res <> RPropagatedPanic /\ (a = ArmPanic -> res = RResult None codeInternal).
Proof. exact t_rpc_panic_is_internal. Qed.
Print Assumptions c02_rpc_panic_is_internal.

(* ------------------------------------------------------------------ concurrent requests *)
(* m requests through ONE TimeoutHandler instance = the product of m per-request LTSs sharing nothing (Model,
   Section Product: a label (i, l) moves request i).  For EVERY interleaving ls of the product: request i ends
   in exactly the state it reaches alone under its own part of the schedule (proj i ls), hence it gets exactly
   its own handler's response or its own timeout response; and whether a step of request i is enabled depends
   on request i's state only -- a slow, parked or abandoned handler of another request cannot delay it. *)
Theorem c02_requests_independent : forall recover reqs ls ss,
  prun (step recover) ls (pinit reqs) = Some ss ->
  List.length ss = List.length reqs /\
  (forall i rh0 acts, nth_error reqs i = Some (rh0, acts) ->
     exists s, nth_error ss i = Some s /\
       run recover (proj i ls) (init rh0 acts) = Some s /\
       match st_sel s with
       | None => rw_log (st_rw s) = []
       | Some ArmDone => exists r, handler_response recover rh0 acts = Some r /\ committed (st_rw s) r
       | Some ArmFired => exists c, st_fired s = Some c /\ committed (st_rw s) (timeout_response c rh0)
       | Some ArmPanic => handler_response recover rh0 acts = None /\ recover = false /\ rw_log (st_rw s) = []
       end) /\
  (forall i l, (exists ss', pstep (step recover) (i, l) ss = Some ss') <->
               (exists s s', nth_error ss i = Some s /\ step recover l s = Some s')).
Proof. exact t_requests_independent. Qed.
Print Assumptions c02_requests_independent.

Theorem c02_rpc_requests_independent : forall crash hs ls ss,
  prun (rstep crash) ls (map rinit hs) = Some ss ->
  List.length ss = List.length hs /\
  (forall i h, nth_error hs i = Some h ->
     exists s, nth_error ss i = Some s /\ rrun crash (proj i ls) (rinit h) = Some s /\
       match rs_out s with
       | None => True
       | Some (ArmDone, res) => exists r c, h = HReturn r c /\ res = RResult r c
       | Some (ArmFired, res) => exists c, rs_fired s = Some c /\ res = RResult None (deadline_code c)
       | Some (ArmPanic, res) => (exists v, h = HPanics v /\ recover_sees v = true) /\
                            res = (if crash then RResult None codeInternal else RPropagatedPanic)
       end) /\
  (forall i l, (exists ss', pstep (rstep crash) (i, l) ss = Some ss') <->
               (exists s s', nth_error ss i = Some s /\ rstep crash l s = Some s')).
Proof. exact t_rpc_requests_independent. Qed.
Print Assumptions c02_rpc_requests_independent.

(* ------------------------------------------------------------------ configuration: which deadline, which writers *)
(* The deadline of a route is its own timeout when it has one, else the server-wide one -- in particular a route
   timeout applies even when the server-wide timeout is 0, and every positive deadline puts the request behind the
   timeout guard, for which all the theorems above hold; only 0/0 leaves the handler unguarded (bypass). *)
Theorem c02_effective_deadline : forall g r,
  (0 < r -> effective_timeout g r = r) /\
  (r <= 0 -> effective_timeout g r = g) /\
  (effective_timeout g r = 0 <-> (r <= 0 /\ g = 0) ) /\
  (forall t, rpc_has_timeout t = true <-> 0 < t).
Proof. exact t_effective_deadline. Qed.
Print Assumptions c02_effective_deadline.

(* The writers the engine puts around the guards (log handler -- brief or, with Config.Verbose, detailed --, breaker's
   WithCodeResponseWriter) hand every call on unchanged and completely: whatever sequence of WriteHeader/Write
   calls the guards make, the wrapped writer receives exactly that sequence, bodies of any size byte for byte; the
   wrapper only keeps the last code and a copy of the body. *)
Theorem c02_log_wrappers_transparent : forall evs w c b,
  lw_inner (fold_left lw_apply evs (mklw w c b)) = fold_left rw_apply evs w /\
  lw_buf (fold_left lw_apply evs (mklw w c b)) =
  (b ++ flat_map (fun e => match e with RWrite bs => bs | _ => [] end) evs)%list.
Proof. exact lw_transparent. Qed.
Print Assumptions c02_log_wrappers_transparent.

(* The assembled chain of a started server without the timeout interceptor (ServerConfig.Timeout = 0): the breaker
   interceptor sits inside the crash interceptor and lets every panic through (the former finding D17 -- it swallowed
   panic(nil) -- repaired by 9a9266d), so a panicking handler is answered Internal whatever the value. *)
Theorem c02_rpc_server_panic_is_internal : forall v,
  rpc_server_direct (HPanics v) = RResult None codeInternal /\
  rpc_server_direct (HPanics v) = rpc_direct true (HPanics v).
Proof. intro v. split; reflexivity. Qed.
Print Assumptions c02_rpc_server_panic_is_internal.

(* An application-wide error handler installed with httpx.SetErrorHandler (the business error handler of the
   examples) has no say in the timeout reply: the ctx.Done arm still writes 499/503 + reason, exactly what the LTS's
   flush_timeout appends.  It serves httpx.Error only, as SetErrorHandlerCtx's serves httpx.ErrorCtx only.  (A ctx
   handler, by the API's contract, does decide the timeout reply: Model.timeout_arm_events, ASSUMPTIONS.) *)
Theorem c02_timeout_reply_ignores_plain_error_handler : forall code b c s,
  timeout_arm_events (GPlain code b) c (rw_h (st_rw s)) = timeout_arm_events GNone c (rw_h (st_rw s)) /\
  rw_log (st_rw (flush_timeout c s)) = (rw_log (st_rw s) ++ timeout_arm_events (GPlain code b) c (rw_h (st_rw s)))%list /\
  (forall ctx, error_calls (GPlain code b) true = error_calls GNone ctx) /\
  error_calls (GPlain code b) false = handled_calls code b /\
  error_calls (GCtx code b) true = handled_calls code b /\
  (forall ctx, error_calls (GCtx code b) false = error_calls GNone ctx).
Proof. exact t_timeout_reply_ignores_plain_error_handler. Qed.
Print Assumptions c02_timeout_reply_ignores_plain_error_handler.

(* ------------------------------------------------------------------ chain order, from the generated lists *)
Theorem c02_chain_order :
  guards_of C02_Gen.rest_chain = [GMaxConns; GBreaker; GShedding; GTimeout; GRecover; GMaxBytes] /\
  rguards_of (C02_GenRpc.rpc_builtin ++ C02_Gen.sk_rpc_setup) = [RGCrash; RGBreaker; RGShedding; RGTimeout] /\
  C02_Gen.rpc_append = ["unaryInterceptors"; "s.unaryInterceptors"]%string.
Proof. exact (conj link_rest_chain_order (conj link_rpc_chain_order link_rpc_append)). Qed.
Print Assumptions c02_chain_order.

(* ------------------------------------------------------------------ non-vacuity *)
(* a handler that sets a header, writes 201 + "ab", is cut by a client cancel after its first write and
   writes again afterwards: the client gets 499 + reason, the late write is refused *)
Example c02_nonvacuous_late :
  let acts := [SetHeader 0 1; WriteHeader 201; Write [97; 98]%nat; Write [99]%nat] in
  exists s, run true [LH; LH; LH; LFire CCancel; LSel ArmFired; LH; LH] (init [] acts) = Some s /\
            terminal s = true /\
            rw_log (st_rw s) = [RWriteHeader 499 []; RWrite reason] /\
            st_trace s = [OOk; OOk; OWrote 2; OErrTimeout].
Proof. eexists. vm_compute. repeat split; reflexivity. Qed.

(* the same handler in time: exactly its own response *)
Example c02_nonvacuous_in_time :
  let acts := [SetHeader 0 1; WriteHeader 201; Write [97; 98]%nat; Write [99]%nat] in
  exists s, run true [LH; LH; LH; LH; LH; LSel ArmDone] (init [] acts) = Some s /\
            terminal s = true /\
            rw_log (st_rw s) = [RWriteHeader 201 [(0, [1])]%nat; RWrite [97; 98; 99]%nat] /\
            handler_response true [] acts = Some (mkresp 201 [(0, [1])]%nat [97; 98; 99]%nat).
Proof. eexists. vm_compute. repeat split; reflexivity. Qed.

(* panic before any write, Recover inside: 500; Recover missing: the panic reaches the server *)
Example c02_nonvacuous_panic :
  handler_response true [] [SetHeader 0 1; PanicA PVError; Write [1]%nat] = Some (mkresp 500 [(0, [1])]%nat []) /\
  handler_response false [] [SetHeader 0 1; PanicA PVError; Write [1]%nat] = None /\
  exists s, run false [LH; LH; LSel ArmPanic] (init [] [SetHeader 0 1; PanicA PVError]) = Some s /\ terminal s = true.
Proof. repeat split. eexists. vm_compute. split; reflexivity. Qed.

(* MaxConns(1): the second arrival is turned away, after the first has left (by panicking) the third gets in *)
Example c02_nonvacuous_maxconns :
  exists s, mrun 1 [MEnter 0; MEnter 1; MLeave 0 true; MEnter 2] (minit 3) = Some s /\
            ms_reqs s = [MLeft; MRejected; MIn] /\ inside s = 1%nat.
Proof. eexists. vm_compute. repeat split; reflexivity. Qed.

Example c02_nonvacuous_rpc :
  (exists s, rrun true [LFire CTimeout; LSel ArmFired; LH] (rinit (HReturn (Some 7%nat) 0)) = Some s /\
             rs_out s = Some (ArmFired, RResult None codeDeadlineExceeded)) /\
  (exists s, rrun true [LH; LSel ArmPanic] (rinit (HPanics PVRuntime)) = Some s /\
             rs_out s = Some (ArmPanic, RResult None codeInternal)).
Proof. split; eexists; vm_compute; split; reflexivity. Qed.

(* two overlapping requests: #0 is cut by a client cancel while parked after its first write, #1 runs to its
   end in between -- each gets its own response *)
Example c02_nonvacuous_two_requests :
  exists ss, prun (step true)
                  [(0, LH); (1, LH); (0, LFire CCancel); (1, LH); (0, LSel ArmFired); (1, LH); (1, LSel ArmDone); (0, LH)]%nat
                  (pinit [([], [Write [97]%nat; Write [98]%nat]); ([], [WriteHeader 404; Write [99]%nat])]) = Some ss /\
             map (fun s => rw_log (st_rw s)) ss =
             [[RWriteHeader 499 []; RWrite reason]; [RWriteHeader 404 []; RWrite [99]%nat]].
Proof. eexists. vm_compute. split; reflexivity. Qed.
