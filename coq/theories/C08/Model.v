(* C08 Model: transcription of lib/limit/periodlimit.go and lib/limit/tokenlimit.go (with the two Lua
   scripts they send to Redis) as executable definitions. Definitions only, in source order.

   Time: one integer clock in MILLISECONDS (Redis expires keys with ms precision; the caller hands
   the token limiter a time.Time of which the script sees now.Unix() = floor(ms / 1000)).
   Redis keys are abstract identifiers (nat); distinct key strings are distinct identifiers.
   Lua numbers are doubles; every value the scripts compute is an integer far below 2^53, so the
   transcription uses Z (math.floor(capacity/rate*2) is Z.div (2*capacity) rate: see Proofs.ttl_pos). *)
From God Require Import Base.Prelude.
Local Open Scope Z_scope.

(* ------------------------------------------------------------------------------------------- *)
(* Redis fragment: key |-> (integer value, optional absolute expiry in server ms).               *)
(* Expired entries stay in the list and are filtered by every read (lazy expiry).                *)
(* ------------------------------------------------------------------------------------------- *)
Definition entry : Type := Z * option Z.
Definition store : Type := list (nat * entry).

Definition live (t : Z) (e : entry) : bool :=
  match snd e with None => true | Some x => t <? x end.

Definition rget (t : Z) (k : nat) (s : store) : option entry :=
  match alookup Nat.eqb k s with
  | Some e => if live t e then Some e else None
  | None => None
  end.

Definition rset (k : nat) (e : entry) (s : store) : store := aset Nat.eqb k e s.
Definition rdel (k : nat) (s : store) : store := aremove Nat.eqb k s.

(* INCRBY key d : missing/expired key counts as 0 and is created without expiry; a live key keeps its TTL *)
Definition incrby (t : Z) (k : nat) (d : Z) (s : store) : store * Z :=
  match rget t k s with
  | Some (v, ex) => (rset k (v + d, ex) s, v + d)
  | None => (rset k (d, None) s, d)
  end.

(* EXPIRE key secs : no-op on a missing key; a non-positive timeout deletes the key *)
Definition expire (t : Z) (k : nat) (secs : Z) (s : store) : store :=
  match rget t k s with
  | Some (v, _) => if secs <=? 0 then rdel k s else rset k (v, Some (t + 1000 * secs)) s
  | None => s
  end.

(* SETEX key secs v : error reply ("invalid expire time") when secs <= 0, nothing written *)
Definition setex (t : Z) (k : nat) (secs v : Z) (s : store) : option store :=
  if secs <=? 0 then None else Some (rset k (v, Some (t + 1000 * secs)) s).

(* ------------------------------------------------------------------------------------------- *)
(* periodlimit.go                                                                                *)
(* ------------------------------------------------------------------------------------------- *)

(* periodlimit.go:26-39 *)
Definition Unknown : Z := 0.
Definition Allowed : Z := 1.
Definition HitQuota : Z := 2.
Definition OverQuota : Z := 3.
Definition internalOverQuota : Z := 0.
Definition internalAllowed : Z := 1.
Definition internalHitQuota : Z := 2.

(* periodlimit.go:12-24 periodScript, line by line:
     local limit = tonumber(ARGV[1]) ; local window = tonumber(ARGV[2])
     local current = redis.call("INCRBY", KEYS[1], 1)
     if current == 1 then redis.call("expire", KEYS[1], window) end
     if current < limit then return 1 elseif current == limit then return 2 else return 0 end *)
Definition period_script (t : Z) (k : nat) (limit window : Z) (s : store) : store * Z :=
  let (s1, current) := incrby t k 1 s in
  let s2 := if current =? 1 then expire t k window s1 else s1 in
  (s2, if current <? limit then 1 else if current =? limit then 2 else 0).

(* periodlimit.go:97-106: switch code {...} ; Err 2 = ErrUnknownCode *)
Definition map_code (code : Z) : result Z :=
  if code =? internalOverQuota then Ok OverQuota
  else if code =? internalAllowed then Ok Allowed
  else if code =? internalHitQuota then Ok HitQuota
  else Err 2.

(* periodlimit.go:83-107 TakeCtx. up = false: EvalCtx returns an error (Err 1 = (Unknown, err)),
   the script did not run. *)
Definition take (t : Z) (up : bool) (k : nat) (limit window : Z) (s : store) : store * result Z :=
  if up then let (s', code) := period_script t k limit window s in (s', map_code code)
  else (s, Err 1).

(* periodlimit.go:110-121 calcExpireSeconds; unix/offset are time.Now().Unix() and the zone offset.
   Go's % is Z.rem; period = 0 with align panics (integer divide by zero). *)
Definition calc_expire (align : bool) (period unix offset : Z) : result Z :=
  if align then
    if period =? 0 then Panic else Ok (period - Z.rem (unix + offset) period)
  else Ok period.

(* histories of the period limiter over one Redis: time advances and takes (each take carries the
   ARGV of its script call: quota and calcExpireSeconds() of its limiter) *)
Inductive pop :=
| PTick (d : Z)
| PTake (k : nat) (limit window : Z) (up : bool)
| PReplace.   (* the server is replaced by a fresh instance (restart without persistence, fail-over): empty store *)

Definition pstate : Type := Z * store.

Definition pstep (st : pstate) (o : pop) : pstate * option (nat * result Z) :=
  match o with
  | PTick d => ((fst st + d, snd st), None)
  | PTake k limit window up =>
      let (s', r) := take (fst st) up k limit window (snd st) in
      ((fst st, s'), Some (k, r))
  | PReplace => ((fst st, []), None)
  end.

Fixpoint prun (st : pstate) (ops : list pop) : list (nat * result Z) :=
  match ops with
  | [] => []
  | o :: r =>
      let (st', out) := pstep st o in
      match out with Some x => x :: prun st' r | None => prun st' r end
  end.

Fixpoint pfinal (st : pstate) (ops : list pop) : pstate :=
  match ops with
  | [] => st
  | o :: r => pfinal (fst (pstep st o)) r
  end.

(* ------------------------------------------------------------------------------------------- *)
(* tokenlimit.go                                                                                 *)
(* ------------------------------------------------------------------------------------------- *)

(* tokenlimit.go:24-51 script, line by line (kt = KEYS[1] "{key}.tokens", kts = KEYS[2] "{key}.ts"):
     local fill_time = capacity/rate ; local ttl = math.floor(fill_time*2)
     local last_tokens = tonumber(redis.call("get", KEYS[1])) ; if nil then capacity
     local last_refreshed = tonumber(redis.call("get", KEYS[2])) ; if nil then 0
     local delta = math.max(0, now-last_refreshed)
     local filled_tokens = math.min(capacity, last_tokens+(delta*rate))
     local allowed = filled_tokens >= requested
     local new_tokens = filled_tokens ; if allowed then new_tokens = filled_tokens - requested end
     redis.call("setex", KEYS[1], ttl, new_tokens) ; redis.call("setex", KEYS[2], ttl, now)
     return allowed
   None = the script aborted with an error reply (setex with ttl <= 0); nothing was written. *)
Definition token_script (t : Z) (kt kts : nat) (rate capacity now requested : Z) (s : store)
  : option (store * bool) :=
  let ttl := (2 * capacity) / rate in
  let last_tokens := match rget t kt s with Some (v, _) => v | None => capacity end in
  let last_refreshed := match rget t kts s with Some (v, _) => v | None => 0 end in
  let delta := Z.max 0 (now - last_refreshed) in
  let filled_tokens := Z.min capacity (last_tokens + delta * rate) in
  let allowed := requested <=? filled_tokens in
  let new_tokens := if allowed then filled_tokens - requested else filled_tokens in
  match setex t kt ttl new_tokens s with
  | None => None
  | Some s1 =>
      match setex t kts ttl now s1 with
      | None => None
      | Some s2 => Some (s2, allowed)
      end
  end.

(* golang.org/x/time/rate (v0.3.0) Limiter.AllowN(now, n) as used by the rescue path: abstract
   bucket in MILLI-tokens over the caller's ms clock. None: lim.last is still the zero time (first
   use fills the bucket). A denied request leaves the limiter untouched; `if t.Before(last)
   {last = t}`; rate < 0 makes rate.Every return Inf (always allowed). TRUSTED: float rounding of
   the library is not modelled. *)
Definition rescue_st : Type := option (Z * Z).

Definition rescue_level (rate burst now : Z) (r : rescue_st) : Z :=
  match r with
  | None => burst * 1000
  | Some (tok, last) => Z.min (burst * 1000) (tok + (now - Z.min last now) * rate)
  end.

Definition rescue_allow (rate burst now n : Z) (r : rescue_st) : rescue_st * bool :=
  if rate <? 0 then (r, true)
  else
    let lvl := rescue_level rate burst now r in
    if (n <=? burst) && (n * 1000 <=? lvl) then (Some (lvl - n * 1000, now), true) else (r, false).

(* CtxCanceled / CtxDeadline: the context is already done when the call is made (it never reaches
   the server). CtxInFlight: the deadline expires WHILE the script call is in flight (Redis answers
   later than the caller waits): the caller gets the context error; the server may (executed = true)
   or may not have run the script by then. *)
Inductive ctxs := CtxOk | CtxCanceled | CtxDeadline | CtxInFlight (executed : bool).
(* monitorStarted together with the program point of waitForRedis:
   MRunning = in the ticker loop; MExiting = stored redisAlive=1, deferred monitorStarted=false pending *)
Inductive mon := MIdle | MRunning | MExiting.

Record tcfg := mkC { c_rate : Z; c_burst : Z; c_ktok : nat; c_kts : nat }.
Record limiter := mkL { alive : bool; monitor : mon; rescue : rescue_st }.
(* the Redis server as the limiter sees it: eval_up = EVAL is answered, ping_up = PING is answered *)
Record world := mkW { clock : Z; rstore : store; eval_up : bool; ping_up : bool }.

(* tokenlimit.go:71-86 NewTokenLimiter; time.Second/time.Duration(rate) panics for rate = 0 *)
Definition new_limiter (c : tcfg) : result limiter :=
  if c_rate c =? 0 then Panic else Ok (mkL true MIdle None).

(* what store.EvalCtx hands back to reserveN *)
Inductive eval_out := EInt (v : Z) | ENil | ECtx | EOther.

(* a done context never reaches the server; Lua true -> integer 1, Lua false -> nil -> redis.Nil *)
Definition eval_token (c : tcfg) (w : world) (now_s n : Z) (cx : ctxs) : store * eval_out :=
  match cx with
  | CtxOk =>
      if eval_up w then
        match token_script (clock w) (c_ktok c) (c_kts c) (c_rate c) (c_burst c) now_s n (rstore w) with
        | Some (s', true) => (s', EInt 1)
        | Some (s', false) => (s', ENil)
        | None => (rstore w, EOther)
        end
      else (rstore w, EOther)
  | CtxInFlight true =>
      if eval_up w then
        match token_script (clock w) (c_ktok c) (c_kts c) (c_rate c) (c_burst c) now_s n (rstore w) with
        | Some (s', _) => (s', ECtx)       (* tokens possibly consumed on the server, the caller is refused *)
        | None => (rstore w, ECtx)
        end
      else (rstore w, ECtx)
  | _ => (rstore w, ECtx)
  end.

(* tokenlimit.go:160-172 startMonitor *)
Definition start_monitor (l : limiter) : limiter :=
  match monitor l with
  | MIdle => mkL false MRunning (rescue l)
  | _ => l
  end.

(* tokenlimit.go:112-158 reserveN; now is the caller's time.Time in ms, the script gets now.Unix() *)
Definition reserve (c : tcfg) (w : world) (l : limiter) (now n : Z) (cx : ctxs) : world * limiter * bool :=
  if negb (alive l) then
    let (r, ok) := rescue_allow (c_rate c) (c_burst c) now n (rescue l) in
    (w, mkL (alive l) (monitor l) r, ok)
  else
    let (s', out) := eval_token c w (now / 1000) n cx in
    let w' := mkW (clock w) s' (eval_up w) (ping_up w) in
    match out with
    | ENil => (w', l, false)
    | ECtx => (w', l, false)
    | EOther =>
        let l1 := start_monitor l in
        let (r, ok) := rescue_allow (c_rate c) (c_burst c) now n (rescue l1) in
        (w', mkL (alive l1) (monitor l1) r, ok)
    | EInt v => (w', l, v =? 1)
    end.

(* tokenlimit.go:174-190 waitForRedis: one ticker round (TPing) and the deferred exit (TExit) *)
Definition ping (w : world) (l : limiter) : limiter :=
  match monitor l with
  | MRunning => if ping_up w then mkL true MExiting (rescue l) else l
  | _ => l
  end.

Definition monitor_exit (l : limiter) : limiter :=
  match monitor l with
  | MExiting => mkL (alive l) MIdle (rescue l)
  | _ => l
  end.

Inductive tev :=
| TTick (d : Z)                        (* the clock advances by d ms *)
| TAllow (now n : Z) (cx : ctxs)       (* AllowNCtx(cx, now, n) *)
| TFault (eup pup : bool)              (* the server starts/stops answering EVAL / PING *)
| TReplace (eup pup : bool)            (* the server is replaced by a FRESH instance: empty store (and script cache) *)
| TPing                                (* a ticker round of the monitor goroutine *)
| TExit.                               (* the monitor goroutine's deferred function *)

Definition tstate : Type := world * limiter.

Definition tstep (c : tcfg) (st : tstate) (e : tev) : tstate * option bool :=
  let (w, l) := st in
  match e with
  | TTick d => ((mkW (clock w + d) (rstore w) (eval_up w) (ping_up w), l), None)
  | TAllow now n cx => let '(w', l', ok) := reserve c w l now n cx in ((w', l'), Some ok)
  | TFault eup pup => ((mkW (clock w) (rstore w) eup pup, l), None)
  | TReplace eup pup => ((mkW (clock w) [] eup pup, l), None)
  | TPing => ((w, ping w l), None)
  | TExit => ((w, monitor_exit l), None)
  end.

Fixpoint trun (c : tcfg) (st : tstate) (evs : list tev) : tstate * list bool :=
  match evs with
  | [] => (st, [])
  | e :: r =>
      let (st', out) := tstep c st e in
      let (stf, outs) := trun c st' r in
      (stf, match out with Some b => b :: outs | None => outs end)
  end.

(* ------------------------------------------------------------------------------------------- *)
(* Clock hypothesis of the token theorems, as a definition: ONE clock. The caller samples the same  *)
(* clock the server expires keys with (now = clock) and the clock never goes back (d >= 0 is a     *)
(* hypothesis of the theorems). Histories of the healthy path: script calls only.                  *)
(* ------------------------------------------------------------------------------------------- *)
Inductive hop := HTick (d : Z) | HReq (n : Z).

Record tevent := mkEv { ev_sec : Z; ev_n : Z; ev_ok : bool }.

Definition hstep (c : tcfg) (st : Z * store) (o : hop) : option ((Z * store) * option tevent) :=
  match o with
  | HTick d => Some ((fst st + d, snd st), None)
  | HReq n =>
      match token_script (fst st) (c_ktok c) (c_kts c) (c_rate c) (c_burst c) (fst st / 1000) n (snd st) with
      | Some (s', ok) => Some ((fst st, s'), Some (mkEv (fst st / 1000) n ok))
      | None => None
      end
  end.

(* None: some script call failed (cannot happen for 2*burst >= rate: Proofs.hrun_total) *)
Fixpoint hrun (c : tcfg) (st : Z * store) (h : list hop) : option ((Z * store) * list tevent) :=
  match h with
  | [] => Some (st, [])
  | o :: r =>
      match hstep c st o with
      | None => None
      | Some (st', out) =>
          match hrun c st' r with
          | None => None
          | Some (stf, evs) => Some (stf, match out with Some e => e :: evs | None => evs end)
          end
      end
  end.
