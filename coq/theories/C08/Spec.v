(* C08 Spec: the property as three tiny abstract objects.
   (1) period limiter: per key a window (expiry, count); code of the c-th take of a window;
   (2) token limiter: a bucket of capacity cap refilled at rate tokens per second;
   (3) fallback: a two-mode switch between the Redis bucket and an in-process bucket. *)
From God Require Import Base.Prelude.
Local Open Scope Z_scope.

(* ---------- (1) period: Allowed^(q-1) . HitQuota . OverQuota* ---------- *)
Definition S_Allowed : Z := 1.
Definition S_HitQuota : Z := 2.
Definition S_OverQuota : Z := 3.

(* code reported by the c-th take (c = 1, 2, ...) of a window under quota q *)
Definition pcode (q c : Z) : Z :=
  if c <? q then S_Allowed else if c =? q then S_HitQuota else S_OverQuota.

(* windows: key |-> (expiry ms, takes so far). A take at time t on a key without a window, or
   whose window has expired (expiry <= t), opens a window of w seconds and is take number 1. *)
Definition windows : Type := list (nat * (Z * Z)).

Definition wcount (t : Z) (k : nat) (ws : windows) : Z :=
  match alookup Nat.eqb k ws with
  | Some (ex, c) => if t <? ex then c else 0
  | None => 0
  end.

Definition wtake (t : Z) (k : nat) (q w : Z) (ws : windows) : windows * Z :=
  match alookup Nat.eqb k ws with
  | Some (ex, c) =>
      if t <? ex then (aset Nat.eqb k (ex, c + 1) ws, pcode q (c + 1))
      else (aset Nat.eqb k (t + 1000 * w, 1) ws, pcode q 1)
  | None => (aset Nat.eqb k (t + 1000 * w, 1) ws, pcode q 1)
  end.

(* ---------- (2) token bucket, generic in the time resolution ---------- *)
(* res ticks per second; the level is kept in 1/res tokens so that everything stays integral:
   res = 1 with now in seconds is the Redis bucket, res = 1000 with now in ms the in-process one. *)
Section Bucket.
  Variables (rate cap res : Z).

  Definition bucket : Type := Z * Z.            (* (level in 1/res tokens, time of that level) *)
  Definition binit (now : Z) : bucket := (cap * res, now).

  (* level at time now >= snd b *)
  Definition blevel (b : bucket) (now : Z) : Z := Z.min (cap * res) (fst b + (now - snd b) * rate).

  (* a request for n tokens at time now is granted iff n tokens are available *)
  Definition btake (b : bucket) (now n : Z) : bucket * bool :=
    let lvl := blevel b now in
    if n * res <=? lvl then ((lvl - n * res, now), true) else ((lvl, now), false).

  (* requests: (time, n) *)
  Fixpoint brun (b : bucket) (reqs : list (Z * Z)) : list bool :=
    match reqs with
    | [] => []
    | (now, n) :: r => let (b', ok) := btake b now n in ok :: brun b' r
    end.

  Fixpoint bfinal (b : bucket) (reqs : list (Z * Z)) : bucket :=
    match reqs with
    | [] => b
    | (now, n) :: r => bfinal (fst (btake b now n)) r
    end.
End Bucket.

(* ---------- (3) fallback switch ---------- *)
(* While Redis does not answer, decisions come from an in-process bucket with the same rate and
   burst; once Redis answers the monitor's ping, decisions are Redis's again. A Redis "no"
   (redis.Nil) or a done context is a plain refusal and does not switch. *)
Inductive fmode := FRedis | FRescue.
Inductive fsource := FromRedis | FromRescue | Refused.

(* source of the decision of one request, and the mode afterwards.
   ctx_done: the caller's context is cancelled/expired; eval_up: Redis answers the script. *)
Definition fdecide (m : fmode) (ctx_done eval_up : bool) : fsource * fmode :=
  match m with
  | FRescue => (FromRescue, FRescue)
  | FRedis =>
      if ctx_done then (Refused, FRedis)
      else if eval_up then (FromRedis, FRedis)
      else (FromRescue, FRescue)
  end.

(* a monitor ping that Redis answers *)
Definition fpong (m : fmode) : fmode := FRedis.
