(* C08 Props: the property theorems, nothing else.
   Time is ONE integer clock in milliseconds shared by the Redis server (key expiry) and the caller
   (the token script is handed floor(clock/1000)); it never goes back: every clock step d of a
   history satisfies 0 <= d (in_window / not_on / hwf). Keys are abstract identifiers. *)
From God Require Import Base.Prelude C08.Model C08.Spec C08.Proofs.
Local Open Scope Z_scope.

(* ---------------------------------------------------------------- period limiter *)

(* Within one window of key k (opened by a take at t0 when k has no live counter, lasting w seconds),
   whatever clock steps and takes on OTHER keys are interleaved, the i-th take on k reports pcode q i. *)
Theorem c08_period_codes : forall k q w t0 (s : store) ops,
  1 <= w -> rget t0 k s = None ->
  Forall (in_window k q) ops -> elapsed ops < 1000 * w ->
  codes_of k (prun (t0, s) (PTake k q w true :: ops)) =
    map (fun i => Ok (pcode q (Z.of_nat i))) (seq 1 (S (ntakes k ops))).
Proof. intros. apply period_codes; assumption. Qed.
Print Assumptions c08_period_codes.

(* ... and pcode q is Allowed^(q-1) . HitQuota . OverQuota* *)
Theorem c08_period_code_shape : forall q c,
  (c < q -> pcode q c = S_Allowed) /\ (c = q -> pcode q c = S_HitQuota) /\ (q < c -> pcode q c = S_OverQuota).
Proof. exact pcode_shape. Qed.
Print Assumptions c08_period_code_shape.

(* keys are independent: the codes of k do not change when all takes on other keys are deleted from
   an arbitrary history; hence any two interleavings with the same k-projection agree on k; and
   two takes on different keys commute (same answers, same store up to lookup) *)
Theorem c08_period_keys_independent : forall k st ops,
  codes_of k (prun st ops) = codes_of k (prun st (filter (relevant k) ops)).
Proof. exact keys_independent. Qed.
Print Assumptions c08_period_keys_independent.

Theorem c08_period_interleaving : forall k st ops1 ops2,
  filter (relevant k) ops1 = filter (relevant k) ops2 ->
  codes_of k (prun st ops1) = codes_of k (prun st ops2).
Proof. exact interleaving_irrelevant. Qed.
Print Assumptions c08_period_interleaving.

Theorem c08_period_takes_commute : forall t k1 k2 u1 u2 q1 q2 w1 w2 (s : store), k1 <> k2 ->
  let a := take t u1 k1 q1 w1 s in
  let ab := take t u2 k2 q2 w2 (fst a) in
  let b := take t u2 k2 q2 w2 s in
  let ba := take t u1 k1 q1 w1 (fst b) in
  snd a = snd ba /\ snd b = snd ab /\ store_eq (fst ab) (fst ba).
Proof. exact take_commute. Qed.
Print Assumptions c08_period_takes_commute.

(* The count starts afresh only after the window's expiry: after n takes in the window opened at t0,
   and any further clock steps / takes on other keys, the next take on k is number n+1 of the old
   window while clock < t0 + 1000 w, and number 1 of a new window exactly from t0 + 1000 w on. *)
Theorem c08_period_restart_only_after_expiry : forall k q w t0 (s : store) ops ops2 q' w',
  1 <= w -> 1 <= w' -> rget t0 k s = None ->
  Forall (in_window k q) ops -> elapsed ops < 1000 * w ->
  Forall (not_on k) ops2 ->
  let st1 := pfinal (t0, s) (PTake k q w true :: ops) in
  let st2 := pfinal st1 ops2 in
  let n := Z.of_nat (S (ntakes k ops)) in
  fst st2 = t0 + elapsed ops + elapsed ops2 /\
  snd (take (fst st2) true k q' w' (snd st2)) =
    Ok (pcode q' (if fst st2 <? t0 + 1000 * w then n + 1 else 1)).
Proof. intros. apply next_take_after; assumption. Qed.
Print Assumptions c08_period_restart_only_after_expiry.

(* Model refines Spec: from an empty Redis every history (any keys, quotas, windows >= 1 s, failing
   calls) produces exactly the answers of the window automaton of Spec.v *)
Theorem c08_period_refines_windows : forall t0 ops, Forall pos_windows ops ->
  prun (t0, []) ops = wrun t0 [] ops.
Proof. intros. apply refines_windows; [intro k; exact I|assumption]. Qed.
Print Assumptions c08_period_refines_windows.

(* The window and its expiry follow the SERVER clock only (EXPIRE is relative): a server whose clock
   is ahead of or behind any other clock -- in particular the caller's -- by an arbitrary constant d
   gives every history the same answers; so inside each window Allowed^(q-1).HitQuota.OverQuota* and a
   fresh count exactly after the window's seconds of server time, whatever the skew. *)
Theorem c08_period_server_clock_only : forall d t (s : store) ops,
  prun (t + d, shift_store d s) ops = prun (t, s) ops.
Proof. intros. apply prun_shift. Qed.
Print Assumptions c08_period_server_clock_only.

(* Count and expiry are set atomically (one script = one step of the server): from an empty Redis, after
   ANY history -- whatever became of the callers while their takes were at the server (cancelled
   context, dead connection: the model's step is the server's, not the caller's) -- no counter is stored
   without an expiry, so every window that was opened still ends and the count restarts after it. *)
Theorem c08_period_count_always_expires : forall t0 ops k c ex, Forall pos_windows ops ->
  alookup Nat.eqb k (snd (pfinal (t0, []) ops)) = Some (c, ex) -> 1 <= c /\ exists e, ex = Some e.
Proof.
  intros t0 ops k c ex F H. apply (pfinal_expiring ops t0 [] F) with (k := k); [|exact H].
  intros k' c' ex' H'. discriminate.
Qed.
Print Assumptions c08_period_count_always_expires.

(* A replaced server (restart without persistence, fail-over, new container) is a fresh Redis: the
   limiter keeps working and the history continues as from an empty store at the current clock
   (so all theorems above apply again from there; the windows of the lost server are gone). *)
Theorem c08_period_replace_fresh : forall st ops1 ops2,
  prun st (ops1 ++ PReplace :: ops2) = prun st ops1 ++ prun (fst (pfinal st ops1), []) ops2.
Proof. intros. apply prun_replace. Qed.
Print Assumptions c08_period_replace_fresh.

(* ---------------------------------------------------------------- token limiter *)

(* For integer rate, burst >= 1 with 2*burst >= rate, distinct bucket keys that are absent initially,
   and every history of non-negative clock steps and requests n >= 0 made with now = clock:
   no script call fails and the decisions are exactly those of the bucket (capacity burst, refilled
   rate per second, initially full) on the requests (floor(clock/1000), n). Key expiry after
   ttl = floor(2*burst/rate) idle seconds is covered: histories contain arbitrary clock steps. *)
Theorem c08_token_refines_bucket : forall rate burst kt ks t0 (s0 : store) h,
  kt <> ks -> 1 <= rate -> 1 <= burst -> rate <= 2 * burst ->
  alookup Nat.eqb kt s0 = None -> alookup Nat.eqb ks s0 = None -> hwf h ->
  exists stf, hrun (mkC rate burst kt ks) (t0, s0) h =
              Some (stf, strace rate burst (binit burst 1 (t0 / 1000)) (reqs_of t0 h)).
Proof. intros. apply token_refines; assumption. Qed.
Print Assumptions c08_token_refines_bucket.

(* the lemma behind "expiry is invisible": ttl seconds refill the whole bucket *)
Theorem c08_token_ttl_refills : forall rate burst, 1 <= rate -> 1 <= burst -> rate <= 2 * burst ->
  1 <= 2 * burst / rate /\ burst <= (2 * burst / rate) * rate.
Proof. intros. split; [apply ttl_pos_gen|apply ttl_refill_gen]; assumption. Qed.
Print Assumptions c08_token_ttl_refills.

(* A request for n tokens after any history is granted iff n tokens are available in the bucket. *)
Theorem c08_grant_iff : forall rate burst kt ks t0 (s0 : store) h n,
  kt <> ks -> 1 <= rate -> 1 <= burst -> rate <= 2 * burst ->
  alookup Nat.eqb kt s0 = None -> alookup Nat.eqb ks s0 = None -> hwf h -> 0 <= n ->
  let sec := (t0 + helapsed h) / 1000 in
  let b := bfinal rate burst 1 (binit burst 1 (t0 / 1000)) (reqs_of t0 h) in
  exists stf evs ok,
    hrun (mkC rate burst kt ks) (t0, s0) (h ++ [HReq n]) = Some (stf, evs ++ [mkEv sec n ok]) /\
    (ok = true <-> n <= blevel rate burst 1 b sec) /\
    0 <= blevel rate burst 1 b sec <= burst.
Proof. intros. apply token_grant_iff; assumption. Qed.
Print Assumptions c08_grant_iff.

(* The decision depends on the bucket level only: after any history, a request too large for the bucket
   is refused and a smaller one that fits is granted right after it, in the same second. *)
Theorem c08_denied_large_then_smaller : forall rate burst kt ks t0 (s0 : store) h n1 n2,
  kt <> ks -> 1 <= rate -> 1 <= burst -> rate <= 2 * burst ->
  alookup Nat.eqb kt s0 = None -> alookup Nat.eqb ks s0 = None -> hwf h ->
  let sec := (t0 + helapsed h) / 1000 in
  let b := bfinal rate burst 1 (binit burst 1 (t0 / 1000)) (reqs_of t0 h) in
  0 <= n2 <= blevel rate burst 1 b sec -> blevel rate burst 1 b sec < n1 ->
  exists stf evs,
    hrun (mkC rate burst kt ks) (t0, s0) (h ++ [HReq n1; HReq n2]) =
      Some (stf, evs ++ [mkEv sec n1 false; mkEv sec n2 true]).
Proof. intros. apply token_denied_then_smaller; assumption. Qed.
Print Assumptions c08_denied_large_then_smaller.

(* Between second s and second s+t at most burst + rate*t events are let through (granted_sum adds the n of the granted requests). *)
Theorem c08_token_bound : forall rate burst kt ks t0 (s0 : store) h stf evs s t,
  kt <> ks -> 1 <= rate -> 1 <= burst -> rate <= 2 * burst ->
  alookup Nat.eqb kt s0 = None -> alookup Nat.eqb ks s0 = None -> hwf h -> 0 <= t ->
  hrun (mkC rate burst kt ks) (t0, s0) h = Some (stf, evs) ->
  granted_sum (filter (in_win s t) evs) <= burst + rate * t.
Proof. intros. eapply token_bound; eassumption. Qed.
Print Assumptions c08_token_bound.

(* ---------------------------------------------------------------- fallback *)

(* (1) while redisAlive = 0 every decision is the rescue bucket's and Redis is not touched;
   (2) a Redis error (connection refused, a server that accepts the call and never answers within the client's
       timeouts, or an error reply of the script) hands that very decision to the
       rescue bucket and leaves a monitor running (switching to the rescue path when none ran);
   (3) a done context (cancelled or expired before the call, or a deadline expiring while the script call
       is in flight) is a refusal that leaves the limiter untouched -- no monitor, nothing from the rescue
       bucket -- and Redis untouched too, unless the in-flight script still ran on the server;
   (4) a healthy call is decided by the script; in particular Redis' "no" (redis.Nil) does not switch;
   (5) along every event history from a fresh limiter: redisAlive = 0 iff the monitor is in its ping loop;
   (6) during an outage segment (no ping answered) all decisions are those of the rescue bucket run
       on the same requests, and Redis' state is untouched;
   (7) after the first answered ping the very next healthy call is Redis's again;
   (8) the server that answers again may be a FRESH instance (TReplace: empty store, nothing cached):
       the next healthy call is decided by a full bucket there (granted iff n <= burst) and both
       bucket keys are written on the new server.
   (the outage segment (6) may contain replacements; Redis' state is then of course not preserved) *)
Theorem c08_fallback :
  (forall c w l now n cx, alive l = false ->
     reserve c w l now n cx =
       (w, mkL false (monitor l) (fst (rescue_allow (c_rate c) (c_burst c) now n (rescue l))),
        snd (rescue_allow (c_rate c) (c_burst c) now n (rescue l)))) /\
  (forall c w l now n, alive l = true -> eval_fails c w now n ->
     let l1 := start_monitor l in
     reserve c w l now n CtxOk =
       (w, mkL (alive l1) (monitor l1) (fst (rescue_allow (c_rate c) (c_burst c) now n (rescue l))),
        snd (rescue_allow (c_rate c) (c_burst c) now n (rescue l))) /\
     monitor l1 <> MIdle /\ (monitor l = MIdle -> alive l1 = false)) /\
  (forall c w l now n cx, alive l = true -> cx <> CtxOk ->
     snd (reserve c w l now n cx) = false /\ snd (fst (reserve c w l now n cx)) = l /\
     (cx <> CtxInFlight true -> fst (fst (reserve c w l now n cx)) = w)) /\
  (forall c w l now n s' ok, alive l = true -> eval_up w = true -> script_of c w now n = Some (s', ok) ->
     reserve c w l now n CtxOk = (mkW (clock w) s' (eval_up w) (ping_up w), l, ok)) /\
  (forall c w evs, linv (snd (fst (trun c (w, mkL true MIdle None) evs)))) /\
  (forall c evs w l, alive l = false -> monitor l = MRunning -> ping_up w = false -> Forall no_pong evs ->
     let res := trun c (w, l) evs in
     snd res = rescue_only (c_rate c) (c_burst c) (rescue l) evs /\
     (Forall no_replace evs -> rstore (fst (fst res)) = rstore w) /\ alive (snd (fst res)) = false) /\
  (forall c w l now n s' ok,
     alive l = false -> monitor l = MRunning -> ping_up w = true -> eval_up w = true ->
     script_of c w now n = Some (s', ok) ->
     trun c (w, l) [TPing; TAllow now n CtxOk] =
       ((mkW (clock w) s' (eval_up w) (ping_up w), mkL true MExiting (rescue l)), [ok])) /\
  (forall c w l now n,
     1 <= c_rate c -> c_rate c <= 2 * c_burst c -> 0 <= c_burst c ->
     alive l = false -> monitor l = MRunning ->
     let ttl := 2 * c_burst c / c_rate c in
     let ok := n <=? c_burst c in
     let s' := rset (c_kts c) (now / 1000, Some (clock w + 1000 * ttl))
                 (rset (c_ktok c) ((if ok then c_burst c - n else c_burst c), Some (clock w + 1000 * ttl)) []) in
     trun c (w, l) [TReplace true true; TPing; TAllow now n CtxOk] =
       ((mkW (clock w) s' true true, mkL true MExiting (rescue l)), [ok])).
Proof.
  refine (conj reserve_not_alive (conj reserve_redis_error (conj reserve_ctx_done
          (conj reserve_redis_decides (conj _ (conj outage_segment (conj back_to_redis fresh_server))))))).
  intros c w evs. apply trun_linv. exact linv_init.
Qed.
Print Assumptions c08_fallback.

(* Return to Redis after an outage of ANY length: let the limiter be on the rescue path, and let evs be
   any event sequence during which no ping is answered -- arbitrarily many clock steps, ticker rounds
   of the monitor (failed pings), requests (all decided by the rescue bucket), faults and replacements.
   As soon as the server answers again, the first ticker round switches back and the next healthy
   call is decided by the script on the server's current state. Nothing that happened during the
   outage (in particular no count of failed pings or evals) can delay this: in the model, whether a
   call reaches the server depends on the server alone. *)
Theorem c08_fallback_long_outage : forall c evs w l now n,
  alive l = false -> monitor l = MRunning -> ping_up w = false -> Forall no_pong evs ->
  let st1 := fst (trun c (w, l) evs) in
  let w1 := mkW (clock (fst st1)) (rstore (fst st1)) true true in
  forall s' ok, script_of c w1 now n = Some (s', ok) ->
  snd (trun c (w, l) (evs ++ [TFault true true; TPing; TAllow now n CtxOk])) =
    rescue_only (c_rate c) (c_burst c) (rescue l) evs ++ [ok].
Proof. exact long_outage_recovers. Qed.
Print Assumptions c08_fallback_long_outage.

(* A failure that arrives LATE -- its request entered while the limiter was alive, and startMonitor runs in
   whatever state the limiter has reached meanwhile, in particular between the monitor's `alive = 1` and
   its `monitorStarted = false` (MExiting) -- preserves the switch invariant: afterwards the limiter is
   alive or its monitor is in the ping loop, never "on the rescue path with nobody pinging". *)
Theorem c08_fallback_late_failure : forall l, linv l ->
  linv (start_monitor l) /\ (alive (start_monitor l) = true \/ monitor (start_monitor l) = MRunning).
Proof.
  intros l I. pose proof (start_monitor_linv l I) as I'. split; [exact I'|].
  destruct (alive (start_monitor l)) eqn:A; [left; reflexivity|right; apply I'; exact A].
Qed.
Print Assumptions c08_fallback_late_failure.

(* the in-process limiter (x/time/rate, as modelled) is the Spec bucket at ms resolution with the
   same rate and burst: same decisions on every monotone request sequence *)
Theorem c08_rescue_is_bucket : forall rate burst t0 reqs, 1 <= rate -> 1 <= burst ->
  mono t0 reqs -> rescue_run rate burst None reqs = brun rate burst 1000 (binit burst 1000 t0) reqs.
Proof. intros. apply rescue_refines; [assumption|apply rrel_init; assumption|assumption]. Qed.
Print Assumptions c08_rescue_is_bucket.

(* ---------------------------------------------------------------- non-vacuity *)

(* quota 3, 5 s window: two Allowed, HitQuota, OverQuota, OverQuota with another key interleaved;
   the take 5 s after the first one starts afresh, the one 1 ms earlier does not *)
Example c08_period_nonvacuous :
  let ops := [PTake 7 3 5 true; PTake 8 1 5 true; PTick 2000; PTake 7 3 5 true; PTake 7 3 5 true; PTick 2999;
              PTake 7 3 5 true; PTake 7 3 5 true] in
  codes_of 7 (prun (1000, []) ops) = [Ok 1; Ok 1; Ok 2; Ok 3; Ok 3] /\
  codes_of 8 (prun (1000, []) ops) = [Ok 2] /\
  codes_of 7 (prun (1000, []) (ops ++ [PTick 1; PTake 7 3 5 true])) = [Ok 1; Ok 1; Ok 2; Ok 3; Ok 3; Ok 1].
Proof. vm_compute. repeat split. Qed.

Example c08_period_hypotheses_satisfiable :
  let ops := [PTake 8 1 5 true; PTick 2000; PTake 7 3 5 true; PTake 7 3 5 true; PTick 2999] in
  1 <= 5 /\ rget 1000 7%nat ([] : store) = None /\ Forall (in_window 7 3) ops /\ elapsed ops < 1000 * 5.
Proof.
  cbv zeta. split; [lia|]. split; [reflexivity|]. split; [|vm_compute; reflexivity].
  repeat constructor; simpl; try lia; intro; try discriminate; auto.
Qed.

(* rate 2/s, burst 3: drain, refuse, one second refills two, ttl = 3 s of idling refills all *)
Example c08_token_nonvacuous :
  let c := mkC 2 3 0%nat 1%nat in
  option_map (fun r => map ev_ok (snd r))
    (hrun c (5500, []) [HReq 2; HReq 2; HReq 1; HReq 1; HTick 500; HReq 2; HReq 1; HTick 3000; HReq 3; HReq 1]) =
  Some [true; false; true; false; true; false; true; false].
Proof. vm_compute. reflexivity. Qed.

Example c08_token_hypotheses_satisfiable :
  (0%nat <> 1%nat) /\ 1 <= 2 /\ 1 <= 3 /\ 2 <= 2 * 3 /\
  hwf [HReq 2; HReq 2; HReq 1; HReq 1; HTick 500; HReq 2; HReq 1; HTick 3000; HReq 3; HReq 1].
Proof. repeat split; try lia; try discriminate. unfold hwf. repeat constructor; lia. Qed.

(* an outage: the error switches to the rescue bucket (full: grants 3, refuses the 4th), Redis' "no"
   and a cancelled context do not switch, the answered ping switches back to Redis' (empty) bucket *)
Example c08_fallback_nonvacuous :
  let c := mkC 2 3 0%nat 1%nat in
  let evs := [TAllow 5500 3 CtxOk; TAllow 5500 1 CtxOk; TAllow 5500 1 CtxCanceled;
              TFault false false; TAllow 5500 3 CtxOk; TAllow 5500 1 CtxOk; TPing;
              TFault true true; TAllow 5500 1 CtxOk; TPing; TExit; TAllow 5500 1 CtxOk] in
  let res := trun c (mkW 5500 [] true true, mkL true MIdle None) evs in
  snd res = [true; false; false; true; false; false; false] /\
  alive (snd (fst res)) = true /\ monitor (snd (fst res)) = MIdle.
Proof. vm_compute. repeat split. Qed.

(* Redis' bucket is empty; the server is replaced during an outage: the rescue bucket decides until the
   new server answers the ping, then the new server's full bucket decides and holds both keys *)
Example c08_replace_nonvacuous :
  let c := mkC 2 3 0%nat 1%nat in
  let evs := [TAllow 5500 3 CtxOk; TAllow 5500 1 CtxOk; TFault false false; TAllow 5500 1 CtxOk;
              TReplace true false; TAllow 5500 1 CtxOk; TPing; TFault true true; TPing; TExit;
              TAllow 5500 2 CtxOk; TAllow 5500 2 CtxOk] in
  let res := trun c (mkW 5500 [] true true, mkL true MIdle None) evs in
  snd res = [true; false; true; true; true; false] /\
  rget 5500 0%nat (rstore (fst (fst res))) = Some (1, Some 8500) /\
  rget 5500 1%nat (rstore (fst (fst res))) = Some (5, Some 8500).
Proof. vm_compute. repeat split. Qed.
