(* C08 Proofs: lemmas behind Props.v. All statements are over arbitrary configurations and
   unbounded histories (induction over operation lists). *)
From God Require Import Base.Prelude C08.Model C08.Spec.
Local Open Scope Z_scope.
Local Arguments Z.mul : simpl never.
Local Arguments Z.add : simpl never.
Local Arguments Z.sub : simpl never.
Local Arguments Z.div : simpl never.
Local Arguments Z.ltb : simpl never.
Local Arguments Z.leb : simpl never.
Local Arguments Z.eqb : simpl never.

(* ===================================================================================== *)
(* A. association lists keyed by nat                                                       *)
(* ===================================================================================== *)
Section AssocNat.
  Context {V : Type}.
  Implicit Types (m : list (nat * V)).

  Lemma alookup_aremove_same k m : alookup Nat.eqb k (aremove Nat.eqb k m) = None.
  Proof.
    induction m as [|[k' v] r IH]; simpl; [reflexivity|].
    destruct (Nat.eqb k k') eqn:E; [assumption|]. simpl. rewrite E. assumption.
  Qed.

  Lemma alookup_aremove_other k k' m : k <> k' ->
    alookup Nat.eqb k (aremove Nat.eqb k' m) = alookup Nat.eqb k m.
  Proof.
    intro H. induction m as [|[k2 v] r IH]; simpl; [reflexivity|].
    destruct (Nat.eqb k' k2) eqn:E.
    - apply Nat.eqb_eq in E. subst k2. destruct (Nat.eqb k k') eqn:E2; [apply Nat.eqb_eq in E2; congruence|]. assumption.
    - simpl. destruct (Nat.eqb k k2); [reflexivity|assumption].
  Qed.

  Lemma alookup_aset_same k v m : alookup Nat.eqb k (aset Nat.eqb k v m) = Some v.
  Proof. unfold aset. simpl. rewrite Nat.eqb_refl. reflexivity. Qed.

  Lemma alookup_aset_other k k' v m : k <> k' ->
    alookup Nat.eqb k (aset Nat.eqb k' v m) = alookup Nat.eqb k m.
  Proof.
    intro H. unfold aset. simpl. destruct (Nat.eqb k k') eqn:E; [apply Nat.eqb_eq in E; congruence|].
    apply alookup_aremove_other. assumption.
  Qed.
End AssocNat.

(* ===================================================================================== *)
(* B. period limiter                                                                       *)
(* ===================================================================================== *)

Lemma map_code_pcode q c :
  map_code (if c <? q then 1 else if c =? q then 2 else 0) = Ok (pcode q c).
Proof. unfold pcode. destruct (c <? q); [reflexivity|]. destruct (c =? q); reflexivity. Qed.

(* reads depend on the entry of the key only *)
Lemma rget_ext t k s1 s2 : alookup Nat.eqb k s1 = alookup Nat.eqb k s2 -> rget t k s1 = rget t k s2.
Proof. unfold rget. intros ->. reflexivity. Qed.

Lemma lookup_rset_same k e s : alookup Nat.eqb k (rset k e s) = Some e.
Proof. apply alookup_aset_same. Qed.
Lemma lookup_rset_other k k' e s : k <> k' -> alookup Nat.eqb k (rset k' e s) = alookup Nat.eqb k s.
Proof. apply alookup_aset_other. Qed.
Lemma lookup_rdel_same k s : alookup Nat.eqb k (rdel k s) = None.
Proof. apply alookup_aremove_same. Qed.
Lemma lookup_rdel_other k k' s : k <> k' -> alookup Nat.eqb k (rdel k' s) = alookup Nat.eqb k s.
Proof. apply alookup_aremove_other. Qed.

(* a take touches only its own key *)
Lemma incrby_other t k k' d s : k <> k' -> alookup Nat.eqb k (fst (incrby t k' d s)) = alookup Nat.eqb k s.
Proof.
  intro H. unfold incrby. destruct (rget t k' s) as [[v ex]|]; simpl; apply lookup_rset_other; assumption.
Qed.

Lemma expire_other t k k' w s : k <> k' -> alookup Nat.eqb k (expire t k' w s) = alookup Nat.eqb k s.
Proof.
  intro H. unfold expire. destruct (rget t k' s) as [[v ex]|]; [|reflexivity].
  destruct (w <=? 0); [apply lookup_rdel_other|apply lookup_rset_other]; assumption.
Qed.

Lemma take_other t up k k' q w s : k <> k' ->
  alookup Nat.eqb k (fst (take t up k' q w s)) = alookup Nat.eqb k s.
Proof.
  intro H. unfold take. destruct up; [|reflexivity]. unfold period_script.
  destruct (incrby t k' 1 s) as [s1 cur] eqn:E. simpl.
  assert (H1 : alookup Nat.eqb k s1 = alookup Nat.eqb k s).
  { replace s1 with (fst (incrby t k' 1 s)) by (rewrite E; reflexivity). apply incrby_other. assumption. }
  destruct (cur =? 1); [rewrite expire_other by assumption|]; assumption.
Qed.

(* what a take does to its own key, as a function of that key's entry alone *)
Definition take_entry (t : Z) (o : option entry) (w : Z) : option entry * Z :=
  let cur := match o with
             | Some e => if live t e then fst e + 1 else 1
             | None => 1
             end in
  let e1 : entry := match o with
                    | Some e => if live t e then (fst e + 1, snd e) else (1, None)
                    | None => (1, None)
                    end in
  (if cur =? 1 then (if w <=? 0 then None else Some (fst e1, Some (t + 1000 * w))) else Some e1, cur).

Lemma period_script_entry t k q w s :
  let r := period_script t k q w s in
  alookup Nat.eqb k (fst r) = fst (take_entry t (alookup Nat.eqb k s) w) /\
  snd r = (let c := snd (take_entry t (alookup Nat.eqb k s) w) in if c <? q then 1 else if c =? q then 2 else 0).
Proof.
  assert (X : forall v ex0 s0, alookup Nat.eqb k (expire t k w (rset k (v, ex0) s0)) =
            if live t (v, ex0) then (if w <=? 0 then None else Some (v, Some (t + 1000 * w))) else Some (v, ex0)).
  { intros v ex0 s0. unfold expire, rget. rewrite lookup_rset_same. destruct (live t (v, ex0)).
    - destruct (w <=? 0); [apply lookup_rdel_same|apply lookup_rset_same].
    - apply lookup_rset_same. }
  unfold period_script, incrby, take_entry, rget.
  destruct (alookup Nat.eqb k s) as [[v ex]|] eqn:E.
  - destruct (live t (v, ex)) eqn:L; cbn [fst snd].
    + destruct (v + 1 =? 1) eqn:C.
      * rewrite X. unfold live in L |- *. cbn [snd] in L |- *. rewrite L. split; reflexivity.
      * rewrite lookup_rset_same. split; reflexivity.
    + replace (1 =? 1) with true by reflexivity. rewrite X. unfold live. cbn [snd]. split; reflexivity.
  - cbn [fst snd]. replace (1 =? 1) with true by reflexivity. rewrite X. unfold live. cbn [snd]. split; reflexivity.
Qed.

Lemma take_entry_spec t up k q w s :
  let r := take t up k q w s in
  alookup Nat.eqb k (fst r) = (if up then fst (take_entry t (alookup Nat.eqb k s) w) else alookup Nat.eqb k s) /\
  snd r = (if up then Ok (pcode q (snd (take_entry t (alookup Nat.eqb k s) w))) else Err 1%nat).
Proof.
  unfold take. destruct up; [|split; reflexivity].
  pose proof (period_script_entry t k q w s) as [H1 H2].
  destruct (period_script t k q w s) as [s' code]. simpl in *. split; [assumption|].
  rewrite H2. apply map_code_pcode.
Qed.

(* --- keys are independent: commutation and projection --- *)
Definition store_eq (s1 s2 : store) : Prop := forall k, alookup Nat.eqb k s1 = alookup Nat.eqb k s2.

Lemma take_commute t k1 k2 u1 u2 q1 q2 w1 w2 s : k1 <> k2 ->
  let a := take t u1 k1 q1 w1 s in
  let ab := take t u2 k2 q2 w2 (fst a) in
  let b := take t u2 k2 q2 w2 s in
  let ba := take t u1 k1 q1 w1 (fst b) in
  snd a = snd ba /\ snd b = snd ab /\ store_eq (fst ab) (fst ba).
Proof.
  intros H a ab b ba.
  pose proof (take_entry_spec t u1 k1 q1 w1 s) as [A1 A2].
  pose proof (take_entry_spec t u2 k2 q2 w2 (fst a)) as [AB1 AB2].
  pose proof (take_entry_spec t u2 k2 q2 w2 s) as [B1 B2].
  pose proof (take_entry_spec t u1 k1 q1 w1 (fst b)) as [BA1 BA2].
  fold a in A1, A2. fold ab in AB1, AB2. fold b in B1, B2. fold ba in BA1, BA2.
  assert (E1 : alookup Nat.eqb k1 (fst b) = alookup Nat.eqb k1 s) by (apply take_other; assumption).
  assert (E2 : alookup Nat.eqb k2 (fst a) = alookup Nat.eqb k2 s) by (apply take_other; congruence).
  split; [|split].
  - rewrite A2, BA2, E1. reflexivity.
  - rewrite B2, AB2, E2. reflexivity.
  - intro k. destruct (Nat.eq_dec k k1) as [->|N1].
    + rewrite BA1, E1. unfold ab. rewrite take_other by assumption. assumption.
    + destruct (Nat.eq_dec k k2) as [->|N2].
      * rewrite AB1, E2. unfold ba. rewrite take_other by congruence. symmetry. assumption.
      * unfold ab, ba. rewrite !take_other by assumption. unfold a, b. rewrite !take_other by assumption. reflexivity.
Qed.

Definition codes_of (k : nat) (outs : list (nat * result Z)) : list (result Z) :=
  map snd (filter (fun x => Nat.eqb (fst x) k) outs).

(* operations that matter for key k: clock steps and the takes on k *)
Definition relevant (k : nat) (o : pop) : bool :=
  match o with PTick _ => true | PTake k' _ _ _ => Nat.eqb k' k | PReplace => true end.

Lemma codes_of_cons k x outs :
  codes_of k (x :: outs) = if Nat.eqb (fst x) k then snd x :: codes_of k outs else codes_of k outs.
Proof. unfold codes_of. simpl. destruct (Nat.eqb (fst x) k); reflexivity. Qed.

Lemma keys_independent_gen k ops : forall t (s1 s2 : store),
  alookup Nat.eqb k s1 = alookup Nat.eqb k s2 ->
  codes_of k (prun (t, s1) ops) = codes_of k (prun (t, s2) (filter (relevant k) ops)).
Proof.
  induction ops as [|o r IH]; intros t s1 s2 E; [reflexivity|].
  destruct o as [d|k' q w up|]; simpl.
  - apply IH. assumption.
  - destruct (Nat.eqb k' k) eqn:K.
    + apply Nat.eqb_eq in K. subst k'. simpl.
      pose proof (take_entry_spec t up k q w s1) as [A1 A2].
      pose proof (take_entry_spec t up k q w s2) as [B1 B2].
      destruct (take t up k q w s1) as [s1' r1]. destruct (take t up k q w s2) as [s2' r2]. simpl in *.
      rewrite !codes_of_cons. simpl. rewrite Nat.eqb_refl.
      rewrite A2, B2, E. f_equal. apply IH. rewrite A1, B1, E. reflexivity.
    + pose proof (take_other t up k k' q w s1) as A.
      destruct (take t up k' q w s1) as [s1' r1]. simpl in *.
      rewrite codes_of_cons. simpl. rewrite K. apply IH. rewrite A; [assumption|].
      intro; subst. rewrite Nat.eqb_refl in K. discriminate.
  - apply IH. reflexivity.
Qed.

Lemma keys_independent k st ops :
  codes_of k (prun st ops) = codes_of k (prun st (filter (relevant k) ops)).
Proof. destruct st as [t s]. apply keys_independent_gen. reflexivity. Qed.

Lemma interleaving_irrelevant k st ops1 ops2 :
  filter (relevant k) ops1 = filter (relevant k) ops2 ->
  codes_of k (prun st ops1) = codes_of k (prun st ops2).
Proof. intro H. rewrite (keys_independent k st ops1), (keys_independent k st ops2), H. reflexivity. Qed.

(* --- the codes within one window --- *)
(* inside the segment: clock steps are non-negative, takes on k use quota q and reach Redis *)
Definition in_window (k : nat) (q : Z) (o : pop) : Prop :=
  match o with
  | PTick d => 0 <= d
  | PTake k' l _ up => k' = k -> l = q /\ up = true
  | PReplace => False          (* the server keeps its state during the window *)
  end.

Fixpoint elapsed (ops : list pop) : Z :=
  match ops with
  | [] => 0
  | PTick d :: r => d + elapsed r
  | PTake _ _ _ _ :: r => elapsed r
  | PReplace :: r => elapsed r
  end.

Fixpoint ntakes (k : nat) (ops : list pop) : nat :=
  match ops with
  | [] => O
  | PTick _ :: r => ntakes k r
  | PTake k' _ _ _ :: r => if Nat.eqb k' k then S (ntakes k r) else ntakes k r
  | PReplace :: r => ntakes k r
  end.

Lemma elapsed_nonneg k q ops : Forall (in_window k q) ops -> 0 <= elapsed ops.
Proof.
  induction 1 as [|o r H _ IH]; simpl; [lia|]. destruct o; simpl in *; try contradiction; lia.
Qed.

Lemma window_segment k q ops : forall t (s : store) c ex,
  alookup Nat.eqb k s = Some (c, Some ex) -> 1 <= c -> t + elapsed ops < ex ->
  Forall (in_window k q) ops ->
  codes_of k (prun (t, s) ops) = map (fun i => Ok (pcode q (c + Z.of_nat i))) (seq 1 (ntakes k ops)) /\
  fst (pfinal (t, s) ops) = t + elapsed ops /\
  alookup Nat.eqb k (snd (pfinal (t, s) ops)) = Some (c + Z.of_nat (ntakes k ops), Some ex).
Proof.
  induction ops as [|o r IH]; intros t s c ex E C T F.
  - cbn [prun pfinal ntakes elapsed seq map codes_of filter fst snd]. split; [reflexivity|]. split; [lia|]. replace (c + Z.of_nat 0) with c by lia. exact E.
  - inversion F as [|? ? Ho Fr]; subst. pose proof (elapsed_nonneg _ _ _ Fr) as NN.
    destruct o as [d|k' l w up|]; simpl in *; [| |contradiction].
    + assert (T' : t + d + elapsed r < ex) by lia.
      destruct (IH (t + d) s c ex E C T' Fr) as (I1 & I2 & I3). split; [assumption|]. split; [rewrite I2; lia|assumption].
    + destruct (Nat.eqb k' k) eqn:K.
      * apply Nat.eqb_eq in K. subst k'. destruct (Ho eq_refl) as [-> ->].
        pose proof (take_entry_spec t true k q w s) as [A1 A2].
        destruct (take t true k q w s) as [s' res]. simpl in *.
        rewrite E in A1, A2. unfold take_entry, live in A1, A2. simpl in A1, A2.
        assert (L : (t <? ex) = true) by lia. rewrite L in A1, A2. simpl in A1, A2.
        assert (N1 : (c + 1 =? 1) = false) by lia. rewrite N1 in A1. simpl in A1.
        assert (C' : 1 <= c + 1) by lia.
        destruct (IH t s' (c + 1) ex A1 C' T Fr) as (I1 & I2 & I3).
        rewrite codes_of_cons. simpl. rewrite Nat.eqb_refl. repeat split.
        -- rewrite A2, I1. f_equal. rewrite <- (seq_shift (ntakes k r) 1), map_map.
           apply map_ext. intro i. do 2 f_equal. lia.
        -- assumption.
        -- rewrite I3. do 2 f_equal. lia.
      * pose proof (take_other t up k k' l w s) as A.
        destruct (take t up k' l w s) as [s' res]. simpl in *.
        assert (NK : k <> k') by (intro; subst; rewrite Nat.eqb_refl in K; discriminate).
        rewrite codes_of_cons. simpl. rewrite K.
        apply IH; try assumption. rewrite A; assumption.
Qed.

(* the opening take of a window *)
Lemma window_open t k q w s : 1 <= w -> rget t k s = None ->
  let r := take t true k q w s in
  snd r = Ok (pcode q 1) /\ alookup Nat.eqb k (fst r) = Some (1, Some (t + 1000 * w)).
Proof.
  intros W G r. pose proof (take_entry_spec t true k q w s) as [A1 A2]. fold r in A1, A2.
  unfold rget in G. unfold take_entry in A1, A2.
  destruct (alookup Nat.eqb k s) as [e|].
  - destruct (live t e); [discriminate|]. simpl in *. assert (Hw : (w <=? 0) = false) by lia. rewrite Hw in A1. auto.
  - simpl in *. assert (Hw : (w <=? 0) = false) by lia. rewrite Hw in A1. auto.
Qed.

Lemma period_codes k q w t0 s ops :
  1 <= w -> rget t0 k s = None ->
  Forall (in_window k q) ops -> elapsed ops < 1000 * w ->
  codes_of k (prun (t0, s) (PTake k q w true :: ops)) =
    map (fun i => Ok (pcode q (Z.of_nat i))) (seq 1 (S (ntakes k ops))) /\
  fst (pfinal (t0, s) (PTake k q w true :: ops)) = t0 + elapsed ops /\
  alookup Nat.eqb k (snd (pfinal (t0, s) (PTake k q w true :: ops))) =
    Some (Z.of_nat (S (ntakes k ops)), Some (t0 + 1000 * w)).
Proof.
  intros W G F EL. pose proof (window_open t0 k q w s W G) as [O1 O2].
  cbn [prun pfinal pstep fst snd]. destruct (take t0 true k q w s) as [s' res]. simpl in O1, O2. cbn [fst snd].
  destruct (window_segment k q ops t0 s' 1 (t0 + 1000 * w) O2 ltac:(lia) ltac:(lia) F) as (I1 & I2 & I3).
  rewrite codes_of_cons. cbn [fst snd]. rewrite Nat.eqb_refl. repeat split.
  - rewrite O1, I1. cbn [seq map]. f_equal. rewrite <- (seq_shift (ntakes k ops) 1), map_map. apply map_ext. intro i. do 2 f_equal. lia.
  - assumption.
  - rewrite I3. do 2 f_equal. lia.
Qed.

(* shape of the code sequence: Allowed^(q-1) . HitQuota . OverQuota* *)
Lemma pcode_shape q c :
  (c < q -> pcode q c = S_Allowed) /\ (c = q -> pcode q c = S_HitQuota) /\ (q < c -> pcode q c = S_OverQuota).
Proof.
  unfold pcode. repeat split; intro H.
  - assert (E : (c <? q) = true) by lia. rewrite E. reflexivity.
  - assert (E : (c <? q) = false) by lia. assert (E2 : (c =? q) = true) by lia. rewrite E, E2. reflexivity.
  - assert (E : (c <? q) = false) by lia. assert (E2 : (c =? q) = false) by lia. rewrite E, E2. reflexivity.
Qed.

(* --- restart only after expiry --- *)
(* operations that do not take on k *)
Definition not_on (k : nat) (o : pop) : Prop :=
  match o with PTick d => 0 <= d | PTake k' _ _ _ => k' <> k | PReplace => False end.

Lemma not_on_preserves k ops : forall t (s : store), Forall (not_on k) ops ->
  fst (pfinal (t, s) ops) = t + elapsed ops /\
  alookup Nat.eqb k (snd (pfinal (t, s) ops)) = alookup Nat.eqb k s.
Proof.
  induction ops as [|o r IH]; intros t s F; simpl.
  - split; [lia|reflexivity].
  - inversion F as [|? ? Ho Fr]; subst. destruct o as [d|k' l w up|]; simpl in *; [| |contradiction].
    + destruct (IH (t + d) s Fr) as [I1 I2]. split; [lia|assumption].
    + pose proof (take_other t up k k' l w s) as A. destruct (take t up k' l w s) as [s' res]. simpl in *.
      destruct (IH t s' Fr) as [I1 I2]. split; [assumption|]. rewrite I2. apply A. congruence.
Qed.

Lemma next_take_after k q w t0 s ops ops2 q' w' :
  1 <= w -> 1 <= w' -> rget t0 k s = None ->
  Forall (in_window k q) ops -> elapsed ops < 1000 * w ->
  Forall (not_on k) ops2 ->
  let st1 := pfinal (t0, s) (PTake k q w true :: ops) in
  let st2 := pfinal st1 ops2 in
  let n := Z.of_nat (S (ntakes k ops)) in
  fst st2 = t0 + elapsed ops + elapsed ops2 /\
  snd (take (fst st2) true k q' w' (snd st2)) =
    Ok (pcode q' (if fst st2 <? t0 + 1000 * w then n + 1 else 1)).
Proof.
  intros W W' G F EL F2 st1 st2 n.
  destruct (period_codes k q w t0 s ops W G F EL) as (_ & P2 & P3). fold st1 in P2, P3.
  destruct st1 as [t1 s1]. simpl in P2, P3.
  destruct (not_on_preserves k ops2 t1 s1 F2) as [Q1 Q2]. fold st2 in Q1, Q2.
  split; [lia|].
  pose proof (take_entry_spec (fst st2) true k q' w' (snd st2)) as [_ A2]. cbn beta zeta in A2. rewrite A2.
  rewrite Q2, P3. unfold take_entry, live. simpl.
  destruct (fst st2 <? t0 + 1000 * w) eqn:L; simpl; fold n; reflexivity.
Qed.

(* --- refinement to the window automaton of Spec.v --- *)
Fixpoint wrun (t : Z) (ws : windows) (ops : list pop) : list (nat * result Z) :=
  match ops with
  | [] => []
  | PTick d :: r => wrun (t + d) ws r
  | PTake k q w up :: r =>
      if up then let (ws', c) := wtake t k q w ws in (k, Ok c) :: wrun t ws' r
      else (k, Err 1%nat) :: wrun t ws r
  | PReplace :: r => wrun t [] r
  end.

Definition win_rel (s : store) (ws : windows) : Prop :=
  forall k, match alookup Nat.eqb k s, alookup Nat.eqb k ws with
            | None, None => True
            | Some (c, Some ex), Some (ex', c') => ex = ex' /\ c = c' /\ 1 <= c
            | _, _ => False
            end.

Definition pos_windows (o : pop) : Prop :=
  match o with PTick _ => True | PTake _ _ w _ => 1 <= w | PReplace => True end.

Lemma refines_windows ops : forall t (s : store) (ws : windows), win_rel s ws -> Forall pos_windows ops ->
  prun (t, s) ops = wrun t ws ops.
Proof.
  induction ops as [|o r IH]; intros t s ws R F; [reflexivity|].
  inversion F as [|? ? Ho Fr]; subst. destruct o as [d|k q w up|]; simpl in *.
  - apply IH; assumption.
  - destruct up.
    + pose proof (take_entry_spec t true k q w s) as [A1 A2].
      pose proof (fun k' (N : k' <> k) => take_other t true k' k q w s N) as A3.
      destruct (take t true k q w s) as [s' res]. simpl in *.
      pose proof (R k) as Rk. unfold wtake, take_entry in *.
      assert (Hw : (w <=? 0) = false) by lia.
      destruct (alookup Nat.eqb k s) as [[c [ex|]]|] eqn:E1; destruct (alookup Nat.eqb k ws) as [[ex' c']|] eqn:E2; try contradiction.
      * destruct Rk as (-> & -> & C). unfold live in *. simpl in *.
        destruct (t <? ex') eqn:L; simpl in *.
        -- assert (N1 : (c' + 1 =? 1) = false) by lia. rewrite N1 in A1. simpl in A1. rewrite A2. f_equal.
           apply IH; [|assumption]. intro k'. destruct (Nat.eq_dec k' k) as [->|N].
           ++ rewrite A1, alookup_aset_same. repeat split; lia.
           ++ rewrite A3, alookup_aset_other by assumption. apply R.
        -- rewrite Hw in A1. simpl in A1. rewrite A2. f_equal.
           apply IH; [|assumption]. intro k'. destruct (Nat.eq_dec k' k) as [->|N].
           ++ rewrite A1, alookup_aset_same. repeat split; lia.
           ++ rewrite A3, alookup_aset_other by assumption. apply R.
      * simpl in *. rewrite Hw in A1. simpl in A1. rewrite A2. f_equal.
        apply IH; [|assumption]. intro k'. destruct (Nat.eq_dec k' k) as [->|N].
        -- rewrite A1, alookup_aset_same. repeat split; lia.
        -- rewrite A3, alookup_aset_other by assumption. apply R.
    + unfold take. cbn [fst snd]. f_equal. apply IH; assumption.
  - apply IH; [|assumption]. intro k. exact I.
Qed.

(* a replaced server is a fresh one: the history continues as from an empty Redis *)
Lemma prun_replace ops1 : forall st ops2,
  prun st (ops1 ++ PReplace :: ops2) = prun st ops1 ++ prun (fst (pfinal st ops1), []) ops2.
Proof.
  induction ops1 as [|o r IH]; intros st ops2; [reflexivity|].
  cbn [app prun pfinal]. destruct (pstep st o) as [st' out]. cbn [fst]. rewrite IH.
  destruct out; reflexivity.
Qed.

(* --- count and expiry are set atomically: no counter without an expiry --- *)
(* The script is one atomic step of the server, so whatever happens to the caller while its take is
   at the server (cancelled context, dead connection), the store it leaves never holds a counter that
   does not expire: every window that was opened still ends. *)
Definition expiring (s : store) : Prop :=
  forall k c ex, alookup Nat.eqb k s = Some (c, ex) -> 1 <= c /\ exists e, ex = Some e.

Lemma take_expiring t up k q w (s : store) : 1 <= w -> expiring s -> expiring (fst (take t up k q w s)).
Proof.
  intros W E k' c ex H.
  destruct (Nat.eq_dec k' k) as [->|N].
  - pose proof (take_entry_spec t up k q w s) as [A1 _]. cbn zeta in A1. rewrite A1 in H.
    destruct up; [|apply (E k c ex H)].
    unfold take_entry in H. assert (Hw : (w <=? 0) = false) by lia.
    destruct (alookup Nat.eqb k s) as [[v x]|] eqn:L.
    + destruct (E k v x L) as [V [e ->]]. unfold live in H. cbn [fst snd] in H.
      destruct (t <? e).
      * assert (N1 : (v + 1 =? 1) = false) by lia. rewrite N1 in H. inversion H; subst. split; [lia|eauto].
      * cbn in H. rewrite Hw in H. inversion H; subst. split; [lia|eauto].
    + cbn in H. rewrite Hw in H. inversion H; subst. split; [lia|eauto].
  - rewrite take_other in H by assumption. apply (E k' c ex H).
Qed.

Lemma pfinal_expiring ops : forall t (s : store), Forall pos_windows ops -> expiring s ->
  expiring (snd (pfinal (t, s) ops)).
Proof.
  induction ops as [|o r IH]; intros t s F E; [exact E|].
  inversion F as [|? ? Ho Fr]; subst. destruct o as [d|k q w up|]; cbn [pfinal pstep fst snd].
  - apply IH; assumption.
  - pose proof (take_expiring t up k q w s Ho E) as E'. destruct (take t up k q w s) as [s' res]. cbn [fst snd] in *.
    apply IH; assumption.
  - apply IH; [assumption|]. intros k c ex H. discriminate.
Qed.

(* --- the window follows the SERVER clock only (relative expiry) --- *)
(* Two servers whose clocks differ by a constant d (and whose stored expiries differ accordingly) answer
   every history identically: the period script never sees an absolute time, so a caller whose own
   clock is ahead of or behind the server's by any amount observes the same codes. *)
Definition shift_entry (d : Z) (e : entry) : entry := (fst e, option_map (fun x => x + d) (snd e)).
Definition shift_store (d : Z) (s : store) : store := map (fun kv => (fst kv, shift_entry d (snd kv))) s.

Lemma lookup_shift d k (s : store) :
  alookup Nat.eqb k (shift_store d s) = option_map (shift_entry d) (alookup Nat.eqb k s).
Proof.
  induction s as [|[k' e] r IH]; [reflexivity|]. cbn [shift_store map alookup fst snd].
  destruct (Nat.eqb k k'); [reflexivity|exact IH].
Qed.

Lemma aremove_shift d k (s : store) : rdel k (shift_store d s) = shift_store d (rdel k s).
Proof.
  unfold rdel. induction s as [|[k' e] r IH]; [reflexivity|]. cbn [shift_store map aremove fst snd].
  destruct (Nat.eqb k k'); [exact IH|]. cbn [map fst snd]. f_equal. exact IH.
Qed.

Lemma rset_shift d k e (s : store) : rset k (shift_entry d e) (shift_store d s) = shift_store d (rset k e s).
Proof. unfold rset, aset. cbn [shift_store map fst snd]. f_equal. apply aremove_shift. Qed.

Lemma live_shift d t e : live (t + d) (shift_entry d e) = live t e.
Proof. destruct e as [v [x|]]; unfold live, shift_entry; cbn [fst snd option_map]; [lia|reflexivity]. Qed.

Lemma rget_shift d t k (s : store) : rget (t + d) k (shift_store d s) = option_map (shift_entry d) (rget t k s).
Proof.
  unfold rget. rewrite lookup_shift. destruct (alookup Nat.eqb k s) as [e|]; [|reflexivity].
  cbn [option_map]. rewrite live_shift. destruct (live t e); reflexivity.
Qed.

Lemma incrby_shift d t k x (s : store) :
  incrby (t + d) k x (shift_store d s) = (shift_store d (fst (incrby t k x s)), snd (incrby t k x s)).
Proof.
  unfold incrby. rewrite rget_shift. destruct (rget t k s) as [[v ex]|]; cbn [option_map shift_entry fst snd].
  - rewrite <- rset_shift. reflexivity.
  - rewrite <- rset_shift. reflexivity.
Qed.

Lemma expire_shift d t k w (s : store) : expire (t + d) k w (shift_store d s) = shift_store d (expire t k w s).
Proof.
  unfold expire. rewrite rget_shift. destruct (rget t k s) as [[v ex]|]; cbn [option_map shift_entry fst snd]; [|reflexivity].
  destruct (w <=? 0); [apply aremove_shift|]. rewrite <- rset_shift. unfold shift_entry. cbn [fst snd option_map].
  replace (t + d + 1000 * w) with (t + 1000 * w + d) by lia. reflexivity.
Qed.

Lemma take_shift d t up k q w (s : store) :
  take (t + d) up k q w (shift_store d s) = (shift_store d (fst (take t up k q w s)), snd (take t up k q w s)).
Proof.
  unfold take. destruct up; [|reflexivity]. unfold period_script. rewrite incrby_shift.
  destruct (incrby t k 1 s) as [s1 cur]. cbn [fst snd].
  destruct (cur =? 1); [rewrite expire_shift|]; reflexivity.
Qed.

Lemma prun_shift d ops : forall t (s : store),
  prun (t + d, shift_store d s) ops = prun (t, s) ops /\
  pfinal (t + d, shift_store d s) ops = (fst (pfinal (t, s) ops) + d, shift_store d (snd (pfinal (t, s) ops))).
Proof.
  induction ops as [|o r IH]; intros t s; [split; reflexivity|].
  destruct o as [x|k q w up|]; cbn [prun pfinal pstep fst snd].
  - replace (t + d + x) with (t + x + d) by lia. apply IH.
  - rewrite take_shift. destruct (take t up k q w s) as [s' res]. cbn [fst snd].
    destruct (IH t s') as [I1 I2]. rewrite I1, I2. split; reflexivity.
  - apply (IH t []).
Qed.

(* ===================================================================================== *)
(* C. token limiter: the Lua script refines the bucket of Spec.v                            *)
(* ===================================================================================== *)

(* requests (second, n) a synchronous-clock history makes, and the bucket's event trace *)
Fixpoint reqs_of (t : Z) (h : list hop) : list (Z * Z) :=
  match h with
  | [] => []
  | HTick d :: r => reqs_of (t + d) r
  | HReq n :: r => (t / 1000, n) :: reqs_of t r
  end.

Fixpoint helapsed (h : list hop) : Z :=
  match h with
  | [] => 0
  | HTick d :: r => d + helapsed r
  | HReq _ :: r => helapsed r
  end.

(* clock hypothesis (monotone) and non-negative requests *)
Definition hwf (h : list hop) : Prop :=
  Forall (fun o => match o with HTick d => 0 <= d | HReq n => 0 <= n end) h.

Fixpoint granted_sum (evs : list tevent) : Z :=
  match evs with
  | [] => 0
  | e :: r => (if ev_ok e then ev_n e else 0) + granted_sum r
  end.

Definition in_win (s t : Z) (e : tevent) : bool := (s <=? ev_sec e) && (ev_sec e <=? s + t).

(* ttl = floor(2*capacity/rate) is at least one second, and after ttl idle seconds the bucket is
   full anyway: key expiry is invisible *)
Lemma ttl_pos_gen rate cap : 1 <= rate -> rate <= 2 * cap -> 1 <= 2 * cap / rate.
Proof. intros. apply Z.div_le_lower_bound; lia. Qed.

Lemma ttl_refill_gen rate cap : 1 <= rate -> rate <= 2 * cap -> cap <= 2 * cap / rate * rate.
Proof.
  intros H1 H2. pose proof (ttl_pos_gen rate cap H1 H2) as P.
  pose proof (Z.div_mod (2 * cap) rate ltac:(lia)) as D.
  pose proof (Z.mod_pos_bound (2 * cap) rate ltac:(lia)) as M. nia.
Qed.

Section Token.
  Variables (rate cap : Z) (kt ks : nat).
  Hypothesis Hkeys : kt <> ks.
  Hypothesis Hrate : 1 <= rate.
  Hypothesis Hcap : 1 <= cap.
  Hypothesis Httl : rate <= 2 * cap.
  Local Notation c := (mkC rate cap kt ks).
  Local Notation ttl := (2 * cap / rate).

  Fixpoint strace (b : bucket) (reqs : list (Z * Z)) : list tevent :=
    match reqs with
    | [] => []
    | (now, n) :: r => let (b', ok) := btake rate cap 1 b now n in mkEv now n ok :: strace b' r
    end.

  Lemma ttl_pos : 1 <= ttl.
  Proof. apply ttl_pos_gen; assumption. Qed.

  Lemma ttl_refill : cap <= ttl * rate.
  Proof. apply ttl_refill_gen; assumption. Qed.

  (* simulation invariant between (clock, Redis store) and the bucket (level, second of that level) *)
  Definition tinv (t : Z) (s : store) (b : bucket) : Prop :=
    0 <= fst b <= cap /\ snd b <= t / 1000 /\
    ((alookup Nat.eqb kt s = None /\ alookup Nat.eqb ks s = None /\ fst b = cap) \/
     (exists e, alookup Nat.eqb kt s = Some (fst b, Some e) /\
                alookup Nat.eqb ks s = Some (snd b, Some e) /\ 1000 * (snd b + ttl) <= e)).

  (* filled_tokens of the script *)
  Definition s_filled (t : Z) (s : store) (now : Z) : Z :=
    Z.min cap ((match rget t kt s with Some (v, _) => v | None => cap end) +
               Z.max 0 (now - match rget t ks s with Some (v, _) => v | None => 0 end) * rate).

  Lemma token_script_unfold t s now n :
    token_script t kt ks rate cap now n s =
    Some (rset ks (now, Some (t + 1000 * ttl))
            (rset kt ((if n <=? s_filled t s now then s_filled t s now - n else s_filled t s now),
                      Some (t + 1000 * ttl)) s),
          n <=? s_filled t s now).
  Proof.
    unfold token_script, setex, s_filled. pose proof ttl_pos as P.
    assert (E : (ttl <=? 0) = false) by lia. rewrite E. reflexivity.
  Qed.

  (* tokens stay integral and within [0, capacity]: every number the script handles is an integer
     bounded by capacity + now * rate, so Lua's doubles are exact *)
  Lemma s_filled_range t s now : s_filled t s now <= cap.
  Proof. unfold s_filled. lia. Qed.

  Lemma filled_level t s b : tinv t s b -> s_filled t s (t / 1000) = blevel rate cap 1 b (t / 1000).
  Proof.
    destruct b as [L T]. unfold tinv, s_filled, blevel, rget. cbn [fst snd].
    intros (HL & HT & [(E1 & E2 & EL) | (e & E1 & E2 & EE)]).
    - rewrite E1, E2. subst L.
      assert (0 <= Z.max 0 (t / 1000 - 0) * rate) by (apply Z.mul_nonneg_nonneg; lia).
      assert (0 <= (t / 1000 - T) * rate) by (apply Z.mul_nonneg_nonneg; lia). lia.
    - rewrite E1, E2. unfold live. cbn [snd]. destruct (t <? e) eqn:LV.
      + rewrite Z.max_r by lia. lia.
      + assert (T + ttl <= t / 1000) by (apply Z.div_le_lower_bound; lia).
        assert (0 <= Z.max 0 (t / 1000 - 0) * rate) by (apply Z.mul_nonneg_nonneg; lia).
        assert (ttl * rate <= (t / 1000 - T) * rate) by (apply Z.mul_le_mono_nonneg_r; lia).
        pose proof ttl_refill. lia.
  Qed.

  Lemma level_range b now : 0 <= fst b <= cap -> snd b <= now -> 0 <= blevel rate cap 1 b now <= cap.
  Proof.
    intros HL HT. unfold blevel.
    assert (0 <= (now - snd b) * rate) by (apply Z.mul_nonneg_nonneg; lia). lia.
  Qed.

  Lemma script_refines t s b n : tinv t s b -> 0 <= n ->
    exists s', token_script t kt ks rate cap (t / 1000) n s = Some (s', snd (btake rate cap 1 b (t / 1000) n)) /\
               tinv t s' (fst (btake rate cap 1 b (t / 1000) n)).
  Proof.
    intros I N. pose proof (filled_level t s b I) as FL.
    destruct I as (HL & HT & _). pose proof (level_range b (t / 1000) HL HT) as LR.
    rewrite token_script_unfold, FL. unfold btake. rewrite Z.mul_1_r.
    set (lvl := blevel rate cap 1 b (t / 1000)) in *.
    assert (TT : 1000 * (t / 1000 + ttl) <= t + 1000 * ttl) by (pose proof (Z.mul_div_le t 1000 ltac:(lia)); lia).
    destruct (n <=? lvl) eqn:G; cbn [fst snd]; (eexists; split; [reflexivity|]); unfold tinv; cbn [fst snd].
    - split; [lia|]. split; [lia|]. right. exists (t + 1000 * ttl).
      rewrite lookup_rset_other by assumption. rewrite !lookup_rset_same. auto.
    - split; [lia|]. split; [lia|]. right. exists (t + 1000 * ttl).
      rewrite lookup_rset_other by assumption. rewrite !lookup_rset_same. auto.
  Qed.

  Lemma tinv_tick t d s b : 0 <= d -> tinv t s b -> tinv (t + d) s b.
  Proof.
    intros D (HL & HT & R). split; [assumption|]. split; [|assumption].
    assert (t / 1000 <= (t + d) / 1000) by (apply Z.div_le_mono; lia). lia.
  Qed.

  Lemma hrun_refines h : forall t s b, tinv t s b -> hwf h ->
    exists stf, hrun c (t, s) h = Some (stf, strace b (reqs_of t h)) /\
                fst stf = t + helapsed h /\
                tinv (fst stf) (snd stf) (bfinal rate cap 1 b (reqs_of t h)).
  Proof.
    induction h as [|o r IH]; intros t s b I W.
    - exists (t, s). cbn [hrun reqs_of strace helapsed bfinal fst snd]. split; [reflexivity|]. split; [lia|assumption].
    - inversion W as [|? ? Ho Wr]; subst. destruct o as [d|n].
      + destruct (IH (t + d) s b (tinv_tick t d s b Ho I) Wr) as (stf & R1 & R2 & R3).
        exists stf. cbn [hrun hstep reqs_of helapsed fst snd]. rewrite R1. split; [reflexivity|]. split; [lia|assumption].
      + destruct (script_refines t s b n I Ho) as (s' & S1 & S2).
        cbn [hrun hstep reqs_of helapsed strace bfinal fst snd c_ktok c_kts c_rate c_burst]. rewrite S1.
        destruct (btake rate cap 1 b (t / 1000) n) as [b' ok] eqn:BT. cbn [fst snd] in *.
        destruct (IH t s' b' S2 Wr) as (stf & R1 & R2 & R3).
        exists stf. rewrite R1. split; [reflexivity|]. split; assumption.
  Qed.

  Lemma tinv_init t s : alookup Nat.eqb kt s = None -> alookup Nat.eqb ks s = None ->
    tinv t s (binit cap 1 (t / 1000)).
  Proof.
    intros E1 E2. unfold tinv, binit. cbn [fst snd]. split; [lia|]. split; [lia|]. left. repeat split; try assumption; lia.
  Qed.

  (* --- the admission bound: potential argument on the level --- *)
  Fixpoint mono (T : Z) (reqs : list (Z * Z)) : Prop :=
    match reqs with
    | [] => True
    | (now, n) :: r => T <= now /\ 0 <= n /\ mono now r
    end.

  Lemma reqs_mono h : forall t T, hwf h -> T <= t / 1000 -> mono T (reqs_of t h).
  Proof.
    induction h as [|o r IH]; intros t T W HT; [exact I|].
    inversion W as [|? ? Ho Wr]; subst. destruct o as [d|n]; cbn [reqs_of mono].
    - apply IH; [assumption|]. assert (t / 1000 <= (t + d) / 1000) by (apply Z.div_le_mono; lia). lia.
    - split; [assumption|]. split; [assumption|]. apply IH; [assumption|lia].
  Qed.

  Definition pot_inv (s t T L adm : Z) : Prop :=
    0 <= L <= cap /\ (T < s -> adm = 0) /\
    (T <= s + t -> adm + L <= cap + rate * Z.max 0 (T - s)) /\ adm <= cap + rate * t.

  Lemma bound_gen s t reqs : 0 <= t -> forall T L adm, pot_inv s t T L adm -> mono T reqs ->
    adm + granted_sum (filter (in_win s t) (strace (L, T) reqs)) <= cap + rate * t.
  Proof.
    intro Ht. induction reqs as [|[now n] r IH]; intros T L adm (HL & H1 & H2 & H3) M.
    - cbn [strace filter granted_sum]. lia.
    - destruct M as (M1 & M2 & M3). cbn [strace]. unfold btake, blevel. cbn [fst snd]. rewrite !Z.mul_1_r.
      set (lvl := Z.min cap (L + (now - T) * rate)).
      assert (P0 : 0 <= (now - T) * rate) by (apply Z.mul_nonneg_nonneg; lia).
      assert (LV : 0 <= lvl <= cap) by (unfold lvl; lia).
      assert (LV2 : lvl <= L + (now - T) * rate) by (unfold lvl; lia).
      destruct (n <=? lvl) eqn:G; cbn [filter]; unfold in_win; cbn [ev_sec ev_n ev_ok];
        destruct ((s <=? now) && (now <=? s + t)) eqn:W; cbn [granted_sum ev_ok ev_n].
      + (* granted inside the window *)
        rewrite Z.add_assoc. apply IH; [|assumption]. unfold pot_inv.
        assert (S1 : s <= now) by lia. assert (S2 : now <= s + t) by lia.
        assert (Q : adm + lvl <= cap + rate * (now - s)).
        { destruct (Z.lt_ge_cases T s) as [B|B].
          - rewrite (H1 B). assert (0 <= rate * (now - s)) by (apply Z.mul_nonneg_nonneg; lia). lia.
          - specialize (H2 ltac:(lia)). rewrite Z.max_r in H2 by lia.
            replace (rate * (now - s)) with (rate * (T - s) + (now - T) * rate) by ring. lia. }
        assert (Q2 : rate * (now - s) <= rate * t) by (apply Z.mul_le_mono_nonneg_l; lia).
        split; [lia|]. split; [lia|]. split; [intros _; rewrite Z.max_r by lia; lia|lia].
      + (* granted outside the window *)
        apply IH; [|assumption]. unfold pot_inv. split; [lia|].
        destruct (Z.lt_ge_cases now s) as [B|B].
        * split; [intros _; apply H1; lia|]. split; [|assumption].
          intros _. rewrite (H1 ltac:(lia)). assert (0 <= rate * Z.max 0 (now - s)) by (apply Z.mul_nonneg_nonneg; lia). lia.
        * assert (s + t < now) by lia. split; [lia|]. split; [lia|assumption].
      + (* refused inside the window *)
        rewrite Z.add_0_l. apply IH; [|assumption]. unfold pot_inv.
        assert (S1 : s <= now) by lia. assert (S2 : now <= s + t) by lia.
        assert (Q : adm + lvl <= cap + rate * (now - s)).
        { destruct (Z.lt_ge_cases T s) as [B|B].
          - rewrite (H1 B). assert (0 <= rate * (now - s)) by (apply Z.mul_nonneg_nonneg; lia). lia.
          - specialize (H2 ltac:(lia)). rewrite Z.max_r in H2 by lia.
            replace (rate * (now - s)) with (rate * (T - s) + (now - T) * rate) by ring. lia. }
        split; [lia|]. split; [lia|]. split; [intros _; rewrite Z.max_r by lia; lia|lia].
      + (* refused outside the window *)
        apply IH; [|assumption]. unfold pot_inv. split; [lia|].
        destruct (Z.lt_ge_cases now s) as [B|B].
        * split; [intros _; apply H1; lia|]. split; [|assumption].
          intros _. rewrite (H1 ltac:(lia)). assert (0 <= rate * Z.max 0 (now - s)) by (apply Z.mul_nonneg_nonneg; lia). lia.
        * assert (s + t < now) by lia. split; [lia|]. split; [lia|assumption].
  Qed.

  Lemma bucket_bound s t b reqs : 0 <= t -> 0 <= fst b <= cap -> mono (snd b) reqs ->
    granted_sum (filter (in_win s t) (strace b reqs)) <= cap + rate * t.
  Proof.
    intros Ht HL M. destruct b as [L T]. cbn [fst snd] in *.
    pose proof (bound_gen s t reqs Ht T L 0) as B. rewrite Z.add_0_l in B. apply B; [|assumption].
    unfold pot_inv. split; [assumption|]. split; [reflexivity|].
    assert (0 <= rate * Z.max 0 (T - s)) by (apply Z.mul_nonneg_nonneg; lia).
    assert (0 <= rate * t) by (apply Z.mul_nonneg_nonneg; lia). lia.
  Qed.

  (* --- the three token theorems for histories from a store without the bucket keys --- *)
  Lemma token_refines t0 s0 h :
    alookup Nat.eqb kt s0 = None -> alookup Nat.eqb ks s0 = None -> hwf h ->
    exists stf, hrun c (t0, s0) h = Some (stf, strace (binit cap 1 (t0 / 1000)) (reqs_of t0 h)).
  Proof.
    intros E1 E2 W. destruct (hrun_refines h t0 s0 _ (tinv_init t0 s0 E1 E2) W) as (stf & R & _). eauto.
  Qed.

  Lemma reqs_of_app h1 : forall t h2, reqs_of t (h1 ++ h2) = reqs_of t h1 ++ reqs_of (t + helapsed h1) h2.
  Proof.
    induction h1 as [|o r IH]; intros t h2; cbn [app reqs_of helapsed].
    - rewrite Z.add_0_r. reflexivity.
    - destruct o as [d|n]; cbn [reqs_of helapsed app]; rewrite IH; [rewrite Z.add_assoc|]; reflexivity.
  Qed.

  Lemma strace_app r1 : forall b r2, strace b (r1 ++ r2) = strace b r1 ++ strace (bfinal rate cap 1 b r1) r2.
  Proof.
    induction r1 as [|[now n] r IH]; intros b r2; cbn [app strace bfinal]; [reflexivity|].
    destruct (btake rate cap 1 b now n) as [b' ok]. cbn [fst app]. rewrite IH. reflexivity.
  Qed.

  Lemma token_grant_iff t0 s0 h n :
    alookup Nat.eqb kt s0 = None -> alookup Nat.eqb ks s0 = None -> hwf h -> 0 <= n ->
    let sec := (t0 + helapsed h) / 1000 in
    let b := bfinal rate cap 1 (binit cap 1 (t0 / 1000)) (reqs_of t0 h) in
    exists stf evs ok,
      hrun c (t0, s0) (h ++ [HReq n]) = Some (stf, evs ++ [mkEv sec n ok]) /\
      (ok = true <-> n <= blevel rate cap 1 b sec) /\
      0 <= blevel rate cap 1 b sec <= cap.
  Proof.
    intros E1 E2 W N sec b.
    assert (W' : hwf (h ++ [HReq n])) by (apply Forall_app; split; [assumption|constructor; [assumption|constructor]]).
    destruct (token_refines t0 s0 _ E1 E2 W') as (stf & R).
    rewrite reqs_of_app, strace_app in R. cbn [reqs_of strace] in R. fold sec in R. fold b in R.
    destruct (btake rate cap 1 b sec n) as [b' ok] eqn:BT.
    exists stf, (strace (binit cap 1 (t0 / 1000)) (reqs_of t0 h)), ok. split; [exact R|].
    destruct (hrun_refines h t0 s0 _ (tinv_init t0 s0 E1 E2) W) as (st1 & _ & C1 & (HL & HT & _)).
    fold b in HL, HT. rewrite C1 in HT. fold sec in HT.
    split; [|apply level_range; assumption].
    unfold btake in BT. rewrite Z.mul_1_r in BT.
    destruct (n <=? blevel rate cap 1 b sec) eqn:G; inversion BT; subst; split; intro; try lia; try discriminate; reflexivity.
  Qed.

  (* the decision depends on the bucket level only: a refused large request does not stand in the
     way of a smaller one that fits, in the same second *)
  Lemma token_denied_then_smaller t0 s0 h n1 n2 :
    alookup Nat.eqb kt s0 = None -> alookup Nat.eqb ks s0 = None -> hwf h ->
    let sec := (t0 + helapsed h) / 1000 in
    let b := bfinal rate cap 1 (binit cap 1 (t0 / 1000)) (reqs_of t0 h) in
    0 <= n2 <= blevel rate cap 1 b sec -> blevel rate cap 1 b sec < n1 ->
    exists stf evs,
      hrun c (t0, s0) (h ++ [HReq n1; HReq n2]) = Some (stf, evs ++ [mkEv sec n1 false; mkEv sec n2 true]).
  Proof.
    intros E1 E2 W sec b N2 N1.
    assert (W' : hwf (h ++ [HReq n1; HReq n2])).
    { apply Forall_app; split; [assumption|]. repeat constructor; lia. }
    destruct (token_refines t0 s0 _ E1 E2 W') as (stf & R).
    rewrite reqs_of_app, strace_app in R. cbn [reqs_of strace] in R. fold sec in R. fold b in R.
    exists stf, (strace (binit cap 1 (t0 / 1000)) (reqs_of t0 h)). rewrite R. do 3 f_equal.
    unfold btake at 1. rewrite Z.mul_1_r. set (lvl := blevel rate cap 1 b sec) in *.
    assert (G1 : (n1 <=? lvl) = false) by lia. rewrite G1. cbn [fst snd].
    destruct (hrun_refines h t0 s0 _ (tinv_init t0 s0 E1 E2) W) as (st1 & _ & C1 & (HL & HT & _)).
    fold b in HL, HT. rewrite C1 in HT. fold sec in HT.
    pose proof (level_range b sec HL HT) as LR. fold lvl in LR.
    unfold btake, blevel. cbn [fst snd]. rewrite !Z.mul_1_r.
    replace ((sec - sec) * rate) with 0 by ring. rewrite Z.add_0_r, Z.min_r by lia.
    assert (G2 : (n2 <=? lvl) = true) by lia. rewrite G2. reflexivity.
  Qed.

  Lemma token_bound t0 s0 h stf evs s t :
    alookup Nat.eqb kt s0 = None -> alookup Nat.eqb ks s0 = None -> hwf h -> 0 <= t ->
    hrun c (t0, s0) h = Some (stf, evs) ->
    granted_sum (filter (in_win s t) evs) <= cap + rate * t.
  Proof.
    intros E1 E2 W Ht R. destruct (token_refines t0 s0 h E1 E2 W) as (stf' & R'). rewrite R in R'. inversion R'; subst.
    apply bucket_bound; [assumption|unfold binit; cbn [fst]; lia|].
    apply reqs_mono; [assumption|]. unfold binit. cbn [snd]. lia.
  Qed.

  Lemma hrun_total t0 s0 h :
    alookup Nat.eqb kt s0 = None -> alookup Nat.eqb ks s0 = None -> hwf h -> hrun c (t0, s0) h <> None.
  Proof. intros E1 E2 W. destruct (token_refines t0 s0 h E1 E2 W) as (stf & R). rewrite R. discriminate. Qed.
End Token.

(* ===================================================================================== *)
(* D. fallback: who decides, and when the limiter switches                                 *)
(* ===================================================================================== *)

(* the limiter is on the rescue path exactly while its monitor goroutine is in the ping loop *)
Definition linv (l : limiter) : Prop := alive l = false <-> monitor l = MRunning.

Lemma linv_init : linv (mkL true MIdle None).
Proof. unfold linv. simpl. split; discriminate. Qed.

Lemma start_monitor_linv l : linv l -> linv (start_monitor l).
Proof.
  unfold linv, start_monitor. destruct l as [a m r]. simpl. destruct m; simpl; intros [H1 H2]; split; intro; auto; discriminate.
Qed.

Lemma start_monitor_rescue l : rescue (start_monitor l) = rescue l.
Proof. unfold start_monitor. destruct (monitor l); reflexivity. Qed.

Lemma start_monitor_started l : monitor (start_monitor l) <> MIdle.
Proof. unfold start_monitor. destruct (monitor l) eqn:E; simpl; congruence. Qed.

Lemma world_eta w : mkW (clock w) (rstore w) (eval_up w) (ping_up w) = w.
Proof. destruct w; reflexivity. Qed.

(* F1: while redisAlive = 0 every decision is the rescue bucket's; Redis is not touched *)
Lemma reserve_not_alive c w l now n cx : alive l = false ->
  reserve c w l now n cx =
    (w, mkL false (monitor l) (fst (rescue_allow (c_rate c) (c_burst c) now n (rescue l))),
     snd (rescue_allow (c_rate c) (c_burst c) now n (rescue l))).
Proof.
  intro H. unfold reserve. rewrite H. cbn [negb].
  destruct (rescue_allow (c_rate c) (c_burst c) now n (rescue l)); reflexivity.
Qed.

Definition script_of (c : tcfg) (w : world) (now n : Z) : option (store * bool) :=
  token_script (clock w) (c_ktok c) (c_kts c) (c_rate c) (c_burst c) (now / 1000) n (rstore w).

(* Redis does not answer the script, or answers it with an error *)
Definition eval_fails (c : tcfg) (w : world) (now n : Z) : Prop :=
  eval_up w = false \/ script_of c w now n = None.

(* F2: a Redis error hands the decision to the rescue bucket and makes sure a monitor runs *)
Lemma reserve_redis_error c w l now n : alive l = true -> eval_fails c w now n ->
  let l1 := start_monitor l in
  reserve c w l now n CtxOk =
    (w, mkL (alive l1) (monitor l1) (fst (rescue_allow (c_rate c) (c_burst c) now n (rescue l))),
     snd (rescue_allow (c_rate c) (c_burst c) now n (rescue l))) /\
  monitor l1 <> MIdle /\ (monitor l = MIdle -> alive l1 = false).
Proof.
  intros A F l1. split; [|split; [apply start_monitor_started|]].
  - unfold reserve. rewrite A. cbn [negb].
    assert (E : eval_token c w (now / 1000) n CtxOk = (rstore w, EOther)).
    { unfold eval_token. destruct F as [F|F]; [rewrite F; reflexivity|].
      unfold script_of in F. rewrite F. destruct (eval_up w); reflexivity. }
    rewrite E. rewrite start_monitor_rescue, world_eta. unfold l1.
    destruct (rescue_allow (c_rate c) (c_burst c) now n (rescue l)); reflexivity.
  - intro M. unfold l1, start_monitor. rewrite M. reflexivity.
Qed.

(* F3: a done context -- done before the call, or expiring while the call is in flight -- is a plain
   refusal: no switch, no monitor, nothing taken from the in-process bucket; Redis is untouched unless
   the in-flight script still ran on the server (then only the server-side bucket can have shrunk) *)
Lemma reserve_ctx_done c w l now n cx : alive l = true -> cx <> CtxOk ->
  snd (reserve c w l now n cx) = false /\
  snd (fst (reserve c w l now n cx)) = l /\
  (cx <> CtxInFlight true -> fst (fst (reserve c w l now n cx)) = w).
Proof.
  intros A N. unfold reserve. rewrite A. cbn [negb]. destruct w as [ck st eu pu].
  destruct cx as [| | |[|]]; [congruence| | | |]; cbn [eval_token clock rstore eval_up ping_up];
    try (repeat split; reflexivity).
  destruct eu; [|repeat split; reflexivity].
  destruct (token_script ck (c_ktok c) (c_kts c) (c_rate c) (c_burst c) (now / 1000) n st) as [[s' ok]|];
    cbn [fst snd]; repeat split; try reflexivity; intro H; congruence.
Qed.

(* F4: a healthy call is decided by the script (Lua true -> 1, Lua false -> redis.Nil -> false);
   in particular a refusal by Redis does not switch *)
Lemma reserve_redis_decides c w l now n s' ok : alive l = true -> eval_up w = true ->
  script_of c w now n = Some (s', ok) ->
  reserve c w l now n CtxOk = (mkW (clock w) s' (eval_up w) (ping_up w), l, ok).
Proof.
  intros A U S. unfold reserve. rewrite A. cbn [negb]. unfold eval_token. rewrite U.
  unfold script_of in S. rewrite S. destruct ok; reflexivity.
Qed.

(* F5: the switch invariant holds along every event history *)
Lemma reserve_linv c w l now n cx : linv l -> linv (snd (fst (reserve c w l now n cx))).
Proof.
  intro I. unfold reserve. destruct (alive l) eqn:A; cbn [negb].
  - destruct (eval_token c w (now / 1000) n cx) as [s' out]. destruct out; cbn [fst snd]; try assumption.
    pose proof (start_monitor_linv l I) as I1.
    destruct (rescue_allow (c_rate c) (c_burst c) now n (rescue (start_monitor l))). cbn [fst snd].
    unfold linv in *. cbn [alive monitor]. assumption.
  - destruct (rescue_allow (c_rate c) (c_burst c) now n (rescue l)). cbn [fst snd].
    unfold linv in *. cbn [alive monitor]. rewrite A in I. assumption.
Qed.

Lemma tstep_linv c st e : linv (snd st) -> linv (snd (fst (tstep c st e))).
Proof.
  destruct st as [w l]. cbn [snd]. intro I. destruct e; cbn [tstep fst snd]; try assumption.
  - pose proof (reserve_linv c w l now n cx I) as R. destruct (reserve c w l now n cx) as [[w' l'] ok]. exact R.
  - unfold ping. destruct (monitor l) eqn:M; try assumption. destruct (ping_up w); [|assumption].
    unfold linv. cbn [alive monitor]. split; discriminate.
  - unfold monitor_exit. destruct (monitor l) eqn:M; try assumption.
    unfold linv in *. cbn [alive monitor]. rewrite M in I. destruct I as [I1 I2]. split; [|discriminate].
    intro A. apply I1 in A. discriminate.
Qed.

Lemma trun_linv c evs : forall st, linv (snd st) -> linv (snd (fst (trun c st evs))).
Proof.
  induction evs as [|e r IH]; intros st I; [exact I|].
  cbn [trun]. pose proof (tstep_linv c st e I) as I1. destruct (tstep c st e) as [st' out]. cbn [fst] in I1.
  specialize (IH st' I1). destruct (trun c st' r) as [stf outs]. exact IH.
Qed.

(* F6: a ping that Redis answers brings the limiter back *)
Lemma ping_recovers w l : monitor l = MRunning -> ping_up w = true -> ping w l = mkL true MExiting (rescue l).
Proof. intros M P. unfold ping. rewrite M, P. reflexivity. Qed.

(* F7: an outage segment: as long as no ping is answered, all decisions are those of the rescue
   bucket fed with the same requests, and Redis' state is untouched *)
Fixpoint rescue_only (rate burst : Z) (r : rescue_st) (evs : list tev) : list bool :=
  match evs with
  | [] => []
  | TAllow now n _ :: rest =>
      let (r', ok) := rescue_allow rate burst now n r in ok :: rescue_only rate burst r' rest
  | _ :: rest => rescue_only rate burst r rest
  end.

Definition no_pong (e : tev) : Prop :=
  match e with TFault _ pup => pup = false | TReplace _ pup => pup = false | _ => True end.
Definition no_replace (e : tev) : Prop := match e with TReplace _ _ => False | _ => True end.

Lemma outage_segment c evs : forall w l,
  alive l = false -> monitor l = MRunning -> ping_up w = false -> Forall no_pong evs ->
  let res := trun c (w, l) evs in
  snd res = rescue_only (c_rate c) (c_burst c) (rescue l) evs /\
  (Forall no_replace evs -> rstore (fst (fst res)) = rstore w) /\ alive (snd (fst res)) = false.
Proof.
  induction evs as [|e r IH]; intros w l A M P F; [cbn; auto|].
  inversion F as [|? ? He Fr]; subst.
  assert (NR : forall (X : Prop), (Forall no_replace r -> X) -> Forall no_replace (e :: r) -> X).
  { intros X HX HF. inversion HF; auto. }
  destruct e as [d|now n cx|eup pup|eup pup| |]; cbn [trun tstep rescue_only].
  - specialize (IH (mkW (clock w + d) (rstore w) (eval_up w) (ping_up w)) l A M P Fr).
    destruct (trun c (mkW (clock w + d) (rstore w) (eval_up w) (ping_up w), l) r) as [stf outs].
    destruct IH as (I1 & I2 & I3). split; [assumption|]. split; [apply NR; exact I2|assumption].
  - rewrite (reserve_not_alive c w l now n cx A).
    destruct (rescue_allow (c_rate c) (c_burst c) now n (rescue l)) as [r' ok]. cbn [fst snd].
    specialize (IH w (mkL false (monitor l) r') eq_refl M P Fr). cbn [rescue] in IH.
    destruct (trun c (w, mkL false (monitor l) r') r) as [stf outs]. cbn [fst snd] in *.
    destruct IH as (I1 & I2 & I3). rewrite I1. split; [reflexivity|]. split; [apply NR; exact I2|assumption].
  - simpl in He. subst pup. specialize (IH (mkW (clock w) (rstore w) eup false) l A M eq_refl Fr).
    destruct (trun c (mkW (clock w) (rstore w) eup false, l) r) as [stf outs].
    destruct IH as (I1 & I2 & I3). split; [assumption|]. split; [apply NR; exact I2|assumption].
  - simpl in He. subst pup. specialize (IH (mkW (clock w) [] eup false) l A M eq_refl Fr).
    destruct (trun c (mkW (clock w) [] eup false, l) r) as [stf outs].
    destruct IH as (I1 & I2 & I3). split; [assumption|]. split; [|assumption].
    intro HF. inversion HF as [|? ? H1 H2]; subst. contradiction.
  - assert (E : ping w l = l) by (unfold ping; rewrite M, P; reflexivity). rewrite E.
    specialize (IH w l A M P Fr). destruct (trun c (w, l) r) as [stf outs].
    destruct IH as (I1 & I2 & I3). split; [assumption|]. split; [apply NR; exact I2|assumption].
  - assert (E : monitor_exit l = l) by (unfold monitor_exit; rewrite M; reflexivity). rewrite E.
    specialize (IH w l A M P Fr). destruct (trun c (w, l) r) as [stf outs].
    destruct IH as (I1 & I2 & I3). split; [assumption|]. split; [apply NR; exact I2|assumption].
Qed.

(* F8: after the answered ping the very next healthy call is Redis's again *)
Lemma back_to_redis c w l now n s' ok :
  alive l = false -> monitor l = MRunning -> ping_up w = true -> eval_up w = true ->
  script_of c w now n = Some (s', ok) ->
  trun c (w, l) [TPing; TAllow now n CtxOk] =
    ((mkW (clock w) s' (eval_up w) (ping_up w), mkL true MExiting (rescue l)), [ok]).
Proof.
  intros A M P U S. cbn [trun tstep]. rewrite (ping_recovers w l M P).
  rewrite (reserve_redis_decides c w (mkL true MExiting (rescue l)) now n s' ok eq_refl U S). reflexivity.
Qed.

(* F8': however LONG the outage was -- any number of clock steps, failed pings, requests served by
   the rescue bucket, faults and replacements that leave PING unanswered -- the first answered ping
   after the server is back hands the very next healthy call to Redis *)
Lemma trun_app c evs1 : forall st evs2,
  trun c st (evs1 ++ evs2) =
    (fst (trun c (fst (trun c st evs1)) evs2), snd (trun c st evs1) ++ snd (trun c (fst (trun c st evs1)) evs2)).
Proof.
  induction evs1 as [|e r IH]; intros st evs2.
  - cbn [app trun fst snd]. destruct (trun c st evs2); reflexivity.
  - cbn [app trun]. destruct (tstep c st e) as [st' out]. rewrite IH.
    destruct (trun c st' r) as [st1 o1]. cbn [fst snd]. destruct out; reflexivity.
Qed.

Lemma long_outage_recovers c evs w l now n :
  alive l = false -> monitor l = MRunning -> ping_up w = false -> Forall no_pong evs ->
  let st1 := fst (trun c (w, l) evs) in
  let w1 := mkW (clock (fst st1)) (rstore (fst st1)) true true in
  forall s' ok, script_of c w1 now n = Some (s', ok) ->
  snd (trun c (w, l) (evs ++ [TFault true true; TPing; TAllow now n CtxOk])) =
    rescue_only (c_rate c) (c_burst c) (rescue l) evs ++ [ok].
Proof.
  intros A M P F st1 w1 s' ok S.
  destruct (outage_segment c evs w l A M P F) as (O1 & _ & O3).
  assert (LI : linv l) by (unfold linv; rewrite A, M; split; reflexivity).
  pose proof (trun_linv c evs (w, l) LI) as L1. fold st1 in O3, L1.
  rewrite trun_app. cbn [snd]. rewrite O1. f_equal.
  change (fst (trun c (w, l) evs)) with st1. subst w1. clearbody st1.
  destruct st1 as [w' l']. cbn [fst snd] in *.
  assert (M' : monitor l' = MRunning) by (apply L1; exact O3).
  set (w2 := mkW (clock w') (rstore w') true true) in *.
  cbn [trun tstep]. fold w2. rewrite (ping_recovers w2 l' M' eq_refl).
  rewrite (reserve_redis_decides c w2 (mkL true MExiting (rescue l')) now n s' ok eq_refl eq_refl S).
  reflexivity.
Qed.

(* F9: the server that answers again may be a FRESH instance (empty store, empty script cache):
   after its first answered ping the next healthy call is decided by a full bucket on the new
   server, and both bucket keys are written there *)
Lemma script_on_empty t kt ks rate cap now n : 1 <= rate -> rate <= 2 * cap -> 0 <= cap ->
  token_script t kt ks rate cap now n [] =
    Some (rset ks (now, Some (t + 1000 * (2 * cap / rate)))
            (rset kt ((if n <=? cap then cap - n else cap), Some (t + 1000 * (2 * cap / rate))) []),
          n <=? cap).
Proof.
  intros H1 H2 H3. unfold token_script, setex, rget. cbn [alookup].
  pose proof (ttl_pos_gen rate cap H1 H2) as P.
  assert (E : (2 * cap / rate <=? 0) = false) by lia. rewrite E.
  assert (0 <= Z.max 0 (now - 0) * rate) by (apply Z.mul_nonneg_nonneg; lia).
  rewrite (Z.min_l cap) by lia. reflexivity.
Qed.

Lemma fresh_server c w l now n :
  1 <= c_rate c -> c_rate c <= 2 * c_burst c -> 0 <= c_burst c ->
  alive l = false -> monitor l = MRunning ->
  let ttl := 2 * c_burst c / c_rate c in
  let ok := n <=? c_burst c in
  let s' := rset (c_kts c) (now / 1000, Some (clock w + 1000 * ttl))
              (rset (c_ktok c) ((if ok then c_burst c - n else c_burst c), Some (clock w + 1000 * ttl)) []) in
  trun c (w, l) [TReplace true true; TPing; TAllow now n CtxOk] =
    ((mkW (clock w) s' true true, mkL true MExiting (rescue l)), [ok]).
Proof.
  intros H1 H2 H3 A M ttl ok s'.
  assert (S : script_of c (mkW (clock w) [] true true) now n = Some (s', ok)).
  { unfold script_of. cbn [clock rstore]. apply script_on_empty; assumption. }
  cbn [trun tstep]. rewrite (ping_recovers (mkW (clock w) [] true true) l M eq_refl).
  rewrite (reserve_redis_decides c (mkW (clock w) [] true true) (mkL true MExiting (rescue l)) now n s' ok eq_refl eq_refl S).
  reflexivity.
Qed.

(* --- the in-process limiter is the bucket of Spec.v at millisecond resolution --- *)
Section Rescue.
  Variables rate burst : Z.
  Hypothesis Hrate : 1 <= rate.
  Hypothesis Hburst : 1 <= burst.

  Definition rrel (r : rescue_st) (b : bucket) : Prop :=
    (forall now, snd b <= now -> rescue_level rate burst now r = blevel rate burst 1000 b now) /\
    match r with Some (_, last) => last <= snd b | None => True end.

  Lemma rrel_init t0 : rrel None (binit burst 1000 t0).
  Proof.
    split; [|exact I]. intros now H. unfold rescue_level, blevel, binit in *. cbn [fst snd] in *.
    assert (0 <= (now - t0) * rate) by (apply Z.mul_nonneg_nonneg; lia). lia.
  Qed.

  Lemma rescue_step r b now n : rrel r b -> snd b <= now -> 0 <= n ->
    snd (rescue_allow rate burst now n r) = snd (btake rate burst 1000 b now n) /\
    rrel (fst (rescue_allow rate burst now n r)) (fst (btake rate burst 1000 b now n)).
  Proof.
    intros [R1 R2] H N. unfold rescue_allow, btake.
    assert (E : (rate <? 0) = false) by lia. rewrite E. rewrite (R1 now H).
    set (lvl := blevel rate burst 1000 b now).
    assert (LB : lvl <= burst * 1000) by (unfold lvl, blevel; lia).
    destruct (n * 1000 <=? lvl) eqn:G.
    - assert (E2 : (n <=? burst) = true) by lia. rewrite E2. cbn [andb fst snd]. split; [reflexivity|].
      split; [|cbn [snd]; lia]. intros now' H'. unfold rescue_level, blevel. cbn [fst snd] in *.
      rewrite (Z.min_l now now') by lia. reflexivity.
    - rewrite andb_false_r. cbn [fst snd]. split; [reflexivity|]. split.
      + intros now' H'. cbn [snd] in H'. unfold blevel at 1. cbn [fst snd].
        unfold lvl. rewrite <- (R1 now H). unfold rescue_level. destruct r as [[tok last]|].
        * assert (last <= now) by lia.
          rewrite (Z.min_l last now'), (Z.min_l last now) by lia.
          assert (0 <= (now' - now) * rate) by (apply Z.mul_nonneg_nonneg; lia).
          replace ((now' - last) * rate) with ((now - last) * rate + (now' - now) * rate) by ring. lia.
        * assert (0 <= (now' - now) * rate) by (apply Z.mul_nonneg_nonneg; lia). lia.
      + destruct r as [[tok last]|]; [cbn [snd]; lia|exact I].
  Qed.

  Fixpoint rescue_run (r : rescue_st) (reqs : list (Z * Z)) : list bool :=
    match reqs with
    | [] => []
    | (now, n) :: rest => let (r', ok) := rescue_allow rate burst now n r in ok :: rescue_run r' rest
    end.

  Lemma rescue_refines reqs : forall r b, rrel r b -> mono (snd b) reqs ->
    rescue_run r reqs = brun rate burst 1000 b reqs.
  Proof.
    induction reqs as [|[now n] rest IH]; intros r b R M; [reflexivity|].
    destruct M as (M1 & M2 & M3). cbn [rescue_run brun].
    destruct (rescue_step r b now n R M1 M2) as [S1 S2].
    destruct (rescue_allow rate burst now n r) as [r' ok]. destruct (btake rate burst 1000 b now n) as [b' ok'] eqn:BT.
    cbn [fst snd] in *. subst ok'. f_equal. apply IH; [assumption|].
    assert (snd b' = now) by (unfold btake in BT; destruct (n * 1000 <=? blevel rate burst 1000 b now); inversion BT; reflexivity).
    rewrite H. assumption.
  Qed.
End Rescue.
