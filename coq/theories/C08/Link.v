(* C08 Link: what gogen regenerated from lib/limit/periodlimit.go and lib/limit/tokenlimit.go is what
   the model was transcribed from. The Lua texts are compared character by character (gogen prints a
   newline as the two characters backslash-n): any edit of a script breaks this file. *)
From Coq Require Import String.
From God Require Import Base.Prelude C08.Model C08.Spec C08.Exec.
From GodGen Require C08_Gen.
Local Open Scope Z_scope.

(* ---- the period script, line by line as transcribed in Model.period_script ---- *)
Definition period_script_text : string := (
  "local limit = tonumber(ARGV[1])\n" ++
  "local window = tonumber(ARGV[2])\n" ++
  "local current = redis.call(""INCRBY"", KEYS[1], 1)\n" ++
  "if current == 1 then\n" ++
  "    redis.call(""expire"", KEYS[1], window)\n" ++
  "end\n" ++
  "if current < limit then\n" ++
  "    return 1\n" ++
  "elseif current == limit then\n" ++
  "    return 2\n" ++
  "else\n" ++
  "    return 0\n" ++
  "end")%string.

Lemma link_periodScript : C08_Gen.periodScript = period_script_text.
Proof. reflexivity. Qed.

(* ---- the token script, line by line as transcribed in Model.token_script ---- *)
Definition token_script_text : string := (
  "local rate = tonumber(ARGV[1])\n" ++
  "local capacity = tonumber(ARGV[2])\n" ++
  "local now = tonumber(ARGV[3])\n" ++
  "local requested = tonumber(ARGV[4])\n" ++
  "local fill_time = capacity/rate\n" ++
  "local ttl = math.floor(fill_time*2)\n" ++
  "local last_tokens = tonumber(redis.call(""get"", KEYS[1]))\n" ++
  "if last_tokens == nil then\n" ++
  "    last_tokens = capacity\n" ++
  "end\n" ++
  "\n" ++
  "local last_refreshed = tonumber(redis.call(""get"", KEYS[2]))\n" ++
  "if last_refreshed == nil then\n" ++
  "    last_refreshed = 0\n" ++
  "end\n" ++
  "\n" ++
  "local delta = math.max(0, now-last_refreshed)\n" ++
  "local filled_tokens = math.min(capacity, last_tokens+(delta*rate))\n" ++
  "local allowed = filled_tokens >= requested\n" ++
  "local new_tokens = filled_tokens\n" ++
  "if allowed then\n" ++
  "    new_tokens = filled_tokens - requested\n" ++
  "end\n" ++
  "\n" ++
  "redis.call(""setex"", KEYS[1], ttl, new_tokens)\n" ++
  "redis.call(""setex"", KEYS[2], ttl, now)\n" ++
  "\n" ++
  "return allowed")%string.

Lemma link_tokenScript : C08_Gen.tokenScript = token_script_text.
Proof. reflexivity. Qed.

(* ---- constants ---- *)
Lemma link_codes :
  C08_Gen.Unknown = Model.Unknown /\ C08_Gen.Allowed = Model.Allowed /\
  C08_Gen.HitQuota = Model.HitQuota /\ C08_Gen.OverQuota = Model.OverQuota.
Proof. repeat split. Qed.

Lemma link_internal_codes :
  C08_Gen.internalOverQuota = Model.internalOverQuota /\ C08_Gen.internalAllowed = Model.internalAllowed /\
  C08_Gen.internalHitQuota = Model.internalHitQuota.
Proof. repeat split. Qed.

(* the codes of the property statement (Spec) are the exported Go constants *)
Lemma link_spec_codes :
  C08_Gen.Allowed = S_Allowed /\ C08_Gen.HitQuota = S_HitQuota /\ C08_Gen.OverQuota = S_OverQuota.
Proof. repeat split. Qed.

(* the script's return values are the internal codes that TakeCtx maps to the exported ones *)
Lemma link_code_mapping :
  map_code C08_Gen.internalAllowed = Ok C08_Gen.Allowed /\
  map_code C08_Gen.internalHitQuota = Ok C08_Gen.HitQuota /\
  map_code C08_Gen.internalOverQuota = Ok C08_Gen.OverQuota /\
  forall c q, map_code (if c <? q then C08_Gen.internalAllowed else if c =? q then C08_Gen.internalHitQuota
                        else C08_Gen.internalOverQuota) = Ok (pcode q c).
Proof.
  repeat split. intros c q. unfold pcode. destruct (c <? q); [reflexivity|]. destruct (c =? q); reflexivity.
Qed.

(* 100 ms in nanoseconds *)
Lemma link_pingInterval : C08_Gen.pingInterval = 100 * 1000000.
Proof. reflexivity. Qed.

(* the two bucket keys of one limiter are different Redis keys (hypothesis kt <> ks of the theorems) *)
Lemma link_key_formats :
  C08_Gen.tokenFormat = "{%s}.tokens"%string /\ C08_Gen.timestampFormat = "{%s}.ts"%string /\
  C08_Gen.tokenFormat <> C08_Gen.timestampFormat.
Proof. repeat split. discriminate. Qed.

(* ---- call skeletons: order of the decisions inside the Go functions the model transcribes ---- *)
Lemma link_take_calls : C08_Gen.take_calls = [
  "strconv.Itoa"; "pl.calcExpireSeconds"; "strconv.Itoa"; "pl.limitStore.EvalCtx";
  "return"; "return"; "return"; "return"; "return"; "return"]%string.
Proof. reflexivity. Qed.

(* reserveN: alive check -> rescue; EvalCtx; redis.Nil -> false; ctx errors -> false;
   other error -> startMonitor + rescue; non-integer reply -> startMonitor + rescue; code == 1 *)
Lemma link_reserve_calls : C08_Gen.reserve_calls = [
  "atomic.LoadUint32"; "tl.rescueLimiter.AllowN"; "return";
  "strconv.Itoa"; "strconv.Itoa"; "now.Unix"; "strconv.FormatInt"; "strconv.Itoa"; "tl.store.EvalCtx";
  "return";
  "errors.Is"; "errors.Is"; "logx.Errorf"; "return";
  "logx.Errorf"; "tl.startMonitor"; "tl.rescueLimiter.AllowN"; "return";
  "logx.Errorf"; "tl.startMonitor"; "tl.rescueLimiter.AllowN"; "return";
  "return"]%string.
Proof. reflexivity. Qed.

Lemma link_start_monitor_calls : C08_Gen.start_monitor_calls = [
  "tl.rescueLock.Lock"; "defer:tl.rescueLock.Unlock"; "return"; "atomic.StoreUint32"; "go:tl.waitForRedis"]%string.
Proof. reflexivity. Qed.

Lemma link_wait_for_redis_calls : C08_Gen.wait_for_redis_calls = [
  "time.NewTicker"; "defer:func"; "{"; "ticker.Stop"; "tl.rescueLock.Lock"; "tl.rescueLock.Unlock"; "}";
  "tl.store.Ping"; "atomic.StoreUint32"; "return"]%string.
Proof. reflexivity. Qed.

(* ---- the executable hypothesis check of Exec is the hypothesis of the token theorems ---- *)
Lemma token_hyp_sound rate burst t0 : token_hyp rate burst t0 = true ->
  1 <= rate /\ 1 <= burst /\ rate <= 2 * burst /\ 0 <= t0.
Proof. unfold token_hyp. lia. Qed.

(* Exec.sallow in Redis mode with a live context and Redis answering is one step of the Spec bucket *)
Lemma sallow_redis rate burst s inst n : ss_mode s inst = FRedis -> ss_eup s = true ->
  snd (fst (sallow rate burst s inst n false)) = snd (btake rate burst 1 (ss_rb s) (ss_t s / 1000) n).
Proof.
  intros M U. unfold sallow, fdecide. rewrite M, U.
  destruct (btake rate burst 1 (ss_rb s) (ss_t s / 1000) n). reflexivity.
Qed.

(* ... and in rescue mode one step of that instance's in-process bucket, whatever the context *)
Lemma sallow_rescue rate burst s inst n cd : ss_mode s inst = FRescue ->
  snd (fst (sallow rate burst s inst n cd)) = snd (btake rate burst 1000 (ss_ib s inst) (ss_t s) n).
Proof.
  intros M. unfold sallow, fdecide. rewrite M.
  destruct (btake rate burst 1000 (ss_ib s inst) (ss_t s) n). reflexivity.
Qed.

(* Exec.settle is the pair of monitor events TPing; TExit of Model.trun, for each limiter instance *)
Lemma settle_is_ping_exit c w l0 l1 : ping_up w = true ->
  settle (w, l0, l1) = (w, snd (fst (trun c (w, l0) [TPing; TExit])), snd (fst (trun c (w, l1) [TPing; TExit]))).
Proof. intro P. unfold settle. rewrite P. reflexivity. Qed.

(* Exec.xreserve on instance 0 is the TAllow step of Model.tstep *)
Lemma xreserve_is_tstep c w l0 l1 now n cx :
  xreserve c (w, l0, l1) 0 now n cx =
    (let '(st', out) := tstep c (w, l0) (TAllow now n cx) in
     ((fst st', snd st', l1), match out with Some b => b | None => false end)).
Proof. unfold xreserve, tstep. destruct (reserve c w l0 now n cx) as [[w' l'] ok]. reflexivity. Qed.
