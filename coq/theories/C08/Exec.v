(* C08 Exec: the checkers evaluated by vm_compute on (history, what the Go limiters were observed to do). *)
From God Require Import Base.Prelude C08.Model C08.Spec.
Local Open Scope Z_scope.

(* a Redis entry as read from miniredis after an operation:
   (1, value, ttl ms (0 = no expiry)) | (0, _, _) absent | (-1, _, _) not observable (listener closed) *)
Definition ent3 : Type := Z * Z * Z.

Inductive xpop :=
| XPTick (ms : Z)
  (* limiter index, key, Redis failing during the call, calcExpireSeconds() around the call;
     observed: code, error class (0 none, 1 redis error, 2 ErrUnknownCode), the key afterwards,
     [unix0; zone offset; _; unix1; _] (wall clock around the call) *)
  (* cut: the caller's context is cancelled at the moment the take reaches the server: the script runs, the
     caller sees either its answer or the context error *)
| XPTake (lim key : nat) (down cut : bool) (w : Z) (code err : Z) (ent : ent3) (exp : list Z)
  (* g goroutines, one Take each; observed: how many answered code 0..3, how many errors *)
| XPConc (lim key : nat) (g : nat) (w : Z) (counts : list Z) (errs : Z) (ent : ent3) (exp : list Z)
  (* the server is replaced by a fresh miniredis on the same address *)
| XPReplace.

(* redisAlive / monitorStarted of the two limiter instances, and the two bucket keys on the
   server that is currently listening *)
(* s_known = false: the driver could not read the switch state (the limiter's unexported fields were
   renamed): only the bucket keys are compared then *)
Record snap := mkSnap { s_known : bool; s_alive0 : bool; s_mon0 : bool; s_alive1 : bool; s_mon1 : bool; s_tok : ent3; s_ts : ent3 }.

(* inst: which of the two TokenLimiter instances (same key, rate, burst; own store wrapper) is called *)
Inductive xtop :=
| XTTick (ms : Z) (sn : snap)
| XTAllow (inst : nat) (n : Z) (cx : nat) (skew : Z) (ok : bool) (sn : snap)   (* cx: 0 live, 1 cancelled, 2 deadline passed, 3 deadline expires in flight (script not run) *)
| XTConc (inst : nat) (g : nat) (n : Z) (granted : Z) (sn : snap)
| XTFault (eup pup hard : bool) (sn : snap)
| XTReplace (eup pup : bool) (sn : snap).      (* fresh server instance answering EVAL / PING as given *)

Inductive case :=
| CPeriod (lims : list (Z * Z * bool * nat)) (t0 : Z) (ops : list xpop)  (* (period, quota, align, key prefix id) *)
| CToken (rate burst t0 : Z) (panicked : bool) (ops : list xtop).

(* ------------------------------------------------------------------ shared helpers *)
Definition kid (pfx key : nat) : nat := (pfx * 1000 + key)%nat.
Definition lim_of (lims : list (Z * Z * bool * nat)) (i : nat) : Z * Z * bool * nat := nth i lims (0, 0, false, O).

Definition ent_eqb (t : Z) (o : option entry) (e : ent3) : bool :=
  let '(p, v, ttl) := e in
  (p =? -1) ||
  match o with
  | None => p =? 0
  | Some (v', None) => (p =? 1) && (v =? v') && (ttl =? 0)
  | Some (v', Some ex) => (p =? 1) && (v =? v') && (ttl =? ex - t)
  end.

Definition res_eqb (r : result Z) (code err : Z) : bool :=
  match r with
  | Ok c => (code =? c) && (err =? 0)
  | Err e => (code =? Unknown) && (err =? Z.of_nat e)
  | Panic => false
  end.

Definition rz_eqb (a b : result Z) : bool :=
  match a, b with
  | Ok x, Ok y => x =? y
  | Err x, Err y => Nat.eqb x y
  | Panic, Panic => true
  | _, _ => false
  end.

Definition countb {A} (f : A -> bool) (l : list A) : Z := Z.of_nat (List.length (filter f l)).

Fixpoint zlist_eqb (a b : list Z) : bool :=
  match a, b with
  | [], [] => true
  | x :: r, y :: s => (x =? y) && zlist_eqb r s
  | _, _ => false
  end.

(* ------------------------------------------------------------------ period: model agreement *)
(* the window argument the Go code computed is calc_expire at one of the two sampled instants *)
Definition window_ok (align : bool) (period w : Z) (exp : list Z) : bool :=
  match exp with
  | [u0; off; _; u1; _] =>
      rz_eqb (calc_expire align period u0 off) (Ok w) || rz_eqb (calc_expire align period u1 off) (Ok w)
  | _ => false
  end.

Fixpoint pmodel (lims : list (Z * Z * bool * nat)) (st : pstate) (ops : list xpop) : bool :=
  match ops with
  | [] => true
  | XPTick ms :: r => pmodel lims (fst (pstep st (PTick ms))) r
  | XPReplace :: r => pmodel lims (fst (pstep st PReplace)) r
  | XPTake lim key down cut w code err ent exp :: r =>
      let '(period, quota, align, pfx) := lim_of lims lim in
      let k := kid pfx key in
      let (st', out) := pstep st (PTake k quota w (negb down)) in
      (* (if-then-else, not || / &&: vm_compute is call-by-value and must not explore both branches) *)
      if negb (window_ok align period w exp) then false
      else if (* the script ran (the caller of a cut take may have seen its answer or the context error) ... *)
              match out with
              | Some (_, res) => res_eqb res code err || (cut && res_eqb (Err 1%nat) code err)
              | None => false
              end &&
              ent_eqb (fst st') (rget (fst st') k (snd st')) ent
      then pmodel lims st' r
      else if (* ... or the cancelled call was torn down before the server ran it: nothing happened *)
              cut && res_eqb (Err 1%nat) code err && ent_eqb (fst st) (rget (fst st) k (snd st)) ent
      then pmodel lims st r
      else false
  | XPConc lim key g w counts errs ent exp :: r =>
      let '(period, quota, align, pfx) := lim_of lims lim in
      let k := kid pfx key in
      let takes := repeat (PTake k quota w true) g in
      let outs := map snd (prun st takes) in
      let st' := pfinal st takes in
      window_ok align period w exp &&
      zlist_eqb counts (map (fun c => countb (fun o => rz_eqb o (Ok c)) outs) [0; 1; 2; 3]) &&
      (errs =? 0) &&
      ent_eqb (fst st') (rget (fst st') k (snd st')) ent &&
      pmodel lims st' r
  end.

(* ------------------------------------------------------------------ period: the property on observations *)
(* codes only; a take during a Redis failure must simply not be reported as let through *)
Fixpoint wtakes (n : nat) (t : Z) (k : nat) (q w : Z) (ws : windows) : windows * list Z :=
  match n with
  | O => (ws, [])
  | S n' => let (ws1, c) := wtake t k q w ws in let (ws2, cs) := wtakes n' t k q w ws1 in (ws2, c :: cs)
  end.

Fixpoint pspec (lims : list (Z * Z * bool * nat)) (t : Z) (ws : windows) (ops : list xpop) : bool :=
  match ops with
  | [] => true
  | XPTick ms :: r => if ms <? 0 then true else pspec lims (t + ms) ws r
  (* a fresh server has lost every window; the limiter must simply keep working on it *)
  | XPReplace :: r => pspec lims t [] r
  | XPTake lim key down cut w code err ent exp :: r =>
      let '(period, quota, align, pfx) := lim_of lims lim in
      if period <? 1 then true
      else if down then negb (code =? S_Allowed) && negb (code =? S_HitQuota) && pspec lims t ws r
      else
        let wl := if align then w else period in
        let (ws', c) := wtake t (kid pfx key) quota wl ws in
        if negb ((1 <=? wl) && (wl <=? period)) then false
        else if (err =? 0) && (code =? c) then pspec lims t ws' r
        else if cut && negb (err =? 0) && negb (code =? S_Allowed) && negb (code =? S_HitQuota) then
          (* the caller gave up: no admission; its take counts if the server still ran it, else not *)
          (if pspec lims t ws' r then true else pspec lims t ws r)
        else false
  | XPConc lim key g w counts errs ent exp :: r =>
      let '(period, quota, align, pfx) := lim_of lims lim in
      if period <? 1 then true
      else
        let wl := if align then w else period in
        let (ws', cs) := wtakes g t (kid pfx key) quota wl ws in
        (errs =? 0) &&
        zlist_eqb counts (map (fun c => countb (Z.eqb c) cs) [0; 1; 2; 3]) &&
        pspec lims t ws' r
  end.

(* ------------------------------------------------------------------ token: model agreement *)
Definition ctx_of (n : nat) : ctxs :=
  match n with O => CtxOk | S O => CtxCanceled | S (S O) => CtxDeadline | _ => CtxInFlight false end.

(* two limiter instances over one Redis *)
Definition xstate : Type := world * limiter * limiter.

(* the driver lets the monitor goroutines finish whenever PING is answered: TPing; TExit for each *)
Definition settle (st : xstate) : xstate :=
  let '(w, l0, l1) := st in
  if ping_up w then (w, monitor_exit (ping w l0), monitor_exit (ping w l1)) else st.

(* a world-only event (TTick / TFault / TReplace) as Model.tstep performs it *)
Definition wstep (c : tcfg) (st : xstate) (e : tev) : xstate :=
  let '(w, l0, l1) := st in (fst (fst (tstep c (w, l0) e)), l0, l1).

Definition xreserve (c : tcfg) (st : xstate) (inst : nat) (now n : Z) (cx : ctxs) : xstate * bool :=
  let '(w, l0, l1) := st in
  match inst with
  | O => let '(w', l', ok) := reserve c w l0 now n cx in ((w', l', l1), ok)
  | _ => let '(w', l', ok) := reserve c w l1 now n cx in ((w', l0, l'), ok)
  end.

Fixpoint xreserves (g : nat) (c : tcfg) (st : xstate) (inst : nat) (now n : Z) : xstate * Z :=
  match g with
  | O => (st, 0)
  | S g' => let (st1, ok) := xreserve c st inst now n CtxOk in
            let (st2, k) := xreserves g' c st1 inst now n in (st2, if ok then k + 1 else k)
  end.

Definition mon_started (l : limiter) : bool := match monitor l with MIdle => false | _ => true end.

Definition snap_ok (c : tcfg) (st : xstate) (sn : snap) : bool :=
  let '(w, l0, l1) := st in
  (negb (s_known sn) ||
   (Bool.eqb (alive l0) (s_alive0 sn) && Bool.eqb (mon_started l0) (s_mon0 sn) &&
    Bool.eqb (alive l1) (s_alive1 sn) && Bool.eqb (mon_started l1) (s_mon1 sn))) &&
  ent_eqb (clock w) (rget (clock w) (c_ktok c) (rstore w)) (s_tok sn) &&
  ent_eqb (clock w) (rget (clock w) (c_kts c) (rstore w)) (s_ts sn).

Definition xclock (st : xstate) : Z := clock (fst (fst st)).

Fixpoint tmodel (c : tcfg) (st : xstate) (ops : list xtop) : bool :=
  match ops with
  | [] => true
  | XTTick ms sn :: r =>
      let st' := settle (wstep c st (TTick ms)) in
      snap_ok c st' sn && tmodel c st' r
  | XTAllow inst n cx skew ok sn :: r =>
      let (st1, b) := xreserve c st inst (xclock st + skew) n (ctx_of cx) in
      let st' := settle st1 in
      Bool.eqb b ok && snap_ok c st' sn && tmodel c st' r
  | XTConc inst g n granted sn :: r =>
      let (st1, k) := xreserves g c st inst (xclock st) n in
      let st' := settle st1 in
      (k =? granted) && snap_ok c st' sn && tmodel c st' r
  | XTFault eup pup hard sn :: r =>
      let st' := settle (wstep c st (TFault eup pup)) in
      snap_ok c st' sn && tmodel c st' r
  | XTReplace eup pup sn :: r =>
      let st' := settle (wstep c st (TReplace eup pup)) in
      snap_ok c st' sn && tmodel c st' r
  end.

(* ------------------------------------------------------------------ token: the property on observations *)
(* Redis bucket (shared), and per limiter instance its mode and in-process bucket *)
Record sst := mkS {
  ss_t : Z; ss_rb : bucket; ss_eup : bool; ss_pup : bool;
  ss_m0 : fmode; ss_ib0 : bucket; ss_m1 : fmode; ss_ib1 : bucket;
  ss_log : list (Z * Z * bool)          (* decisions taken by the Redis bucket, newest first: (second, n, granted) *)
}.

Definition ss_world (s : sst) (t : Z) (rb : bucket) (eup pup : bool) : sst :=
  mkS t rb eup pup (ss_m0 s) (ss_ib0 s) (ss_m1 s) (ss_ib1 s) (ss_log s).

(* an answered ping brings every instance back to Redis *)
Definition ssettle (s : sst) : sst :=
  if ss_pup s then mkS (ss_t s) (ss_rb s) (ss_eup s) (ss_pup s) (fpong (ss_m0 s)) (ss_ib0 s) (fpong (ss_m1 s)) (ss_ib1 s) (ss_log s)
  else s.

Definition ss_mode (s : sst) (inst : nat) : fmode := match inst with O => ss_m0 s | _ => ss_m1 s end.
Definition ss_ib (s : sst) (inst : nat) : bucket := match inst with O => ss_ib0 s | _ => ss_ib1 s end.
Definition ss_set (s : sst) (inst : nat) (m : fmode) (ib : bucket) (rb : bucket) (log : list (Z * Z * bool)) : sst :=
  match inst with
  | O => mkS (ss_t s) rb (ss_eup s) (ss_pup s) m ib (ss_m1 s) (ss_ib1 s) log
  | _ => mkS (ss_t s) rb (ss_eup s) (ss_pup s) (ss_m0 s) (ss_ib0 s) m ib log
  end.

(* one request of instance inst: who decides, the expected decision and the state afterwards *)
Definition sallow (rate burst : Z) (s : sst) (inst : nat) (n : Z) (ctx_done : bool) : sst * bool * fsource :=
  let (src, m') := fdecide (ss_mode s inst) ctx_done (ss_eup s) in
  match src with
  | Refused => (s, false, src)
  | FromRedis =>
      let sec := ss_t s / 1000 in
      let (b', d) := btake rate burst 1 (ss_rb s) sec n in
      (ss_set s inst m' (ss_ib s inst) b' ((sec, n, d) :: ss_log s), d, src)
  | FromRescue =>
      let (b', d) := btake rate burst 1000 (ss_ib s inst) (ss_t s) n in
      (ss_set s inst m' b' (ss_rb s) (ss_log s), d, src)
  end.

Fixpoint sallows (g : nat) (rate burst : Z) (s : sst) (inst : nat) (n : Z) : sst * Z :=
  match g with
  | O => (s, 0)
  | S g' => let '(s1, d, _) := sallow rate burst s inst n false in
            let (s2, k) := sallows g' rate burst s1 inst n in (s2, if d then k + 1 else k)
  end.

(* a decision of the Redis bucket leaves the level and the second in the two bucket keys of the
   server that answered (in particular of a server that has just replaced the old one) *)
Definition keys_ok (s : sst) (sn : snap) : bool :=
  let '(p1, v1, _) := s_tok sn in
  let '(p2, v2, _) := s_ts sn in
  ((p1 =? -1) || ((p1 =? 1) && (v1 =? fst (ss_rb s)))) &&
  ((p2 =? -1) || ((p2 =? 1) && (v2 =? snd (ss_rb s)))).

(* events let through from second s0 on never exceed burst + rate * elapsed seconds *)
Fixpoint bound_from (rate burst s0 acc : Z) (evs : list (Z * Z * bool)) : bool :=
  match evs with
  | [] => true
  | (s, n, ok) :: r =>
      let acc' := if ok then acc + n else acc in
      (acc' <=? burst + rate * (s - s0)) && bound_from rate burst s0 acc' r
  end.

Fixpoint bound_ok (rate burst : Z) (evs : list (Z * Z * bool)) : bool :=
  match evs with
  | [] => true
  | (s, n, ok) :: r => bound_from rate burst s 0 evs && bound_ok rate burst r
  end.

(* None: a hypothesis of the property does not hold for the rest of the history (skewed caller clock,
   negative step or request): nothing is claimed. A replaced server starts with a full bucket and its
   own admission log (the bound is per server: the lost server's grants are not the new one's). *)
Fixpoint tspec (rate burst : Z) (s : sst) (ops : list xtop) : option (bool * sst) :=
  match ops with
  | [] => Some (bound_ok rate burst (rev (ss_log s)), s)
  | XTTick ms sn :: r =>
      if ms <? 0 then None
      else tspec rate burst (ssettle (ss_world s (ss_t s + ms) (ss_rb s) (ss_eup s) (ss_pup s))) r
  | XTAllow inst n cx skew ok sn :: r =>
      if (n <? 0) || negb (skew =? 0) then None
      else
        let '(s1, d, src) := sallow rate burst s inst n (negb (Nat.eqb cx 0)) in
        if Bool.eqb d ok && (match src with FromRedis => keys_ok s1 sn | _ => true end)
        then tspec rate burst (ssettle s1) r else Some (false, s1)
  | XTConc inst g n granted sn :: r =>
      if n <? 0 then None
      else
        let (s1, k) := sallows g rate burst s inst n in
        if k =? granted then tspec rate burst (ssettle s1) r else Some (false, s1)
  | XTFault eup pup hard sn :: r =>
      tspec rate burst (ssettle (ss_world s (ss_t s) (ss_rb s) eup pup)) r
  | XTReplace eup pup sn :: r =>
      if bound_ok rate burst (rev (ss_log s)) then
        let s0 := ss_world s (ss_t s) (binit burst 1 (ss_t s / 1000)) eup pup in
        tspec rate burst (ssettle (mkS (ss_t s0) (ss_rb s0) eup pup (ss_m0 s) (ss_ib0 s) (ss_m1 s) (ss_ib1 s) [])) r
      else Some (false, s)
  end.

(* at every quiescent point each limiter is alive or has a monitor running that will bring it back
   (never "on the rescue path and nobody pinging") *)
Definition snap_of (o : xtop) : snap :=
  match o with
  | XTTick _ sn => sn | XTAllow _ _ _ _ _ sn => sn | XTConc _ _ _ _ sn => sn | XTFault _ _ _ sn => sn | XTReplace _ _ sn => sn
  end.
Definition snap_inv (sn : snap) : bool :=
  negb (s_known sn) || ((s_alive0 sn || s_mon0 sn) && (s_alive1 sn || s_mon1 sn)).

Definition token_hyp (rate burst t0 : Z) : bool :=
  (1 <=? rate) && (1 <=? burst) && (rate <=? 2 * burst) && (0 <=? t0).

(* ------------------------------------------------------------------ the two checkers *)
Definition cfg_of (rate burst : Z) : tcfg := mkC rate burst 0%nat 1%nat.

Definition model_ok (c : case) : bool :=
  match c with
  | CPeriod lims t0 ops => pmodel lims (t0, []) ops
  | CToken rate burst t0 panicked ops =>
      let cf := cfg_of rate burst in
      match new_limiter cf with
      | Panic => panicked
      | Err _ => false
      | Ok l => negb panicked && tmodel cf (mkW t0 [] true true, l, l) ops
      end
  end.

Definition spec_ok (c : case) : bool :=
  match c with
  | CPeriod lims t0 ops => pspec lims t0 [] ops
  | CToken rate burst t0 panicked ops =>
      if token_hyp rate burst t0 then
        negb panicked && forallb (fun o => snap_inv (snap_of o)) ops &&
        match tspec rate burst (mkS t0 (binit burst 1 (t0 / 1000)) true true FRedis (binit burst 1000 t0)
                                    FRedis (binit burst 1000 t0) []) ops with
        | None => true
        | Some (ok, s) => ok
        end
      else true
  end.

(* labels for the input distribution: does the case satisfy the hypotheses of the token theorems *)
Definition hyp_ok (c : case) : bool :=
  match c with
  | CPeriod lims t0 ops => forallb (fun l => 1 <=? fst (fst (fst l))) lims
  | CToken rate burst t0 _ _ => token_hyp rate burst t0
  end.
