(* C16 Model: lib/executors/periodicalexecutor.go (+ bulkexecutor.go / chunkexecutor.go containers,
   lib/syncx/barrier.go) as a labelled transition system at the granularity of the synchronisation
   actions.  Executable definitions only.

   Tasks are unique identifiers (nat); `sz` gives the byte size a chunk task carries.
   A thread is a caller (Add / Flush / Wait, any number of them) or a background flusher goroutine
   (appended to the pool by `go`).  A label is (thread, action); a schedule is a list of labels;
   `step = None` means the thread is blocked / the action is not enabled.

   Granularity.  A critical section of pe.lock is two steps: acquiring the mutex, and the body
   together with the Unlock (everything the body touches is protected by the mutex, except
   pe.inflight which the flusher decrements atomically outside: increments and decrements commute).
   wgBarrier.Guard(wg.Add(1)) is one step (enabled when the barrier mutex is free);
   wgBarrier.Guard(wg.Wait) is two: acquire the barrier, then return when the counter is zero.
   pe.commander is a 1-buffered channel (an option), pe.confirmChan is unbuffered (a joint step of
   the flusher with the receiving adder).  Reads of the clock are steps of their own. *)
From God Require Import Base.Prelude.
Local Open Scope Z_scope.

(* ---------- containers: bulkexecutor.go:81-101, chunkexecutor.go:85-110 ---------- *)
Record config := mkcfg {
  chunk : bool;          (* false: bulkContainer, true: chunkContainer *)
  maxv : Z;              (* maxTasks / maxChunkSize *)
  sz : nat -> Z;         (* chunk.size of a task *)
  interval : Z           (* flush interval, ns *)
}.

Record container := mkcont { c_tasks : list nat; c_size : Z }.

Definition empty_cont : container := mkcont [] 0.

(* bulk:  bc.tasks = append(bc.tasks, task); return len(bc.tasks) >= bc.maxTasks
   chunk: bc.tasks = append(..); bc.size += ck.size; return bc.size >= bc.maxChunkSize *)
Definition bulk_full {A} (maxTasks : Z) (tasks : list A) : bool := Z.of_nat (length tasks) >=? maxTasks.
Definition chunk_full (maxChunk : Z) (size : Z) : bool := size >=? maxChunk.

Definition add_task (cf : config) (c : container) (x : nat) : container * bool :=
  let ts := c_tasks c ++ [x] in
  if chunk cf then
    let size := c_size c + sz cf x in (mkcont ts size, chunk_full (maxv cf) size)
  else (mkcont ts (c_size c), bulk_full (maxv cf) ts).

(* tasks := bc.tasks; bc.tasks = nil; (chunk: bc.size = 0); return tasks *)
Definition remove_all (cf : config) (c : container) : list nat * container :=
  (c_tasks c, mkcont [] (if chunk cf then 0 else c_size c)).

(* hasTasks (periodicalexecutor.go:118-131) on the []any the two containers return *)
Definition has_tasks (b : list nat) : bool := match b with [] => false | _ => true end.

Definition idle_round : Z := 10.     (* const idleRound, periodicalexecutor.go:15 *)

(* ---------- threads ---------- *)
(* who called pe.Flush(), i.e. where it returns to *)
Inductive kont :=
| KRet                          (* external Flush() *)
| KWait (snap : list nat)       (* Wait(); snap (ghost) = Adds that had returned when Wait was called *)
| KTick (last : Z)              (* the flusher's tick arm *)
| KExit.                        (* the flusher's deferred Flush *)

(* inside Flush (periodicalexecutor.go:73-80) and executeTasks (103-112) *)
Inductive fpc :=
| L1                            (* enterExecution: wgBarrier.Guard(wg.Add(1)) *)
| L2                            (* pe.lock.Lock() *)
| L3                            (* RemoveAll(); Unlock() *)
| L4 (b : list nat)             (* hasTasks(b) => container.Execute(b) *)
| L5 (ok : bool).               (* deferred doneExecution: wg.Done(); return ok *)

Inductive thread :=
| TIdle                                    (* caller outside any call *)
(* Add = addAndCheck (133-149) ; commander <- values ; <-confirmChan (65-70) *)
| TA1 (x : nat)                            (* pe.lock.Lock() *)
| TA2 (x : nat)                            (* AddTask; threshold => inflight++, RemoveAll; deferred: guarded test/set; Unlock *)
| TA3 (x : nat) (ob : option (list nat))   (* deferred pe.backgroundFlush(): go ... *)
| TA4 (x : nat) (b : list nat)             (* pe.commander <- values *)
| TA5 (x : nat)                            (* <-pe.confirmChan *)
| TFl (k : kont) (pc : fpc)                (* inside pe.Flush() *)
| TW2 (snap : list nat)                    (* Wait: wgBarrier.lock.Lock() *)
| TW3 (snap : list nat)                    (* Wait: waitGroup.Wait(); barrier Unlock *)
(* backgroundFlush goroutine (151-181) *)
| TF0                                      (* ticker := newTicker; last := timex.Now() *)
| TFSel (commanded : bool) (last : Z)      (* select *)
| TFC1 (b : list nat) (last : Z)           (* commanded = true; atomic.AddInt32(&inflight, -1) *)
| TFC2 (b : list nat) (last : Z)           (* enterExecution *)
| TFC3 (b : list nat) (last : Z)           (* confirmChan <- Placeholder *)
| TFC4 (b : list nat) (last : Z)           (* executeTasks: hasTasks => Execute *)
| TFC5                                     (* deferred doneExecution *)
| TFC6                                     (* last = timex.Now() *)
| TFT1                                     (* Flush() returned true: last = timex.Now() *)
| TFQ1 (last : Z)                          (* shallQuit: timex.Since(last) <= interval*idleRound ? *)
| TFQ2 (last : Z)                          (* pe.lock.Lock() *)
| TFQ3 (last : Z)                          (* inflight == 0 => guarded = false, stop; Unlock *)
| TFX0                                     (* return: deferred ticker.Stop() (then the deferred Flush) *)
| TDead.                                   (* goroutine finished *)

Inductive op := OAdd (x : nat) | OFlush | OWait.

Inductive action :=
| ACall (o : op)       (* an idle caller starts a call *)
| AGo                  (* the thread's next program step *)
| ASelCmd              (* flusher's select: case tasks := <-pe.commander *)
| ASelTick             (* flusher's select: case <-ticker.Chan() (the environment may tick at any time) *)
| AConfirm (j : nat).  (* flusher's send on confirmChan, received by adder j *)

Inductive label :=
| LT (i : nat) (a : action)
| LAdvance (d : Z).    (* the clock moves on by d >= 0 *)

Record state := mkst {
  s_lock : option nat;          (* pe.lock owner *)
  s_barrier : option nat;       (* pe.wgBarrier.lock owner *)
  s_cont : container;           (* pe.container *)
  s_cmd : option (list nat);    (* pe.commander (capacity 1) *)
  s_inflight : Z;               (* pe.inflight *)
  s_guarded : bool;             (* pe.guarded *)
  s_wg : nat;                   (* pe.waitGroup counter *)
  s_now : Z;                    (* timex.Now() *)
  s_threads : list thread;
  s_executed : list (list nat); (* batches handed to the execute function, oldest first *)
  s_panicked : bool;            (* negative WaitGroup counter *)
  (* ghost *)
  s_added : list nat;           (* tasks in the order of their AddTask *)
  s_issued : list nat;          (* task ids ever passed to Add *)
  s_returned : list nat         (* tasks whose Add has returned *)
}.

Definition init (ncallers : nat) (t0 : Z) : state :=
  mkst None None empty_cont None 0 false 0 t0 (repeat TIdle ncallers) [] false [] [] [].

(* field setters *)
Definition set_lock v s := mkst v (s_barrier s) (s_cont s) (s_cmd s) (s_inflight s) (s_guarded s) (s_wg s) (s_now s) (s_threads s) (s_executed s) (s_panicked s) (s_added s) (s_issued s) (s_returned s).
Definition set_barrier v s := mkst (s_lock s) v (s_cont s) (s_cmd s) (s_inflight s) (s_guarded s) (s_wg s) (s_now s) (s_threads s) (s_executed s) (s_panicked s) (s_added s) (s_issued s) (s_returned s).
Definition set_cont v s := mkst (s_lock s) (s_barrier s) v (s_cmd s) (s_inflight s) (s_guarded s) (s_wg s) (s_now s) (s_threads s) (s_executed s) (s_panicked s) (s_added s) (s_issued s) (s_returned s).
Definition set_cmd v s := mkst (s_lock s) (s_barrier s) (s_cont s) v (s_inflight s) (s_guarded s) (s_wg s) (s_now s) (s_threads s) (s_executed s) (s_panicked s) (s_added s) (s_issued s) (s_returned s).
Definition set_inflight v s := mkst (s_lock s) (s_barrier s) (s_cont s) (s_cmd s) v (s_guarded s) (s_wg s) (s_now s) (s_threads s) (s_executed s) (s_panicked s) (s_added s) (s_issued s) (s_returned s).
Definition set_guarded v s := mkst (s_lock s) (s_barrier s) (s_cont s) (s_cmd s) (s_inflight s) v (s_wg s) (s_now s) (s_threads s) (s_executed s) (s_panicked s) (s_added s) (s_issued s) (s_returned s).
Definition set_wg v s := mkst (s_lock s) (s_barrier s) (s_cont s) (s_cmd s) (s_inflight s) (s_guarded s) v (s_now s) (s_threads s) (s_executed s) (s_panicked s) (s_added s) (s_issued s) (s_returned s).
Definition set_now v s := mkst (s_lock s) (s_barrier s) (s_cont s) (s_cmd s) (s_inflight s) (s_guarded s) (s_wg s) v (s_threads s) (s_executed s) (s_panicked s) (s_added s) (s_issued s) (s_returned s).
Definition set_threads v s := mkst (s_lock s) (s_barrier s) (s_cont s) (s_cmd s) (s_inflight s) (s_guarded s) (s_wg s) (s_now s) v (s_executed s) (s_panicked s) (s_added s) (s_issued s) (s_returned s).
Definition set_executed v s := mkst (s_lock s) (s_barrier s) (s_cont s) (s_cmd s) (s_inflight s) (s_guarded s) (s_wg s) (s_now s) (s_threads s) v (s_panicked s) (s_added s) (s_issued s) (s_returned s).
Definition set_panicked v s := mkst (s_lock s) (s_barrier s) (s_cont s) (s_cmd s) (s_inflight s) (s_guarded s) (s_wg s) (s_now s) (s_threads s) (s_executed s) v (s_added s) (s_issued s) (s_returned s).
Definition set_added v s := mkst (s_lock s) (s_barrier s) (s_cont s) (s_cmd s) (s_inflight s) (s_guarded s) (s_wg s) (s_now s) (s_threads s) (s_executed s) (s_panicked s) v (s_issued s) (s_returned s).
Definition set_issued v s := mkst (s_lock s) (s_barrier s) (s_cont s) (s_cmd s) (s_inflight s) (s_guarded s) (s_wg s) (s_now s) (s_threads s) (s_executed s) (s_panicked s) (s_added s) v (s_returned s).
Definition set_returned v s := mkst (s_lock s) (s_barrier s) (s_cont s) (s_cmd s) (s_inflight s) (s_guarded s) (s_wg s) (s_now s) (s_threads s) (s_executed s) (s_panicked s) (s_added s) (s_issued s) v.

Fixpoint upd {A} (i : nat) (a : A) (l : list A) : list A :=
  match l, i with
  | [], _ => []
  | _ :: r, O => a :: r
  | b :: r, S i' => b :: upd i' a r
  end.

Definition set_thr (i : nat) (t : thread) (s : state) : state := set_threads (upd i t (s_threads s)) s.
Definition spawn (t : thread) (s : state) : state := set_threads (s_threads s ++ [t]) s.

Definition mem (x : nat) (l : list nat) : bool := existsb (Nat.eqb x) l.

(* executeTasks' body: ok := hasTasks(b); if ok { container.Execute(b) } *)
Definition do_execute (b : list nat) (s : state) : state :=
  if has_tasks b then set_executed (s_executed s ++ [b]) s else s.

(* wg.Done(): panics when the counter would become negative *)
Definition do_done (s : state) : state :=
  match s_wg s with
  | O => set_panicked true s
  | S n => set_wg n s
  end.

(* where Flush returns to *)
Definition flush_return (k : kont) (ok : bool) : thread :=
  match k with
  | KRet => TIdle
  | KWait snap => TW2 snap
  | KTick last => if ok then TFT1 else TFQ1 last
  | KExit => TDead
  end.

Definition free (m : option nat) : bool := match m with None => true | Some _ => false end.

(* ---------- one step of thread i ---------- *)
Definition step_thread (cf : config) (s : state) (i : nat) (t : thread) (a : action) : option state :=
  match t, a with
  (* calls *)
  | TIdle, ACall (OAdd x) =>
      if mem x (s_issued s) then None          (* task ids are unique *)
      else Some (set_issued (x :: s_issued s) (set_thr i (TA1 x) s))
  | TIdle, ACall OFlush => Some (set_thr i (TFl KRet L1) s)
  | TIdle, ACall OWait => Some (set_thr i (TFl (KWait (s_returned s)) L1) s)
  (* addAndCheck *)
  | TA1 x, AGo =>
      if free (s_lock s) then Some (set_lock (Some i) (set_thr i (TA2 x) s)) else None
  | TA2 x, AGo =>
      let c1 := fst (add_task cf (s_cont s) x) in
      (* the deferred func runs last: if !guarded { guarded = true; defer backgroundFlush() }; Unlock *)
      let s1 := set_lock None (set_added (s_added s ++ [x]) s) in
      if snd (add_task cf (s_cont s) x) then
        (* atomic.AddInt32(&pe.inflight, 1); return pe.container.RemoveAll(), true *)
        let vals := fst (remove_all cf c1) in
        let s2 := set_cont (snd (remove_all cf c1)) (set_inflight (s_inflight s + 1) s1) in
        if s_guarded s then Some (set_thr i (TA4 x vals) s2)
        else Some (set_guarded true (set_thr i (TA3 x (Some vals)) s2))
      else
        let s2 := set_cont c1 s1 in
        if s_guarded s then Some (set_returned (x :: s_returned s) (set_thr i TIdle s2))
        else Some (set_guarded true (set_thr i (TA3 x None) s2))
  | TA3 x ob, AGo =>
      let s1 := spawn TF0 s in
      match ob with
      | Some vals => Some (set_thr i (TA4 x vals) s1)
      | None => Some (set_returned (x :: s_returned s1) (set_thr i TIdle s1))
      end
  | TA4 x vals, AGo =>
      match s_cmd s with
      | None => Some (set_cmd (Some vals) (set_thr i (TA5 x) s))
      | Some _ => None
      end
  (* Flush / executeTasks *)
  | TFl k L1, AGo =>
      if free (s_barrier s) then Some (set_wg (S (s_wg s)) (set_thr i (TFl k L2) s)) else None
  | TFl k L2, AGo =>
      if free (s_lock s) then Some (set_lock (Some i) (set_thr i (TFl k L3) s)) else None
  | TFl k L3, AGo =>
      Some (set_lock None (set_cont (snd (remove_all cf (s_cont s)))
                                    (set_thr i (TFl k (L4 (fst (remove_all cf (s_cont s))))) s)))
  | TFl k (L4 b), AGo => Some (do_execute b (set_thr i (TFl k (L5 (has_tasks b))) s))
  | TFl k (L5 ok), AGo => Some (do_done (set_thr i (flush_return k ok) s))
  (* Wait *)
  | TW2 snap, AGo =>
      if free (s_barrier s) then Some (set_barrier (Some i) (set_thr i (TW3 snap) s)) else None
  | TW3 snap, AGo =>
      match s_wg s with
      | O => Some (set_barrier None (set_thr i TIdle s))
      | S _ => None
      end
  (* backgroundFlush *)
  | TF0, AGo => Some (set_thr i (TFSel false (s_now s)) s)
  | TFSel c last, ASelCmd =>
      match s_cmd s with
      | Some b => Some (set_cmd None (set_thr i (TFC1 b last) s))
      | None => None
      end
  | TFSel c last, ASelTick =>
      if c then Some (set_thr i (TFSel false last) s)
      else Some (set_thr i (TFl (KTick last) L1) s)
  | TFC1 b last, AGo => Some (set_inflight (s_inflight s - 1) (set_thr i (TFC2 b last) s))
  | TFC2 b last, AGo =>
      if free (s_barrier s) then Some (set_wg (S (s_wg s)) (set_thr i (TFC3 b last) s)) else None
  | TFC3 b last, AConfirm j =>
      match nth_error (s_threads s) j with
      | Some (TA5 x) =>
          Some (set_returned (x :: s_returned s) (set_thr j TIdle (set_thr i (TFC4 b last) s)))
      | _ => None
      end
  | TFC4 b last, AGo => Some (do_execute b (set_thr i TFC5 s))
  | TFC5, AGo => Some (do_done (set_thr i TFC6 s))
  | TFC6, AGo => Some (set_thr i (TFSel true (s_now s)) s)
  | TFT1, AGo => Some (set_thr i (TFSel false (s_now s)) s)
  | TFQ1 last, AGo =>
      if s_now s - last <=? interval cf * idle_round
      then Some (set_thr i (TFSel false last) s)
      else Some (set_thr i (TFQ2 last) s)
  | TFQ2 last, AGo =>
      if free (s_lock s) then Some (set_lock (Some i) (set_thr i (TFQ3 last) s)) else None
  | TFQ3 last, AGo =>
      if s_inflight s =? 0
      then Some (set_lock None (set_guarded false (set_thr i TFX0 s)))
      else Some (set_lock None (set_thr i (TFSel false last) s))
  | TFX0, AGo => Some (set_thr i (TFl KExit L1) s)
  | _, _ => None
  end.

Definition step (cf : config) (s : state) (l : label) : option state :=
  match l with
  | LT i a =>
      match nth_error (s_threads s) i with
      | Some t => step_thread cf s i t a
      | None => None
      end
  | LAdvance d => if 0 <=? d then Some (set_now (s_now s + d) s) else None
  end.

Fixpoint run (cf : config) (sched : list label) (s : state) : option state :=
  match sched with
  | [] => Some s
  | l :: r => match step cf s l with Some s' => run cf r s' | None => None end
  end.

(* ---------- sequential histories: each operation runs to quiescence before the next ----------
   A deterministic scheduler over the same `step`: after the operation's first label, repeatedly
   take the first enabled internal step (callers before flushers, by thread index); ticks and
   clock advances only happen as script operations. *)
Definition first_waiting_adder (ts : list thread) : option nat :=
  (fix go (l : list thread) (j : nat) : option nat :=
     match l with
     | [] => None
     | TA5 _ :: _ => Some j
     | _ :: r => go r (S j)
     end) ts 0%nat.

Definition internal_action (s : state) (t : thread) : option action :=
  match t with
  | TIdle | TDead => None
  | TFSel _ _ => match s_cmd s with Some _ => Some ASelCmd | None => None end
  | TFC3 _ _ => match first_waiting_adder (s_threads s) with Some j => Some (AConfirm j) | None => None end
  | _ => Some AGo
  end.

Definition next_internal (cf : config) (s : state) : option state :=
  (fix go (l : list thread) (i : nat) : option state :=
     match l with
     | [] => None
     | t :: r =>
         match internal_action s t with
         | Some a => match step cf s (LT i a) with Some s' => Some s' | None => go r (S i) end
         | None => go r (S i)
         end
     end) (s_threads s) 0%nat.

Fixpoint settle (cf : config) (fuel : nat) (s : state) : state :=
  match fuel with
  | O => s
  | S f => match next_internal cf s with Some s' => settle cf f s' | None => s end
  end.

Definition first_selecting (ts : list thread) : option nat :=
  (fix go (l : list thread) (j : nat) : option nat :=
     match l with
     | [] => None
     | TFSel _ _ :: _ => Some j
     | _ :: r => go r (S j)
     end) ts 0%nat.

Inductive sop :=
| SAdd (x : nat) | STick | SAdvance (d : Z) | SFlush | SWait
| SRaceTick (x : nat).   (* Add x holds pe.lock (inside AddTask) while the flusher takes a tick *)

Definition fuel_per_op : nat := 80.

Definition try_step (cf : config) (s : state) (l : label) : state :=
  match step cf s l with Some s' => s' | None => s end.

(* returns the new state and whether a tick was delivered to a live flusher *)
Definition seq_step (cf : config) (s : state) (o : sop) : state * bool :=
  match o with
  | SAdd x => (settle cf fuel_per_op (try_step cf s (LT 0 (ACall (OAdd x)))), false)
  | SFlush => (settle cf fuel_per_op (try_step cf s (LT 0 (ACall OFlush))), false)
  | SWait => (settle cf fuel_per_op (try_step cf s (LT 0 (ACall OWait))), false)
  | SAdvance d => (try_step cf s (LAdvance d), false)
  | STick =>
      match first_selecting (s_threads s) with
      | Some i => (settle cf fuel_per_op (try_step cf s (LT i ASelTick)), true)
      | None => (s, false)
      end
  | SRaceTick x =>
      let s1 := try_step cf (try_step cf s (LT 0 (ACall (OAdd x)))) (LT 0 AGo) in   (* Lock *)
      match first_selecting (s_threads s1) with
      | Some i => (settle cf fuel_per_op (try_step cf s1 (LT i ASelTick)), true)
      | None => (settle cf fuel_per_op s1, false)
      end
  end.

Definition count_dead (ts : list thread) : nat :=
  length (filter (fun t => match t with TDead => true | _ => false end) ts).

(* ---------- stat.Metrics report delivery (metrics.go: log -> writeReport) ----------
   Every Execute of every Metrics instance of the process ends in writeReport: writeLock.Lock()
   (blocks while another report is being written or SetReportWriter runs), reportWriter.Write(report),
   Unlock.  One thread per report. *)
Inductive wpc :=
| WWant (r : nat)      (* about to writeLock.Lock() with report r in hand *)
| WHold (r : nat)      (* holds writeLock: reportWriter.Write(r); Unlock *)
| WSet                 (* SetReportWriter: holds writeLock; Unlock *)
| WWantSet             (* SetReportWriter: about to Lock *)
| WDone.

Record wstate := mkw { w_lock : option nat; w_thr : list wpc; w_out : list nat }.

Definition wstep (s : wstate) (i : nat) : option wstate :=
  match nth_error (w_thr s) i with
  | Some (WWant r) =>
      if free (w_lock s) then Some (mkw (Some i) (upd i (WHold r) (w_thr s)) (w_out s)) else None
  | Some (WHold r) => Some (mkw None (upd i WDone (w_thr s)) (w_out s ++ [r]))
  | Some WWantSet =>
      if free (w_lock s) then Some (mkw (Some i) (upd i WSet (w_thr s)) (w_out s)) else None
  | Some WSet => Some (mkw None (upd i WDone (w_thr s)) (w_out s))
  | _ => None
  end.

Fixpoint wrun (sched : list nat) (s : wstate) : option wstate :=
  match sched with
  | [] => Some s
  | i :: r => match wstep s i with Some s' => wrun r s' | None => None end
  end.

(* ---------- LessExecutor.DoOrDiscard (lessexecutor.go:24-34) ----------
   now := timex.Now(); lastTime := le.lastTime.Load() (0 = never executed);
   lastTime == 0 || lastTime+threshold < now  =>  lastTime = now, execute, true;  else false *)
Definition less_step (thr : Z) (last now : Z) : bool * Z :=
  if (last =? 0) || (last + thr <? now) then (true, now) else (false, last).
