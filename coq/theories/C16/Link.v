(* C16 Link: the regenerated constant and synchronisation skeletons of lib/executors (and
   lib/syncx/barrier.go) are the ones the LTS of C16.Model was transcribed from; the executable
   checkers of C16.Exec agree with the Spec predicates. *)
From God Require Import Base.Prelude C16.Spec C16.Model C16.Proofs C16.Exec.
From GodGen Require C16_Gen.
From Coq Require Import String.
Local Open Scope Z_scope.

(* const idleRound = 10: the flusher quits only after more than 10 idle intervals (TFQ1) *)
Lemma link_idleRound : C16_Gen.idleRound = idle_round /\ C16_Gen.idleRound = 10.
Proof. split; reflexivity. Qed.

(* Add: TA1-TA3 (addAndCheck), TA4 (send on commander), TA5 (recv confirmChan) *)
Lemma link_sk_Add : C16_Gen.sk_Add =
  ["pe.addAndCheck"; "send:pe.commander"; "recv:pe.confirmChan"]%string.
Proof. reflexivity. Qed.

(* addAndCheck: Lock (TA1); deferred func {deferred backgroundFlush (TA3); Unlock} ; AddTask,
   inflight++, RemoveAll (TA2) *)
Lemma link_sk_addAndCheck : C16_Gen.sk_addAndCheck =
  ["pe.lock.Lock"; "defer:func"; "{"; "defer:pe.backgroundFlush"; "pe.lock.Unlock"; "}";
   "pe.container.AddTask"; "atomic.AddInt32"; "pe.container.RemoveAll"; "return"; "return"]%string.
Proof. reflexivity. Qed.

(* backgroundFlush: deferred Flush (KExit), newTicker/Now (TF0), deferred Stop (TFX0), select (TFSel):
   commander arm = inflight-- (TFC1), enterExecution (TFC2), confirm (TFC3), executeTasks (TFC4, TFC5),
   Now (TFC6); ticker arm = Flush (KTick), Now (TFT1), shallQuit (TFQ1-3), return *)
Lemma link_sk_backgroundFlush : C16_Gen.sk_backgroundFlush =
  ["defer:pe.Flush"; "pe.newTicker"; "defer:ticker.Stop"; "timex.Now"; "select";
   "case:"; "recv:pe.commander"; "atomic.AddInt32"; "pe.enterExecution"; "send:pe.confirmChan";
   "pe.executeTasks"; "timex.Now";
   "case:"; "recv:ticker.Chan()"; "pe.Flush"; "timex.Now"; "pe.shallQuit"; "return";
   "threading.GoSafe"]%string.
Proof. reflexivity. Qed.

(* shallQuit: Since (TFQ1), Lock (TFQ2), LoadInt32 + Unlock (TFQ3) *)
Lemma link_sk_shallQuit : C16_Gen.sk_shallQuit =
  ["timex.Since"; "return"; "pe.lock.Lock"; "atomic.LoadInt32"; "pe.lock.Unlock"; "return"]%string.
Proof. reflexivity. Qed.

(* Flush: enterExecution (L1), Lock (L2), RemoveAll + deferred Unlock (L3), executeTasks (L4, L5) *)
Lemma link_sk_Flush : C16_Gen.sk_Flush =
  ["pe.enterExecution"; "pe.lock.Lock"; "defer:pe.lock.Unlock"; "pe.container.RemoveAll"; "return";
   "pe.executeTasks"; "return"]%string.
Proof. reflexivity. Qed.

(* Wait: Flush (KWait), then wgBarrier.Guard(waitGroup.Wait) (TW2, TW3) *)
Lemma link_sk_Wait : C16_Gen.sk_Wait = ["pe.Flush"; "pe.waitGroup.Wait"; "pe.wgBarrier.Guard"]%string.
Proof. reflexivity. Qed.

Lemma link_sk_enterExecution : C16_Gen.sk_enterExecution = ["pe.waitGroup.Add"; "pe.wgBarrier.Guard"]%string.
Proof. reflexivity. Qed.

Lemma link_sk_executeTasks : C16_Gen.sk_executeTasks =
  ["defer:pe.doneExecution"; "pe.hasTasks"; "pe.container.Execute"; "return"]%string.
Proof. reflexivity. Qed.

Lemma link_sk_doneExecution : C16_Gen.sk_doneExecution = ["pe.waitGroup.Done"]%string.
Proof. reflexivity. Qed.

Lemma link_sk_hasTasks : C16_Gen.sk_hasTasks =
  ["return"; "reflect.ValueOf"; "val.Kind"; "val.Len"; "return"; "return"]%string.
Proof. reflexivity. Qed.

Lemma link_sk_containers :
  C16_Gen.sk_bulk_AddTask = ["append"; "len"; "return"]%string /\
  C16_Gen.sk_bulk_RemoveAll = ["return"]%string /\
  C16_Gen.sk_bulk_Execute = ["bc.execute"]%string /\
  C16_Gen.sk_chunk_AddTask = ["append"; "return"]%string /\
  C16_Gen.sk_chunk_RemoveAll = ["return"]%string /\
  C16_Gen.sk_chunk_Execute = ["bc.execute"]%string.
Proof. repeat split; reflexivity. Qed.

Lemma link_sk_barrier : C16_Gen.sk_barrier_Guard = ["Guard"]%string.
Proof. reflexivity. Qed.

(* the model's threshold tests are the property's: len(tasks) >= maxTasks, size >= maxChunkSize *)
Lemma link_bulk_full {A} m (l : list A) : bulk_full m l = true <-> m <= Z.of_nat (List.length l).
Proof. unfold bulk_full. lia. Qed.

Lemma link_chunk_full m z : chunk_full m z = true <-> m <= z.
Proof. unfold chunk_full. lia. Qed.

Lemma link_add_task_bulk cf c x : chunk cf = false ->
  add_task cf c x = (mkcont (c_tasks c ++ [x]) (c_size c), bulk_full (maxv cf) (c_tasks c ++ [x])).
Proof. intro E. unfold add_task. rewrite E. reflexivity. Qed.

Lemma link_add_task_chunk cf c x : chunk cf = true ->
  add_task cf c x = (mkcont (c_tasks c ++ [x]) (c_size c + sz cf x), chunk_full (maxv cf) (c_size c + sz cf x)).
Proof. intro E. unfold add_task. rewrite E. reflexivity. Qed.

(* Exec's checkers vs the Spec predicates *)
Lemma sum_sizes_sumsz c l : sum_sizes c l = sumsz (size_of c) l.
Proof. reflexivity. Qed.

Lemma bound_ok_bulk c b : c_chunk c = false -> 1 <= c_max c ->
  (bound_ok c b = true <-> bulk_bounded (c_max c) b).
Proof. intros E H. unfold bound_ok, bulk_bounded. rewrite E. lia. Qed.

(* spec_ok's chunk bound is implied by the Spec bound (the checker is never stricter) *)
Lemma bound_ok_chunk c b : c_chunk c = true -> b <> [] ->
  chunk_bounded (size_of c) (c_max c) b -> bound_ok c b = true.
Proof.
  intros E Hne H. unfold bound_ok. rewrite E. rewrite !sum_sizes_sumsz.
  pose proof (chunk_bounded_overshoot (size_of c) (c_max c) b Hne H). lia.
Qed.

Lemma executed_before_sound c x m : executed_before c x m = true ->
  exists b, In b (c_batches c) /\ In x (b_ids b) /\ (b_end b < m)%nat.
Proof.
  unfold executed_before. rewrite existsb_exists. intros [b [Hb H]]. exists b.
  apply andb_true_iff in H as [H1 H2]. apply mem_In in H1. apply Nat.ltb_lt in H2. auto.
Qed.

Lemma nodup_nat_sound l : nodup_nat l = true -> NoDup l.
Proof.
  induction l as [|a l IH]; simpl; intro H; constructor; apply andb_true_iff in H as [H1 H2].
  - intro Hin. apply mem_In in Hin. rewrite Hin in H1. discriminate.
  - auto.
Qed.

(* ---------- the executors' concrete users ---------- *)
(* sqlx.BulkInserter: const maxBulkRows = 1000 is the threshold of the dbInserter container *)
Lemma link_maxBulkRows : C16_Gen.maxBulkRows = 1000 /\ max_bulk_rows = C16_Gen.maxBulkRows.
Proof. split; reflexivity. Qed.

(* dbInserter is the bulk container: append + len test (AddTask), hand the slice over and reset
   (RemoveAll), one conn.Exec of the joined rows + result handler (Execute) *)
Lemma link_sk_dbInserter :
  C16_Gen.sk_db_AddTask = ["append"; "len"; "return"]%string /\
  C16_Gen.sk_db_AddTask = C16_Gen.sk_bulk_AddTask /\
  C16_Gen.sk_db_RemoveAll = ["return"]%string /\
  C16_Gen.sk_db_Execute =
    ["len"; "return"; "strings.Join"; "strings.Join"; "len"; "strings.Join"; "in.conn.Exec";
     "in.resultHandler"; "logx.Errorf"]%string.
Proof. repeat split; reflexivity. Qed.

(* Insert = format + executor.Add; Flush = executor.Flush; the executor is a PeriodicalExecutor *)
Lemma link_sk_BulkInserter :
  C16_Gen.sk_bi_Insert = ["format"; "return"; "bi.executor.Add"; "return"]%string /\
  C16_Gen.sk_bi_Flush = ["bi.executor.Flush"]%string /\
  C16_Gen.sk_bi_New = ["parseInsertStmt"; "return"; "executors.NewPeriodicalExecutor"; "return"]%string.
Proof. repeat split; reflexivity. Qed.

(* stat.Metrics: AddTask never asks for a flush (one append, constant return), RemoveAll hands the
   (tasks, duration, drops) triple over; Add / AddDrop = executor.Add *)
Lemma link_sk_Metrics :
  C16_Gen.sk_mc_AddTask = ["append"; "return"]%string /\
  C16_Gen.sk_mc_RemoveAll = ["return"]%string /\
  C16_Gen.sk_m_Add = ["m.executor.Add"]%string /\
  C16_Gen.sk_m_AddDrop = ["m.executor.Add"]%string /\
  C16_Gen.sk_m_New = ["os.Getpid"; "executors.NewPeriodicalExecutor"; "return"]%string.
Proof. repeat split; reflexivity. Qed.

(* the dbInserter model used for the large BulkInserter cases cuts a batch off exactly when the LTS's
   bulk container does (same threshold function), ... *)
Lemma b_add_threshold mx s x :
  bs_out (b_add mx s x) = if bulk_full mx (bs_tasks s ++ [x]) then (bs_tasks s ++ [x]) :: bs_out s else bs_out s.
Proof. unfold b_add. destruct (bulk_full mx (bs_tasks s ++ [x])); reflexivity. Qed.

(* ... and, as a whole, is the sequential projection of the LTS: on scripts small enough to run both
   (threshold 2 and 3 instead of 1000), it yields the batches of C16.Model.seq_run *)
Definition lts_batches (mx : Z) (ops : list sop) : list (list nat) :=
  s_executed (seq_run (mkcfg false mx (fun _ => 0) second) t0 ops).
Definition big_batches (mx : Z) (ops : list bop) (ticks : list (N * bool * N)) : option (list (list nat)) :=
  match big_model mx (mkbst [] false false []) ops ticks with
  | Some s => Some (map (map Pos.to_nat) (rev (bs_out s)))
  | None => None
  end.

Lemma big_model_is_seq_projection :
  big_batches 2 [BIns 1 3; BTick; BTick; BIns 4 2; BTick; BIns 6 1; BFlush; BTick]
              [(0, true, 0); (0, true, 0); (0, true, 0); (0, true, 0)]%N
    = Some (lts_batches 2 [SAdd 1; SAdd 2; SAdd 3; STick; STick; SAdd 4; SAdd 5; STick; SAdd 6; SFlush; STick]) /\
  big_batches 3 [BTick; BIns 1 7; BTick; BFlush; BIns 8 3; BTick; BTick; BIns 11 1; BFlush]
              [(0, false, 0); (0, true, 0); (0, true, 0); (0, true, 0)]%N
    = Some (lts_batches 3 [STick; SAdd 1; SAdd 2; SAdd 3; SAdd 4; SAdd 5; SAdd 6; SAdd 7; STick; SFlush;
                           SAdd 8; SAdd 9; SAdd 10; STick; STick; SAdd 11; SFlush]).
Proof. split; vm_compute; reflexivity. Qed.

(* ---------- documented defaults; an executor's bounds depend on its own configuration only ---------- *)
Lemma link_defaults :
  C16_Gen.defaultBulkTasks = 1000 /\ C16_Gen.defaultChunkSize = 1024 * 1024 /\
  C16_Gen.defaultFlushInterval = 1000000000 /\
  default_bulk_tasks = C16_Gen.defaultBulkTasks /\ default_chunk_size = C16_Gen.defaultChunkSize /\
  default_interval = C16_Gen.defaultFlushInterval.
Proof. repeat split; reflexivity. Qed.

(* constructors: fresh default options, then the caller's options, then a PeriodicalExecutor of its own *)
Lemma link_sk_constructors :
  C16_Gen.sk_NewBulkExecutor = ["newBulkOptions"; "opt"; "NewPeriodicalExecutor"; "return"]%string /\
  C16_Gen.sk_NewChunkExecutor = ["newChunkOptions"; "opt"; "NewPeriodicalExecutor"; "return"]%string.
Proof. split; reflexivity. Qed.

(* a BulkExecutor created without options never executes more than 1000 tasks in a batch, and a
   ChunkExecutor created without options exceeds 1 MiB by less than its last task -- whatever other
   executors exist: the LTS of one executor has no state outside its own configuration *)
Lemma link_default_bulk_bound cf s : maxv cf = C16_Gen.defaultBulkTasks -> (forall x, 0 <= sz cf x) ->
  chunk cf = false -> reachable cf s -> Forall (fun b => Z.of_nat (List.length b) <= 1000) (s_executed s).
Proof.
  intros Hm Hs Hc R. pose proof (bulk_bound cf s) as B. rewrite Hm in B.
  exact (B ltac:(vm_compute; discriminate) Hs Hc R).
Qed.

Lemma link_default_chunk_bound cf s : maxv cf = C16_Gen.defaultChunkSize -> (forall x, 0 <= sz cf x) ->
  chunk cf = true -> reachable cf s -> Forall (chunk_bounded (sz cf) 1048576) (s_executed s).
Proof.
  intros Hm Hs Hc R. pose proof (chunk_bound cf s) as B. rewrite Hm in B.
  exact (B ltac:(vm_compute; discriminate) Hs Hc R).
Qed.

(* stat.Metrics: log = writeReport (+ optional stat log line); writeReport = blocking Lock, Write, Unlock
   (WWant / WHold of C16.Model.wstep); SetReportWriter = Lock, Unlock (WWantSet / WSet) *)
Lemma link_sk_report_delivery :
  C16_Gen.sk_m_writeReport = ["writeLock.Lock"; "defer:writeLock.Unlock"; "reportWriter.Write"; "logx.Error"]%string /\
  C16_Gen.sk_m_log = ["writeReport"; "logEnabled.True"; "logx.Statf"]%string /\
  C16_Gen.sk_m_SetReportWriter = ["writeLock.Lock"; "writeLock.Unlock"]%string.
Proof. repeat split; reflexivity. Qed.

(* LessExecutor.DoOrDiscard: one clock reading, load lastTime, (set lastTime, execute, true) or false: less_step *)
Lemma link_sk_less : C16_Gen.sk_less_DoOrDiscard =
  ["timex.Now"; "le.lastTime.Load"; "le.lastTime.Set"; "execute"; "return"; "return"]%string.
Proof. reflexivity. Qed.

(* the executable LessExecutor spec used on the driver's streams accepts what the model does, for clocks that stay
   positive and never go back (so the checker is not stricter than the transcribed code) *)
Lemma less_model_step_spec thr last now ran last' : 0 < last -> last <= now ->
  less_step thr last now = (ran, last') ->
  (if now - last <? thr then negb ran else if thr <? now - last then ran else true) = true /\
  last' = (if ran then now else last).
Proof.
  intros H1 H2. unfold less_step. destruct (last =? 0) eqn:E; [lia|]. simpl.
  destruct (last + thr <? now) eqn:E2; intro H; injection H as Hr Hl; subst ran last'; split; try reflexivity.
  - destruct (now - last <? thr) eqn:E3; [lia|]. destruct (thr <? now - last) eqn:E4; reflexivity.
  - destruct (now - last <? thr) eqn:E3; [reflexivity|]. destruct (thr <? now - last) eqn:E4; [lia|reflexivity].
Qed.
