(* C16 Proofs: invariants of the executor LTS over arbitrary schedules. *)
From God Require Import Base.Prelude C16.Spec C16.Model.
Local Open Scope Z_scope.

(* ---------- lists ---------- *)
Lemma cnt_app x l1 l2 : cnt x (l1 ++ l2) = (cnt x l1 + cnt x l2)%nat.
Proof. apply count_occ_app. Qed.

Lemma cnt_nil x : cnt x [] = 0%nat.
Proof. reflexivity. Qed.

Lemma cnt_cons x y l : cnt x (y :: l) = (cnt x [y] + cnt x l)%nat.
Proof. change (y :: l) with ([y] ++ l). apply cnt_app. Qed.

Lemma cnt_In x l : In x l <-> (0 < cnt x l)%nat.
Proof. unfold cnt. apply count_occ_In. Qed.

Lemma cnt_self x : cnt x [x] = 1%nat.
Proof. unfold cnt. simpl. destruct (Nat.eq_dec x x); congruence. Qed.

Lemma cnt_other x y : x <> y -> cnt x [y] = 0%nat.
Proof. unfold cnt. simpl. intro. destruct (Nat.eq_dec y x); congruence. Qed.

Lemma mem_In x l : mem x l = true <-> In x l.
Proof.
  unfold mem. rewrite existsb_exists. split.
  - intros [y [Hy E]]. apply Nat.eqb_eq in E. subst. assumption.
  - intro H. exists x. split; [assumption|apply Nat.eqb_refl].
Qed.

Lemma mem_false_cnt x l : mem x l = false -> cnt x l = 0%nat.
Proof.
  intro H. destruct (cnt x l) eqn:E; [reflexivity|].
  assert (In x l) by (apply cnt_In; lia). apply mem_In in H0. congruence.
Qed.

Lemma concat_snoc (l : list (list nat)) b : concat (l ++ [b]) = concat l ++ b.
Proof. rewrite concat_app. simpl. rewrite app_nil_r. reflexivity. Qed.

Lemma NoDup_cnt l : (forall x, (cnt x l <= 1)%nat) -> NoDup l.
Proof. intro H. apply (NoDup_count_occ Nat.eq_dec). exact H. Qed.

(* ---------- subsequences ---------- *)
Lemma subseq_refl a : subseq a a.
Proof. induction a; constructor; assumption. Qed.

Lemma subseq_app_r b a r : subseq b a -> subseq b (a ++ r).
Proof. induction 1; simpl; constructor; assumption. Qed.

Lemma subseq_snoc b a x : subseq b a -> subseq (b ++ [x]) (a ++ [x]).
Proof.
  induction 1; simpl.
  - induction a; simpl; [constructor; constructor | apply sub_skip; assumption].
  - constructor; assumption.
  - apply sub_skip; assumption.
Qed.

Lemma subseq_In b a x : subseq b a -> In x b -> In x a.
Proof. induction 1; simpl; intuition. Qed.

(* ---------- the thread pool ---------- *)
Lemma nth_error_upd_eq {A} (l : list A) i a t : nth_error l i = Some t -> nth_error (upd i a l) i = Some a.
Proof. revert i. induction l; destruct i; simpl; intros; try discriminate; auto. Qed.

Lemma nth_error_upd_ne {A} (l : list A) i j a : i <> j -> nth_error (upd i a l) j = nth_error l j.
Proof. revert i j. induction l; destruct i, j; simpl; intros; try congruence; auto. Qed.

Lemma length_upd {A} (l : list A) i a : length (upd i a l) = length l.
Proof. revert i. induction l; destruct i; simpl; auto. Qed.

Lemma upd_app_l {A} (l r : list A) i a t : nth_error l i = Some t -> upd i a (l ++ r) = upd i a l ++ r.
Proof. revert i. induction l; destruct i; simpl; intros; try discriminate; auto. f_equal. eauto. Qed.

Lemma Forall_upd {A} (Q : A -> Prop) l i a : Forall Q l -> Q a -> Forall Q (upd i a l).
Proof.
  intros H Ha. revert i. induction H; destruct i; simpl; constructor; auto.
Qed.

Lemma Forall_nth {A} (Q : A -> Prop) l i t : Forall Q l -> nth_error l i = Some t -> Q t.
Proof. intros H E. rewrite Forall_forall in H. apply H. eapply nth_error_In; eauto. Qed.

Lemma In_upd {A} (l : list A) i a t : In t (upd i a l) -> t = a \/ In t l.
Proof.
  revert i. induction l as [|b l IH]; destruct i; simpl; intros H; try contradiction.
  - destruct H; auto.
  - destruct H as [H|H]; auto. destruct (IH _ H); auto.
Qed.

Definition tsum (f : thread -> nat) (l : list thread) : nat := fold_right (fun t a => (f t + a)%nat) 0%nat l.

Lemma tsum_upd f l i t t' : nth_error l i = Some t -> (tsum f (upd i t' l) + f t = tsum f l + f t')%nat.
Proof.
  revert i. induction l as [|a l IH]; destruct i; simpl; intros H; try discriminate.
  - inversion H; subst. lia.
  - specialize (IH _ H). lia.
Qed.

Lemma tsum_app f l t : tsum f (l ++ [t]) = (tsum f l + f t)%nat.
Proof. induction l; simpl; lia. Qed.

Lemma tsum_repeat f t n : f t = 0%nat -> tsum f (repeat t n) = 0%nat.
Proof. intro H. induction n; simpl; lia. Qed.

Lemma tsum_zero f l : tsum f l = 0%nat -> forall t, In t l -> f t = 0%nat.
Proof. induction l; simpl; intros H t Ht; [contradiction|]. destruct Ht as [<-|Hin]; [lia|]. apply IHl; [lia|assumption]. Qed.

Lemma tsum_pos f l : (0 < tsum f l)%nat -> exists t, In t l /\ (0 < f t)%nat.
Proof.
  induction l; simpl; intro H; [lia|]. destruct (f a) eqn:E.
  - destruct IHl as [t [Hin Hp]]; [lia|]. exists t; auto.
  - exists a. split; [auto|lia].
Qed.

Lemma tsum_le_In f l t : In t l -> (f t <= tsum f l)%nat.
Proof. induction l; simpl; intros H0; [contradiction|]. destruct H0 as [<-|H]; [lia|]. specialize (IHl H). lia. Qed.

(* ---------- what a thread holds / accounts for ---------- *)
(* tasks physically in the thread's hands *)
Definition held (t : thread) : list nat :=
  match t with
  | TA3 _ (Some b) | TA4 _ b => b
  | TFl _ (L4 b) => b
  | TFC1 b _ | TFC2 b _ | TFC3 b _ | TFC4 b _ => b
  | _ => []
  end.

(* between wg.Add(1) and wg.Done() *)
Definition entered (t : thread) : nat :=
  match t with
  | TFl _ L2 | TFl _ L3 | TFl _ (L4 _) | TFl _ (L5 _) => 1
  | TFC3 _ _ | TFC4 _ _ | TFC5 => 1
  | _ => 0
  end.

(* counted in pe.inflight *)
Definition inflt (t : thread) : nat :=
  match t with
  | TA3 _ (Some _) | TA4 _ _ => 1
  | TFC1 _ _ => 1
  | _ => 0
  end.

(* the background flusher in its loop, or the `go` that will start it *)
Definition looper (t : thread) : nat :=
  match t with
  | TA3 _ _ => 1
  | TF0 | TFSel _ _ | TFC1 _ _ | TFC2 _ _ | TFC3 _ _ | TFC4 _ _ | TFC5 | TFC6 | TFT1 | TFQ1 _ | TFQ2 _ | TFQ3 _ => 1
  | TFl (KTick _) _ => 1
  | _ => 0
  end.

(* a flusher that has left the loop and has not yet emptied the container in its deferred Flush *)
Definition exiter (t : thread) : nat :=
  match t with
  | TFX0 | TFl KExit L1 | TFl KExit L2 | TFl KExit L3 => 1
  | _ => 0
  end.

(* the task of an Add that has not reached AddTask yet *)
Definition pend (t : thread) : list nat :=
  match t with TA1 x | TA2 x => [x] | _ => [] end.

(* a batch on its way to the flusher, not yet covered by the WaitGroup *)
Definition handover (t : thread) : bool :=
  match t with
  | TA3 _ (Some _) | TA4 _ _ | TFC1 _ _ | TFC2 _ _ => true
  | _ => false
  end.

Definition cmdl (s : state) : list nat := match s_cmd s with Some b => b | None => [] end.
Definition cmdn (s : state) : nat := match s_cmd s with Some _ => 1 | None => 0 end.

(* ---------- containers ---------- *)
Lemma add_task_tasks cf c x : c_tasks (fst (add_task cf c x)) = c_tasks c ++ [x].
Proof. unfold add_task. destruct (chunk cf); reflexivity. Qed.

Lemma remove_all_fst cf c : fst (remove_all cf c) = c_tasks c.
Proof. reflexivity. Qed.

Lemma remove_all_snd cf c : c_tasks (snd (remove_all cf c)) = [].
Proof. reflexivity. Qed.

(* ---------- the main invariant ---------- *)
Record Inv (s : state) : Prop := mkInv {
  I_cons : forall x, cnt x (s_added s) =
             (cnt x (c_tasks (s_cont s)) + cnt x (cmdl s) + tsum (fun t => cnt x (held t)) (s_threads s)
              + cnt x (concat (s_executed s)))%nat;
  I_wg : s_wg s = tsum entered (s_threads s);
  I_nopanic : s_panicked s = false;
  I_infl : s_inflight s = Z.of_nat (tsum inflt (s_threads s) + cmdn s);
  I_guard : tsum looper (s_threads s) = if s_guarded s then 1%nat else 0%nat;
  I_ig : 0 < s_inflight s -> s_guarded s = true;
  I_cont : c_tasks (s_cont s) <> [] -> s_guarded s = true \/ (1 <= tsum exiter (s_threads s))%nat;
  I_issued : forall x, (cnt x (s_issued s) <= 1)%nat /\
             cnt x (s_issued s) = (cnt x (s_added s) + tsum (fun t => cnt x (pend t)) (s_threads s))%nat
}.

Lemma inv_init n t0 : Inv (init n t0).
Proof.
  constructor; simpl; intros; try reflexivity; try lia; try congruence.
  - rewrite tsum_repeat; reflexivity.
  - rewrite tsum_repeat; reflexivity.
  - unfold cmdn; simpl. rewrite tsum_repeat; reflexivity.
  - rewrite tsum_repeat; reflexivity.
  - rewrite tsum_repeat by reflexivity. rewrite cnt_nil. lia.
Qed.

(* case analysis of one step: leaves one goal per enabled (thread state, action) pair, with the
   step equation H inverted and the conditions recorded *)
Ltac break_if H :=
  repeat match type of H with
         | context [if ?b then _ else _] => let E := fresh "E" in destruct b eqn:E
         | context [match ?o with Some _ => _ | None => _ end] => let E := fresh "E" in destruct o eqn:E
         | context [match ?n with O => _ | S _ => _ end] => let E := fresh "E" in destruct n eqn:E
         | context [let (_, _) := ?p in _] => let E := fresh "E" in destruct p eqn:E
         end; try discriminate.

Ltac step_cases H i t a Hi :=
  match type of H with
  | step _ _ ?l = Some _ =>
      destruct l as [i a|?d]; unfold step in H;
      [ destruct (nth_error (s_threads _) i) as [t|] eqn:Hi; [|discriminate];
        destruct t as [ |?x|?x|?x ?ob|?x ?b|?x|?k ?pc|?snap|?snap| |?c ?last|?b ?last|?b ?last|?b ?last|?b ?last| | | |?last|?last|?last| | ];
        destruct a as [?o| | | |?j]; try discriminate H;
        try (destruct o; try discriminate H);
        try (destruct pc; try discriminate H);
        unfold step_thread in H
      | ]
  end.

Ltac use_tsum :=
  repeat match goal with
  | Hj : nth_error ?l ?j = Some ?tj, Hi : nth_error ?l ?i = Some ?ti0, Hne : ?i <> ?j
    |- context [tsum ?f (upd ?j ?t' (upd ?i ?ti ?l))] =>
      let F := fresh "F" in let G := fresh "G" in
      pose proof (tsum_upd f (upd i ti l) j tj t' (eq_trans (nth_error_upd_ne l i j ti Hne) Hj)) as F; simpl in F;
      pose proof (tsum_upd f l i ti0 ti Hi) as G; simpl in G;
      generalize dependent (tsum f (upd j t' (upd i ti l))); intros;
      generalize dependent (tsum f (upd i ti l)); intros
  | H : nth_error ?l ?i = Some ?t |- context [tsum ?f (upd ?i ?t' ?l)] =>
      let F := fresh "F" in
      pose proof (tsum_upd f l i t t' H) as F; simpl in F;
      generalize dependent (tsum f (upd i t' l)); intros
  end.

Ltac norm_cnt := rewrite ?concat_snoc in *; rewrite ?cnt_app, ?cnt_nil in *.

Ltac prep :=
  unfold set_thr, spawn, do_execute, do_done, cmdl, cmdn in *; simpl in *;
  repeat match goal with
         | H : nth_error ?l ?i = Some _ |- context [upd ?i _ (?l ++ _)] => erewrite upd_app_l by exact H
         end;
  rewrite ?tsum_app; rewrite ?add_task_tasks in *; simpl;
  repeat match goal with E : s_cmd _ = _ |- _ => rewrite E in *; clear E end;
  repeat match goal with
         | |- context [has_tasks ?b] => destruct b; simpl in *
         | |- context [flush_return ?k ?ok] => destruct k; try destruct ok; simpl in *
         end.

Ltac cons_cnt :=
  repeat match goal with
         | |- context [cnt ?x (?y :: ?l)] => lazymatch l with [] => fail | _ => rewrite (cnt_cons x y l) end
         end.
Ltac split_x :=
  try match goal with
      | E : mem ?x ?l = false |- _ => apply mem_false_cnt in E
      end;
  try match goal with
      | |- context [cnt ?a [?b]] =>
          destruct (Nat.eq_dec a b); [subst; rewrite ?cnt_self in * | rewrite ?(cnt_other a b) in * by assumption]
      | H : context [cnt ?a [?b]] |- _ =>
          destruct (Nat.eq_dec a b); [subst; rewrite ?cnt_self in * | rewrite ?(cnt_other a b) in * by assumption]
      end.
Ltac fin := rewrite ?tsum_app; simpl; use_tsum; norm_cnt; cons_cnt; simpl in *; try assumption; try lia; split_x; try lia.


Ltac pre_cases H Hi :=
  try match type of H with context [nth_error ?l ?j] =>
         destruct (nth_error l j) as [[]|] eqn:Hj; try discriminate H;
         match type of Hi with nth_error _ ?i = _ =>
           assert (i <> j) by (intro; subst; rewrite Hi in Hj; discriminate) end end;
  break_if H.

Lemma step_inv cf s l s' : Inv s -> step cf s l = Some s' -> Inv s'.
Proof.
  intros I H. step_cases H i t a Hi.
  all: try match type of H with context [nth_error ?l ?j] =>
         destruct (nth_error l j) as [[]|] eqn:Hj; try discriminate H;
         assert (i <> j) by (intro; subst; rewrite Hi in Hj; discriminate) end.
  all: break_if H.
  all: try (inversion H; subst s'; clear H).
  all: destruct I as [Ic Iw Ip Ii Ig Iig Ict Iis].
  all: try match goal with |- context [do_execute ?b _] =>
         unfold do_execute; destruct (has_tasks b) eqn:Eb;
         [| assert (b = []) by (destruct b; [reflexivity|discriminate]); subst b] end.
  all: try match goal with |- context [do_done _] =>
         unfold do_done, set_thr; simpl s_wg; destruct (s_wg s) eqn:Ewg;
         [ exfalso; pose proof (tsum_le_In entered _ _ (nth_error_In _ _ Hi)); simpl in *; lia | ] end.
  all: try match goal with |- context [flush_return ?k ?ok] => destruct k; try destruct ok; simpl flush_return end.
  all: try solve [ constructor; prep;
    [ intro x0; specialize (Ic x0); fin
    | destruct (s_wg s) eqn:?; simpl; fin | destruct (s_wg s) eqn:?; simpl; fin | fin
    | destruct (s_guarded s) eqn:?; fin
    | intro; try reflexivity; try (apply Iig; lia); fin; exfalso; lia
    | intro Hne; first [ exfalso; apply Hne; reflexivity | left; reflexivity | left; assumption | solve [right; fin]
                       | destruct (Ict Hne); [left; assumption | right; fin] ]
    | intro x0; specialize (Iis x0); fin ] ].
Qed.

Lemma run_inv cf sched : forall s s', Inv s -> run cf sched s = Some s' -> Inv s'.
Proof.
  induction sched as [|l r IH]; simpl; intros s s' I H.
  - inversion H; subst; assumption.
  - destruct (step cf s l) eqn:E; [|discriminate]. eapply IH; [|exact H]. eapply step_inv; eauto.
Qed.

Definition reachable (cf : config) (s : state) : Prop :=
  exists n t0 sched, run cf sched (init n t0) = Some s.

Lemma reachable_inv cf s : reachable cf s -> Inv s.
Proof. intros [n [t0 [sched H]]]. eapply run_inv; [apply inv_init|exact H]. Qed.

(* ---------- add order and batch bounds ---------- *)
Lemma sumsz_app sz l1 l2 : sumsz sz (l1 ++ l2) = sumsz sz l1 + sumsz sz l2.
Proof. induction l1; simpl; lia. Qed.

Lemma sumsz_removelast_le sz l : (forall x, 0 <= sz x) -> sumsz sz (removelast l) <= sumsz sz l.
Proof.
  intro Hs. induction l as [|a l IH]; simpl; [lia|]. destruct l; simpl in *.
  - specialize (Hs a). lia.
  - lia.
Qed.

Lemma sumsz_nil sz : sumsz sz [] = 0.
Proof. reflexivity. Qed.
Arguments sumsz : simpl never.

Section Bounds.
  Variable cf : config.
  Hypothesis Hmax : 1 <= maxv cf.
  Hypothesis Hsz : forall x, 0 <= sz cf x.

  Definition good (a b : list nat) : Prop :=
    subseq b a /\
    (chunk cf = false -> Z.of_nat (length b) <= maxv cf) /\
    (chunk cf = true -> sumsz (sz cf) (removelast b) < maxv cf).

  Definition goodc (a : list nat) (c : container) : Prop :=
    subseq (c_tasks c) a /\
    (chunk cf = false -> Z.of_nat (length (c_tasks c)) < maxv cf) /\
    (chunk cf = true -> c_size c = sumsz (sz cf) (c_tasks c) /\ c_size c < maxv cf).

  Lemma good_nil a : good a [].
  Proof. split; [constructor|]. split; intros _; simpl; [lia|rewrite sumsz_nil; lia]. Qed.

  Lemma good_mono a x b : good a b -> good (a ++ [x]) b.
  Proof. intros [H1 H2]. split; [apply subseq_app_r; assumption|assumption]. Qed.

  Lemma goodc_good a c : goodc a c -> good a (c_tasks c).
  Proof.
    intros [H1 [H2 H3]]. repeat split; auto.
    - intro E. specialize (H2 E). lia.
    - intro E. destruct (H3 E) as [E1 E2]. pose proof (sumsz_removelast_le (sz cf) (c_tasks c) Hsz). lia.
  Qed.

  Lemma goodc_add_false a c x :
    goodc a c -> snd (add_task cf c x) = false -> goodc (a ++ [x]) (fst (add_task cf c x)).
  Proof.
    intros [H1 [H2 H3]] E. unfold add_task in *. destruct (chunk cf) eqn:Ec; simpl in *.
    - split; [apply subseq_snoc; assumption|]. split; [congruence|]. intros _.
      destruct (H3 eq_refl) as [E1 E2]. unfold chunk_full in E. simpl. rewrite sumsz_app. unfold sumsz at 2. simpl. lia.
    - split; [apply subseq_snoc; assumption|]. split; [|congruence]. intros _.
      unfold bulk_full in E. simpl. lia.
  Qed.

  Lemma goodc_add_true a c x : goodc a c -> good (a ++ [x]) (c_tasks c ++ [x]).
  Proof.
    intros [H1 [H2 H3]]. repeat split.
    - apply subseq_snoc; assumption.
    - intro E. specialize (H2 E). rewrite app_length. simpl. lia.
    - intro E. destruct (H3 E). rewrite removelast_last. lia.
  Qed.

  Lemma goodc_removed a c : goodc a (snd (remove_all cf c)).
  Proof.
    unfold remove_all; simpl. split; [constructor|]. split; intro E; simpl; [lia|]. rewrite E, sumsz_nil. lia.
  Qed.

  Record Inv2 (s : state) : Prop := mkInv2 {
    J_cont : goodc (s_added s) (s_cont s);
    J_cmd : good (s_added s) (cmdl s);
    J_thr : Forall (fun t => good (s_added s) (held t)) (s_threads s);
    J_exe : Forall (good (s_added s)) (s_executed s)
  }.

  Lemma inv2_init n t0 : Inv2 (init n t0).
  Proof.
    constructor; simpl.
    - split; [constructor|]. split; intro E; simpl; [lia|]. rewrite sumsz_nil. lia.
    - apply good_nil.
    - induction n; simpl; constructor; auto. apply good_nil.
    - constructor.
  Qed.

  Lemma step_inv2 s l s' : Inv2 s -> step cf s l = Some s' -> Inv2 s'.
  Proof.
    intros I H. step_cases H i t a Hi.
    all: pre_cases H Hi.
    all: try (inversion H; subst s'; clear H).
    all: destruct I as [Jc Jm Jt Je].
    all: try (pose proof (Forall_nth _ _ _ _ Jt Hi) as Hh; simpl in Hh).
    all: try match goal with |- context [do_execute ?b _] =>
           unfold do_execute; destruct (has_tasks b) eqn:Eb end.
    all: try match goal with |- context [do_done _] =>
           unfold do_done, set_thr; simpl s_wg; destruct (s_wg s) eqn:Ewg end.
    all: try match goal with |- context [flush_return ?k ?ok] => destruct k; try destruct ok; simpl flush_return end.
    all: try solve [ constructor; unfold set_thr, spawn, cmdl in *; simpl in *;
      repeat match goal with E : s_cmd _ = _ |- _ => rewrite E in *; clear E end;
      try assumption; try apply good_nil; try apply goodc_removed;
      try (apply Forall_app; split; [|constructor; [|constructor]]);
      repeat (apply Forall_upd);
      try assumption; try apply good_nil; try (apply goodc_good; assumption);
      try (apply Forall_app; split; [assumption|constructor; [apply good_nil|constructor]]) ].
    all: constructor; unfold set_thr, cmdl in *; simpl;
      [ first [ apply (goodc_removed (s_added s ++ [x]) (fst (add_task cf (s_cont s) x)))
              | apply goodc_add_false; assumption ]
      | apply good_mono; assumption
      | apply Forall_upd;
        [ eapply Forall_impl; [|exact Jt]; intros; apply good_mono; assumption
        | simpl; rewrite ?add_task_tasks; first [apply good_nil | apply goodc_add_true; assumption] ]
      | eapply Forall_impl; [|exact Je]; intros; apply good_mono; assumption ].
  Qed.

  Lemma run_inv2 sched : forall s s', Inv2 s -> run cf sched s = Some s' -> Inv2 s'.
  Proof.
    induction sched as [|l r IH]; simpl; intros s s' I H.
    - inversion H; subst; assumption.
    - destruct (step cf s l) eqn:E; [|discriminate]. eapply IH; [|exact H]. eapply step_inv2; eauto.
  Qed.
End Bounds.

(* add order alone (no hypothesis on the configuration) *)
Section Order.
  Variable cf : config.

  Definition ogood (a b : list nat) : Prop := subseq b a.

  Definition ogoodc (a : list nat) (c : container) : Prop := subseq (c_tasks c) a.

  Lemma ogood_nil a : ogood a [].
  Proof. constructor. Qed.

  Lemma ogood_mono a x b : ogood a b -> ogood (a ++ [x]) b.
  Proof. apply subseq_app_r. Qed.

  Lemma ogoodc_ogood a c : ogoodc a c -> ogood a (c_tasks c).
  Proof. auto. Qed.

  Lemma ogoodc_add_false a c x :
    ogoodc a c -> snd (add_task cf c x) = false -> ogoodc (a ++ [x]) (fst (add_task cf c x)).
  Proof. intros H _. unfold ogoodc. rewrite add_task_tasks. apply subseq_snoc. assumption. Qed.

  Lemma ogoodc_add_true a c x : ogoodc a c -> ogood (a ++ [x]) (c_tasks c ++ [x]).
  Proof. apply subseq_snoc. Qed.

  Lemma ogoodc_removed a c : ogoodc a (snd (remove_all cf c)).
  Proof. constructor. Qed.

  Record InvO (s : state) : Prop := mkInvO {
    O_cont : ogoodc (s_added s) (s_cont s);
    O_cmd : ogood (s_added s) (cmdl s);
    O_thr : Forall (fun t => ogood (s_added s) (held t)) (s_threads s);
    O_exe : Forall (ogood (s_added s)) (s_executed s)
  }.

  Lemma invO_init n t0 : InvO (init n t0).
  Proof.
    constructor; simpl; try constructor.
    induction n; simpl; constructor; auto. constructor.
  Qed.

  Lemma step_invO s l s' : InvO s -> step cf s l = Some s' -> InvO s'.
  Proof.
    intros I H. step_cases H i t a Hi.
    all: pre_cases H Hi.
    all: try (inversion H; subst s'; clear H).
    all: destruct I as [Jc Jm Jt Je].
    all: try (pose proof (Forall_nth _ _ _ _ Jt Hi) as Hh; simpl in Hh).
    all: try match goal with |- context [do_execute ?b _] =>
           unfold do_execute; destruct (has_tasks b) eqn:Eb end.
    all: try match goal with |- context [do_done _] =>
           unfold do_done, set_thr; simpl s_wg; destruct (s_wg s) eqn:Ewg end.
    all: try match goal with |- context [flush_return ?k ?ok] => destruct k; try destruct ok; simpl flush_return end.
    all: try solve [ constructor; unfold set_thr, spawn, cmdl in *; simpl in *;
      repeat match goal with E : s_cmd _ = _ |- _ => rewrite E in *; clear E end;
      try assumption; try apply ogood_nil; try apply ogoodc_removed;
      try (apply Forall_app; split; [|constructor; [|constructor]]);
      repeat (apply Forall_upd);
      try assumption; try apply ogood_nil; try (apply ogoodc_good; assumption);
      try (apply Forall_app; split; [assumption|constructor; [apply ogood_nil|constructor]]) ].
    all: constructor; unfold set_thr, cmdl in *; simpl;
      [ first [ apply (ogoodc_removed (s_added s ++ [x]) (fst (add_task cf (s_cont s) x)))
              | apply ogoodc_add_false; assumption ]
      | apply ogood_mono; assumption
      | apply Forall_upd;
        [ eapply Forall_impl; [|exact Jt]; intros; apply ogood_mono; assumption
        | simpl; rewrite ?add_task_tasks; first [apply ogood_nil | apply ogoodc_add_true; assumption] ]
      | eapply Forall_impl; [|exact Je]; intros; apply ogood_mono; assumption ].
  Qed.

  Lemma run_invO sched : forall s s', InvO s -> run cf sched s = Some s' -> InvO s'.
  Proof.
    induction sched as [|l r IH]; simpl; intros s s' I H.
    - inversion H; subst; assumption.
    - destruct (step cf s l) eqn:E; [|discriminate]. eapply IH; [|exact H]. eapply step_invO; eauto.
  Qed.
End Order.

(* ---------- Wait ---------- *)
Definition wait_thread_ok (s : state) (t : thread) : Prop :=
  match t with
  | TFl (KWait snap) pc =>
      incl snap (s_added s) /\
      match pc with
      | L4 _ | L5 _ => forall x, In x snap -> ~ In x (c_tasks (s_cont s))
      | _ => True
      end
  | TW2 snap | TW3 snap => incl snap (s_added s) /\ forall x, In x snap -> ~ In x (c_tasks (s_cont s))
  | TA3 x _ | TA4 x _ | TA5 x => In x (s_added s)
  | _ => True
  end.

Record Inv3 (s : state) : Prop := mkInv3 {
  K_thr : Forall (wait_thread_ok s) (s_threads s);
  K_ret : incl (s_returned s) (s_added s)
}.

Lemma inv3_init n t0 : Inv3 (init n t0).
Proof.
  constructor; simpl.
  - induction n; simpl; constructor; simpl; auto.
  - intros x [].
Qed.

(* wait_thread_ok only looks at the added list and the container *)
Lemma wto_ext s s' t :
  s_added s' = s_added s -> s_cont s' = s_cont s -> wait_thread_ok s t -> wait_thread_ok s' t.
Proof. intros E1 E2. unfold wait_thread_ok. rewrite E1, E2. auto. Qed.

Lemma wto_mono s s' t :
  (forall y, In y (s_added s) -> In y (s_added s')) ->
  (forall y, In y (s_added s) -> In y (c_tasks (s_cont s')) -> In y (c_tasks (s_cont s))) ->
  wait_thread_ok s t -> wait_thread_ok s' t.
Proof.
  intros H1 H2. unfold wait_thread_ok.
  destruct t as [ |?x|?x|?x ?ob|?x ?b|?x|k pc|?snap|?snap| |?c ?last|?b ?last|?b ?last|?b ?last|?b ?last| | | |?last|?last|?last| | ]; auto.
  - destruct k; auto. intros [Hi Hc]. split; [intros y Hy; auto|].
    destruct pc; auto; intros y Hy Hin; apply (Hc y Hy); apply H2; auto.
  - intros [Hi Hc]. split; [intros y Hy; auto|]. intros y Hy Hin; apply (Hc y Hy); apply H2; auto.
  - intros [Hi Hc]. split; [intros y Hy; auto|]. intros y Hy Hin; apply (Hc y Hy); apply H2; auto.
Qed.

Lemma fresh_at_TA2 s i x : Inv s -> nth_error (s_threads s) i = Some (TA2 x) -> ~ In x (s_added s).
Proof.
  intros I Hi Hin. destruct (I_issued s I x) as [H1 H2].
  pose proof (tsum_le_In (fun t => cnt x (pend t)) _ _ (nth_error_In _ _ Hi)) as H3. simpl in H3.
  rewrite cnt_self in H3. apply cnt_In in Hin. lia.
Qed.

Lemma step_inv3 cf s l s' : Inv s -> Inv3 s -> step cf s l = Some s' -> Inv3 s'.
Proof.
  intros I0 I H. step_cases H i t a Hi.
  all: pre_cases H Hi.
  all: try (inversion H; subst s'; clear H).
  all: destruct I as [Kt Kr].
  all: try (pose proof (Forall_nth _ _ _ _ Kt Hi) as Hh; simpl in Hh).
  all: try match goal with |- context [do_execute ?b _] =>
         unfold do_execute; destruct (has_tasks b) eqn:Eb end.
  all: try match goal with |- context [do_done _] =>
         unfold do_done, set_thr; simpl s_wg; destruct (s_wg s) eqn:Ewg end.
  all: try match goal with |- context [flush_return ?k ?ok] => destruct k; try destruct ok; simpl flush_return end.
  all: try (pose proof (Forall_nth _ _ _ _ Kt Hj) as Hhj; simpl in Hhj).
  all: try solve [ constructor; unfold set_thr, spawn in *; simpl in *;
    [ repeat (apply Forall_upd);
      try (apply Forall_app; split; [|constructor; [exact I|constructor]]);
      [ eapply Forall_impl; [|exact Kt]; intros ? ?; eapply wto_mono; [| |eassumption]; simpl; auto; intros ? ? []
      | .. ]; simpl; auto; try tauto
    | try assumption; try (intros y [<-|Hy]; [|apply Kr; assumption]); auto ] ].
  (* the four outcomes of Add's critical section *)
  1-4: pose proof (fresh_at_TA2 s i x I0 Hi) as Hfresh;
    constructor; unfold set_thr in *; simpl;
    [ apply Forall_upd;
      [ eapply Forall_impl; [|exact Kt]; intros t0 Ht0; eapply wto_mono; [| |exact Ht0]; simpl;
        [ intros y Hy; apply in_or_app; auto
        | first [ solve [intros ? ? []]
                | rewrite ?add_task_tasks; intros y Hy Hin; apply in_app_or in Hin;
                  destruct Hin as [Hin|[<-|[]]]; [assumption|contradiction] ] ]
      | simpl; auto; apply in_or_app; right; left; reflexivity ]
    | try (intros y [<-|Hy]; [apply in_or_app; right; left; reflexivity|]); try (intros y Hy);
      apply in_or_app; left; apply Kr; assumption ].
  (* Flush's RemoveAll *)
  constructor; unfold set_thr in *; simpl; [|assumption].
  apply Forall_upd.
  - eapply Forall_impl; [|exact Kt]. intros t0 Ht0. eapply wto_mono; [| |exact Ht0]; simpl; auto. intros ? ? [].
  - simpl. destruct k; auto. simpl in Hh. split; [tauto|]. intros ? ? [].
Qed.

Lemma run_inv3 cf sched : forall s s', Inv s -> Inv3 s -> run cf sched s = Some s' -> Inv3 s'.
Proof.
  induction sched as [|l r IH]; simpl; intros s s' I0 I H.
  - inversion H; subst; assumption.
  - destruct (step cf s l) eqn:E; [|discriminate]. eapply IH; [| |exact H].
    + eapply step_inv; eauto.
    + eapply step_inv3; eauto.
Qed.

(* ---------- the theorems ---------- *)
Definition places_of (s : state) : places :=
  mkplaces (s_added s) (c_tasks (s_cont s) ++ cmdl s ++ flat_map held (s_threads s)) (s_executed s).

Lemma tsum_flat_map x l : tsum (fun t => cnt x (held t)) l = cnt x (flat_map held l).
Proof. induction l; simpl; [reflexivity|]. rewrite cnt_app. lia. Qed.

Lemma added_nodup s : Inv s -> NoDup (s_added s).
Proof. intro I. apply NoDup_cnt. intro x. destruct (I_issued s I x). lia. Qed.

Lemma conservation cf s : reachable cf s -> conserved (places_of s).
Proof.
  intros R. pose proof (reachable_inv cf s R) as I. destruct R as [n [t0 [sched R]]].
  pose proof (run_invO cf sched _ _ (invO_init n t0) R) as IO.
  split; [|split].
  - intro x. simpl. rewrite !cnt_app, <- tsum_flat_map. rewrite (I_cons s I x). lia.
  - apply added_nodup; assumption.
  - exact (O_exe s IO).
Qed.

(* nothing is on its way *)
Definition quiescent (s : state) : Prop :=
  c_tasks (s_cont s) = [] /\ s_cmd s = None /\ Forall (fun t => held t = []) (s_threads s).

Lemma quiescent_all_executed cf s : reachable cf s -> quiescent s -> all_executed_once (places_of s).
Proof.
  intros R [Q1 [Q2 Q3]] x Hx. destruct (conservation cf s R) as [C [N _]]. simpl in *.
  specialize (C x). unfold cmdl in C. rewrite Q1, Q2 in C. simpl in C.
  assert (E : flat_map held (s_threads s) = []).
  { clear -Q3. induction Q3; simpl; [reflexivity|]. rewrite H, IHQ3. reflexivity. }
  rewrite E in C. simpl in C. rewrite ?cnt_nil in C.
  apply cnt_In in Hx. rewrite NoDup_count_occ with (decA := Nat.eq_dec) in N. specialize (N x).
  unfold cnt in *. simpl in *. lia.
Qed.

(* a pending task or batch has a live flusher *)
Definition flusher_alive (s : state) : Prop :=
  s_guarded s = true /\ exists t, In t (s_threads s) /\ looper t = 1%nat.
Definition flusher_exiting (s : state) : Prop :=
  exists t, In t (s_threads s) /\ exiter t = 1%nat.

Lemma looper_le1 t : (looper t <= 1)%nat.
Proof. destruct t; simpl; try lia. destruct k; lia. Qed.
Lemma exiter_le1 t : (exiter t <= 1)%nat.
Proof. destruct t; simpl; try lia. destruct k; try lia. destruct pc; lia. Qed.

Lemma guarded_alive s : Inv s -> s_guarded s = true -> flusher_alive s.
Proof.
  intros I G. split; [assumption|]. pose proof (I_guard s I) as H. rewrite G in H.
  destruct (tsum_pos looper (s_threads s)) as [t [Hin Hp]]; [lia|]. exists t. split; [assumption|].
  pose proof (looper_le1 t). lia.
Qed.

Lemma flusher_alive_lemma cf s : reachable cf s ->
  (c_tasks (s_cont s) <> [] -> flusher_alive s \/ flusher_exiting s) /\
  (s_cmd s <> None -> flusher_alive s) /\
  (forall t, In t (s_threads s) -> inflt t = 1%nat -> flusher_alive s).
Proof.
  intro R. pose proof (reachable_inv cf s R) as I. split; [|split].
  - intro Hne. destruct (I_cont s I Hne) as [G|E].
    + left. apply guarded_alive; assumption.
    + right. destruct (tsum_pos exiter (s_threads s)) as [t [Hin Hp]]; [lia|]. exists t. split; [assumption|].
      pose proof (exiter_le1 t). lia.
  - intro Hc. apply guarded_alive; [assumption|]. apply (I_ig s I). rewrite (I_infl s I).
    unfold cmdn. destruct (s_cmd s); [lia|congruence].
  - intros t Hin Ht. apply guarded_alive; [assumption|]. apply (I_ig s I). rewrite (I_infl s I).
    pose proof (tsum_le_In inflt _ _ Hin). lia.
Qed.

(* guarded = false: no flusher in its loop, and the next Add's critical section starts one *)
Lemma restart cf s : reachable cf s -> s_guarded s = false ->
  (forall t, In t (s_threads s) -> looper t = 0%nat) /\
  forall i x s1, nth_error (s_threads s) i = Some (TA2 x) -> step cf s (LT i AGo) = Some s1 ->
    s_guarded s1 = true /\
    exists ob, nth_error (s_threads s1) i = Some (TA3 x ob) /\
      exists s2, step cf s1 (LT i AGo) = Some s2 /\
                 nth_error (s_threads s2) (length (s_threads s1)) = Some TF0.
Proof.
  intros R G. pose proof (reachable_inv cf s R) as I. split.
  - apply tsum_zero. rewrite (I_guard s I), G. reflexivity.
  - intros i x s1 Hi H. unfold step in H. rewrite Hi in H. unfold step_thread in H. rewrite G in H.
    assert (Hlt : (i < length (s_threads s))%nat) by (apply nth_error_Some; congruence).
    destruct (snd (add_task cf (s_cont s) x)); inversion H; subst s1; clear H; (split; [reflexivity|]);
      unfold set_thr; simpl; eexists; (split; [eapply nth_error_upd_eq; eassumption|]);
      unfold step; simpl; erewrite nth_error_upd_eq by eassumption; simpl;
      eexists; (split; [reflexivity|]); unfold set_thr, spawn; simpl;
      rewrite nth_error_upd_ne by (rewrite length_upd; lia);
      rewrite nth_error_app2 by lia; rewrite Nat.sub_diag; reflexivity.
Qed.

(* batch bounds *)
Lemma bulk_bound cf s : 1 <= maxv cf -> (forall x, 0 <= sz cf x) -> chunk cf = false -> reachable cf s ->
  Forall (bulk_bounded (maxv cf)) (s_executed s).
Proof.
  intros Hm Hs Hc [n [t0 [sched R]]].
  pose proof (run_inv2 cf Hm Hs sched _ _ (inv2_init cf Hm Hs n t0) R) as I.
  eapply Forall_impl; [|exact (J_exe cf s I)]. intros b [_ [H _]]. exact (H Hc).
Qed.

Lemma chunk_bound cf s : 1 <= maxv cf -> (forall x, 0 <= sz cf x) -> chunk cf = true -> reachable cf s ->
  Forall (chunk_bounded (sz cf) (maxv cf)) (s_executed s).
Proof.
  intros Hm Hs Hc [n [t0 [sched R]]].
  pose proof (run_inv2 cf Hm Hs sched _ _ (inv2_init cf Hm Hs n t0) R) as I.
  eapply Forall_impl; [|exact (J_exe cf s I)]. intros b [_ [_ H]]. exact (H Hc).
Qed.

(* "exceeds the byte limit by less than its last task" *)
Lemma chunk_bounded_overshoot szf m b : b <> [] -> chunk_bounded szf m b ->
  sumsz szf b - m < szf (last b 0%nat).
Proof.
  intros Hne H. unfold chunk_bounded in H. rewrite (app_removelast_last 0%nat Hne) at 1.
  rewrite sumsz_app. unfold sumsz at 2. simpl. lia.
Qed.

Lemma no_panic cf s : reachable cf s -> s_panicked s = false.
Proof. intro R. exact (I_nopanic s (reachable_inv cf s R)). Qed.

(* Wait *)
Definition in_handover (s : state) (x : nat) : Prop :=
  In x (cmdl s) \/ exists t, In t (s_threads s) /\ handover t = true /\ In x (held t).

Lemma held_entered_or_handover t x : In x (held t) -> entered t = 1%nat \/ handover t = true.
Proof.
  destruct t; simpl; try contradiction; auto.
  - destruct ob; [auto|contradiction].
  - destruct pc; simpl; try contradiction; auto.
Qed.

Lemma reachable_inv3 cf s : reachable cf s -> Inv3 s.
Proof.
  intros [n [t0 [sched R]]]. eapply run_inv3; [apply inv_init|apply inv3_init|exact R].
Qed.

Lemma wait_partial cf s i snap s' : reachable cf s ->
  nth_error (s_threads s) i = Some (TW3 snap) -> step cf s (LT i AGo) = Some s' ->
  forall x, In x snap -> In x (concat (s_executed s')) \/ in_handover s' x.
Proof.
  intros R Hi H x Hx. pose proof (reachable_inv cf s R) as I. pose proof (reachable_inv3 cf s R) as I3.
  pose proof (Forall_nth _ _ _ _ (K_thr s I3) Hi) as [Hincl Hnc]. simpl in Hincl, Hnc.
  unfold step in H. rewrite Hi in H. simpl in H. destruct (s_wg s) eqn:Ewg; [|discriminate].
  inversion H; subst s'; clear H. unfold in_handover, set_thr, cmdl; simpl.
  assert (Ha : In x (s_added s)) by (apply Hincl; assumption).
  apply cnt_In in Ha. rewrite (I_cons s I x) in Ha.
  assert (Hc : cnt x (c_tasks (s_cont s)) = 0%nat).
  { destruct (cnt x (c_tasks (s_cont s))) eqn:E; [reflexivity|]. exfalso. apply (Hnc x Hx). apply cnt_In. lia. }
  destruct (cnt x (concat (s_executed s))) eqn:Ee; [|left; apply cnt_In; lia].
  right. unfold cmdl in Ha. destruct (cnt x (match s_cmd s with Some b => b | None => [] end)) eqn:Em.
  - right. destruct (tsum_pos (fun t => cnt x (held t)) (s_threads s)) as [t [Hin Hp]]; [lia|].
    apply cnt_In in Hp. destruct (held_entered_or_handover t x Hp) as [He|Hh].
    + exfalso. pose proof (tsum_le_In entered _ _ Hin). rewrite <- (I_wg s I), Ewg in H. lia.
    + assert (Hti : t <> TW3 snap) by (intro; subst; discriminate).
      destruct (In_nth_error _ _ Hin) as [j Hj].
      assert (j <> i) by (intro; subst; rewrite Hi in Hj; inversion Hj; congruence).
      exists t. split; [|split; assumption].
      assert (Hij : i <> j) by auto.
      apply (nth_error_In _ j). rewrite (nth_error_upd_ne (s_threads s) i j TIdle Hij). exact Hj.
  - left. apply cnt_In. lia.
Qed.

Definition no_handover (s : state) : Prop :=
  s_cmd s = None /\ Forall (fun t => handover t = false) (s_threads s).

Lemma wait_no_handover cf s i snap s' : reachable cf s ->
  nth_error (s_threads s) i = Some (TW3 snap) -> step cf s (LT i AGo) = Some s' ->
  no_handover s' -> forall x, In x snap -> In x (concat (s_executed s')).
Proof.
  intros R Hi H [N1 N2] x Hx. destruct (wait_partial cf s i snap s' R Hi H x Hx) as [He|[Hc|[t [Hin [Hh _]]]]]; auto.
  - unfold cmdl in Hc. rewrite N1 in Hc. contradiction.
  - rewrite Forall_forall in N2. rewrite (N2 t Hin) in Hh. discriminate.
Qed.

(* the full-strength Wait clause, and a schedule that falsifies it: Add(1) returns (task in the
   container); another caller's Add(2) reaches the threshold and takes [1;2] out (it has not yet
   sent it on pe.commander); a third caller's Wait flushes an empty container, finds the WaitGroup
   at zero and returns. *)
Definition wait_statement : Prop :=
  forall cf s i snap s', reachable cf s ->
    nth_error (s_threads s) i = Some (TW3 snap) -> step cf s (LT i AGo) = Some s' ->
    forall x, In x snap -> In x (concat (s_executed s')).

Definition wr_cfg : config := mkcfg false 2 (fun _ => 0) 1000000000.
Definition wr_sched : list label :=
  [LT 0 (ACall (OAdd 1)); LT 0 AGo; LT 0 AGo; LT 0 AGo;
   LT 1 (ACall (OAdd 2)); LT 1 AGo; LT 1 AGo;
   LT 2 (ACall OWait); LT 2 AGo; LT 2 AGo; LT 2 AGo; LT 2 AGo; LT 2 AGo; LT 2 AGo].

Lemma wait_refuted_witness :
  exists s s', run wr_cfg wr_sched (init 3 0) = Some s /\
    nth_error (s_threads s) 2 = Some (TW3 [1%nat]) /\ In 1%nat (s_returned s) /\
    step wr_cfg s (LT 2 AGo) = Some s' /\
    nth_error (s_threads s') 2 = Some TIdle /\ s_executed s' = [] /\
    nth_error (s_threads s') 1 = Some (TA4 2 [1%nat; 2%nat]).
Proof.
  eexists. eexists. split; [vm_compute; reflexivity|].
  split; [vm_compute; reflexivity|]. split; [vm_compute; auto|].
  split; [vm_compute; reflexivity|]. vm_compute. repeat split; reflexivity.
Qed.

Lemma wait_refuted : ~ wait_statement.
Proof.
  intro W. destruct wait_refuted_witness as [s [s' [R [Hi [_ [Hs [_ [He _]]]]]]]].
  assert (Hr : reachable wr_cfg s) by (exists 3%nat, 0, wr_sched; exact R).
  specialize (W wr_cfg s 2%nat [1%nat] s' Hr Hi Hs 1%nat (or_introl eq_refl)).
  rewrite He in W. exact W.
Qed.

(* ---------- sequential histories are schedules of the LTS ---------- *)
Lemma run_app cf a b s : run cf (a ++ b) s = match run cf a s with Some s' => run cf b s' | None => None end.
Proof. revert s. induction a as [|l a IH]; simpl; intro s; [reflexivity|]. destruct (step cf s l); auto. Qed.

Lemma reachable_step cf s l s' : reachable cf s -> step cf s l = Some s' -> reachable cf s'.
Proof.
  intros [n [t0 [sched R]]] H. exists n, t0, (sched ++ [l]). rewrite run_app, R. simpl. rewrite H. reflexivity.
Qed.

Lemma reachable_try_step cf s l : reachable cf s -> reachable cf (try_step cf s l).
Proof. intro R. unfold try_step. destruct (step cf s l) eqn:E; [eapply reachable_step; eauto|assumption]. Qed.

Lemma next_internal_step cf s s' : next_internal cf s = Some s' -> exists l, step cf s l = Some s'.
Proof.
  unfold next_internal. generalize 0%nat. generalize (s_threads s).
  induction l as [|t r IH]; intros i H; [discriminate|].
  destruct (internal_action s t) as [a|]; [|eauto].
  destruct (step cf s (LT i a)) eqn:E; [inversion H; subst; eauto|eauto].
Qed.

Lemma reachable_settle cf f : forall s, reachable cf s -> reachable cf (settle cf f s).
Proof.
  induction f; simpl; intros s R; [assumption|].
  destruct (next_internal cf s) eqn:E; [|assumption].
  apply IHf. destruct (next_internal_step cf s s0 E) as [l H]. eapply reachable_step; eauto.
Qed.

Lemma reachable_seq_step cf s o : reachable cf s -> reachable cf (fst (seq_step cf s o)).
Proof.
  intro R. destruct o; unfold seq_step; cbn [fst].
  - apply reachable_settle, reachable_try_step, R.
  - destruct (first_selecting (s_threads s)); cbn [fst]; [|assumption].
    apply reachable_settle, reachable_try_step, R.
  - apply reachable_try_step, R.
  - apply reachable_settle, reachable_try_step, R.
  - apply reachable_settle, reachable_try_step, R.
  - match goal with |- context [first_selecting ?l] => destruct (first_selecting l) end; cbn [fst];
      apply reachable_settle; repeat apply reachable_try_step; assumption.
Qed.

Definition seq_run (cf : config) (t0 : Z) (ops : list sop) : state :=
  fold_left (fun s o => fst (seq_step cf s o)) ops (init 1 t0).

Lemma reachable_seq_run cf t0 ops : reachable cf (seq_run cf t0 ops).
Proof.
  unfold seq_run. assert (R : reachable cf (init 1 t0)) by (exists 1%nat, t0, []; reflexivity).
  revert R. generalize (init 1 t0). induction ops; cbn [fold_left]; intros s R; [assumption|].
  apply IHops. apply reachable_seq_step. assumption.
Qed.

(* ---------- the chunk container's byte counter describes exactly the tasks in the container ----------
   (at every step of every schedule, no hypothesis on the configuration: it is reset in the same
   critical section that takes the tasks out, never later) *)
Definition size_inv (cf : config) (s : state) : Prop :=
  chunk cf = true -> c_size (s_cont s) = sumsz (sz cf) (c_tasks (s_cont s)).

Lemma step_size_inv cf s l s' : size_inv cf s -> step cf s l = Some s' -> size_inv cf s'.
Proof.
  intros I H. step_cases H i t a Hi.
  all: pre_cases H Hi.
  all: try (inversion H; subst s'; clear H).
  all: try match goal with |- context [do_execute ?b _] => unfold do_execute; destruct (has_tasks b) end.
  all: try match goal with |- context [do_done _] => unfold do_done, set_thr; simpl s_wg; destruct (s_wg s) end.
  all: try solve [ unfold size_inv, set_thr, spawn in *; simpl; exact I ].
  all: unfold size_inv, set_thr in *; simpl; intro Ech; specialize (I Ech);
    unfold add_task; rewrite ?Ech; simpl; rewrite ?sumsz_nil; try reflexivity;
    rewrite sumsz_app; unfold sumsz at 2; simpl; lia.
Qed.

Lemma container_size_inv cf s : reachable cf s -> size_inv cf s.
Proof.
  intros [n [t0 [sched R]]].
  assert (I0 : size_inv cf (init n t0)) by (intros _; reflexivity).
  revert I0 R. generalize (init n t0). induction sched as [|l r IH]; simpl; intros s0 I0 R.
  - inversion R; subst; assumption.
  - destruct (step cf s0 l) eqn:E; [|discriminate]. eapply IH; [|exact R]. eapply step_size_inv; eauto.
Qed.

(* every Flush path (external Flush, Wait, the flusher's tick arm, its deferred Flush) does wg.Add(1)
   BEFORE it takes the tasks out of the container, and the commander path before it confirms: a thread
   that holds removed tasks past that point is counted by the WaitGroup, so Wait cannot return *)
Lemma entered_counted cf s t : reachable cf s -> In t (s_threads s) -> entered t = 1%nat -> (1 <= s_wg s)%nat.
Proof.
  intros R Hin He. rewrite (I_wg s (reachable_inv cf s R)). pose proof (tsum_le_In entered _ _ Hin). lia.
Qed.

Lemma wait_return_none_entered cf s i snap s' : reachable cf s ->
  nth_error (s_threads s) i = Some (TW3 snap) -> step cf s (LT i AGo) = Some s' ->
  forall t, In t (s_threads s) -> entered t = 0%nat.
Proof.
  intros R Hi H. unfold step in H. rewrite Hi in H. simpl in H. destruct (s_wg s) eqn:Ewg; [|discriminate].
  apply tsum_zero. rewrite <- (I_wg s (reachable_inv cf s R)). exact Ewg.
Qed.

(* ---------- report delivery: nothing is lost or duplicated because the write lock was busy ---------- *)
Definition wpend (t : wpc) : list nat := match t with WWant r | WHold r => [r] | _ => [] end.
Definition wsum (x : nat) (l : list wpc) : nat := fold_right (fun t a => (cnt x (wpend t) + a)%nat) 0%nat l.

Lemma wsum_upd x l i t t' : nth_error l i = Some t ->
  (wsum x (upd i t' l) + cnt x (wpend t) = wsum x l + cnt x (wpend t'))%nat.
Proof.
  revert i. induction l as [|a l IH]; destruct i; simpl; intros H; try discriminate.
  - inversion H; subst. lia.
  - specialize (IH _ H). lia.
Qed.

Definition wtotal (x : nat) (s : wstate) : nat := (cnt x (w_out s) + wsum x (w_thr s))%nat.

Lemma wstep_total x s i s' : wstep s i = Some s' -> wtotal x s' = wtotal x s.
Proof.
  unfold wstep, wtotal. destruct (nth_error (w_thr s) i) as [t|] eqn:Hi; [|discriminate].
  destruct t; try discriminate; try destruct (free (w_lock s)); try discriminate;
    intro H; inversion H; subst s'; clear H; simpl;
    pose proof (wsum_upd x _ _ _ (WHold r) Hi) as F1 || idtac;
    first [ pose proof (wsum_upd x _ _ _ (WHold r) Hi) as F; simpl in F; rewrite ?cnt_app, ?cnt_nil in *; lia
          | pose proof (wsum_upd x _ _ _ WDone Hi) as F; simpl in F; rewrite ?cnt_app, ?cnt_nil in *; lia
          | pose proof (wsum_upd x _ _ _ WSet Hi) as F; simpl in F; rewrite ?cnt_app, ?cnt_nil in *; lia ].
Qed.

Lemma wrun_total x sched : forall s s', wrun sched s = Some s' -> wtotal x s' = wtotal x s.
Proof.
  induction sched as [|i r IH]; simpl; intros s s' H.
  - inversion H; reflexivity.
  - destruct (wstep s i) eqn:E; [|discriminate]. rewrite (IH _ _ H). eapply wstep_total; eauto.
Qed.

Lemma reports_conserved x thr sched s' :
  wrun sched (mkw None thr []) = Some s' ->
  (cnt x (w_out s') + wsum x (w_thr s') = wsum x thr)%nat.
Proof. intro H. pose proof (wrun_total x sched _ _ H) as E. unfold wtotal in E. simpl in E. rewrite ?cnt_nil in E. unfold cnt in *. simpl in *. lia. Qed.

Lemma reports_all_delivered x thr sched s' :
  wrun sched (mkw None thr []) = Some s' -> Forall (fun t => t = WDone) (w_thr s') ->
  cnt x (w_out s') = wsum x thr.
Proof.
  intros H D. rewrite <- (reports_conserved x thr sched s' H).
  assert (Z0 : wsum x (w_thr s') = 0%nat).
  { clear H. induction D; simpl; [reflexivity|]. subst. simpl. rewrite ?cnt_nil. unfold cnt in *. simpl in *. lia. }
  lia.
Qed.

(* the writer is never stuck for good: whoever holds the lock can always go on *)
Lemma report_holder_can_step s i t :
  nth_error (w_thr s) i = Some t -> (exists r, t = WHold r) \/ t = WSet -> wstep s i <> None.
Proof. intros Hi [[r ->]| ->]; unfold wstep; rewrite Hi; discriminate. Qed.

(* Wait cannot return while some thread -- a caller-side Flush included, whether or not a background flusher
   still exists -- is between wg.Add(1) and wg.Done() *)
Lemma wait_blocked_while_entered cf s i snap t : reachable cf s ->
  nth_error (s_threads s) i = Some (TW3 snap) -> In t (s_threads s) -> entered t = 1%nat ->
  step cf s (LT i AGo) = None.
Proof.
  intros R Hi Hin He. destruct (step cf s (LT i AGo)) as [s'|] eqn:E; [|reflexivity].
  pose proof (wait_return_none_entered cf s i snap s' R Hi E t Hin). lia.
Qed.

(* the flusher has retired (guarded = false, goroutine finished) while a caller-side Flush is still executing *)
Definition retire_cfg : config := mkcfg false 3 (fun _ => 0) 1000000000.
Definition retire_sched : list label :=
  [LT 0 (ACall (OAdd 1)); LT 0 AGo; LT 0 AGo; LT 0 AGo;          (* Add(1) returns; flusher = thread 3 *)
   LT 3 AGo;                                                     (* flusher at its select *)
   LT 1 (ACall OFlush); LT 1 AGo; LT 1 AGo; LT 1 AGo;            (* caller 1: Flush, now about to Execute [1] *)
   LAdvance 11000000000;
   LT 3 ASelTick; LT 3 AGo; LT 3 AGo; LT 3 AGo; LT 3 AGo; LT 3 AGo;   (* tick: Flush() of nothing *)
   LT 3 AGo; LT 3 AGo; LT 3 AGo;                                 (* shallQuit: idle too long, inflight = 0: quit *)
   LT 3 AGo; LT 3 AGo; LT 3 AGo; LT 3 AGo; LT 3 AGo; LT 3 AGo;   (* ticker.Stop, deferred Flush; goroutine ends *)
   LT 2 (ACall OWait); LT 2 AGo; LT 2 AGo; LT 2 AGo; LT 2 AGo; LT 2 AGo; LT 2 AGo].  (* caller 2: Wait, at wg.Wait *)

Lemma wait_after_retire_witness :
  exists s, run retire_cfg retire_sched (init 3 0) = Some s /\
    s_guarded s = false /\ nth_error (s_threads s) 3 = Some TDead /\
    nth_error (s_threads s) 1 = Some (TFl KRet (L4 [1%nat])) /\
    nth_error (s_threads s) 2 = Some (TW3 [1%nat]) /\
    step retire_cfg s (LT 2 AGo) = None /\
    exists s', run retire_cfg [LT 1 AGo; LT 1 AGo; LT 2 AGo] s = Some s' /\
      s_executed s' = [[1%nat]] /\ nth_error (s_threads s') 2 = Some TIdle.
Proof.
  eexists. split; [vm_compute; reflexivity|].
  repeat (split; [vm_compute; reflexivity|]).
  eexists. split; [vm_compute; reflexivity|]. split; vm_compute; reflexivity.
Qed.

(* an explicit Flush (any Flush path) takes EVERYTHING that is in the container, whenever it runs: there is no
   condition on the clock, on earlier Flushes, or on the flusher's state in its RemoveAll step, and its next
   step hands exactly those tasks to the execute function *)
Lemma flush_takes_all cf s i k s' :
  nth_error (s_threads s) i = Some (TFl k L3) -> step cf s (LT i AGo) = Some s' ->
  c_tasks (s_cont s') = [] /\ nth_error (s_threads s') i = Some (TFl k (L4 (c_tasks (s_cont s)))).
Proof.
  intros Hi H. unfold step in H. rewrite Hi in H. simpl in H. inversion H; subst s'; clear H.
  split; [reflexivity|]. unfold set_thr; simpl. eapply nth_error_upd_eq; eassumption.
Qed.

Lemma flush_executes cf s i k b s' : b <> [] ->
  nth_error (s_threads s) i = Some (TFl k (L4 b)) -> step cf s (LT i AGo) = Some s' ->
  s_executed s' = s_executed s ++ [b].
Proof.
  intros Hb Hi H. unfold step in H. rewrite Hi in H. simpl in H. inversion H; subst s'; clear H.
  unfold do_execute. destruct b; [congruence|]. reflexivity.
Qed.
