(* C16 Props: the property theorems, nothing else.
   `reachable cf s`: s is the state of the executor LTS (C16.Model) after SOME schedule, from an initial
   state with any number of caller threads: every interleaving of any number of concurrent adders, Flush and
   Wait callers, ticks (always enabled), clock advances, flusher quits and restarts.
   Task ids are unique by construction (an Add of an already issued id is not enabled). *)
From God Require Import Base.Prelude C16.Spec C16.Model C16.Proofs.
Local Open Scope Z_scope.

(* every added task is in exactly one place exactly once (container, commander, a thread's hands, one
   executed batch); no task is added twice; each executed batch lists its tasks in add order *)
Theorem c16_conservation : forall cf s, reachable cf s -> conserved (places_of s).
Proof. exact conservation. Qed.
Print Assumptions c16_conservation.

(* a non-empty container has a live flusher (guarded, and a flusher goroutine in its loop or the `go`
   that starts it pending) or a flusher in its deferred Flush before RemoveAll; a batch in the hand-over
   channel or in an adder's hands has a live flusher *)
Theorem c16_flusher_alive : forall cf s, reachable cf s ->
  (c_tasks (s_cont s) <> [] -> flusher_alive s \/ flusher_exiting s) /\
  (s_cmd s <> None -> flusher_alive s) /\
  (forall t, In t (s_threads s) -> inflt t = 1%nat -> flusher_alive s).
Proof. exact flusher_alive_lemma. Qed.
Print Assumptions c16_flusher_alive.

(* hence: whenever nothing is on its way, every added task has been executed exactly once *)
Theorem c16_quiescent_all_executed : forall cf s, reachable cf s -> quiescent s -> all_executed_once (places_of s).
Proof. exact quiescent_all_executed. Qed.
Print Assumptions c16_quiescent_all_executed.

Theorem c16_bulk_bound : forall cf s, 1 <= maxv cf -> (forall x, 0 <= sz cf x) -> chunk cf = false ->
  reachable cf s -> Forall (bulk_bounded (maxv cf)) (s_executed s).
Proof. exact bulk_bound. Qed.
Print Assumptions c16_bulk_bound.

Theorem c16_chunk_bound : forall cf s, 1 <= maxv cf -> (forall x, 0 <= sz cf x) -> chunk cf = true ->
  reachable cf s -> Forall (chunk_bounded (sz cf) (maxv cf)) (s_executed s).
Proof. exact chunk_bound. Qed.
Print Assumptions c16_chunk_bound.

(* chunk_bounded is "exceeds the byte limit by less than its last task" *)
Theorem c16_chunk_overshoot : forall szf m b, b <> [] -> chunk_bounded szf m b ->
  sumsz szf b - m < szf (last b 0%nat).
Proof. exact chunk_bounded_overshoot. Qed.
Print Assumptions c16_chunk_overshoot.

(* the chunk container's byte counter is, at every moment of every schedule, the sum of the sizes of the
   tasks currently in the container (reset in the critical section that removes them, not later) *)
Theorem c16_container_size_inv : forall cf s, reachable cf s ->
  chunk cf = true -> c_size (s_cont s) = sumsz (sz cf) (c_tasks (s_cont s)).
Proof. exact container_size_inv. Qed.
Print Assumptions c16_container_size_inv.

(* every path that takes tasks out of the container through Flush (external Flush, Wait, the flusher's
   tick arm and its deferred Flush: L2..L5 of any continuation) and the flusher after enterExecution are
   counted by the WaitGroup for as long as they hold the tasks ... *)
Theorem c16_flush_paths_counted : forall cf s t, reachable cf s -> In t (s_threads s) ->
  entered t = 1%nat -> (1 <= s_wg s)%nat.
Proof. exact entered_counted. Qed.
Print Assumptions c16_flush_paths_counted.

(* ... hence when a Wait returns no such thread exists: whatever a tick or an explicit Flush removed
   before has finished executing *)
Theorem c16_wait_covers_flush_paths : forall cf s i snap s', reachable cf s ->
  nth_error (s_threads s) i = Some (TW3 snap) -> step cf s (LT i AGo) = Some s' ->
  forall t, In t (s_threads s) -> entered t = 0%nat.
Proof. exact wait_return_none_entered. Qed.
Print Assumptions c16_wait_covers_flush_paths.

(* stat.Metrics report delivery (C16.Model.wstep: every Execute of every Metrics instance, and SetReportWriter,
   go through the one blocking writeLock): for every schedule, every report is either still in the hands of
   its (waiting or writing) thread or has reached the writer exactly once -- a busy lock loses nothing *)
Theorem c16_reports_conserved : forall x thr sched s',
  wrun sched (mkw None thr []) = Some s' ->
  (cnt x (w_out s') + wsum x (w_thr s') = wsum x thr)%nat.
Proof. exact reports_conserved. Qed.
Print Assumptions c16_reports_conserved.

Theorem c16_reports_all_delivered : forall x thr sched s',
  wrun sched (mkw None thr []) = Some s' -> Forall (fun t => t = WDone) (w_thr s') ->
  cnt x (w_out s') = wsum x thr.
Proof. exact reports_all_delivered. Qed.
Print Assumptions c16_reports_all_delivered.

(* Wait is blocked for as long as ANY thread is between wg.Add(1) and wg.Done(): an external Flush that is still
   executing counts exactly like the flusher -- also after the background flusher has retired (guarded = false):
   no hypothesis on guarded / on the flusher's existence *)
Theorem c16_wait_blocked_while_entered : forall cf s i snap t, reachable cf s ->
  nth_error (s_threads s) i = Some (TW3 snap) -> In t (s_threads s) -> entered t = 1%nat ->
  step cf s (LT i AGo) = None.
Proof. exact wait_blocked_while_entered. Qed.
Print Assumptions c16_wait_blocked_while_entered.

(* an explicit Flush is never rate limited: its RemoveAll step (always enabled once it holds pe.lock) empties the
   container whatever the clock, earlier Flushes or the flusher did, and its next step executes exactly those
   tasks.  (Wait has no timeout either: c16_wait_blocked_while_entered holds for every schedule, clock advances
   of any length included.) *)
Theorem c16_flush_takes_all : forall cf s i k s',
  nth_error (s_threads s) i = Some (TFl k L3) -> step cf s (LT i AGo) = Some s' ->
  c_tasks (s_cont s') = [] /\ nth_error (s_threads s') i = Some (TFl k (L4 (c_tasks (s_cont s)))).
Proof. exact flush_takes_all. Qed.
Print Assumptions c16_flush_takes_all.

Theorem c16_flush_executes : forall cf s i k b s', b <> [] ->
  nth_error (s_threads s) i = Some (TFl k (L4 b)) -> step cf s (LT i AGo) = Some s' ->
  s_executed s' = s_executed s ++ [b].
Proof. exact flush_executes. Qed.
Print Assumptions c16_flush_executes.

(* LessExecutor: the first task is always executed, whatever the threshold and the clock; afterwards (the clock
   being positive, so that a recorded execution time is not the "never" mark 0) a task within the threshold of the
   last execution is discarded and a task after it is executed *)
Theorem c16_less_first : forall thr now, less_step thr 0 now = (true, now).
Proof. intros. reflexivity. Qed.
Print Assumptions c16_less_first.

Theorem c16_less_within : forall thr last now, last <> 0 -> now - last < thr -> less_step thr last now = (false, last).
Proof.
  intros thr last now H1 H2. unfold less_step.
  destruct (last =? 0) eqn:E1; [lia|]. destruct (last + thr <? now) eqn:E2; [lia|]. reflexivity.
Qed.
Print Assumptions c16_less_within.

Theorem c16_less_after : forall thr last now, thr < now - last -> less_step thr last now = (true, now).
Proof.
  intros thr last now H. unfold less_step.
  destruct (last + thr <? now) eqn:E2; [|lia]. rewrite orb_true_r. reflexivity.
Qed.
Print Assumptions c16_less_after.

(* the WaitGroup counter never goes negative *)
Theorem c16_no_panic : forall cf s, reachable cf s -> s_panicked s = false.
Proof. exact no_panic. Qed.
Print Assumptions c16_no_panic.

(* after the flusher quit (guarded = false) no flusher is in its loop, and the next Add's critical
   section sets guarded and its deferred backgroundFlush() creates a new flusher goroutine *)
Theorem c16_restart : forall cf s, reachable cf s -> s_guarded s = false ->
  (forall t, In t (s_threads s) -> looper t = 0%nat) /\
  forall i x s1, nth_error (s_threads s) i = Some (TA2 x) -> step cf s (LT i AGo) = Some s1 ->
    s_guarded s1 = true /\
    exists ob, nth_error (s_threads s1) i = Some (TA3 x ob) /\
      exists s2, step cf s1 (LT i AGo) = Some s2 /\
                 nth_error (s_threads s2) (length (s_threads s1)) = Some TF0.
Proof. exact restart. Qed.
Print Assumptions c16_restart.

(* ---- Wait ----
   Full-strength clause (snap = the tasks whose Add had returned when Wait was called): *)
Definition c16_wait_statement : Prop :=
  forall cf s i snap s', reachable cf s ->
    nth_error (s_threads s) i = Some (TW3 snap) -> step cf s (LT i AGo) = Some s' ->
    forall x, In x snap -> In x (concat (s_executed s')).

(* It is FALSE of the faithful model (and of the Go code, replayed by the driver's `waitrace` operation):
   a Wait overlapping another goroutine's threshold-reaching Add returns while the batch that Add took
   out of the container -- containing tasks added before the Wait -- is still on its way. *)
Theorem c16_wait_refuted : ~ c16_wait_statement.
Proof. exact wait_refuted. Qed.
Print Assumptions c16_wait_refuted.

(* What holds for every schedule: when Wait returns, every task added before it has been executed or
   sits in a batch that is being handed over to the flusher (an adder's hands after RemoveAll, the
   commander channel, the flusher before enterExecution).
   MISSING w.r.t. the full clause: the hand-over disjunct (it cannot be removed, see c16_wait_refuted). *)
Theorem c16_wait_partial : forall cf s i snap s', reachable cf s ->
  nth_error (s_threads s) i = Some (TW3 snap) -> step cf s (LT i AGo) = Some s' ->
  forall x, In x snap -> In x (concat (s_executed s')) \/ in_handover s' x.
Proof. exact wait_partial. Qed.
Print Assumptions c16_wait_partial.

(* in particular the full clause holds for every Wait that returns while no batch is being handed over
   (always the case in sequential histories, and when no threshold-reaching Add overlaps the Wait) *)
Theorem c16_wait_no_handover : forall cf s i snap s', reachable cf s ->
  nth_error (s_threads s) i = Some (TW3 snap) -> step cf s (LT i AGo) = Some s' ->
  no_handover s' -> forall x, In x snap -> In x (concat (s_executed s')).
Proof. exact wait_no_handover. Qed.
Print Assumptions c16_wait_no_handover.

(* the sequential histories replayed against the Go code by the correspondence are LTS schedules:
   every theorem above applies to them *)
Theorem c16_sequential_reachable : forall cf t0 ops, reachable cf (seq_run cf t0 ops).
Proof. exact reachable_seq_run. Qed.
Print Assumptions c16_sequential_reachable.

(* in particular for every sequential history (stat.Metrics periods included: the model has no state besides
   the executor's own -- no log switch, no report writer -- so what Execute receives cannot depend on whether a
   consumer of the report exists yet): at rest, every task handed to the executor has reached Execute exactly once *)
Theorem c16_sequential_all_executed : forall cf t0 ops,
  quiescent (seq_run cf t0 ops) -> all_executed_once (places_of (seq_run cf t0 ops)).
Proof. intros cf t0 ops. apply (quiescent_all_executed cf). apply reachable_seq_run. Qed.
Print Assumptions c16_sequential_all_executed.

(* ---- non-vacuity ---- *)
Definition ex_cfg : config := mkcfg false 2 (fun _ => 0) 1000000000.

(* threshold batch, tick batch, quiescent afterwards *)
Example c16_ex_batches :
  let s := seq_run ex_cfg 5 [SAdd 1; SAdd 2; SAdd 3; STick; STick; SWait] in
  s_executed s = [[1%nat; 2%nat]; [3%nat]] /\ s_added s = [1%nat; 2%nat; 3%nat] /\
  c_tasks (s_cont s) = [] /\ s_cmd s = None /\ forallb (fun t => match held t with [] => true | _ => false end) (s_threads s) = true.
Proof. vm_compute. repeat split; reflexivity. Qed.

(* the flusher quits after an idle period (guarded = false is reachable) and a later Add restarts it *)
Example c16_ex_quit_restart :
  let s := seq_run ex_cfg 5 [SAdd 1; STick; SAdvance 11000000000; STick] in
  let s' := seq_run ex_cfg 5 [SAdd 1; STick; SAdvance 11000000000; STick; SAdd 2; STick] in
  s_guarded s = false /\ s_threads s = [TIdle; TDead] /\ s_executed s = [[1%nat]] /\
  s_guarded s' = true /\ s_threads s' = [TIdle; TDead; TFSel false 11000000005] /\ s_executed s' = [[1%nat]; [2%nat]].
Proof. vm_compute. repeat split; reflexivity. Qed.

(* a tick racing a threshold Add after an idle period: inflight > 0 keeps the flusher alive *)
Example c16_ex_racetick :
  let s := seq_run (mkcfg false 1 (fun _ => 0) 1000000000) 5 [SAdd 1; STick; SAdvance 11000000000; SRaceTick 2] in
  s_guarded s = true /\ s_executed s = [[1%nat]; [2%nat]] /\ s_returned s = [2%nat; 1%nat].
Proof. vm_compute. repeat split; reflexivity. Qed.

(* two reports and a SetReportWriter contending for the write lock: both reports arrive, once *)
Example c16_ex_reports :
  wrun [0; 1; 2; 0; 1; 1; 2; 2]%nat (mkw None [WWant 7; WWant 9; WWantSet] []) = None /\
  exists s, wrun [0; 0; 2; 2; 1; 1]%nat (mkw None [WWant 7; WWant 9; WWantSet] []) = Some s /\
            w_out s = [7%nat; 9%nat] /\ w_thr s = [WDone; WDone; WDone].
Proof. split; [vm_compute; reflexivity|]. eexists. split; [vm_compute; reflexivity|]. split; reflexivity. Qed.

(* "flusher retired while a caller-side Flush is executing" is a reachable state of the LTS: Add(1); a Flush that
   holds [1] just before Execute; an idle period and a tick: the flusher quits (guarded = false, goroutine dead);
   Wait from a third caller is blocked at wg.Wait; once the Flush has executed and done wg.Done, Wait returns
   with [1] executed *)
Example c16_ex_wait_after_retire :
  exists s, run retire_cfg retire_sched (init 3 0) = Some s /\
    s_guarded s = false /\ nth_error (s_threads s) 3 = Some TDead /\
    nth_error (s_threads s) 1 = Some (TFl KRet (L4 [1%nat])) /\
    nth_error (s_threads s) 2 = Some (TW3 [1%nat]) /\
    step retire_cfg s (LT 2 AGo) = None /\
    exists s', run retire_cfg [LT 1 AGo; LT 1 AGo; LT 2 AGo] s = Some s' /\
      s_executed s' = [[1%nat]] /\ nth_error (s_threads s') 2 = Some TIdle.
Proof. exact wait_after_retire_witness. Qed.

(* the premise of the Wait theorems is reachable, also with a snapshot task in hand-over *)
Example c16_ex_wait_premise :
  exists s s', run wr_cfg wr_sched (init 3 0) = Some s /\
    nth_error (s_threads s) 2 = Some (TW3 [1%nat]) /\ In 1%nat (s_returned s) /\
    step wr_cfg s (LT 2 AGo) = Some s' /\
    nth_error (s_threads s') 2 = Some TIdle /\ s_executed s' = [] /\
    nth_error (s_threads s') 1 = Some (TA4 2 [1%nat; 2%nat]).
Proof. exact wait_refuted_witness. Qed.
