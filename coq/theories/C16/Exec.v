(* C16 Exec: the checkers evaluated by vm_compute on (script, observed events).
   Every observation carries values of one global sequence counter (0 = never happened). *)
From God Require Import Base.Prelude.
From God Require Export C16.Model.
From Coq Require Import FMapPositive.
Module PM := PositiveMap.
Local Open Scope Z_scope.

(* ---------- large-row cases (sqlx.BulkInserter: maxBulkRows = 1000 is a constant) ----------
   ids are positives, sequence numbers are N, lookups go through PositiveMap. *)
Inductive bop := BIns (first : positive) (n : nat)   (* rows first .. first+n-1 inserted in this order *)
               | BTick | BFlush.

Record bigcase := mkbig {
  g_max : Z;                                   (* the threshold the documentation promises for this executor *)
  g_ops : list bop;
  g_adds : list (positive * N * N);            (* row id, Insert call, Insert return; in id order *)
  g_calls : list (N * N);                      (* Flush call, return *)
  g_ticks : list (N * bool * N);               (* offered, delivered, settled *)
  g_batches : list (list positive * N * N);    (* rows of an executed statement, Exec entry, Exec exit *)
  g_hung : bool;
  g_pending : nat
}.

Record addobs := mkadd { a_id : nat; a_call : nat; a_ret : nat }.            (* one Add call *)
Record callobs := mkcall { k_wait : bool; k_call : nat; k_ret : nat }.       (* one Flush (false) / Wait (true) call *)
Record tickobs := mktick { t_seq : nat; t_delivered : bool; t_done : nat }.  (* one tick offered to the live flusher *)
Record batchobs := mkbatch { b_ids : list nat; b_start : nat; b_end : nat }. (* one call of the execute function *)
Record opobs := mkop { p_nb : nat; p_guarded : bool; p_starts : nat; p_stops : nat }. (* after each script op *)

(* LessExecutor stream: threshold, then (reading of the clock at the call, was the task executed) per DoOrDiscard;
   very large Metrics period: tasks added, then per executed period (tasks received, report count, duration received
   in ms, report average * count) *)
Inductive auxcase :=
| ALess (threshold : Z) (calls : list (Z * bool))
| ABigStat (added : Z) (periods : list (Z * Z * Z * Z)).

(* stat.Metrics: what Execute received besides the tasks, and the StatReport written for it *)
Record repobs := mkrep { r_drops : nat; r_dur_ms : Z; r_count : Z; r_rdrops : nat; r_sum_ms : Z;
                         r_written : bool (* a report writer was installed when the period was executed *) }.

Record case := mkcase {
  c_chunk : bool;
  c_max : Z;
  c_sizes : list (nat * Z);          (* chunk: task id |-> byte size *)
  c_seq : bool;                      (* the script has no concurrent phase *)
  c_ops : list sop;                  (* the script when c_seq *)
  c_nops : nat;                      (* number of script operations *)
  c_adds : list addobs;
  c_calls : list callobs;
  c_ticks : list tickobs;
  c_batches : list batchobs;         (* in order of completion *)
  c_perop : list opobs;
  c_hung : bool;                     (* some call never returned / the executor never became quiescent *)
  c_pending : nat;                   (* len(pe.commander) at the end *)
  c_model : nat;                     (* 0: replay c_ops with per-operation comparison; 1: conservation only;
                                        2: replay c_ops, compare the batches and the tick deliveries *)
  c_stat : bool;                     (* stat.Metrics case: c_reports is aligned with c_batches *)
  c_drops : nat;                     (* number of AddDrop calls *)
  c_reports : list repobs;
  c_big : option bigcase;            (* Some: large-batch case (sqlx.BulkInserter / default BulkExecutor):
                                        the small-case observations are ignored *)
  c_ivl : list Z;                    (* observed flush interval(s), ns: the executor's field, and what the flusher
                                        asked its ticker for (if it started) *)
  c_ivl_exp : Z;                     (* the interval the executor was configured with / the documented default *)
  c_aux : option auxcase             (* Some: a LessExecutor stream / a very large Metrics period; all else is ignored *)
}.

(* documented defaults: 1000 tasks per bulk batch, 1 MiB per chunk, flush every second.  Written here as the
   statement's own numbers: this file does not depend on the regenerated module (C16.Link proves the
   regenerated constants of bulkexecutor.go / chunkexecutor.go / vars.go equal to them) *)
Definition default_bulk_tasks : Z := 1000.
Definition default_chunk_size : Z := 1024 * 1024.
Definition default_interval : Z := 1000000000.

(* the executor runs with its own configuration, whatever executors were created before it *)
Definition ivl_ok (c : case) : bool := forallb (Z.eqb (c_ivl_exp c)) (c_ivl c).

Definition second : Z := 1000000000.
Definition t0 : Z := 3600 * second.

Definition size_of (c : case) (x : nat) : Z :=
  match alookup Nat.eqb x (c_sizes c) with Some z => z | None => 0 end.

Definition cfg_of (c : case) : config := mkcfg (c_chunk c) (c_max c) (size_of c) (c_ivl_exp c).

Fixpoint all2 {A B} (f : A -> B -> bool) (l1 : list A) (l2 : list B) : bool :=
  match l1, l2 with
  | [], [] => true
  | a :: r1, b :: r2 => f a b && all2 f r1 r2
  | _, _ => false
  end.

Definition nat_list_eqb := list_eqb Nat.eqb.

(* ---------- model agreement (sequential scripts): same batches, same flusher life cycle ---------- *)
Definition opobs_of (s : state) : opobs :=
  mkop (length (s_executed s)) (s_guarded s) (length (s_threads s) - 1) (count_dead (s_threads s)).

Definition opobs_eqb (a b : opobs) : bool :=
  Nat.eqb (p_nb a) (p_nb b) && Bool.eqb (p_guarded a) (p_guarded b) &&
  Nat.eqb (p_starts a) (p_starts b) && Nat.eqb (p_stops a) (p_stops b).

Definition is_tick_op (o : sop) : bool :=
  match o with STick | SRaceTick _ => true | _ => false end.

Fixpoint model_rows (cf : config) (s : state) (ops : list sop) (rows : list opobs) (ticks : list tickobs) : option state :=
  match ops, rows with
  | [], [] => match ticks with [] => Some s | _ => None end
  | o :: ops', row :: rows' =>
      let (s', delivered) := seq_step cf s o in
      if negb (opobs_eqb (opobs_of s') row) then None
      else if is_tick_op o then
        match ticks with
        | t :: ticks' => if Bool.eqb (t_delivered t) delivered then model_rows cf s' ops' rows' ticks' else None
        | [] => None
        end
      else model_rows cf s' ops' rows' ticks
  | _, _ => None
  end.

Definition all_ids (c : case) : list nat := map a_id (c_adds c).
Definition batch_ids (c : case) : list nat := concat (map b_ids (c_batches c)).
Definition count (x : nat) (l : list nat) : nat := length (filter (Nat.eqb x) l).

(* mode 2: replay the script, compare executed batches (empty ones and the pseudo tasks standing for
   AddDrop calls, ids >= drop_base, left out) and the tick deliveries *)
Definition drop_base : nat := 900.
Definition nonempty (l : list nat) : bool := match l with [] => false | _ => true end.

Fixpoint model_rows2 (cf : config) (s : state) (ops : list sop) (ticks : list tickobs) : option state :=
  match ops with
  | [] => match ticks with [] => Some s | _ => None end
  | o :: ops' =>
      let (s', delivered) := seq_step cf s o in
      if is_tick_op o then
        match ticks with
        | t :: ticks' => if Bool.eqb (t_delivered t) delivered then model_rows2 cf s' ops' ticks' else None
        | [] => None
        end
      else model_rows2 cf s' ops' ticks
  end.

Definition small_model_ok (c : case) : bool :=
  match c_model c with
  | O =>
    c_seq c &&
    match model_rows (cfg_of c) (init 1 t0) (c_ops c) (c_perop c) (c_ticks c) with
    | Some s =>
        list_eqb nat_list_eqb (s_executed s) (map b_ids (c_batches c)) &&
        negb (c_hung c) && negb (s_panicked s) &&
        forallb (fun a => mem (a_id a) (s_returned s)) (c_adds c) &&
        Nat.eqb (length (s_returned s)) (length (c_adds c))
    | None => false
    end
  | 1%nat =>
    (* concurrent phases: only conservation is compared (every reachable quiescent state of the model
       has executed exactly the added tasks, c16_quiescent_all_executed) *)
    forallb (fun x => Nat.eqb (count x (batch_ids c)) 1) (all_ids c) &&
    Nat.eqb (length (batch_ids c)) (length (all_ids c))
  | _ =>
    match model_rows2 (cfg_of c) (init 1 t0) (c_ops c) (c_ticks c) with
    | Some s =>
        list_eqb nat_list_eqb
          (filter nonempty (map (filter (fun x => Nat.ltb x drop_base)) (s_executed s)))
          (filter nonempty (map b_ids (c_batches c))) &&
        negb (c_hung c) && negb (s_panicked s)
    | None => false
    end
  end.

(* ---------- the property, on the observations alone ---------- *)
Definition returned (a : addobs) : bool := negb (Nat.eqb (a_ret a) 0).

(* task x was handed to the execute function in a call that completed before moment m *)
Definition executed_before (c : case) (x m : nat) : bool :=
  existsb (fun b => mem x (b_ids b) && Nat.ltb (b_end b) m) (c_batches c).

Definition find_add (c : case) (x : nat) : option addobs :=
  find (fun a => Nat.eqb (a_id a) x) (c_adds c).

Fixpoint nodup_nat (l : list nat) : bool :=
  match l with [] => true | a :: r => negb (mem a r) && nodup_nat r end.

(* no call hangs, nothing is left in the hand-over channel *)
Definition no_hang (c : case) : bool :=
  negb (c_hung c) && Nat.eqb (c_pending c) 0 &&
  forallb returned (c_adds c) && forallb (fun k => negb (Nat.eqb (k_ret k) 0)) (c_calls c).

(* at most once, and only tasks that were added (before the execution ended) *)
Definition at_most_once (c : case) : bool :=
  nodup_nat (batch_ids c) &&
  forallb (fun b => forallb (fun x => match find_add c x with
                                      | Some a => Nat.ltb (a_call a) (b_end b)
                                      | None => false
                                      end) (b_ids b)) (c_batches c).

(* a batch lists its tasks in the order they were added: y never precedes x when Add(x) had
   returned before Add(y) was called *)
Fixpoint ordered_from (c : case) (maxcall : nat) (l : list nat) : bool :=
  match l with
  | [] => true
  | y :: r =>
      match find_add c y with
      | Some ay => negb (returned ay && Nat.ltb (a_ret ay) maxcall) && ordered_from c (Nat.max maxcall (a_call ay)) r
      | None => false
      end
  end.
(* maxcall = the latest Add call among the tasks listed before y *)
Definition ordered (c : case) (l : list nat) : bool := ordered_from c 0 l.

Definition sum_sizes (c : case) (l : list nat) : Z := fold_right (fun x acc => size_of c x + acc) 0 l.

Definition bound_ok (c : case) (b : list nat) : bool :=
  if c_chunk c then
    (* exceeds the byte limit by less than its last task *)
    (sum_sizes c b <=? c_max c) || (sum_sizes c b - c_max c <? size_of c (last b 0%nat))
  else
    (* never exceeds the configured task count *)
    (c_max c <? 1) || (Z.of_nat (length b) <=? c_max c).

(* Wait returns only after every task added before it has finished executing *)
Definition wait_ok (c : case) : bool :=
  forallb (fun k =>
    if k_wait k then
      forallb (fun a => if returned a && Nat.ltb (a_ret a) (k_call k)
                        then executed_before c (a_id a) (k_ret k) else true) (c_adds c)
    else true) (c_calls c).

(* sequential scripts only: an explicit Flush executes what was added before it *)
Definition flush_ok (c : case) : bool :=
  forallb (fun k =>
    if k_wait k then true
    else forallb (fun a => if returned a && Nat.ltb (a_ret a) (k_call k)
                           then executed_before c (a_id a) (k_ret k) else true) (c_adds c)) (c_calls c).

Definition added_before_executed_by (c : case) (m1 m2 : nat) : bool :=
  forallb (fun a => if returned a && Nat.ltb (a_ret a) m1 then executed_before c (a_id a) m2 else true) (c_adds c).

Definition call_between (c : case) (m1 m2 : nat) : bool :=
  existsb (fun a => Nat.ltb m1 (a_call a) && Nat.ltb (a_call a) m2) (c_adds c) ||
  existsb (fun k => Nat.ltb m1 (k_call k) && Nat.ltb (k_call k) m2) (c_calls c).

(* sequential scripts only: the periodic tick.  A task that waits for the tick has a live flusher
   (a tick offered while a returned Add's task is unexecuted is taken), and two consecutive ticks
   flush everything added before the first (the flusher skips at most the one tick that directly
   follows a threshold batch). *)
Fixpoint ticks_ok (c : case) (l : list tickobs) : bool :=
  match l with
  | [] => true
  | t :: r =>
      (if t_delivered t then true else added_before_executed_by c (t_seq t) (t_seq t)) &&
      match r with
      | t2 :: _ =>
          if t_delivered t && t_delivered t2 && negb (call_between c (t_seq t) (t_done t2))
          then added_before_executed_by c (t_seq t) (t_done t2) else true
      | [] => true
      end && ticks_ok c r
  end.

(* stat.Metrics: every Execute produced one report with the batch's own count / drops / duration, and
   the drops are conserved *)
Definition stat_ok (c : case) : bool :=
  if c_stat c then
    Nat.eqb (fold_right (fun r acc => (r_drops r + acc)%nat) 0%nat (c_reports c)) (c_drops c) &&
    all2 (fun b r =>
            (* what Execute received is what was added: the duration is the sum over the period's tasks *)
            (r_dur_ms r =? sum_sizes c (b_ids b)) &&
            (* and, when a writer was installed, the period's report accounts for all of it *)
            (if r_written r
             then (r_count r =? Z.of_nat (length (b_ids b))) && Nat.eqb (r_rdrops r) (r_drops r) &&
                  (r_sum_ms r =? r_dur_ms r)
             else true)) (c_batches c) (c_reports c)
  else true.

(* sequential scripts only: a batch that no tick and no explicit Flush/Wait accounts for (its execution does not
   start within one of those operations) was flushed by the size / byte threshold, so it has reached it *)
Definition attributable (c : case) (m : nat) : bool :=
  existsb (fun k => Nat.ltb (k_call k) m && Nat.ltb m (k_ret k)) (c_calls c) ||
  existsb (fun t => Nat.ltb (t_seq t) m && Nat.ltb m (t_done t)) (c_ticks c).

Definition threshold_ok (c : case) : bool :=
  forallb (fun b => attributable c (b_start b) ||
                    (if c_chunk c then c_max c <=? sum_sizes c (b_ids b)
                     else c_max c <=? Z.of_nat (length (b_ids b)))) (c_batches c).

(* stat.Metrics (no threshold, hence no hand-over): an explicit Flush issued after everything else has come
   to rest executes every task added before it -- also in scripts with concurrent phases *)
Definition final_flush_ok (c : case) : bool :=
  if c_stat c then
    match rev (c_calls c) with
    | k :: others =>
        if negb (k_wait k) &&
           forallb (fun a => returned a && Nat.ltb (a_ret a) (k_call k)) (c_adds c) &&
           forallb (fun t => Nat.ltb (t_done t) (k_call k)) (c_ticks c) &&
           forallb (fun k' => negb (Nat.eqb (k_ret k') 0) && Nat.ltb (k_ret k') (k_call k)) others
        then forallb (fun a => executed_before c (a_id a) (k_ret k)) (c_adds c)
        else true
    | [] => true
    end
  else true.

Definition small_spec_ok (c : case) : bool :=
  no_hang c && at_most_once c &&
  forallb (fun b => ordered c (b_ids b) && bound_ok c (b_ids b)) (c_batches c) &&
  wait_ok c && stat_ok c && final_flush_ok c &&
  (if c_seq c then flush_ok c && ticks_ok c (c_ticks c) && threshold_ok c else true).

(* ---------- sqlx.BulkInserter ---------- *)
(* sqlx.BulkInserter: at most 1000 rows per statement (C16.Link: = the regenerated maxBulkRows) *)
Definition max_bulk_rows : Z := 1000.

(* model: the dbInserter container (append; len >= maxBulkRows => cut off) under the sequential
   projection of the flusher (a tick directly after a threshold batch is skipped) *)
Record bst := mkbst { bs_tasks : list positive; bs_cmded : bool; bs_alive : bool; bs_out : list (list positive) }.

Fixpoint pos_seq (first : positive) (n : nat) : list positive :=
  match n with O => [] | S n' => first :: pos_seq (Pos.succ first) n' end.

Definition b_add (mx : Z) (s : bst) (x : positive) : bst :=
  let ts := bs_tasks s ++ [x] in
  if bulk_full mx ts then mkbst [] true true (ts :: bs_out s) else mkbst ts (bs_cmded s) true (bs_out s).

Definition b_flush (s : bst) : bst :=
  match bs_tasks s with [] => s | ts => mkbst [] (bs_cmded s) (bs_alive s) (ts :: bs_out s) end.

Fixpoint big_model (mx : Z) (s : bst) (ops : list bop) (ticks : list (N * bool * N)) : option bst :=
  match ops with
  | [] => match ticks with [] => Some s | _ => None end
  | BIns first n :: r => big_model mx (fold_left (b_add mx) (pos_seq first n) s) r ticks
  | BFlush :: r => big_model mx (b_flush s) r ticks
  | BTick :: r =>
      match ticks with
      | (_, delivered, _) :: ticks' =>
          if Bool.eqb delivered (bs_alive s) then
            big_model mx (if bs_alive s then (if bs_cmded s then mkbst (bs_tasks s) false true (bs_out s) else b_flush s) else s) r ticks'
          else None
      | [] => None
      end
  end.

Definition big_model_ok (g : bigcase) : bool :=
  match big_model (g_max g) (mkbst [] false false []) (g_ops g) (g_ticks g) with
  | Some s => list_eqb (list_eqb Pos.eqb) (rev (bs_out s)) (map (fun b => fst (fst b)) (g_batches g)) && negb (g_hung g)
  | None => false
  end.

(* property, on the observations alone *)
Definition addmap (g : bigcase) : PM.t (N * N) :=
  fold_left (fun m a => PM.add (fst (fst a)) (snd (fst a), snd a) m) (g_adds g) (PM.empty _).

(* every executed row was inserted (before the statement finished) and appears at most once;
   the result maps a row to the moment its statement finished *)
Definition scan_batches (am : PM.t (N * N)) (bs : list (list positive * N * N)) : option (PM.t N) :=
  fold_left (fun acc b =>
    fold_left (fun acc2 x =>
      match acc2 with
      | None => None
      | Some seen =>
          match PM.find x am, PM.find x seen with
          | Some (c, _), None => if (c <? snd b)%N then Some (PM.add x (snd b) seen) else None
          | _, _ => None
          end
      end) (fst (fst b)) acc) bs (Some (PM.empty N)).

Fixpoint big_ordered (am : PM.t (N * N)) (maxcall : N) (l : list positive) : bool :=
  match l with
  | [] => true
  | y :: r =>
      match PM.find y am with
      | Some (c, rt) => negb (negb (rt =? 0)%N && (rt <? maxcall)%N) && big_ordered am (N.max maxcall c) r
      | None => false
      end
  end.

Definition big_done_before (g : bigcase) (ends : PM.t N) (m1 m2 : N) : bool :=
  forallb (fun a => if (negb (snd a =? 0) && (snd a <? m1))%N
                    then match PM.find (fst (fst a)) ends with Some e => (e <? m2)%N | None => false end
                    else true) (g_adds g).

Definition big_call_between (g : bigcase) (m1 m2 : N) : bool :=
  existsb (fun a => (m1 <? snd (fst a)) && (snd (fst a) <? m2))%N (g_adds g) ||
  existsb (fun k => (m1 <? fst k) && (fst k <? m2))%N (g_calls g).

Fixpoint big_ticks_ok (g : bigcase) (ends : PM.t N) (l : list (N * bool * N)) : bool :=
  match l with
  | [] => true
  | (sq, dl, dn) :: r =>
      (if dl then true else big_done_before g ends sq sq) &&
      match r with
      | (sq2, dl2, dn2) :: _ =>
          if dl && dl2 && negb (big_call_between g sq dn2) then big_done_before g ends sq dn2 else true
      | [] => true
      end && big_ticks_ok g ends r
  end.

(* a statement / batch that no tick and no Flush accounts for was cut off by the row threshold: it is full *)
Definition big_attributable (g : bigcase) (m : N) : bool :=
  existsb (fun k => (fst k <? m) && (m <? snd k))%N (g_calls g) ||
  existsb (fun t => (fst (fst t) <? m) && (m <? snd t))%N (g_ticks g).

Definition big_spec_ok (g : bigcase) : bool :=
  negb (g_hung g) && Nat.eqb (g_pending g) 0 &&
  forallb (fun a => negb (snd a =? 0)%N) (g_adds g) && forallb (fun k => negb (snd k =? 0)%N) (g_calls g) &&
  let am := addmap g in
  match scan_batches am (g_batches g) with
  | None => false
  | Some ends =>
      (* rows within a statement in insertion order, statement row count <= maxBulkRows *)
      forallb (fun b => big_ordered am 0 (fst (fst b)) &&
                        (Z.of_nat (length (fst (fst b))) <=? g_max g) &&
                        (big_attributable g (snd (fst b)) || (g_max g <=? Z.of_nat (length (fst (fst b)))))) (g_batches g) &&
      (* an explicit Flush executes every row inserted before it *)
      forallb (fun k => big_done_before g ends (fst k) (snd k)) (g_calls g) &&
      big_ticks_ok g ends (g_ticks g)
  end.

(* ---------- LessExecutor (lessexecutor.go): at most one execution per threshold ---------- *)
Fixpoint less_model (thr last : Z) (calls : list (Z * bool)) : bool :=
  match calls with
  | [] => true
  | (now, ran) :: r => let (x, last') := less_step thr last now in Bool.eqb x ran && less_model thr last' r
  end.

(* property: the first task is always executed; afterwards a task is discarded while less than the threshold has
   passed since the last execution and executed once more than the threshold has passed (at exactly the threshold
   either is allowed); `le` = time of the last execution *)
Fixpoint less_spec (thr : Z) (le : option Z) (calls : list (Z * bool)) : bool :=
  match calls with
  | [] => true
  | (now, ran) :: r =>
      match le with
      | None => ran && less_spec thr (Some now) r
      | Some l =>
          (if now - l <? thr then negb ran else if thr <? now - l then ran else true) &&
          less_spec thr (if ran then Some now else le) r
      end
  end.

Definition aux_model_ok (a : auxcase) : bool :=
  match a with
  | ALess thr calls => less_model thr 0 calls
  | ABigStat added periods => (fold_right (fun p acc => fst (fst (fst p)) + acc) 0 periods =? added)
  end.

Definition aux_spec_ok (a : auxcase) : bool :=
  match a with
  | ALess thr calls => less_spec thr None calls
  | ABigStat added periods =>
      (* every task of the period reaches Execute and is accounted in that period's report *)
      (fold_right (fun p acc => fst (fst (fst p)) + acc) 0 periods =? added) &&
      forallb (fun p => match p with (recv, cnt, dur, sum) => (cnt =? recv) && (sum =? dur) end) periods
  end.

Definition model_ok (c : case) : bool :=
  match c_aux c with
  | Some a => aux_model_ok a && negb (c_hung c)
  | None => match c_big c with Some g => big_model_ok g | None => small_model_ok c end
  end.

Definition spec_ok (c : case) : bool :=
  match c_aux c with
  | Some a => aux_spec_ok a && negb (c_hung c)
  | None => ivl_ok c && match c_big c with Some g => big_spec_ok g | None => small_spec_ok c end
  end.

(* input validity: unique task ids, a threshold of at least 1 *)
Definition hyp_ok (c : case) : bool := nodup_nat (all_ids c) && (1 <=? c_max c).

