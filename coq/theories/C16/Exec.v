(* C16 Exec: the checkers evaluated by vm_compute on (script, observed events).
   Every observation carries values of one global sequence counter (0 = never happened). *)
From God Require Import Base.Prelude.
From God Require Export C16.Model.
From GodGen Require C16_Gen.
Local Open Scope Z_scope.

Record addobs := mkadd { a_id : nat; a_call : nat; a_ret : nat }.            (* one Add call *)
Record callobs := mkcall { k_wait : bool; k_call : nat; k_ret : nat }.       (* one Flush (false) / Wait (true) call *)
Record tickobs := mktick { t_seq : nat; t_delivered : bool; t_done : nat }.  (* one tick offered to the live flusher *)
Record batchobs := mkbatch { b_ids : list nat; b_start : nat; b_end : nat }. (* one call of the execute function *)
Record opobs := mkop { p_nb : nat; p_guarded : bool; p_starts : nat; p_stops : nat }. (* after each script op *)

Record case := mkcase {
  c_chunk : bool;
  c_max : Z;
  c_sizes : list (nat * Z);          (* chunk: task id |-> byte size *)
  c_seq : bool;                      (* the script has no concurrent phase *)
  c_ops : list sop;                  (* the script when c_seq *)
  c_nops : nat;                      (* number of script operations *)
  c_adds : list addobs;
  c_calls : list callobs;
  c_ticks : list tickobs;
  c_batches : list batchobs;         (* in order of completion *)
  c_perop : list opobs;
  c_hung : bool;                     (* some call never returned / the executor never became quiescent *)
  c_pending : nat                    (* len(pe.commander) at the end *)
}.

Definition second : Z := 1000000000.
Definition t0 : Z := 3600 * second.

Definition size_of (c : case) (x : nat) : Z :=
  match alookup Nat.eqb x (c_sizes c) with Some z => z | None => 0 end.

Definition cfg_of (c : case) : config := mkcfg (c_chunk c) (c_max c) (size_of c) second.

Fixpoint all2 {A B} (f : A -> B -> bool) (l1 : list A) (l2 : list B) : bool :=
  match l1, l2 with
  | [], [] => true
  | a :: r1, b :: r2 => f a b && all2 f r1 r2
  | _, _ => false
  end.

Definition nat_list_eqb := list_eqb Nat.eqb.

(* ---------- model agreement (sequential scripts): same batches, same flusher life cycle ---------- *)
Definition opobs_of (s : state) : opobs :=
  mkop (length (s_executed s)) (s_guarded s) (length (s_threads s) - 1) (count_dead (s_threads s)).

Definition opobs_eqb (a b : opobs) : bool :=
  Nat.eqb (p_nb a) (p_nb b) && Bool.eqb (p_guarded a) (p_guarded b) &&
  Nat.eqb (p_starts a) (p_starts b) && Nat.eqb (p_stops a) (p_stops b).

Definition is_tick_op (o : sop) : bool :=
  match o with STick | SRaceTick _ => true | _ => false end.

Fixpoint model_rows (cf : config) (s : state) (ops : list sop) (rows : list opobs) (ticks : list tickobs) : option state :=
  match ops, rows with
  | [], [] => match ticks with [] => Some s | _ => None end
  | o :: ops', row :: rows' =>
      let (s', delivered) := seq_step cf s o in
      if negb (opobs_eqb (opobs_of s') row) then None
      else if is_tick_op o then
        match ticks with
        | t :: ticks' => if Bool.eqb (t_delivered t) delivered then model_rows cf s' ops' rows' ticks' else None
        | [] => None
        end
      else model_rows cf s' ops' rows' ticks
  | _, _ => None
  end.

Definition all_ids (c : case) : list nat := map a_id (c_adds c).
Definition batch_ids (c : case) : list nat := concat (map b_ids (c_batches c)).
Definition count (x : nat) (l : list nat) : nat := length (filter (Nat.eqb x) l).

Definition model_ok (c : case) : bool :=
  if c_seq c then
    match model_rows (cfg_of c) (init 1 t0) (c_ops c) (c_perop c) (c_ticks c) with
    | Some s =>
        list_eqb nat_list_eqb (s_executed s) (map b_ids (c_batches c)) &&
        negb (c_hung c) && negb (s_panicked s) &&
        forallb (fun a => mem (a_id a) (s_returned s)) (c_adds c) &&
        Nat.eqb (length (s_returned s)) (length (c_adds c))
    | None => false
    end
  else
    (* concurrent phases: only conservation is compared (every reachable quiescent state of the model
       has executed exactly the added tasks, c16_quiescent_all_executed) *)
    Nat.eqb (length (c_perop c)) (c_nops c) &&
    forallb (fun x => Nat.eqb (count x (batch_ids c)) 1) (all_ids c) &&
    Nat.eqb (length (batch_ids c)) (length (all_ids c)).

(* ---------- the property, on the observations alone ---------- *)
Definition returned (a : addobs) : bool := negb (Nat.eqb (a_ret a) 0).

(* task x was handed to the execute function in a call that completed before moment m *)
Definition executed_before (c : case) (x m : nat) : bool :=
  existsb (fun b => mem x (b_ids b) && Nat.ltb (b_end b) m) (c_batches c).

Definition find_add (c : case) (x : nat) : option addobs :=
  find (fun a => Nat.eqb (a_id a) x) (c_adds c).

Fixpoint nodup_nat (l : list nat) : bool :=
  match l with [] => true | a :: r => negb (mem a r) && nodup_nat r end.

(* no call hangs, nothing is left in the hand-over channel *)
Definition no_hang (c : case) : bool :=
  negb (c_hung c) && Nat.eqb (c_pending c) 0 &&
  forallb returned (c_adds c) && forallb (fun k => negb (Nat.eqb (k_ret k) 0)) (c_calls c).

(* at most once, and only tasks that were added (before the execution ended) *)
Definition at_most_once (c : case) : bool :=
  nodup_nat (batch_ids c) &&
  forallb (fun b => forallb (fun x => match find_add c x with
                                      | Some a => Nat.ltb (a_call a) (b_end b)
                                      | None => false
                                      end) (b_ids b)) (c_batches c).

(* a batch lists its tasks in the order they were added: y never precedes x when Add(x) had
   returned before Add(y) was called *)
Fixpoint ordered (c : case) (l : list nat) : bool :=
  match l with
  | [] => true
  | x :: r =>
      forallb (fun y => match find_add c x, find_add c y with
                        | Some ax, Some ay => negb (returned ay && Nat.ltb (a_ret ay) (a_call ax))
                        | _, _ => false
                        end) r && ordered c r
  end.

Definition sum_sizes (c : case) (l : list nat) : Z := fold_right (fun x acc => size_of c x + acc) 0 l.

Definition bound_ok (c : case) (b : list nat) : bool :=
  if c_chunk c then
    (* exceeds the byte limit by less than its last task *)
    (sum_sizes c b <=? c_max c) || (sum_sizes c b - c_max c <? size_of c (last b 0%nat))
  else
    (* never exceeds the configured task count *)
    (c_max c <? 1) || (Z.of_nat (length b) <=? c_max c).

(* Wait returns only after every task added before it has finished executing *)
Definition wait_ok (c : case) : bool :=
  forallb (fun k =>
    if k_wait k then
      forallb (fun a => if returned a && Nat.ltb (a_ret a) (k_call k)
                        then executed_before c (a_id a) (k_ret k) else true) (c_adds c)
    else true) (c_calls c).

(* sequential scripts only: an explicit Flush executes what was added before it *)
Definition flush_ok (c : case) : bool :=
  forallb (fun k =>
    if k_wait k then true
    else forallb (fun a => if returned a && Nat.ltb (a_ret a) (k_call k)
                           then executed_before c (a_id a) (k_ret k) else true) (c_adds c)) (c_calls c).

Definition added_before_executed_by (c : case) (m1 m2 : nat) : bool :=
  forallb (fun a => if returned a && Nat.ltb (a_ret a) m1 then executed_before c (a_id a) m2 else true) (c_adds c).

Definition call_between (c : case) (m1 m2 : nat) : bool :=
  existsb (fun a => Nat.ltb m1 (a_call a) && Nat.ltb (a_call a) m2) (c_adds c) ||
  existsb (fun k => Nat.ltb m1 (k_call k) && Nat.ltb (k_call k) m2) (c_calls c).

(* sequential scripts only: the periodic tick.  A task that waits for the tick has a live flusher
   (a tick offered while a returned Add's task is unexecuted is taken), and two consecutive ticks
   flush everything added before the first (the flusher skips at most the one tick that directly
   follows a threshold batch). *)
Fixpoint ticks_ok (c : case) (l : list tickobs) : bool :=
  match l with
  | [] => true
  | t :: r =>
      (if t_delivered t then true else added_before_executed_by c (t_seq t) (t_seq t)) &&
      match r with
      | t2 :: _ =>
          if t_delivered t && t_delivered t2 && negb (call_between c (t_seq t) (t_done t2))
          then added_before_executed_by c (t_seq t) (t_done t2) else true
      | [] => true
      end && ticks_ok c r
  end.

Definition spec_ok (c : case) : bool :=
  no_hang c && at_most_once c &&
  forallb (fun b => ordered c (b_ids b) && bound_ok c (b_ids b)) (c_batches c) &&
  wait_ok c &&
  (if c_seq c then flush_ok c && ticks_ok c (c_ticks c) else true).

(* input validity: unique task ids, a threshold of at least 1 *)
Definition hyp_ok (c : case) : bool := nodup_nat (all_ids c) && (1 <=? c_max c).

(* the generated constant is the one the model uses *)
Definition idle_round_gen : Z := C16_Gen.idleRound.
