(* C16 Spec: what "every added task is executed exactly once, in add order, in bounded batches" means,
   as predicates on the places a task can be in (any state of any executor model). *)
From God Require Import Base.Prelude.
Local Open Scope Z_scope.

(* multiplicity of a task in a list of tasks *)
Definition cnt (x : nat) (l : list nat) : nat := count_occ Nat.eq_dec l x.
Arguments cnt : simpl never.

(* b lists some of the tasks of a, in the order of a *)
Inductive subseq : list nat -> list nat -> Prop :=
| sub_nil : forall a, subseq [] a
| sub_cons : forall x b a, subseq b a -> subseq (x :: b) (x :: a)
| sub_skip : forall x b a, subseq b a -> subseq b (x :: a).

(* The abstract object: the sequence of tasks in add order, the batches already handed to the execute
   function, and the tasks still on their way (container, hand-over channel, batches held by threads). *)
Record places := mkplaces {
  p_added : list nat;
  p_pending : list nat;               (* container ++ commander ++ held by threads, as a multiset *)
  p_executed : list (list nat)
}.

(* conservation: every added task is in exactly one place, exactly once; executed batches respect add order *)
Definition conserved (p : places) : Prop :=
  (forall x, cnt x (p_added p) = (cnt x (p_pending p) + cnt x (concat (p_executed p)))%nat) /\
  NoDup (p_added p) /\
  Forall (fun b => subseq b (p_added p)) (p_executed p).

(* nothing on its way: everything added has been executed exactly once *)
Definition all_executed_once (p : places) : Prop :=
  forall x, In x (p_added p) -> cnt x (concat (p_executed p)) = 1%nat.

(* batch bounds *)
Definition bulk_bounded (maxTasks : Z) (b : list nat) : Prop := Z.of_nat (length b) <= maxTasks.

Definition sumsz (sz : nat -> Z) (l : list nat) : Z := fold_right (fun x acc => sz x + acc) 0 l.

(* the bytes of the batch exceed the limit by less than its last task: without it the batch is below the limit *)
Definition chunk_bounded (sz : nat -> Z) (maxChunk : Z) (b : list nat) : Prop :=
  sumsz sz (removelast b) < maxChunk.
