(* C04 Spec: who is accepted, as three small decision functions over idealised crypto.
   Nothing here mentions counters, header syntax, int64 or status plumbing. *)
From God Require Import Base.Prelude.
From Coq Require Import String.
Local Open Scope Z_scope.

(* ---- (JWT) ---- *)
Section JwtSpec.
  (* jwt_ok s tok: the bearer token's HMAC signature verifies under secret s and its time claims
     are valid (the jwt library's verdict). Secret 0 is the empty string = "no previous secret". *)
  Variable jwt_ok : N -> N -> bool.

  Definition jwt_accept (secret prev tok : N) : bool :=
    jwt_ok secret tok || (negb (prev =? 0)%N && jwt_ok prev tok).
End JwtSpec.

(* the registered claim names (RFC 7519 §4.1); every other claim must be visible in the context *)
Definition registered_claims : list string := ["iss"; "sub"; "aud"; "exp"; "nbf"; "iat"; "jti"]%string.

Definition visible_claims (claims : list (string * N)) : list (string * N) :=
  filter (fun kv => negb (existsb (String.eqb (fst kv)) registered_claims)) claims.

(* ---- (SIG) ---- *)
Definition sbytes := list N.
Definition nl : N := 10%N.

(* what the HMAC is taken over: timestamp, method, path, query and body hash, one per line *)
Definition content (ts method path query bodyhash : sbytes) : sbytes :=
  ts ++ nl :: method ++ nl :: path ++ nl :: query ++ nl :: bodyhash.

(* the timestamp is within the tolerance, over the integers *)
Definition within (tol now ts : Z) : bool := Z.abs (ts - now) <=? tol.

Record signed_request := mkq {
  q_decrypts : bool;        (* the X-Content-Security header decrypts under a configured key and is well formed *)
  q_key : sbytes;           (* the HMAC key announced inside the encrypted secret *)
  q_ts_text : sbytes;       (* the timestamp as sent *)
  q_ts : option Z;          (* its numeric value, None when it is not a number *)
  q_sig : sbytes;           (* the signature as sent *)
  q_method : sbytes;
  q_path : sbytes;          (* the effective path/query: X-Request-Uri's when present and parseable *)
  q_query : sbytes;
  q_body : sbytes
}.

Section SigSpec.
  Variable hmac : sbytes -> sbytes -> sbytes.
  Variable sha : sbytes -> sbytes.

  Definition sig_accept (tol now : Z) (q : signed_request) : bool :=
    q_decrypts q &&
    match q_ts q with
    | Some ts => within tol now ts &&
                 list_eqb N.eqb (q_sig q)
                   (hmac (q_key q) (content (q_ts_text q) (q_method q) (q_path q) (q_query q) (sha (q_body q))))
    | None => false
    end.
End SigSpec.

(* an encrypted (type=1) body is accepted up to this wire size; only larger ones are refused *)
Definition enc_body_limit : Z := 1048576.

Definition guarded_methods : list string := ["GET"; "POST"; "PUT"; "DELETE"]%string.

(* ---- (RPC) ---- *)
(* what the store holds for the app, as seen by the server (through its 5-minute cache) *)
Inductive stored := StFail | StNone | StTok (t : N).

(* true = accepted *)
Definition rpc_accept (strict has_md : bool) (st : stored) (token : N) : bool :=
  if negb has_md then false
  else match st with
       | StTok t => (token =? t)%N
       | StNone | StFail => negb strict
       end.

(* the server's view of the store: a token fetched earlier stays the app's token for the cache
   lifetime; failures and absences are not remembered *)
Definition rpc_view (memo : list (N * N)) (now_stored : stored) (app : N) : stored :=
  match alookup N.eqb app memo with Some t => StTok t | None => now_stored end.

Definition rpc_memo (memo : list (N * N)) (now_stored : stored) (app : N) : list (N * N) :=
  match alookup N.eqb app memo, now_stored with
  | None, StTok t => aset N.eqb app t memo
  | _, _ => memo
  end.
