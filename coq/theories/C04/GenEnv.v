(* C04 GenEnv: meaning of the operators that gogen's GoLite translation leaves open. *)
From Coq Require Import ZArith.
Definition go_eqb : Z -> Z -> bool := Z.eqb.
