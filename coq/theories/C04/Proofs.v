(* C04 Proofs *)
From God Require Import Base.Prelude C04.Model C04.Spec.
From Coq Require Import String Ascii.
Local Open Scope Z_scope.

(* ========================================================================================== *)
(* (JWT)                                                                                       *)

Section JwtProofs.
  Variable jwt_parse : N -> N -> jverdict.

  (* the library's verdict as a boolean: a token came back, it is Valid and carries MapClaims *)
  Definition jwt_ok (s tok : N) : bool :=
    match jwt_parse s tok with JTok true true _ => true | _ => false end.

  (* contract of golang-jwt v4 ParseWithClaims as used by doParseToken: err == nil iff token.Valid,
     and the claims object is the MapClaims that ParseFromRequest put there *)
  Definition lib_contract : Prop :=
    forall s tok valid ismap cl, jwt_parse s tok = JTok valid ismap cl -> valid = true /\ ismap = true.

  Lemma incr_count_fields now p s :
    reset_time (incr_count now p s) = reset_time p /\ reset_dur (incr_count now p s) = reset_dur p.
  Proof. unfold incr_count. simpl. auto. Qed.

  (* ParseToken succeeds iff one of the two secrets parses, whatever the counters say *)
  Lemma parse_token_accept now p secret prev tok :
    snd (parse_token jwt_parse now p secret prev tok) <> None <->
    parse_ok jwt_parse secret tok = true \/ (prev <> 0%N /\ parse_ok jwt_parse prev tok = true).
  Proof.
    unfold parse_token. destruct (N.eqb_spec prev 0) as [E|E]; simpl.
    - destruct (parse_ok jwt_parse secret tok); simpl; split; intro H; try congruence; auto.
      destruct H as [H|[H _]]; congruence.
    - destruct (N.ltb (load_count p prev) (load_count p secret));
        destruct (parse_ok jwt_parse secret tok) eqn:E1; destruct (parse_ok jwt_parse prev tok) eqn:E2; simpl;
        split; intro H; try congruence; auto; try (destruct H as [H|[_ H]]; congruence).
  Qed.

  (* the token handed back is the verdict of one of the admissible secrets *)
  Lemma parse_token_result now p secret prev tok v :
    snd (parse_token jwt_parse now p secret prev tok) = Some v ->
    exists s, (s = secret \/ (prev <> 0%N /\ s = prev)) /\ jwt_parse s tok = v /\ parse_ok jwt_parse s tok = true.
  Proof.
    unfold parse_token. destruct (N.eqb_spec prev 0) as [E|E]; simpl.
    - destruct (parse_ok jwt_parse secret tok) eqn:E1; simpl; intro H; inversion H; subst. exists secret; auto.
    - destruct (N.ltb (load_count p prev) (load_count p secret));
        destruct (parse_ok jwt_parse secret tok) eqn:E1; destruct (parse_ok jwt_parse prev tok) eqn:E2; simpl;
        intro H; inversion H; subst;
        first [ exists secret; split; [left; reflexivity | split; [reflexivity | assumption]]
              | exists prev; split; [right; split; [assumption | reflexivity] | split; [reflexivity | assumption]] ].
  Qed.

  (* only the counters move *)
  Lemma parse_token_fields now p secret prev tok :
    let p' := fst (parse_token jwt_parse now p secret prev tok) in
    reset_time p' = reset_time p /\ reset_dur p' = reset_dur p.
  Proof.
    unfold parse_token.
    destruct (negb (prev =? 0)%N); simpl.
    - destruct (N.ltb (load_count p prev) (load_count p secret));
        destruct (parse_ok jwt_parse secret tok); destruct (parse_ok jwt_parse prev tok); simpl; auto.
    - destruct (parse_ok jwt_parse secret tok); simpl; auto.
  Qed.

  Lemma authorize_fields cb now p secret prev tok :
    let p' := fst (authorize jwt_parse cb now p secret prev tok) in
    reset_time p' = reset_time p /\ reset_dur p' = reset_dur p.
  Proof.
    unfold authorize. pose proof (parse_token_fields now p secret prev tok) as H.
    destruct (parse_token jwt_parse now p secret prev tok) as [p' [[|v m c]|]]; simpl in *; auto.
    destruct v, m; simpl; auto.
  Qed.

  Lemma jwt_ok_parse_ok s tok : jwt_ok s tok = true -> parse_ok jwt_parse s tok = true.
  Proof. unfold jwt_ok, parse_ok. destruct (jwt_parse s tok) as [|[] [] c]; congruence. Qed.

  Lemma parse_ok_jwt_ok s tok : lib_contract -> parse_ok jwt_parse s tok = true -> jwt_ok s tok = true.
  Proof.
    unfold jwt_ok, parse_ok. intros L. destruct (jwt_parse s tok) as [|v m c] eqn:E; [congruence|].
    destruct (L _ _ _ _ _ E); subst. reflexivity.
  Qed.

  Lemma unauthorized_not_ran cb : j_ran (unauthorized cb) = false.
  Proof. destruct cb; reflexivity. Qed.

  (* the gate: for every counter state, the handler runs iff the Spec accepts *)
  Lemma jwt_iff : lib_contract -> forall cb now p secret prev tok,
    j_ran (snd (authorize jwt_parse cb now p secret prev tok)) = jwt_accept jwt_ok secret prev tok.
  Proof.
    intros L cb now p secret prev tok. unfold authorize, jwt_accept.
    pose proof (parse_token_accept now p secret prev tok) as HA.
    pose proof (parse_token_result now p secret prev tok) as HR.
    destruct (parse_token jwt_parse now p secret prev tok) as [p' [v|]]; simpl in *.
    - destruct (HR v eq_refl) as [s [Hs [Hv Hok]]].
      apply (parse_ok_jwt_ok _ _ L) in Hok.
      assert (jwt_ok secret tok || negb (prev =? 0)%N && jwt_ok prev tok = true) as ->.
      { destruct Hs as [->|[Hn ->]]; [rewrite Hok; reflexivity|].
        rewrite Hok. apply N.eqb_neq in Hn. rewrite Hn. simpl. apply orb_true_r. }
      unfold jwt_ok in Hok. rewrite Hv in Hok. destruct v as [|[] [] c]; try discriminate. reflexivity.
    - rewrite unauthorized_not_ran. symmetry.
      destruct (jwt_ok secret tok) eqn:E1.
      + exfalso. apply jwt_ok_parse_ok in E1. assert (@None jverdict <> None) by (apply HA; auto). congruence.
      + simpl. destruct (N.eqb_spec prev 0) as [E|E]; simpl; [reflexivity|].
        destruct (jwt_ok prev tok) eqn:E2; [|reflexivity].
        exfalso. apply jwt_ok_parse_ok in E2. assert (@None jverdict <> None) by (apply HA; auto). congruence.
  Qed.

  Lemma ctx_of_visible claims : ctx_of claims = visible_claims claims.
  Proof.
    unfold ctx_of, visible_claims. apply filter_ext. intros [k v]. simpl. f_equal.
    unfold is_registered, registered, registered_claims. simpl.
    repeat match goal with |- context [String.eqb k ?x] => destruct (String.eqb k x) end; reflexivity.
  Qed.

  Lemma visible_claims_in claims k v :
    In (k, v) (visible_claims claims) <-> In (k, v) claims /\ ~ In k registered_claims.
  Proof.
    unfold visible_claims. rewrite filter_In. cbn [fst].
    assert (existsb (String.eqb k) registered_claims = true <-> In k registered_claims) as HE.
    { rewrite existsb_exists. split.
      - intros [x [Hx Hk]]. apply String.eqb_eq in Hk. subst. assumption.
      - intro H. exists k. split; [assumption|apply String.eqb_refl]. }
    rewrite negb_true_iff, <- not_true_iff_false, HE. tauto.
  Qed.

  (* an accepted request sees exactly the non-registered claims of the token *)
  Lemma claims_visible cb now p secret prev tok :
    j_ran (snd (authorize jwt_parse cb now p secret prev tok)) = true ->
    exists s claims, (s = secret \/ (prev <> 0%N /\ s = prev)) /\
      jwt_parse s tok = JTok true true claims /\
      j_status (snd (authorize jwt_parse cb now p secret prev tok)) = 200 /\
      j_ctx (snd (authorize jwt_parse cb now p secret prev tok)) = visible_claims claims /\
      forall k v, In (k, v) (j_ctx (snd (authorize jwt_parse cb now p secret prev tok))) <->
                  In (k, v) claims /\ ~ In k registered_claims.
  Proof.
    unfold authorize. pose proof (parse_token_result now p secret prev tok) as HR.
    destruct (parse_token jwt_parse now p secret prev tok) as [p' [v|]]; simpl in *.
    2:{ rewrite unauthorized_not_ran. discriminate. }
    destruct (HR v eq_refl) as [s [Hs [Hv _]]].
    destruct v as [|[] [] c]; simpl; try (rewrite unauthorized_not_ran; discriminate).
    intros _. exists s, c. split; [assumption|]. split; [assumption|]. split; [reflexivity|].
    split; [apply ctx_of_visible|]. intros k v. rewrite ctx_of_visible. apply visible_claims_in.
  Qed.

  (* a refused request: handler not run, no context, 401 unless the callback wrote its own status *)
  Lemma jwt_401_no_handler cb now p secret prev tok :
    let o := snd (authorize jwt_parse cb now p secret prev tok) in
    j_ran o = false ->
    j_ctx o = [] /\
    j_status o = match cb with CbStatus c => c | _ => 401 end /\
    j_cb o = match cb with CbNone => false | _ => true end.
  Proof.
    unfold authorize.
    destruct (parse_token jwt_parse now p secret prev tok) as [p' [[|[] [] c]|]]; simpl;
      try discriminate; intros _; destruct cb; simpl; auto.
  Qed.

  Lemma jwt_accept_prop (ok : N -> N -> bool) secret prev tok :
    jwt_accept ok secret prev tok = true <-> ok secret tok = true \/ (prev <> 0%N /\ ok prev tok = true).
  Proof.
    unfold jwt_accept. rewrite orb_true_iff, andb_true_iff, negb_true_iff, N.eqb_neq. tauto.
  Qed.

  Lemma jwt_iff_full : lib_contract -> forall cb now p secret prev tok,
    let r := authorize jwt_parse cb now p secret prev tok in
    (j_ran (snd r) = true <-> jwt_ok secret tok = true \/ (prev <> 0%N /\ jwt_ok prev tok = true)) /\
    reset_time (fst r) = reset_time p /\ reset_dur (fst r) = reset_dur p.
  Proof.
    intros L cb now p secret prev tok. cbv zeta. rewrite (jwt_iff L). split; [apply jwt_accept_prop|].
    apply authorize_fields.
  Qed.

  (* no memory: the decision is the same from any two parser states, clocks and callbacks *)
  Lemma jwt_no_memory : lib_contract -> forall cb cb' now now' p p' secret prev tok,
    j_ran (snd (authorize jwt_parse cb now p secret prev tok)) =
    j_ran (snd (authorize jwt_parse cb' now' p' secret prev tok)).
  Proof. intros L cb cb' now now' p p' secret prev tok. rewrite !(jwt_iff L). reflexivity. Qed.
End JwtProofs.

(* route options through the engine: with WithJwtTransition(secret, prev) the handler runs iff the token
   verifies under secret, or prev is non-empty and it verifies under prev -- whatever the length of prev *)
Lemma engine_jwt_iff jwt_parse : lib_contract jwt_parse -> forall o secret prev now p tok,
  jwt_setting o = Some (true, secret, prev) ->
  j_ran (snd (engine_jwt_gate jwt_parse (true, secret, prev) now p tok)) = jwt_accept (jwt_ok jwt_parse) secret prev tok.
Proof.
  intros L o secret prev now p tok _. unfold engine_jwt_gate.
  destruct (N.eqb_spec prev 0) as [->|E]; apply (jwt_iff jwt_parse L).
Qed.

Lemma jwt_setting_transition secret len prev prev_len :
  8 <= len -> jwt_setting (JTransition secret len prev prev_len) = Some (true, secret, prev).
Proof. intro H. unfold jwt_setting, validate_secret. apply Z.leb_le in H. rewrite H. reflexivity. Qed.

Lemma jwt_setting_jwt secret len : 8 <= len -> jwt_setting (JJwt secret len) = Some (true, secret, 0%N).
Proof. intro H. unfold jwt_setting, validate_secret. apply Z.leb_le in H. rewrite H. reflexivity. Qed.

(* histories with a moving clock: the n-th decision of one middleware instance is the Spec's at the
   time of the n-th request, for every starting state -- earlier requests and verdicts do not matter *)
Lemma jwt_history (jwt_at : Z -> N -> N -> jverdict) :
  (forall jt, lib_contract (jwt_at jt)) -> forall cb secret prev (reqs : list (Z * Z * N)) p,
  map j_ran (snd (run_jwt jwt_at cb p secret prev reqs)) =
  map (fun r => jwt_accept (jwt_ok (jwt_at (snd (fst r)))) secret prev (snd r)) reqs /\
  reset_time (fst (run_jwt jwt_at cb p secret prev reqs)) = reset_time p /\
  reset_dur (fst (run_jwt jwt_at cb p secret prev reqs)) = reset_dur p.
Proof.
  intros L cb secret prev reqs. induction reqs as [|[[now jt] tok] r IH]; intro p; simpl; [auto|].
  pose proof (jwt_iff (jwt_at jt) (L jt) cb now p secret prev tok) as H1.
  pose proof (authorize_fields (jwt_at jt) cb now p secret prev tok) as [H2 H3].
  destruct (authorize (jwt_at jt) cb now p secret prev tok) as [p1 o]. simpl in *.
  specialize (IH p1). destruct (run_jwt jwt_at cb p1 secret prev r) as [p2 os]. simpl in *.
  destruct IH as [I1 [I2 I3]]. rewrite H1, I1. repeat split; congruence.
Qed.


(* ========================================================================================== *)
(* (SIG) the time window on int64                                                              *)

Definition window_rejects (tol now ts : Z) : bool :=
  (wrap64 (ts + tol) <? now) || (wrap64 (now + tol) <? ts).

Lemma pow62 : 2^62 = 4611686018427387904. Proof. reflexivity. Qed.
Lemma pow63 : 2^63 = 9223372036854775808. Proof. reflexivity. Qed.
Lemma pow64 : 2^64 = 18446744073709551616. Proof. reflexivity. Qed.

Lemma wrap64_id z : - 2^63 <= z < 2^63 -> wrap64 z = z.
Proof. unfold wrap64. rewrite pow63, pow64. intro H. lia. Qed.

Lemma wrap64_range z : - 2^63 <= wrap64 z < 2^63.
Proof. unfold wrap64. rewrite pow63, pow64. lia. Qed.

(* wrap-around never accepts: an accepted timestamp is within the tolerance over Z *)
Lemma time_window_no_wrap tol now ts :
  0 <= tol < 2^62 -> 0 <= now < 2^62 -> - 2^63 <= ts < 2^63 ->
  window_rejects tol now ts = false -> Z.abs (ts - now) <= tol.
Proof.
  unfold window_rejects, wrap64. rewrite pow62, pow63, pow64. intros Ht Hn Hs H.
  apply orb_false_iff in H as [H1 H2]. apply Z.ltb_ge in H1, H2. lia.
Qed.

(* when now + 2*tol does not overflow, the int64 test is exactly the integer one *)
Lemma time_window_exact tol now ts :
  0 <= tol -> 0 <= now -> now + 2 * tol < 2^63 -> - 2^63 <= ts < 2^63 ->
  window_rejects tol now ts = negb (within tol now ts).
Proof.
  unfold window_rejects, within, wrap64. rewrite pow63, pow64. intros Ht Hn Hb Hs.
  destruct (Z.leb_spec (Z.abs (ts - now)) tol) as [H|H]; simpl.
  - apply orb_false_iff. split; apply Z.ltb_ge; lia.
  - apply orb_true_iff. destruct (Z.ltb_spec ((ts + tol + 9223372036854775808) mod 18446744073709551616 - 9223372036854775808) now); [auto|].
    right. apply Z.ltb_lt. lia.
Qed.

(* ... and beyond that bound the wrap does refuse timestamps that are within the tolerance *)
Lemma time_window_wrap_refuses_valid :
  exists tol now ts, 0 <= tol < 2^62 /\ 0 <= now < 2^62 /\ - 2^63 <= ts < 2^63 /\
    within tol now ts = true /\ window_rejects tol now ts = true.
Proof.
  exists (2^62 - 1), (2^62 - 1), (2^63 - 2). vm_compute. repeat split; congruence.
Qed.

(* ========================================================================================== *)
(* (SIG) the signed content                                                                    *)

Lemma join5 a b c d e : join c_nl [a; b; c; d; e] = content a b c d e.
Proof. reflexivity. Qed.

Definition no_nl (s : bytes) : Prop := ~ In c_nl s.

Lemma split_first (sep : N) a : forall a' r r',
  ~ In sep a -> ~ In sep a' -> a ++ sep :: r = a' ++ sep :: r' -> a = a' /\ r = r'.
Proof.
  induction a as [|x a IH]; intros [|y a'] r r' Ha Ha' E; simpl in *.
  - inversion E. auto.
  - inversion E; subst. exfalso. apply Ha'. auto.
  - inversion E; subst. exfalso. apply Ha. auto.
  - inversion E; subst. destruct (IH a' r r') as [-> ->]; auto.
Qed.

Lemma rev_app_cons {A} (x y : list A) a : rev (x ++ a :: y) = rev y ++ a :: rev x.
Proof. rewrite rev_app_distr. simpl. rewrite <- app_assoc. reflexivity. Qed.

Lemma no_nl_rev s : no_nl s -> ~ In c_nl (rev s).
Proof. unfold no_nl. intros H Hin. apply H. apply in_rev. assumption. Qed.

(* the content determines the five fields as soon as timestamp, method, query and body hash are
   free of line feeds; the path may contain any byte *)
Lemma content_injective t m p q h t' m' p' q' h' :
  no_nl t -> no_nl t' -> no_nl m -> no_nl m' -> no_nl q -> no_nl q' -> no_nl h -> no_nl h' ->
  content t m p q h = content t' m' p' q' h' ->
  t = t' /\ m = m' /\ p = p' /\ q = q' /\ h = h'.
Proof.
  unfold content. intros Ht Ht' Hm Hm' Hq Hq' Hh Hh' E.
  apply split_first in E as [-> E]; auto.
  apply split_first in E as [-> E]; auto.
  apply (f_equal (@rev N)) in E. rewrite !rev_app_cons in E.
  rewrite <- !app_assoc in E. cbn [app] in E.
  apply split_first in E as [E1 E]; [| apply no_nl_rev; assumption | apply no_nl_rev; assumption].
  apply split_first in E as [E2 E]; [| apply no_nl_rev; assumption | apply no_nl_rev; assumption].
  apply (f_equal (@rev N)) in E1, E2, E. rewrite !rev_involutive in *. subst. auto.
Qed.

(* without the proviso on the query the content is ambiguous: a line feed can move between path and query *)
Lemma content_not_injective_in_general :
  exists t m p q h p' q', (p, q) <> (p', q') /\ content t m p q h = content t m p' q' h.
Proof.
  exists [49%N], [71%N], [47%N; 97%N; 10%N; 98%N], [99%N], [48%N], [47%N; 97%N], [98%N; 10%N; 99%N].
  split; [intro H; inversion H | reflexivity].
Qed.

(* exactly one of the five components differs *)
Definition one_differs (x y : bytes * bytes * bytes * bytes * bytes) : Prop :=
  let '(t, m, p, q, b) := x in let '(t', m', p', q', b') := y in
  (t <> t' /\ m = m' /\ p = p' /\ q = q' /\ b = b') \/
  (t = t' /\ m <> m' /\ p = p' /\ q = q' /\ b = b') \/
  (t = t' /\ m = m' /\ p <> p' /\ q = q' /\ b = b') \/
  (t = t' /\ m = m' /\ p = p' /\ q <> q' /\ b = b') \/
  (t = t' /\ m = m' /\ p = p' /\ q = q' /\ b <> b').

(* a change of a single component always changes the content (no proviso needed) *)
Lemma content_single_change (sha : bytes -> bytes) :
  (forall b1 b2, sha b1 = sha b2 -> b1 = b2) ->
  forall t m p q b t' m' p' q' b',
  one_differs (t, m, p, q, b) (t', m', p', q', b') ->
  content t m p q (sha b) <> content t' m' p' q' (sha b').
Proof.
  intros Hsha t m p q b t' m' p' q' b' H E. unfold content in E.
  destruct H as [[N [-> [-> [-> ->]]]] | [[-> [N [-> [-> ->]]]] | [[-> [-> [N [-> ->]]]] | [[-> [-> [-> [N ->]]]] | [-> [-> [-> [-> N]]]]]]]].
  - apply app_inv_tail in E. auto.
  - apply app_inv_head in E. inversion E as [E']. apply app_inv_tail in E'. auto.
  - apply app_inv_head in E. inversion E as [E']. apply app_inv_head in E'. inversion E' as [E''].
    apply app_inv_tail in E''. auto.
  - apply app_inv_head in E. inversion E as [E']. apply app_inv_head in E'. inversion E' as [E''].
    apply app_inv_head in E''. inversion E'' as [E3]. apply app_inv_tail in E3. auto.
  - apply app_inv_head in E. inversion E as [E']. apply app_inv_head in E'. inversion E' as [E''].
    apply app_inv_head in E''. inversion E'' as [E3]. apply app_inv_head in E3. inversion E3 as [E4]. auto.
Qed.

Lemma bytes_eqb_eq a b : bytes_eqb a b = true <-> a = b.
Proof. apply list_eqb_eq. intros x y. apply N.eqb_eq. Qed.

Lemma parse_int_body_range neg d v : parse_int_body neg d = Some v -> - 2^63 <= v < 2^63.
Proof.
  unfold parse_int_body. intro Hd. destruct d as [|c d]; [discriminate|].
  destruct (digits_val 0 (c :: d)) as [v0|]; [|discriminate]. cbv zeta in Hd.
  destruct ((- 2^63 <=? (if neg then - v0 else v0)) && ((if neg then - v0 else v0) <=? 2^63 - 1)) eqn:E; [|discriminate].
  inversion Hd; subst. apply andb_true_iff in E as [E1 E2]. apply Z.leb_le in E1, E2. lia.
Qed.

Lemma parse_int64_range s v : parse_int64 s = Some v -> - 2^63 <= v < 2^63.
Proof.
  unfold parse_int64. intro H. destruct s as [|c r]; [discriminate|].
  destruct (c =? 43)%N; [eapply parse_int_body_range; exact H|].
  destruct (c =? 45)%N; eapply parse_int_body_range; exact H.
Qed.

Lemma digits_no_nl s : forall acc v, digits_val acc s = Some v -> no_nl s.
Proof.
  induction s as [|c r IH]; intros acc v H; unfold no_nl in *; simpl in *; [tauto|].
  destruct (is_digit c) eqn:E; [|discriminate]. intros [Hc|Hin].
  - subst c. vm_compute in E. discriminate.
  - eapply IH; eauto.
Qed.

(* a timestamp that strconv.ParseInt accepts contains no line feed *)
Lemma parse_int_body_no_nl neg d v : parse_int_body neg d = Some v -> no_nl d.
Proof.
  unfold parse_int_body. intro Hd. destruct d as [|c d]; [discriminate|].
  destruct (digits_val 0 (c :: d)) as [v0|] eqn:E; [|discriminate]. eapply digits_no_nl; eauto.
Qed.

Lemma parse_int64_no_nl s v : parse_int64 s = Some v -> no_nl s.
Proof.
  unfold parse_int64. intro H. destruct s as [|c r]; [discriminate|].
  destruct (N.eqb_spec c 43) as [->|N1].
  { apply parse_int_body_no_nl in H. intros [Hc|Hin]; [discriminate|auto]. }
  destruct (N.eqb_spec c 45) as [->|N2].
  { apply parse_int_body_no_nl in H. intros [Hc|Hin]; [discriminate|auto]. }
  eapply parse_int_body_no_nl; exact H.
Qed.

Section SigProofs.
  Variable decryptors : list bytes.
  Variable rsa_dec : bytes -> bytes -> option bytes.
  Variable b64_dec : bytes -> option bytes.
  Variable hmac_b64 : bytes -> bytes -> bytes.
  Variable sha_hex : bytes -> bytes.
  Variable url_parse : bytes -> option (bytes * bytes).
  Variable body_dec : bytes -> request -> dec_res.

  Notation verify := (verify_signature hmac_b64 sha_hex url_parse).
  Notation parse := (parse_content_security decryptors rsa_dec b64_dec).
  Notation gate := (content_security_gate decryptors rsa_dec b64_dec hmac_b64 sha_hex url_parse body_dec).
  Notation eff := (get_path_query url_parse).

  (* the request as the Spec sees it, once the header has been decrypted *)
  Definition q_of (h : cs_header) (r : request) : signed_request :=
    mkq true (h_key h) (h_ts h) (parse_int64 (h_ts h)) (h_sig h) (r_method r) (fst (eff r)) (snd (eff r)) (r_body r).

  (* VerifySignature passes iff the Spec accepts (no-overflow range for tolerance and clock) *)
  Lemma verify_spec tol now r h :
    0 <= tol -> 0 <= now -> now + 2 * tol < 2^63 ->
    (verify tol now r h = code_pass <-> sig_accept hmac_b64 sha_hex tol now (q_of h r) = true).
  Proof.
    intros Ht Hn Hb. unfold verify_signature, sig_accept, q_of.
    cbn [q_decrypts q_ts q_key q_ts_text q_sig q_method q_path q_query q_body andb].
    destruct (parse_int64 (h_ts h)) as [sec|] eqn:E; [|split; discriminate].
    pose proof (time_window_exact tol now sec Ht Hn Hb (parse_int64_range _ _ E)) as HW.
    unfold window_rejects in HW. rewrite HW.
    destruct (within tol now sec); cbn [negb andb]; [|split; discriminate].
    destruct (eff r) as [p q]. rewrite join5. cbn [fst snd]. fold bytes_eqb.
    destruct (bytes_eqb (h_sig h) (hmac_b64 (h_key h) (content (h_ts h) (r_method r) p q (sha_hex (r_body r))))); split; auto; discriminate.
  Qed.

  (* ... and in every range, passing implies the Spec accepts (wrap-around never accepts) *)
  Lemma verify_sound tol now r h :
    0 <= tol < 2^62 -> 0 <= now < 2^62 ->
    verify tol now r h = code_pass -> sig_accept hmac_b64 sha_hex tol now (q_of h r) = true.
  Proof.
    intros Ht Hn. unfold verify_signature, sig_accept, q_of.
    cbn [q_decrypts q_ts q_key q_ts_text q_sig q_method q_path q_query q_body andb].
    destruct (parse_int64 (h_ts h)) as [sec|] eqn:E; [|discriminate].
    destruct ((wrap64 (sec + tol) <? now) || (wrap64 (now + tol) <? sec)) eqn:W; [discriminate|].
    pose proof (time_window_no_wrap tol now sec Ht Hn (parse_int64_range _ _ E) W) as HW.
    unfold within. apply Z.leb_le in HW. rewrite HW. cbn [andb].
    destruct (eff r) as [p q]. rewrite join5. cbn [fst snd]. fold bytes_eqb.
    destruct (bytes_eqb (h_sig h) (hmac_b64 (h_key h) (content (h_ts h) (r_method r) p q (sha_hex (r_body r))))); auto; discriminate.
  Qed.

  Definition method_checked (r : request) : bool := existsb (bytes_eqb (r_method r)) checked_methods.

  (* strict mode: everything that is not (header parses and signature passes) is answered 403 *)
  Lemma strict_403 tol now r :
    method_checked r = true ->
    (forall h, parse r = inl h -> verify tol now r h <> code_pass) ->
    let o := gate true tol now r in s_status o = 403 /\ s_ran o = false.
  Proof.
    intros Hm Hf. unfold content_security_gate. unfold method_checked in Hm. rewrite Hm.
    destruct (parse r) as [h|e]; [|simpl; auto].
    specialize (Hf h eq_refl). destruct (Z.eqb_spec (verify tol now r h) code_pass) as [E|E]; [contradiction|].
    simpl. auto.
  Qed.

  (* which Signature response header goes with the 403 *)
  Lemma strict_403_header tol now r :
    method_checked r = true ->
    let o := gate true tol now r in
    match parse r with
    | inr _ => o = mks 403 false SigInvalid false
    | inl h =>
        (verify tol now r h = code_invalid_header -> o = mks 403 false SigInvalid false) /\
        (verify tol now r h = code_wrong_time -> o = mks 403 false SigWrongTime false) /\
        (verify tol now r h = code_invalid_token -> o = mks 403 false SigNone false)
    end.
  Proof.
    intros Hm. unfold content_security_gate. unfold method_checked in Hm. rewrite Hm.
    destruct (parse r) as [h|e]; [|reflexivity].
    repeat split; intros ->; reflexivity.
  Qed.

  Lemma nonstrict_pass tol now r :
    (forall h, parse r = inl h -> verify tol now r h <> code_pass) ->
    gate false tol now r = ran_ok.
  Proof.
    intros Hf. unfold content_security_gate.
    destruct (existsb (bytes_eqb (r_method r)) checked_methods); [|reflexivity].
    destruct (parse r) as [h|e]; [|reflexivity].
    specialize (Hf h eq_refl). destruct (Z.eqb_spec (verify tol now r h) code_pass) as [E|E]; [contradiction|].
    reflexivity.
  Qed.

  Lemma other_methods_pass strict tol now r :
    method_checked r = false -> gate strict tol now r = ran_ok.
  Proof. unfold method_checked, content_security_gate. intros ->. reflexivity. Qed.

  (* the gate in strict mode, as an iff *)
  Lemma strict_iff tol now r :
    method_checked r = true ->
    (s_ran (gate true tol now r) = true <->
     exists h, parse r = inl h /\ verify tol now r h = code_pass /\
               ((0 <? r_clen r) && (h_ctype h =? encryption_type) = true -> body_dec (h_key h) r = DecOk)).
  Proof.
    intros Hm. unfold content_security_gate. unfold method_checked in Hm. rewrite Hm.
    destruct (parse r) as [h|e].
    - destruct (Z.eqb_spec (verify tol now r h) code_pass) as [E|E]; cbn [negb].
      + destruct ((0 <? r_clen r) && (h_ctype h =? encryption_type)) eqn:C.
        * destruct (body_dec (h_key h) r) eqn:B; cbn; split;
            try (intros _; exists h; auto; fail); try (intros _; reflexivity); try discriminate;
            intros [h' [Hp [_ Hb]]]; inversion Hp; subst h'; specialize (Hb C); congruence.
        * cbn. split; [|auto]. intros _. exists h. split; [reflexivity|]. split; [assumption|]. intro X. congruence.
      + cbn. split; [discriminate|]. intros [h' [Hp [Hv _]]]. inversion Hp; subst. contradiction.
    - cbn. split; [discriminate|]. intros [h' [Hp _]]. discriminate.
  Qed.

  (* the gate itself panics only inside the body decryption of a request whose signature verified *)
  Lemma gate_panic strict tol now r :
    s_panic (gate strict tol now r) = true <->
    method_checked r = true /\
    exists h, parse r = inl h /\ verify tol now r h = code_pass /\
              (0 <? r_clen r) && (h_ctype h =? encryption_type) = true /\ body_dec (h_key h) r = DecPanic.
  Proof.
    unfold content_security_gate, method_checked, handle_verification_failure.
    destruct (existsb (bytes_eqb (r_method r)) checked_methods); cbn; [|split; [discriminate|intros [H _]; discriminate]].
    destruct (parse r) as [h|e].
    - destruct (Z.eqb_spec (verify tol now r h) code_pass) as [E|E]; cbn [negb].
      + destruct ((0 <? r_clen r) && (h_ctype h =? encryption_type)) eqn:C.
        * destruct (body_dec (h_key h) r) eqn:B; cbn; split; try discriminate.
          -- intros [_ [h' [Hp [_ [_ Hb]]]]]. inversion Hp; subst h'. congruence.
          -- intros [_ [h' [Hp [_ [_ Hb]]]]]. inversion Hp; subst h'. congruence.
          -- intros _. split; [reflexivity|]. exists h. auto.
          -- auto.
        * cbn. split; [discriminate|]. intros [_ [h' [Hp [_ [Hc _]]]]]. inversion Hp; subst h'. congruence.
      + destruct strict; cbn; (split; [discriminate|]); intros [_ [h' [Hp [Hv _]]]]; inversion Hp; subst h'; contradiction.
    - destruct strict; cbn; (split; [discriminate|]); intros [_ [h' [Hp _]]]; discriminate.
  Qed.

  (* the body hash is taken over the bytes of the body, whatever the declared length (framing) *)
  Lemma verify_framing tol now r h clen :
    verify tol now (mkr (r_method r) (r_path r) (r_query r) (r_xuri r) (r_cs r) (r_body r) clen) h = verify tol now r h.
  Proof. reflexivity. Qed.

  (* strict mode against the Spec: the handler runs iff the header decrypts, the Spec accepts, and --
     when the request announces an encrypted body -- that body decrypts *)
  Lemma sig_strict_spec tol now r :
    0 <= tol -> 0 <= now -> now + 2 * tol < 2^63 -> method_checked r = true ->
    (s_ran (gate true tol now r) = true <->
     exists h, parse r = inl h /\ sig_accept hmac_b64 sha_hex tol now (q_of h r) = true /\
               ((0 <? r_clen r) && (h_ctype h =? encryption_type) = true -> body_dec (h_key h) r = DecOk)).
  Proof.
    intros Ht Hn Hb Hm. rewrite (strict_iff tol now r Hm).
    split; intros [h [Hp [Hv Hc]]]; exists h; (split; [assumption|]); (split; [|assumption]);
      apply (verify_spec tol now r h Ht Hn Hb); assumption.
  Qed.

  (* ---- tampering ---- *)
  Hypothesis hmac_inj : forall k c1 c2, hmac_b64 k c1 = hmac_b64 k c2 -> c1 = c2.
  Hypothesis sha_inj : forall b1 b2, sha_hex b1 = sha_hex b2 -> b1 = b2.

  Definition fields_of (h : cs_header) (r : request) : bytes * bytes * bytes * bytes * bytes :=
    (h_ts h, r_method r, fst (eff r), snd (eff r), r_body r).

  (* same key and signature, exactly one signed field altered *)
  Definition tampered (h h' : cs_header) (r r' : request) : Prop :=
    h_key h' = h_key h /\ h_sig h' = h_sig h /\ one_differs (fields_of h r) (fields_of h' r').

  Lemma verify_pass_sig tol now r h :
    verify tol now r h = code_pass ->
    h_sig h = hmac_b64 (h_key h) (content (h_ts h) (r_method r) (fst (eff r)) (snd (eff r)) (sha_hex (r_body r))).
  Proof.
    unfold verify_signature. destruct (parse_int64 (h_ts h)); [|discriminate].
    destruct ((wrap64 (z + tol) <? now) || (wrap64 (now + tol) <? z)); [discriminate|].
    destruct (eff r) as [p q]. rewrite join5. cbn [fst snd].
    destruct (bytes_eqb (h_sig h) (hmac_b64 (h_key h) (content (h_ts h) (r_method r) p q (sha_hex (r_body r))))) eqn:E; [|discriminate].
    intros _. apply bytes_eqb_eq. assumption.
  Qed.

  Lemma tamper_verify tol now r r' h h' :
    verify tol now r h = code_pass -> tampered h h' r r' -> verify tol now r' h' <> code_pass.
  Proof.
    intros Hp [Hk [Hs Hd]] Hp'.
    apply verify_pass_sig in Hp. apply verify_pass_sig in Hp'.
    rewrite Hs, Hk, Hp in Hp'. apply hmac_inj in Hp'.
    unfold fields_of in Hd. eapply content_single_change in Hd; [|exact sha_inj]. apply Hd. exact Hp'.
  Qed.

  (* the gate: a single-field tampering of an accepted request gets 403 in strict mode (as long as
     the method is still one of the guarded ones -- otherwise the gate does not look at all) *)
  Lemma tamper_rejected tol now r r' h h' :
    parse r = inl h -> verify tol now r h = code_pass ->
    parse r' = inl h' -> tampered h h' r r' ->
    method_checked r' = true ->
    let o := gate true tol now r' in s_status o = 403 /\ s_ran o = false.
  Proof.
    intros P V P' T M. apply strict_403; [assumption|].
    intros h0 E. rewrite P' in E. inversion E; subst. eapply tamper_verify; eauto.
  Qed.
End SigProofs.

(* ========================================================================================== *)
(* (SIG) route groups on one engine                                                            *)

Section EngineProofs.
  Variable rsa_key_dec : N -> bytes -> option bytes.
  Variable b64_dec : bytes -> option bytes.
  Variable hmac_b64 : bytes -> bytes -> bytes.
  Variable sha_hex : bytes -> bytes.
  Variable url_parse : bytes -> option (bytes * bytes).
  Variable body_dec : bytes -> request -> dec_res.

  Notation egate := (engine_gate rsa_key_dec b64_dec hmac_b64 sha_hex url_parse body_dec).
  Notation ggate := (group_gate rsa_key_dec b64_dec hmac_b64 sha_hex url_parse body_dec).

  (* what a request is answered on group i's routes depends on group i's own configuration only:
     neither on the other groups nor on the registration order *)
  Lemma engine_gate_local groups groups' i j :
    nth_error groups i = nth_error groups' j -> egate groups i = egate groups' j.
  Proof. unfold engine_gate. intros ->. reflexivity. Qed.

  (* the fingerprint / secret a request announces *)
  Definition announced_fp (r : request) : bytes := attr f_fingerprint (parse_header (r_cs r)).
  Definition announced_secret (r : request) : bytes := attr f_secret (parse_header (r_cs r)).

  (* strict group: a request whose secret does not decrypt under the key configured FOR THIS GROUP
     under the announced fingerprint (in particular: fingerprint not configured for this group) is
     refused with 403, whatever other groups are configured with *)
  Lemma group_isolation g now r :
    g_keys g <> [] -> g_strict g = true -> method_checked r = true ->
    (forall k, alookup bytes_eqb (announced_fp r) (decryptor_map (g_keys g)) = Some k ->
               rsa_key_dec k (announced_secret r) = None) ->
    s_status (ggate g now r) = 403 /\ s_ran (ggate g now r) = false.
  Proof.
    intros _ Hs Hm Hk. unfold group_gate. rewrite Hs. apply strict_403; [assumption|].
    intros h. unfold parse_content_security. fold (announced_fp r). fold (announced_secret r).
    destruct (announced_fp r) as [|f0 fr] eqn:EF; [discriminate|].
    destruct (announced_secret r) as [|s0 sr] eqn:ES; [discriminate|].
    destruct (attr f_signature (parse_header (r_cs r))) as [|g0 gr]; [discriminate|].
    destruct (negb (existsb (bytes_eqb (f0 :: fr)) (map fst (decryptor_map (g_keys g))))); [discriminate|].
    destruct (alookup bytes_eqb (f0 :: fr) (decryptor_map (g_keys g))) as [k|] eqn:EK; [|discriminate].
    rewrite (Hk k eq_refl). discriminate.
  Qed.

  Lemma engine_isolation groups i g now r o :
    nth_error groups i = Some g -> g_keys g <> [] -> g_strict g = true -> method_checked r = true ->
    (forall k, alookup bytes_eqb (announced_fp r) (decryptor_map (g_keys g)) = Some k ->
               rsa_key_dec k (announced_secret r) = None) ->
    egate groups i now r = Some o -> s_status o = 403 /\ s_ran o = false.
  Proof.
    intros Hn Hk Hs Hm Hd. unfold engine_gate, signature_verifier. rewrite Hn.
    pose proof (group_isolation g now r Hk Hs Hm Hd) as HG.
    destruct (g_keys g) as [|kv ks]; [congruence|]. intro H; inversion H; subst. exact HG.
  Qed.
  (* the method dimension at the router: a strict group whose route is registered with guarded methods only
     never runs its handler for a request that does not verify -- whatever the method: a registered method is a
     guarded one (403), any other method is not dispatched to the route at all (405 from the router) *)
  Lemma method_dimension groups i g registered now r o :
    nth_error groups i = Some g -> g_keys g <> [] -> g_strict g = true ->
    (forall m, existsb (bytes_eqb m) registered = true -> existsb (bytes_eqb m) checked_methods = true) ->
    (forall k, alookup bytes_eqb (announced_fp r) (decryptor_map (g_keys g)) = Some k ->
               rsa_key_dec k (announced_secret r) = None) ->
    route_dispatch registered r (egate groups i now r) = Some o ->
    s_ran o = false /\ (s_status o = 403 \/ s_status o = 405).
  Proof.
    intros Hn Hk Hs Hreg Hd. unfold route_dispatch.
    destruct (existsb (bytes_eqb (r_method r)) registered) eqn:E.
    - intro Ho. destruct (engine_isolation groups i g now r o Hn Hk Hs (Hreg _ E) Hd Ho) as [H1 H2]. auto.
    - intro Ho. inversion Ho; subst. simpl. auto.
  Qed.
End EngineProofs.

(* the path that is routed is not the signed one when X-Request-Uri is present *)
Lemma routed_path_not_covered :
  exists url_parse r r', r_path r <> r_path r' /\ r_xuri r = r_xuri r' /\
    get_path_query url_parse r = get_path_query url_parse r'.
Proof.
  exists (fun _ => Some ([47%N; 97%N], [])),
         (mkr [] [47%N; 97%N] [] [47%N; 97%N] [] [] 0), (mkr [] [47%N; 98%N] [] [47%N; 97%N] [] [] 0).
  split; [intro H; inversion H|]. split; reflexivity.
Qed.

(* ========================================================================================== *)
(* (RPC)                                                                                       *)

(* app and token of a call: present and non-empty *)
Definition md_creds (md : rpc_md) : option (N * N) :=
  match md with
  | Some (app :: _, token :: _) => if (app =? 0)%N || (token =? 0)%N then None else Some (app, token)
  | _ => None
  end.

Definition to_stored (s : store_res) : stored :=
  match s with SFail => StFail | SNil => StNone | SVal t => StTok t end.

Lemma alookup_aremove_ne {V} (k k' : N) (m : list (N * V)) :
  k' <> k -> alookup N.eqb k' (aremove N.eqb k m) = alookup N.eqb k' m.
Proof.
  intro Hn. induction m as [|[a v] m IH]; simpl; [reflexivity|].
  destruct (N.eqb_spec k a) as [->|E]; simpl.
  - destruct (N.eqb_spec k' a); [contradiction|assumption].
  - destruct (N.eqb_spec k' a); [reflexivity|assumption].
Qed.

Lemma alookup_aset {V} (k k' : N) (v : V) (m : list (N * V)) :
  alookup N.eqb k' (aset N.eqb k v m) = if (k' =? k)%N then Some v else alookup N.eqb k' m.
Proof.
  unfold aset. simpl. destruct (N.eqb_spec k' k) as [->|E]; [reflexivity|]. apply alookup_aremove_ne. assumption.
Qed.

(* decision table of one call *)
Lemma rpc_table strict cache store :
  (* no metadata, a missing key, or an empty first value: Unauthenticated, cache untouched *)
  (forall md, md_creds md = None -> authenticate strict cache store md = (cache, rpc_unauthenticated)) /\
  (* credentials present *)
  (forall md app token, md_creds md = Some (app, token) ->
     match alookup N.eqb app cache with
     | Some t =>      (* answered from the cache, the store is not consulted *)
         authenticate strict cache store md = (cache, if (token =? t)%N then rpc_ok else rpc_unauthenticated)
     | None =>
         match store app with
         | SVal t => authenticate strict cache store md =
                     (aset N.eqb app t cache, if (token =? t)%N then rpc_ok else rpc_unauthenticated)
         | SNil | SFail => authenticate strict cache store md =
                     (cache, if strict then rpc_internal else rpc_ok)
         end
     end).
Proof.
  split.
  - intros [[[|app apps] [|token tokens]]|]; simpl; try reflexivity.
    destruct ((app =? 0)%N || (token =? 0)%N); [reflexivity|discriminate].
  - intros [[[|app0 apps] [|token0 tokens]]|] app token; simpl; try discriminate.
    destruct ((app0 =? 0)%N || (token0 =? 0)%N); [discriminate|]. intro H; inversion H; subst.
    unfold validate. destruct (alookup N.eqb app cache); [reflexivity|]. destruct (store app); reflexivity.
Qed.

(* the same as a refinement of the Spec: the decision is rpc_accept on the server's view of the store *)
Lemma rpc_refines strict cache store md :
  match md_creds md with
  | None => authenticate strict cache store md = (cache, rpc_unauthenticated) /\
            rpc_accept strict false StNone 0%N = false
  | Some (app, token) =>
      let st := to_stored (store app) in
      fst (authenticate strict cache store md) = rpc_memo cache st app /\
      (snd (authenticate strict cache store md) = rpc_ok <->
       rpc_accept strict true (rpc_view cache st app) token = true) /\
      (snd (authenticate strict cache store md) <> rpc_ok ->
       snd (authenticate strict cache store md) =
         match rpc_view cache st app with StTok _ => rpc_unauthenticated | _ => rpc_internal end)
  end.
Proof.
  destruct (rpc_table strict cache store) as [T1 T2].
  destruct (md_creds md) as [[app token]|] eqn:E.
  - specialize (T2 md app token E). unfold rpc_view, rpc_memo, rpc_accept.
    destruct (alookup N.eqb app cache) as [t|].
    + rewrite T2. cbn. destruct (token =? t)%N; unfold rpc_ok, rpc_unauthenticated, rpc_internal;
        repeat split; intros; auto; try discriminate; try congruence.
    + destruct (store app) as [| |t]; rewrite T2; cbn.
      * destruct strict; unfold rpc_ok, rpc_unauthenticated, rpc_internal;
          repeat split; intros; auto; try discriminate; try congruence.
      * destruct strict; unfold rpc_ok, rpc_unauthenticated, rpc_internal;
          repeat split; intros; auto; try discriminate; try congruence.
      * destruct (token =? t)%N; unfold rpc_ok, rpc_unauthenticated, rpc_internal;
          repeat split; intros; auto; try discriminate; try congruence.
  - split; [apply T1; assumption | reflexivity].
Qed.

(* histories: (store contents at the time of the call, metadata) through one Authenticator *)
Fixpoint run_rpc (strict : bool) (cache : list (N * N)) (steps : list ((N -> store_res) * rpc_md)) : list Z :=
  match steps with
  | [] => []
  | (store, md) :: r =>
      let '(cache', code) := authenticate strict cache store md in
      code :: run_rpc strict cache' r
  end.

Definition cache_sound (cache : list (N * N)) (past : list (N -> store_res)) : Prop :=
  forall app t, alookup N.eqb app cache = Some t -> exists st, In st past /\ st app = SVal t.

(* in strict mode a call is accepted only with a token that the store has held for its app at some
   point of the history (now or at an earlier fetch, because of the cache) *)
Lemma rpc_strict_sound : forall steps cache past i store md app token,
  cache_sound cache past ->
  nth_error steps i = Some (store, md) -> md_creds md = Some (app, token) ->
  nth_error (run_rpc true cache steps) i = Some rpc_ok ->
  exists st, In st (past ++ map fst (firstn (S i) steps)) /\ st app = SVal token.
Proof.
  induction steps as [|[store0 md0] r IH]; intros cache past i store md app token Hc Hn Hm Hr.
  - destruct i; discriminate.
  - destruct (rpc_table true cache store0) as [T1 T2].
    destruct i as [|i]; simpl in Hn, Hr.
    + inversion Hn; subst store0 md0. specialize (T2 md app token Hm).
      destruct (alookup N.eqb app cache) as [t|] eqn:EL.
      * rewrite T2 in Hr. simpl in Hr. destruct (N.eqb_spec token t) as [->|]; [|discriminate].
        destruct (Hc app t EL) as [st [Hin Hst]]. exists st. split; [apply in_or_app; auto|assumption].
      * destruct (store app) as [| |t] eqn:ES; rewrite T2 in Hr; simpl in Hr; try discriminate.
        destruct (N.eqb_spec token t) as [->|]; [|discriminate].
        exists store. split; [apply in_or_app; right; simpl; auto|assumption].
    + destruct (authenticate true cache store0 md0) as [cache' code] eqn:EA.
      simpl in Hr.
      assert (cache_sound cache' (past ++ [store0])) as Hc'.
      { intros a t Ha. destruct (md_creds md0) as [[app0 token0]|] eqn:E0.
        - specialize (T2 md0 app0 token0 E0). destruct (alookup N.eqb app0 cache) as [t0|] eqn:EL.
          + rewrite T2 in EA. inversion EA; subst. destruct (Hc a t Ha) as [st [Hin Hst]].
            exists st. split; [apply in_or_app; auto|assumption].
          + destruct (store0 app0) as [| |t0] eqn:ES; rewrite T2 in EA; inversion EA; subst.
            * destruct (Hc a t Ha) as [st [Hin Hst]]. exists st. split; [apply in_or_app; auto|assumption].
            * destruct (Hc a t Ha) as [st [Hin Hst]]. exists st. split; [apply in_or_app; auto|assumption].
            * rewrite alookup_aset in Ha. destruct (N.eqb_spec a app0) as [->|].
              -- inversion Ha; subst. exists store0. split; [apply in_or_app; right; simpl; auto|assumption].
              -- destruct (Hc a t Ha) as [st [Hin Hst]]. exists st. split; [apply in_or_app; auto|assumption].
        - rewrite (T1 md0 E0) in EA. inversion EA; subst. destruct (Hc a t Ha) as [st [Hin Hst]].
          exists st. split; [apply in_or_app; auto|assumption]. }
      destruct (IH cache' (past ++ [store0]) i store md app token Hc' Hn Hm Hr) as [st [Hin Hst]].
      exists st. split; [|assumption]. rewrite <- app_assoc in Hin. exact Hin.
Qed.

(* interceptors: the method name (and unary/stream) is irrelevant; the handler runs iff code OK *)
Lemma intercept_method_irrelevant mode mode' m m' strict cache store md :
  intercept mode m strict cache store md = intercept mode' m' strict cache store md.
Proof. reflexivity. Qed.

Lemma intercept_spec mode m strict cache store md :
  let '(cache', code, ran) := intercept mode m strict cache store md in
  cache' = fst (authenticate strict cache store md) /\ code = snd (authenticate strict cache store md) /\
  (ran = true <-> code = rpc_ok).
Proof.
  unfold intercept. destruct (authenticate strict cache store md) as [c code]. simpl.
  destruct (Z.eqb_spec code rpc_ok) as [->|E]; repeat split; auto; try discriminate; try (intro; contradiction).
Qed.

(* "not found" answers leave no trace: any number of calls for apps that are not cached and have no
   stored token (healthy store) leave the cache as it was, each answered Internal (strict) / OK (lax) *)
Fixpoint run_rpc_cache (strict : bool) (cache : list (N * N)) (steps : list ((N -> store_res) * rpc_md)) : list (N * N) :=
  match steps with
  | [] => cache
  | (store, md) :: r => run_rpc_cache strict (fst (authenticate strict cache store md)) r
  end.

Lemma run_rpc_app strict : forall a b cache,
  run_rpc strict cache (a ++ b) = run_rpc strict cache a ++ run_rpc strict (run_rpc_cache strict cache a) b.
Proof.
  induction a as [|[st md] a IH]; intros b cache; simpl; [reflexivity|].
  destruct (authenticate strict cache st md) as [c code]. simpl. rewrite IH. reflexivity.
Qed.

Definition unknown_app_call (cache : list (N * N)) (sm : (N -> store_res) * rpc_md) : Prop :=
  exists app tok, md_creds (snd sm) = Some (app, tok) /\ alookup N.eqb app cache = None /\ fst sm app = SNil.

Lemma unknown_apps_harmless strict : forall steps cache,
  (forall sm, In sm steps -> unknown_app_call cache sm) ->
  run_rpc_cache strict cache steps = cache /\
  run_rpc strict cache steps = map (fun _ => if strict then rpc_internal else rpc_ok) steps.
Proof.
  induction steps as [|[st md] r IH]; intros cache H; simpl; [auto|].
  destruct (H (st, md) (or_introl eq_refl)) as [app [tok [Hc [Hl Hs]]]]. simpl in *.
  destruct (rpc_table strict cache st) as [_ T2]. specialize (T2 md app tok Hc). rewrite Hl, Hs in T2.
  rewrite T2. simpl. destruct (IH cache) as [I1 I2]; [intros sm Hin; apply H; right; assumption|].
  rewrite I1, I2. auto.
Qed.

(* ... so later verdicts are what they would have been without those calls *)
Lemma unknown_apps_no_effect strict steps later cache :
  (forall sm, In sm steps -> unknown_app_call cache sm) ->
  run_rpc strict cache (steps ++ later) =
  map (fun _ => if strict then rpc_internal else rpc_ok) steps ++ run_rpc strict cache later.
Proof.
  intro H. rewrite run_rpc_app. destruct (unknown_apps_harmless strict steps cache H) as [-> ->]. reflexivity.
Qed.

(* ---- long secrets ---- *)
Lemma crypt_block k f fuel a rest pa :
  a <> [] -> List.length a = k -> f a = Some pa ->
  crypt k f (S fuel) (a ++ rest) = match crypt k f fuel rest with Some pr => Some (pa ++ pr) | None => None end.
Proof.
  intros Ha Hl Hf. destruct a as [|x a]; [congruence|]. cbn [app crypt].
  change (x :: a ++ rest) with ((x :: a) ++ rest).
  rewrite <- Hl, firstn_app, firstn_all, Nat.sub_diag, skipn_app, skipn_all, Nat.sub_diag. cbn [firstn skipn app].
  rewrite app_nil_r, Hf. reflexivity.
Qed.

(* any number of full blocks, each decrypting, decrypts to the concatenation of the plaintext pieces *)
Lemma crypt_blocks k f : forall (blocks : list (bytes * bytes)) fuel,
  (forall b p, In (b, p) blocks -> b <> [] /\ List.length b = k /\ f b = Some p) ->
  (List.length blocks <= fuel)%nat ->
  crypt k f fuel (List.concat (map fst blocks)) = Some (List.concat (map snd blocks)).
Proof.
  induction blocks as [|[b p] r IH]; intros fuel H Hf; cbn [map List.concat fst snd].
  - destruct fuel; reflexivity.
  - destruct fuel as [|fuel]; [simpl in Hf; lia|].
    destruct (H b p (or_introl eq_refl)) as [H1 [H2 H3]].
    rewrite (crypt_block k f fuel b _ p H1 H2 H3), IH; [reflexivity| |simpl in Hf; lia].
    intros b' p' Hin. apply H. right. assumption.
Qed.

(* ---- encrypted body size ---- *)
Lemma decrypt_body_size ecb key r :
  decrypt_body ecb key r = if max_bytes <? r_clen r then DecErr else ecb key r.
Proof. reflexivity. Qed.

(* ---- the breaker in front of the authorize interceptor ---- *)
Lemma authenticate_codes strict cache store md :
  let c := snd (authenticate strict cache store md) in c = rpc_ok \/ c = rpc_unauthenticated \/ c = rpc_internal.
Proof.
  destruct (rpc_table strict cache store) as [T1 T2]. destruct (md_creds md) as [[app tok]|] eqn:E.
  - specialize (T2 md app tok E). destruct (alookup N.eqb app cache) as [t|].
    + rewrite T2. simpl. destruct (tok =? t)%N; auto.
    + destruct (store app) as [| |t0]; rewrite T2; simpl.
      * destruct strict; auto.
      * destruct strict; auto.
      * destruct (tok =? t0)%N; auto.
  - rewrite (T1 md E). simpl. auto.
Qed.

(* of the answers the authorize interceptor can give, only Internal (strict mode, store failure / no stored
   token) counts against the method's breaker; Unauthenticated never does *)
Lemma auth_answer_acceptable strict cache store md :
  let c := snd (authenticate strict cache store md) in codes_acceptable c = false <-> c = rpc_internal.
Proof.
  cbv zeta. destruct (authenticate_codes strict cache store md) as [E|[E|E]]; rewrite E; vm_compute; split; congruence.
Qed.

Lemma rejections_no_breaker_failures codes :
  (forall c, In c codes -> c = rpc_ok \/ c = rpc_unauthenticated) -> breaker_failures codes = 0%nat.
Proof.
  unfold breaker_failures. induction codes as [|c r IH]; intro H; [reflexivity|]. cbn [filter].
  destruct (H c (or_introl eq_refl)) as [E|E]; rewrite E; (cbn; apply IH; intros c' Hin; apply H; right; assumption).
Qed.

(* ---- configuration matrix through rpc.NewServer ---- *)
Lemma config_matrix cache store app tok :
  app <> 0%N -> tok <> 0%N -> alookup N.eqb app cache = None ->
  let md := Some ([app], [tok]) in
  (* Auth off: everything is accepted, whatever StrictControl *)
  (forall strict md', snd (server_config_gate false strict cache store md') = rpc_ok) /\
  (* Auth on *)
  (forall strict, snd (server_config_gate true strict cache store None) = rpc_unauthenticated) /\
  (forall strict t, store app = SVal t ->
     snd (server_config_gate true strict cache store md) = if (tok =? t)%N then rpc_ok else rpc_unauthenticated) /\
  (store app = SNil \/ store app = SFail ->
     snd (server_config_gate true true cache store md) = rpc_internal /\
     snd (server_config_gate true false cache store md) = rpc_ok).
Proof.
  intros Ha Ht Hc. cbv zeta. unfold server_config_gate.
  assert (md_creds (Some ([app], [tok])) = Some (app, tok)) as Hm.
  { simpl. apply N.eqb_neq in Ha, Ht. rewrite Ha, Ht. reflexivity. }
  split; [reflexivity|]. split; [reflexivity|]. split.
  - intros strict t Hs. destruct (rpc_table strict cache store) as [_ T2].
    specialize (T2 _ app tok Hm). rewrite Hc, Hs in T2. rewrite T2. reflexivity.
  - intros Hs. split.
    + destruct (rpc_table true cache store) as [_ T2]. specialize (T2 _ app tok Hm). rewrite Hc in T2.
      destruct Hs as [Hs|Hs]; rewrite Hs in T2; rewrite T2; reflexivity.
    + destruct (rpc_table false cache store) as [_ T2]. specialize (T2 _ app tok Hm). rewrite Hc in T2.
      destruct Hs as [Hs|Hs]; rewrite Hs in T2; rewrite T2; reflexivity.
Qed.

(* ---- rpc.Proxy ---- *)
Lemma proxy_transparent strict cache store md :
  authenticate strict cache store (proxy_md md) = authenticate strict cache store md.
Proof.
  destruct md as [[[|app apps] [|token tokens]]|]; simpl; try reflexivity.
  destruct ((app =? 0)%N || (token =? 0)%N) eqn:E; simpl; [reflexivity|]. rewrite E. reflexivity.
Qed.
