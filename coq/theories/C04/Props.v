(* C04 Props: the property theorems, nothing else.
   Crypto is idealised: the jwt library's verdict, RSA decryption, base64, HMAC-SHA256, SHA-256 and
   url.Parse are universally quantified functions; the tamper theorem assumes HMAC (per key) and
   SHA-256 injective. Secrets / tokens / RPC strings are identifiers, 0 = the empty string. *)
From God Require Import Base.Prelude C04.Model C04.Spec C04.Proofs.
From Coq Require Import String.
Local Open Scope Z_scope.

(* ---------------------------------------------------------------- (JWT) *)

(* The jwt library validates exp/nbf/iat against the clock: jwt_at jt is the library at the time jt of the
   request, jwt_ok (jwt_at jt) s tok = "signature verifies under s and the time claims are valid at jt".
   For EVERY time jt, EVERY state p of the parser's hit counters (= every history of earlier requests) and every
   virtual-clock reading: the handler runs iff the library accepts the token at jt under the current secret, or a
   previous secret is configured and it accepts under that one; the parser state changes in its counters only.
   lib_contract = golang-jwt's "err == nil iff token.Valid, claims are the MapClaims handed in" (measured per case). *)
Theorem c04_jwt_iff : forall jwt_at : Z -> N -> N -> jverdict, (forall jt, lib_contract (jwt_at jt)) ->
  forall jt cb now p secret prev tok,
  let r := authorize (jwt_at jt) cb now p secret prev tok in
  (j_ran (snd r) = true <->
   jwt_ok (jwt_at jt) secret tok = true \/ (prev <> 0%N /\ jwt_ok (jwt_at jt) prev tok = true)) /\
  reset_time (fst r) = reset_time p /\ reset_dur (fst r) = reset_dur p.
Proof. intros jwt_at L jt. exact (jwt_iff_full (jwt_at jt) (L jt)). Qed.
Print Assumptions c04_jwt_iff.

(* acceptance depends only on (secret, prevSecret, token, time of the request): two middleware instances in
   arbitrary states -- e.g. one that accepted this very token earlier and one that never saw it -- decide alike *)
Theorem c04_jwt_no_memory : forall jwt_at : Z -> N -> N -> jverdict, (forall jt, lib_contract (jwt_at jt)) ->
  forall jt cb cb' now now' p p' secret prev tok,
  j_ran (snd (authorize (jwt_at jt) cb now p secret prev tok)) =
  j_ran (snd (authorize (jwt_at jt) cb' now' p' secret prev tok)).
Proof. intros jwt_at L jt. exact (jwt_no_memory (jwt_at jt) (L jt)). Qed.
Print Assumptions c04_jwt_no_memory.

(* ... hence along every history ((virtual now, time jt), token) through one middleware instance, from every
   start state: the n-th decision is the Spec's at the n-th request's own time (a token accepted while valid is
   refused once exp has passed, or before nbf) *)
Theorem c04_jwt_history : forall jwt_at : Z -> N -> N -> jverdict, (forall jt, lib_contract (jwt_at jt)) ->
  forall cb secret prev (reqs : list (Z * Z * N)) p,
  map j_ran (snd (run_jwt jwt_at cb p secret prev reqs)) =
  map (fun r => jwt_accept (jwt_ok (jwt_at (snd (fst r)))) secret prev (snd r)) reqs /\
  reset_time (fst (run_jwt jwt_at cb p secret prev reqs)) = reset_time p /\
  reset_dur (fst (run_jwt jwt_at cb p secret prev reqs)) = reset_dur p.
Proof. exact jwt_history. Qed.
Print Assumptions c04_jwt_history.

(* the chain the engine builds from the public route options (api.WithJwt / api.WithJwtTransition, engine.appendAuthHandler):
   with a current secret of at least 8 bytes the handler runs iff the token verifies under the current secret, or the previous
   secret is non-empty and it verifies under that one -- for EVERY length of the previous secret (1..7 bytes included; the
   previous secret is not validated), and WithJwt alone = no previous secret *)
Theorem c04_jwt_engine_options : forall jwt_parse, lib_contract jwt_parse ->
  forall secret len prev prev_len now p tok, 8 <= len ->
  jwt_setting (JTransition secret len prev prev_len) = Some (true, secret, prev) /\
  jwt_setting (JJwt secret len) = Some (true, secret, 0%N) /\
  (j_ran (snd (engine_jwt_gate jwt_parse (true, secret, prev) now p tok)) = true <->
   jwt_ok jwt_parse secret tok = true \/ (prev <> 0%N /\ jwt_ok jwt_parse prev tok = true)) /\
  (j_ran (snd (engine_jwt_gate jwt_parse (true, secret, 0%N) now p tok)) = true <-> jwt_ok jwt_parse secret tok = true).
Proof.
  intros jwt_parse L secret len prev prev_len now p tok H.
  pose proof (jwt_setting_transition secret len prev prev_len H) as S1.
  pose proof (jwt_setting_jwt secret len H) as S2.
  pose proof (engine_jwt_iff jwt_parse L _ secret prev now p tok S1) as E1.
  pose proof (engine_jwt_iff jwt_parse L _ secret 0%N now p tok S2) as E2.
  split; [exact S1|]. split; [exact S2|]. split.
  - rewrite E1. exact (jwt_accept_prop jwt_parse _ _ _ _).
  - rewrite E2, (jwt_accept_prop jwt_parse). split; [intros [H1|[H1 _]]; [assumption|congruence] | auto].
Qed.
Print Assumptions c04_jwt_engine_options.

(* an accepted request answers 200 from the handler, whose context holds exactly the token's
   non-registered claims *)
Theorem c04_claims_visible : forall jwt_parse cb now p secret prev tok,
  j_ran (snd (authorize jwt_parse cb now p secret prev tok)) = true ->
  exists s claims, (s = secret \/ (prev <> 0%N /\ s = prev)) /\
    jwt_parse s tok = JTok true true claims /\
    j_status (snd (authorize jwt_parse cb now p secret prev tok)) = 200 /\
    j_ctx (snd (authorize jwt_parse cb now p secret prev tok)) = visible_claims claims /\
    forall k v, In (k, v) (j_ctx (snd (authorize jwt_parse cb now p secret prev tok))) <->
                In (k, v) claims /\ ~ In k registered_claims.
Proof. exact claims_visible. Qed.
Print Assumptions c04_claims_visible.

(* a refused request: handler not run, nothing in the context, status 401 unless the optional
   callback wrote a status itself (header-once writer) *)
Theorem c04_jwt_401_no_handler : forall jwt_parse cb now p secret prev tok,
  let o := snd (authorize jwt_parse cb now p secret prev tok) in
  j_ran o = false ->
  j_ctx o = [] /\
  j_status o = match cb with CbStatus c => c | _ => 401 end /\
  j_cb o = match cb with CbNone => false | _ => true end.
Proof. exact jwt_401_no_handler. Qed.
Print Assumptions c04_jwt_401_no_handler.

(* ---------------------------------------------------------------- (SIG) time window *)

(* the int64 test `seconds+tol < now || now+tol < seconds`: wrap-around never accepts *)
Theorem c04_time_window_no_wrap : forall tol now ts,
  0 <= tol < 2^62 -> 0 <= now < 2^62 -> - 2^63 <= ts < 2^63 ->
  (wrap64 (ts + tol) <? now) || (wrap64 (now + tol) <? ts) = false ->
  Z.abs (ts - now) <= tol.
Proof. exact time_window_no_wrap. Qed.
Print Assumptions c04_time_window_no_wrap.

(* and it is exactly |ts - now| <= tol whenever now + 2*tol fits in an int64 *)
Theorem c04_time_window_exact : forall tol now ts,
  0 <= tol -> 0 <= now -> now + 2 * tol < 2^63 -> - 2^63 <= ts < 2^63 ->
  (wrap64 (ts + tol) <? now) || (wrap64 (now + tol) <? ts) = negb (Z.abs (ts - now) <=? tol).
Proof. exact time_window_exact. Qed.
Print Assumptions c04_time_window_exact.

(* the converse of no_wrap fails in the full range: a wrapped sum refuses a timestamp within tolerance *)
Theorem c04_time_window_complete_refuted :
  exists tol now ts, 0 <= tol < 2^62 /\ 0 <= now < 2^62 /\ - 2^63 <= ts < 2^63 /\
    within tol now ts = true /\ (wrap64 (ts + tol) <? now) || (wrap64 (now + tol) <? ts) = true.
Proof. exact time_window_wrap_refuses_valid. Qed.
Print Assumptions c04_time_window_complete_refuted.

(* ---------------------------------------------------------------- (SIG) signed content *)

(* strings.Join([ts, method, path, query, hash], "\n") determines the five fields when timestamp,
   method, query and body hash contain no line feed; the path may contain any byte *)
Theorem c04_join_injective : forall t m p q h t' m' p' q' h',
  ~ In c_nl t -> ~ In c_nl t' -> ~ In c_nl m -> ~ In c_nl m' ->
  ~ In c_nl q -> ~ In c_nl q' -> ~ In c_nl h -> ~ In c_nl h' ->
  join c_nl [t; m; p; q; h] = join c_nl [t'; m'; p'; q'; h'] ->
  t = t' /\ m = m' /\ p = p' /\ q = q' /\ h = h'.
Proof. intros. apply content_injective; auto. Qed.
Print Assumptions c04_join_injective.

(* a timestamp accepted by strconv.ParseInt never contains a line feed *)
Theorem c04_timestamp_no_lf : forall s v, parse_int64 s = Some v -> ~ In c_nl s.
Proof. exact parse_int64_no_nl. Qed.
Print Assumptions c04_timestamp_no_lf.

(* without the proviso on the query a line feed can move between path and query *)
Theorem c04_join_injective_general_refuted :
  exists t m p q h p' q', (p, q) <> (p', q') /\ join c_nl [t; m; p; q; h] = join c_nl [t; m; p'; q'; h].
Proof. exact content_not_injective_in_general. Qed.
Print Assumptions c04_join_injective_general_refuted.

(* ---------------------------------------------------------------- (SIG) the gate *)

(* strict mode, guarded method, no int64 overflow: the handler runs iff the header decrypts under a
   configured key, the timestamp is within the tolerance and the HMAC over (timestamp, method,
   effective path, effective query, body hash) matches -- and, for a request announcing an encrypted
   body, that body decrypts (otherwise cryptohandler answers 400) *)
Theorem c04_sig_strict_iff : forall decryptors rsa_dec b64_dec hmac_b64 sha_hex url_parse body_dec tol now r,
  0 <= tol -> 0 <= now -> now + 2 * tol < 2^63 -> method_checked r = true ->
  (s_ran (content_security_gate decryptors rsa_dec b64_dec hmac_b64 sha_hex url_parse body_dec true tol now r) = true <->
   exists h, parse_content_security decryptors rsa_dec b64_dec r = inl h /\
             sig_accept hmac_b64 sha_hex tol now (q_of url_parse h r) = true /\
             ((0 <? r_clen r) && (h_ctype h =? encryption_type) = true -> body_dec (h_key h) r = DecOk)).
Proof. exact sig_strict_spec. Qed.
Print Assumptions c04_sig_strict_iff.

(* in the full range 0 <= tol, now < 2^62 a passing verification still implies the Spec's acceptance *)
Theorem c04_sig_sound : forall hmac_b64 sha_hex url_parse tol now r h,
  0 <= tol < 2^62 -> 0 <= now < 2^62 ->
  verify_signature hmac_b64 sha_hex url_parse tol now r h = code_pass ->
  sig_accept hmac_b64 sha_hex tol now (q_of url_parse h r) = true.
Proof. exact verify_sound. Qed.
Print Assumptions c04_sig_sound.

(* the framing of the body (declared Content-Length, chunked = -1, declared 0) is not an input of the
   signature verification: the hash is over the body bytes; the Spec's sig_accept has no framing input at all *)
Theorem c04_body_hash_framing_independent : forall hmac_b64 sha_hex url_parse tol now r h clen,
  verify_signature hmac_b64 sha_hex url_parse tol now (mkr (r_method r) (r_path r) (r_query r) (r_xuri r) (r_cs r) (r_body r) clen) h =
  verify_signature hmac_b64 sha_hex url_parse tol now r h.
Proof. exact verify_framing. Qed.
Print Assumptions c04_body_hash_framing_independent.

(* long client keys: the RSA-encrypted secret may span any number of PKCS#1 v1.5 blocks. rsaBase.crypt (transcribed as
   crypt, bytesLimit = k) decrypts a sequence of full k-byte blocks to the concatenation of the pieces' plaintexts ... *)
Theorem c04_rsa_multiblock : forall k block_dec (blocks : list (bytes * bytes)) fuel,
  (forall b p, In (b, p) blocks -> b <> [] /\ List.length b = k /\ block_dec b = Some p) ->
  (List.length blocks <= fuel)%nat ->
  crypt k block_dec fuel (List.concat (map fst blocks)) = Some (List.concat (map snd blocks)).
Proof. exact crypt_blocks. Qed.
Print Assumptions c04_rsa_multiblock.

(* encrypted bodies (type=1): the size limit of cryptohandler.decryptBody refuses only bodies ABOVE 1 MiB. For a request
   that parsed and verified, announces type=1 and carries a body: above the limit -> 400 without handler; at or below it
   the body's own decryption decides, and on success the handler runs on the decrypted body *)
Theorem c04_enc_size_boundary : forall decryptors rsa_dec b64_dec hmac_b64 sha_hex url_parse ecb strict tol now r h,
  method_checked r = true ->
  parse_content_security decryptors rsa_dec b64_dec r = inl h ->
  verify_signature hmac_b64 sha_hex url_parse tol now r h = code_pass ->
  0 < r_clen r -> h_ctype h = encryption_type ->
  let gate := content_security_gate decryptors rsa_dec b64_dec hmac_b64 sha_hex url_parse (decrypt_body ecb) strict tol now r in
  let dec := sees_decrypted_body decryptors rsa_dec b64_dec hmac_b64 sha_hex url_parse (decrypt_body ecb) tol now r in
  (1048576 < r_clen r -> gate = mks 400 false SigNone false /\ dec = false) /\
  (r_clen r <= 1048576 -> ecb (h_key h) r = DecOk -> gate = ran_ok /\ dec = true) /\
  (r_clen r <= 1048576 -> ecb (h_key h) r = DecErr -> gate = mks 400 false SigNone false /\ dec = false).
Proof.
  intros decryptors rsa_dec b64_dec hmac_b64 sha_hex url_parse ecb strict tol now r h Hm Hp Hv Hc Ht.
  unfold content_security_gate, sees_decrypted_body, method_checked in *. rewrite Hm, Hp, Hv, Ht.
  rewrite !Z.eqb_refl. assert (0 <? r_clen r = true) as -> by (apply Z.ltb_lt; assumption).
  cbn [negb andb]. unfold decrypt_body, max_bytes.
  destruct (Z.ltb_spec 1048576 (r_clen r)) as [L|L].
  - split; [intros _; split; reflexivity|]. split; intros; lia.
  - split; [intros; lia|]. split; intros _ E; rewrite E; split; reflexivity.
Qed.
Print Assumptions c04_enc_size_boundary.

(* the gate panics only inside cryptohandler's body decryption of a request whose signature verified;
   if decryptBody never panics (body_dec never DecPanic) the gate never does *)
Theorem c04_gate_panic_iff : forall decryptors rsa_dec b64_dec hmac_b64 sha_hex url_parse body_dec strict tol now r,
  s_panic (content_security_gate decryptors rsa_dec b64_dec hmac_b64 sha_hex url_parse body_dec strict tol now r) = true <->
  method_checked r = true /\
  exists h, parse_content_security decryptors rsa_dec b64_dec r = inl h /\
            verify_signature hmac_b64 sha_hex url_parse tol now r h = code_pass /\
            (0 <? r_clen r) && (h_ctype h =? encryption_type) = true /\ body_dec (h_key h) r = DecPanic.
Proof. exact gate_panic. Qed.
Print Assumptions c04_gate_panic_iff.

(* under HMAC / SHA-256 injectivity: altering exactly one of timestamp, method, effective path,
   effective query, body of an accepted request (same key, same signature) yields 403 and the handler
   does not run -- provided the method is still a guarded one (see c04_other_methods_pass) *)
Theorem c04_tamper_rejected : forall decryptors rsa_dec b64_dec hmac_b64 sha_hex url_parse body_dec,
  (forall k c1 c2 : bytes, hmac_b64 k c1 = hmac_b64 k c2 -> c1 = c2) ->
  (forall b1 b2 : bytes, sha_hex b1 = sha_hex b2 -> b1 = b2) ->
  forall tol now r r' h h',
  parse_content_security decryptors rsa_dec b64_dec r = inl h ->
  verify_signature hmac_b64 sha_hex url_parse tol now r h = code_pass ->
  parse_content_security decryptors rsa_dec b64_dec r' = inl h' ->
  tampered url_parse h h' r r' ->
  method_checked r' = true ->
  let o := content_security_gate decryptors rsa_dec b64_dec hmac_b64 sha_hex url_parse body_dec true tol now r' in
  s_status o = 403 /\ s_ran o = false.
Proof. exact tamper_rejected. Qed.
Print Assumptions c04_tamper_rejected.

(* several signature-protected route groups on one engine (api/engine.go): the answer on group i's routes is a
   function of group i's own configuration -- other groups and the registration order do not matter ... *)
Theorem c04_sig_group_local : forall rsa_key_dec b64_dec hmac_b64 sha_hex url_parse body_dec groups groups' i j,
  nth_error groups i = nth_error groups' j ->
  engine_gate rsa_key_dec b64_dec hmac_b64 sha_hex url_parse body_dec groups i =
  engine_gate rsa_key_dec b64_dec hmac_b64 sha_hex url_parse body_dec groups' j.
Proof. exact engine_gate_local. Qed.
Print Assumptions c04_sig_group_local.

(* ... and a strict group refuses (403, no handler) every request whose secret does not decrypt under the key
   configured FOR THAT GROUP under the announced fingerprint -- in particular when the fingerprint/key pair is
   configured for another group only. (decryptor_map = the Go map built from PrivateKeys, later entries win) *)
Theorem c04_sig_group_isolation : forall rsa_key_dec b64_dec hmac_b64 sha_hex url_parse body_dec groups i g now r o,
  nth_error groups i = Some g -> g_keys g <> [] -> g_strict g = true -> method_checked r = true ->
  (forall k, alookup bytes_eqb (announced_fp r) (decryptor_map (g_keys g)) = Some k ->
             rsa_key_dec k (announced_secret r) = None) ->
  engine_gate rsa_key_dec b64_dec hmac_b64 sha_hex url_parse body_dec groups i now r = Some o ->
  s_status o = 403 /\ s_ran o = false.
Proof. exact engine_isolation. Qed.
Print Assumptions c04_sig_group_isolation.

(* the method dimension at the router (engine + patRouter): a strict signature-protected group whose route is registered
   with guarded methods only (GET/POST/PUT/DELETE) never runs its handler for a request that does not verify (unsigned
   included), WHATEVER the request's method: a registered method is guarded -> 403; HEAD, OPTIONS, PATCH, TRACE, ... are
   not dispatched to the route at all -> 405 (HEAD does not fall through to the GET route) *)
Theorem c04_sig_method_dimension : forall rsa_key_dec b64_dec hmac_b64 sha_hex url_parse body_dec groups i g registered now r o,
  nth_error groups i = Some g -> g_keys g <> [] -> g_strict g = true ->
  (forall m, existsb (bytes_eqb m) registered = true -> existsb (bytes_eqb m) checked_methods = true) ->
  (forall k, alookup bytes_eqb (announced_fp r) (decryptor_map (g_keys g)) = Some k ->
             rsa_key_dec k (announced_secret r) = None) ->
  route_dispatch registered r (engine_gate rsa_key_dec b64_dec hmac_b64 sha_hex url_parse body_dec groups i now r) = Some o ->
  s_ran o = false /\ (s_status o = 403 \/ s_status o = 405).
Proof. exact method_dimension. Qed.
Print Assumptions c04_sig_method_dimension.

(* strict: whatever is not (header parses and signature verifies) is a 403 without handler;
   the Signature response header names the reason *)
Theorem c04_strict_403 : forall decryptors rsa_dec b64_dec hmac_b64 sha_hex url_parse body_dec tol now r,
  method_checked r = true ->
  (forall h, parse_content_security decryptors rsa_dec b64_dec r = inl h ->
             verify_signature hmac_b64 sha_hex url_parse tol now r h <> code_pass) ->
  let o := content_security_gate decryptors rsa_dec b64_dec hmac_b64 sha_hex url_parse body_dec true tol now r in
  s_status o = 403 /\ s_ran o = false.
Proof. exact strict_403. Qed.
Print Assumptions c04_strict_403.

Theorem c04_strict_403_header : forall decryptors rsa_dec b64_dec hmac_b64 sha_hex url_parse body_dec tol now r,
  method_checked r = true ->
  let o := content_security_gate decryptors rsa_dec b64_dec hmac_b64 sha_hex url_parse body_dec true tol now r in
  match parse_content_security decryptors rsa_dec b64_dec r with
  | inr _ => o = mks 403 false SigInvalid false
  | inl h =>
      (verify_signature hmac_b64 sha_hex url_parse tol now r h = code_invalid_header -> o = mks 403 false SigInvalid false) /\
      (verify_signature hmac_b64 sha_hex url_parse tol now r h = code_wrong_time -> o = mks 403 false SigWrongTime false) /\
      (verify_signature hmac_b64 sha_hex url_parse tol now r h = code_invalid_token -> o = mks 403 false SigNone false)
  end.
Proof. exact strict_403_header. Qed.
Print Assumptions c04_strict_403_header.

(* non-strict: a failed verification passes through to the handler *)
Theorem c04_nonstrict_pass : forall decryptors rsa_dec b64_dec hmac_b64 sha_hex url_parse body_dec tol now r,
  (forall h, parse_content_security decryptors rsa_dec b64_dec r = inl h ->
             verify_signature hmac_b64 sha_hex url_parse tol now r h <> code_pass) ->
  content_security_gate decryptors rsa_dec b64_dec hmac_b64 sha_hex url_parse body_dec false tol now r = ran_ok.
Proof. exact nonstrict_pass. Qed.
Print Assumptions c04_nonstrict_pass.

(* methods other than DELETE/GET/POST/PUT are not looked at *)
Theorem c04_other_methods_pass : forall decryptors rsa_dec b64_dec hmac_b64 sha_hex url_parse body_dec strict tol now r,
  existsb (bytes_eqb (r_method r)) (map bytes_of_string ["DELETE"; "GET"; "POST"; "PUT"]%string) = false ->
  content_security_gate decryptors rsa_dec b64_dec hmac_b64 sha_hex url_parse body_dec strict tol now r = ran_ok.
Proof. exact other_methods_pass. Qed.
Print Assumptions c04_other_methods_pass.

(* note: with an X-Request-Uri header the path that is signed is not the path that is routed *)
Theorem c04_routed_path_not_covered :
  exists url_parse r r', r_path r <> r_path r' /\ r_xuri r = r_xuri r' /\
    get_path_query url_parse r = get_path_query url_parse r'.
Proof. exact routed_path_not_covered. Qed.
Print Assumptions c04_routed_path_not_covered.

(* ---------------------------------------------------------------- (RPC) *)

(* decision table of one Authenticate call: has_md x cached x stored x token x strict x store_fails *)
Theorem c04_rpc_table : forall strict cache store,
  (forall md, md_creds md = None -> authenticate strict cache store md = (cache, rpc_unauthenticated)) /\
  (forall md app token, md_creds md = Some (app, token) ->
     match alookup N.eqb app cache with
     | Some t => authenticate strict cache store md = (cache, if (token =? t)%N then rpc_ok else rpc_unauthenticated)
     | None =>
         match store app with
         | SVal t => authenticate strict cache store md =
                     (aset N.eqb app t cache, if (token =? t)%N then rpc_ok else rpc_unauthenticated)
         | SNil | SFail => authenticate strict cache store md = (cache, if strict then rpc_internal else rpc_ok)
         end
     end).
Proof. exact rpc_table. Qed.
Print Assumptions c04_rpc_table.

(* the same against the Spec: accepted iff rpc_accept on the server's (cached) view of the store *)
Theorem c04_rpc_refines : forall strict cache store md,
  match md_creds md with
  | None => authenticate strict cache store md = (cache, rpc_unauthenticated) /\
            rpc_accept strict false StNone 0%N = false
  | Some (app, token) =>
      let st := to_stored (store app) in
      fst (authenticate strict cache store md) = rpc_memo cache st app /\
      (snd (authenticate strict cache store md) = rpc_ok <->
       rpc_accept strict true (rpc_view cache st app) token = true) /\
      (snd (authenticate strict cache store md) <> rpc_ok ->
       snd (authenticate strict cache store md) =
         match rpc_view cache st app with StTok _ => rpc_unauthenticated | _ => rpc_internal end)
  end.
Proof. exact rpc_refines. Qed.
Print Assumptions c04_rpc_refines.

(* histories: in strict mode a call is accepted only with a token the store has held for its app
   now or at an earlier fetch of this history *)
Theorem c04_rpc_strict_sound : forall steps cache past i store md app token,
  cache_sound cache past ->
  nth_error steps i = Some (store, md) -> md_creds md = Some (app, token) ->
  nth_error (run_rpc true cache steps) i = Some rpc_ok ->
  exists st, In st (past ++ map fst (firstn (S i) steps)) /\ st app = SVal token.
Proof. exact rpc_strict_sound. Qed.
Print Assumptions c04_rpc_strict_sound.

(* "not found" leaves no trace: any number of calls for apps that are not cached and have no stored token (healthy store)
   are each answered Internal (strict) / OK (lax) and later verdicts are exactly what they would have been without them *)
Theorem c04_rpc_not_found_no_memory : forall strict steps later cache,
  (forall sm, In sm steps -> unknown_app_call cache sm) ->
  run_rpc strict cache (steps ++ later) =
  map (fun _ => if strict then rpc_internal else rpc_ok) steps ++ run_rpc strict cache later.
Proof. exact unknown_apps_no_effect. Qed.
Print Assumptions c04_rpc_not_found_no_memory.

(* the breaker interceptor sits in front of the authorize interceptor and classifies its answers with codes.Acceptable: of the
   answers Authenticate can give only Internal counts as a breaker failure, so any burst of Unauthenticated answers (wrong or
   missing tokens) adds NO failure to the method's breaker and cannot make it refuse later calls *)
Theorem c04_rpc_rejections_acceptable : forall strict cache store md,
  let c := snd (authenticate strict cache store md) in
  (c = rpc_ok \/ c = rpc_unauthenticated \/ c = rpc_internal) /\
  (codes_acceptable c = false <-> c = rpc_internal).
Proof. intros. split; [apply authenticate_codes | apply auth_answer_acceptable]. Qed.
Print Assumptions c04_rpc_rejections_acceptable.

Theorem c04_rpc_burst_no_breaker_failures : forall codes,
  (forall c, In c codes -> c = rpc_ok \/ c = rpc_unauthenticated) -> breaker_failures codes = 0%nat.
Proof. exact rejections_no_breaker_failures. Qed.
Print Assumptions c04_rpc_burst_no_breaker_failures.

(* the configuration matrix through the public constructor rpc.NewServer(ServerConfig{Auth, StrictControl, Redis}),
   for a call with app/token metadata whose app is not cached: Auth off accepts everything; Auth on: missing metadata ->
   Unauthenticated; stored token: right -> OK, wrong -> Unauthenticated in both modes; no stored token or store outage ->
   Internal iff StrictControl, else OK *)
Theorem c04_rpc_config_matrix : forall cache store app tok,
  app <> 0%N -> tok <> 0%N -> alookup N.eqb app cache = None ->
  let md := Some ([app], [tok]) in
  (forall strict md', snd (server_config_gate false strict cache store md') = rpc_ok) /\
  (forall strict, snd (server_config_gate true strict cache store None) = rpc_unauthenticated) /\
  (forall strict t, store app = SVal t ->
     snd (server_config_gate true strict cache store md) = if (tok =? t)%N then rpc_ok else rpc_unauthenticated) /\
  (store app = SNil \/ store app = SFail ->
     snd (server_config_gate true true cache store md) = rpc_internal /\
     snd (server_config_gate true false cache store md) = rpc_ok).
Proof. exact config_matrix. Qed.
Print Assumptions c04_rpc_config_matrix.

(* rpc.Proxy in front of an auth-enabled backend is transparent for the decision: every call is judged on ITS OWN
   (app, token) -- a call for app A with a wrong token is rejected also right after a correctly authenticated call for A
   through the same proxy (connections are per (app, token), nothing is remembered per app) *)
Theorem c04_rpc_proxy_transparent : forall auth strict cache store md,
  server_config_gate auth strict cache store (proxy_md md) = server_config_gate auth strict cache store md.
Proof. intros. unfold server_config_gate. destruct auth; [apply proxy_transparent | reflexivity]. Qed.
Print Assumptions c04_rpc_proxy_transparent.

(* api.WithChain replaces the default middleware chain only: the group's gate is appended to whichever chain is used *)
Theorem c04_custom_chain_keeps_gate : forall (A : Type) (custom_chain : bool) (gate : A), bind_route custom_chain gate = bind_route false gate.
Proof. reflexivity. Qed.
Print Assumptions c04_custom_chain_keeps_gate.

(* the interceptors: neither the method name nor unary/stream enters the decision, and the handler runs iff the
   call is accepted (code OK) *)
Theorem c04_rpc_method_irrelevant : forall mode mode' m m' strict cache store md,
  intercept mode m strict cache store md = intercept mode' m' strict cache store md.
Proof. exact intercept_method_irrelevant. Qed.
Print Assumptions c04_rpc_method_irrelevant.

Theorem c04_rpc_handler_iff : forall mode m strict cache store md,
  let '(cache', code, ran) := intercept mode m strict cache store md in
  cache' = fst (authenticate strict cache store md) /\ code = snd (authenticate strict cache store md) /\
  (ran = true <-> code = rpc_ok).
Proof. exact intercept_spec. Qed.
Print Assumptions c04_rpc_handler_iff.

(* ---------------------------------------------------------------- non-vacuity *)

Definition ex_jwt (s tok : N) : jverdict :=
  if (s =? 2)%N && (tok =? 1)%N then JTok true true [("uid", 7%N); ("exp", 9%N)]%string else JErr.

Example c04_contract_satisfiable : lib_contract ex_jwt.
Proof.
  intros s tok v m c. unfold ex_jwt. destruct ((s =? 2)%N && (tok =? 1)%N); [|discriminate].
  intro H; inversion H; auto.
Qed.

(* a token signed with the previous secret is accepted whatever the counters say, and only uid is visible *)
Example c04_jwt_nonvacuous :
  let p := mkp [(1%N, 5%N); (2%N, 3%N)] 0 100 in
  snd (authorize ex_jwt CbNone 50 p 1%N 2%N 1%N) = mkj 200 true [("uid", 7%N)]%string false /\
  hist (fst (authorize ex_jwt CbNone 50 p 1%N 2%N 1%N)) = [(2%N, 4%N); (1%N, 5%N)] /\
  snd (authorize ex_jwt CbNone 50 p 1%N 0%N 1%N) = mkj 401 false [] false.
Proof. vm_compute. repeat split; reflexivity. Qed.

(* injective stand-ins for HMAC and SHA-256 exist, and with them a request is accepted and its tampering refused *)
Definition ex_hmac (k c : bytes) : bytes := k ++ c.
Definition ex_sha (b : bytes) : bytes := b.

Example c04_injectivity_satisfiable :
  (forall k c1 c2 : bytes, ex_hmac k c1 = ex_hmac k c2 -> c1 = c2) /\ (forall b1 b2 : bytes, ex_sha b1 = ex_sha b2 -> b1 = b2).
Proof. split; [intros k c1 c2 H; eapply app_inv_head; exact H | auto]. Qed.

Example c04_sig_nonvacuous :
  let get := bytes_of_string "GET" in
  let h := mkh [7%N] (bytes_of_string "1000") 0 ([7%N] ++ join c_nl [bytes_of_string "1000"; get; [47%N]; []; []]) in
  let r := mkr get [47%N] [] [] [] [] 0 in
  verify_signature ex_hmac ex_sha (fun _ => None) 10 1005 r h = code_pass /\
  verify_signature ex_hmac ex_sha (fun _ => None) 10 1005 (mkr get [47%N; 98%N] [] [] [] [] 0) h = code_invalid_token /\
  verify_signature ex_hmac ex_sha (fun _ => None) 10 1011 r h = code_wrong_time.
Proof. vm_compute. repeat split; reflexivity. Qed.

(* time: the same token through one instance is accepted at t = 5 and refused at t = 20 (exp = 10) *)
Definition ex_jwt_at (jt : Z) (s tok : N) : jverdict := if jt <? 10 then ex_jwt s tok else JErr.

Example c04_jwt_time_nonvacuous :
  map j_ran (snd (run_jwt ex_jwt_at CbNone (new_parser 0 100) 2%N 0%N [(1, 5, 1%N); (2, 20, 1%N); (3, 7, 1%N)])) = [true; false; true].
Proof. vm_compute. reflexivity. Qed.

(* groups: fingerprint "A" -> key 1 on group 0, "A" -> key 2 on group 1; a secret that only key 1 opens *)
Example c04_group_nonvacuous :
  let fpA := bytes_of_string "A" in
  let groups := [mkg [(fpA, 1%N)] true 10; mkg [(fpA, 2%N)] true 10] in
  let dec := fun (k : N) (s : bytes) => if (k =? 1)%N then Some (bytes_of_string "key=; time=1000; type=0") else None in
  let cs := bytes_of_string "fingerprint=A; secret=S; signature=G" in
  let r := mkr (bytes_of_string "GET") [47%N] [] [] cs [] 0 in
  let gate := engine_gate dec (fun _ => Some []) (fun _ _ => bytes_of_string "G") (fun b => b) (fun _ => None) (fun _ _ => DecErr) groups in
  option_map s_status (gate 0%nat 1005 r) = Some 200 /\ option_map s_status (gate 1%nat 1005 r) = Some 403.
Proof. vm_compute. split; reflexivity. Qed.

(* percent signs are ordinary bytes of the signed content: "?n=%41" is accepted, "?n=%42" under the same signature is not *)
Example c04_percent_nonvacuous :
  let get := bytes_of_string "GET" in
  let q1 := bytes_of_string "n=%41&f=%d%!" in
  let q2 := bytes_of_string "n=%42&f=%d%!" in
  let h := mkh [7%N] (bytes_of_string "1000") 0 ([7%N] ++ join c_nl [bytes_of_string "1000"; get; bytes_of_string "/p%d"; q1; []]) in
  verify_signature ex_hmac ex_sha (fun _ => None) 10 1005 (mkr get (bytes_of_string "/p%d") q1 [] [] [] 0) h = code_pass /\
  verify_signature ex_hmac ex_sha (fun _ => None) 10 1005 (mkr get (bytes_of_string "/p%d") q2 [] [] [] 0) h = code_invalid_token.
Proof. vm_compute. split; reflexivity. Qed.

(* astronomically large clock offsets: now + 2^55 s is a multiple of 2^64 ns away, and +17 s more would look like 17 s to a
   nanosecond comparison; the int64 seconds test of the model refuses them, as it refuses MaxInt64 / MinInt64 / negative stamps *)
Example c04_far_offsets_refused :
  forallb (fun ts => (wrap64 (ts + 600) <? 1800000000) || (wrap64 (1800000000 + 600) <? ts))
    [1800000000 + 2^55; 1800000000 + 2^55 + 17; 1800000000 - 2^55; 1800000000 - (2^55 + 17); 1800000000 + 3 * 2^55;
     1800000000 - 3 * 2^55; 2^63 - 1; - 2^63; -1; -1700000000] = true.
Proof. vm_compute. reflexivity. Qed.
