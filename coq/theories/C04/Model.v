(* C04 Model: transcription of the three authentication gates (executable definitions only).
     (JWT)  api/token/tokenparser.go, api/handler/authhandler.go
     (SIG)  api/internal/security/contentsecurity.go, api/handler/contentsecurityhandler.go,
            api/httpx/requests.go (ParseHeader), api/handler/cryptohandler.go (entry only)
     (RPC)  rpc/internal/auth/auth.go
   Crypto and parsing libraries are parameters (Section variables): the jwt library's verdict per
   (secret, Authorization header), RSA decryption, base64, HMAC-SHA256, SHA-256, url.Parse.
   Go strings are byte lists (list N, every element < 256) in the SIG part; secrets, tokens and
   RPC strings are identifiers with 0 = the empty string. *)
From God Require Import Base.Prelude.
From Coq Require Import String Ascii.
Local Open Scope Z_scope.

(* int64 arithmetic written out: the value Go computes for an exact integer result z *)
Definition wrap64 (z : Z) : Z := (z + 2^63) mod 2^64 - 2^63.

(* ------------------------------------------------------------------------------------------ *)
(* (JWT) tokenparser.go                                                                        *)

(* what request.ParseFromRequest hands back: an error, or a token object *)
Inductive jverdict :=
| JErr
| JTok (valid ismap : bool) (claims : list (string * N)).

Record pstate := mkp {
  hist : list (N * N);      (* Parser.history: secret |-> *uint64 *)
  reset_time : Z;           (* Parser.resetTime (ns), set once in NewParser and never again *)
  reset_dur : Z             (* Parser.resetDuration (ns) *)
}.

(* claimHistoryResetDuration = 24 * time.Hour :13, in nanoseconds *)
Definition claim_history_reset_duration : Z := 86400000000000.

(* NewParser :33-37 *)
Definition new_parser (now dur : Z) : pstate := mkp [] now dur.

(* loadCount :86-93 *)
Definition load_count (p : pstate) (s : N) : N :=
  match alookup N.eqb s (hist p) with Some c => c | None => 0%N end.

(* incrCount :102-118 ; the sum is a time.Duration (int64) *)
Definition incr_count (now : Z) (p : pstate) (s : N) : pstate :=
  let h := if wrap64 (reset_time p + reset_dur p) <? now then [] else hist p in
  let h' := match alookup N.eqb s h with
            | Some c => aset N.eqb s ((c + 1) mod 2^64)%N h     (* atomic.AddUint64 *)
            | None => aset N.eqb s 1%N h
            end in
  mkp h' (reset_time p) (reset_dur p).

Section Jwt.
  (* doParseToken :95-100 = the jwt library run on the request with key []byte(secret) *)
  Variable jwt_parse : N -> N -> jverdict.

  Definition parse_ok (s tok : N) : bool :=
    match jwt_parse s tok with JErr => false | JTok _ _ _ => true end.

  (* ParseToken :48-84 ; secret id 0 is "" (len(prevSecret) > 0) ; result None = (nil, err) *)
  Definition parse_token (now : Z) (p : pstate) (secret prev tok : N) : pstate * option jverdict :=
    if negb (prev =? 0)%N then
      let count := load_count p secret in
      let prev_count := load_count p prev in
      let first := if (prev_count <? count)%N then secret else prev in
      let second := if (prev_count <? count)%N then prev else secret in
      if parse_ok first tok then (incr_count now p first, Some (jwt_parse first tok))
      else if parse_ok second tok then (incr_count now p second, Some (jwt_parse second tok))
      else (p, None)
    else
      if parse_ok secret tok then (p, Some (jwt_parse secret tok)) else (p, None).

  (* authhandler.go :14-22,74 -- the claim names that are not copied into the context *)
  Definition registered : list string :=
    ["aud"; "exp"; "jti"; "iat"; "iss"; "nbf"; "sub"]%string.

  Definition is_registered (k : string) : bool := existsb (String.eqb k) registered.

  (* for k, v := range claims { switch k { case registered...: default: ctx = WithValue(ctx, k, v) } }
     claims is a Go map: keys are unique, so the resulting context is this key/value set *)
  Definition ctx_of (claims : list (string * N)) : list (string * N) :=
    filter (fun kv => negb (is_registered (fst kv))) claims.

  (* unauthorized callback: absent, present without writing a header, present and writing status c *)
  Inductive callback := CbNone | CbSilent | CbStatus (c : Z).

  Record jout := mkj {
    j_status : Z;                     (* response status; the inner handler answers 200 *)
    j_ran : bool;                     (* next.ServeHTTP reached *)
    j_ctx : list (string * N);        (* string-keyed context values seen by the inner handler *)
    j_cb : bool                       (* callback invoked *)
  }.

  (* unauthorized :100-114 : callback(writer) then writer.WriteHeader(401) on a header-once writer *)
  Definition unauthorized (cb : callback) : jout :=
    match cb with
    | CbNone => mkj 401 false [] false
    | CbSilent => mkj 401 false [] true
    | CbStatus c => mkj c false [] true
    end.

  (* Authorize :52-82 *)
  Definition authorize (cb : callback) (now : Z) (p : pstate) (secret prev tok : N) : pstate * jout :=
    match parse_token now p secret prev tok with
    | (p', None) => (p', unauthorized cb)                           (* err != nil *)
    | (p', Some JErr) => (p', unauthorized cb)                      (* not produced by parse_token *)
    | (p', Some (JTok valid ismap claims)) =>
        if negb valid then (p', unauthorized cb)                    (* !tok.Valid *)
        else if negb ismap then (p', unauthorized cb)               (* claims not MapClaims *)
        else (p', mkj 200 true (ctx_of claims) false)
    end.
End Jwt.

(* api/server.go WithJwt :143-149 / WithJwtTransition :153-161 and engine.go appendAuthHandler :56-70.
   Secrets are identifiers (0 = ""); the byte lengths are carried next to them because validateSecret
   looks at the length of the CURRENT secret only (the previous one is deliberately not validated). *)
Inductive jwt_opt :=
| JNone                                                    (* no jwt option on the route group *)
| JJwt (secret : N) (len : Z)                              (* WithJwt(secret) *)
| JTransition (secret : N) (len : Z) (prev : N) (prev_len : Z).   (* WithJwtTransition(secret, prev) *)

(* validateSecret :289-293 panics below 8 bytes *)
Definition validate_secret (len : Z) : bool := 8 <=? len.

(* featuredRoutes.jwt after the option: (enabled, secret, prevSecret); None = the option panicked *)
Definition jwt_setting (o : jwt_opt) : option (bool * N * N) :=
  match o with
  | JNone => Some (false, 0%N, 0%N)
  | JJwt secret len => if validate_secret len then Some (true, secret, 0%N) else None
  | JTransition secret len prev _ => if validate_secret len then Some (true, secret, prev) else None
  end.

Section EngineJwt.
  Variable jwt_parse : N -> N -> jverdict.

  (* appendAuthHandler: jwt.enabled ? (len(prevSecret) == 0 ? Authorize(secret) : Authorize(secret,
     WithPrevSecret(prev))) : nothing; the engine's unauthorized callback is nil unless set *)
  Definition engine_jwt_gate (setting : bool * N * N) (now : Z) (p : pstate) (tok : N) : pstate * jout :=
    let '(enabled, secret, prev) := setting in
    if enabled then
      if (prev =? 0)%N then authorize jwt_parse CbNone now p secret 0%N tok
      else authorize jwt_parse CbNone now p secret prev tok
    else (p, mkj 200 true [] false).
End EngineJwt.

(* The library reads the clock (jwt.TimeFunc) while validating exp/nbf/iat: its verdict is a function
   of the time of the request. jwt_at jt = the library at wall-clock reading jt.
   A history of requests through one middleware instance: ((timex now, wall-clock jt), token). *)
Fixpoint run_jwt (jwt_at : Z -> N -> N -> jverdict) (cb : callback) (p : pstate) (secret prev : N)
         (reqs : list (Z * Z * N)) : pstate * list jout :=
  match reqs with
  | [] => (p, [])
  | (now, jt, tok) :: r =>
      let '(p1, o) := authorize (jwt_at jt) cb now p secret prev tok in
      let '(p2, os) := run_jwt jwt_at cb p1 secret prev r in
      (p2, o :: os)
  end.

Fixpoint run_parser (jwt_at : Z -> N -> N -> jverdict) (p : pstate) (secret prev : N)
         (reqs : list (Z * Z * N)) : list (pstate * option jverdict) :=
  match reqs with
  | [] => []
  | (now, jt, tok) :: r =>
      let '(p1, v) := parse_token (jwt_at jt) now p secret prev tok in
      (p1, v) :: run_parser jwt_at p1 secret prev r
  end.

(* ------------------------------------------------------------------------------------------ *)
(* (SIG) byte strings                                                                          *)

Definition bytes := list N.
Definition bytes_eqb : bytes -> bytes -> bool := list_eqb N.eqb.

Definition c_nl : N := 10%N.      (* '\n' *)
Definition c_semi : N := 59%N.    (* ';'  httpx separator *)
Definition c_eq : N := 61%N.      (* '='  *)

(* strings.Split(s, sep) for a one-byte separator: never empty *)
Fixpoint split_on (sep : N) (s : bytes) : list bytes :=
  match s with
  | [] => [[]]
  | c :: r =>
      if (c =? sep)%N then [] :: split_on sep r
      else match split_on sep r with
           | h :: t => (c :: h) :: t
           | [] => [[c]]
           end
  end.

(* strings.Join(l, "\n")-style join with a one-byte separator *)
Fixpoint join (sep : N) (l : list bytes) : bytes :=
  match l with
  | [] => []
  | [a] => a
  | a :: r => a ++ sep :: join sep r
  end.

(* strings.TrimSpace on ASCII input: '\t' '\n' '\v' '\f' '\r' ' ' *)
Definition is_space (c : N) : bool :=
  ((9 <=? c) && (c <=? 13) || (c =? 32))%N.
Fixpoint trim_left (s : bytes) : bytes :=
  match s with
  | c :: r => if is_space c then trim_left r else s
  | [] => []
  end.
Definition trim_space (s : bytes) : bytes := rev (trim_left (rev (trim_left s))).

(* strings.SplitN(field, "=", 2): None when there is no '=' (len(kv) != 2) *)
Fixpoint split_kv (s : bytes) : option (bytes * bytes) :=
  match s with
  | [] => None
  | c :: r =>
      if (c =? c_eq)%N then Some ([], r)
      else match split_kv r with
           | Some (k, v) => Some (c :: k, v)
           | None => None
           end
  end.

(* httpx.ParseHeader requests.go:60-78 ; ret[kv[0]] = kv[1], later fields overwrite *)
Definition parse_header (h : bytes) : list (bytes * bytes) :=
  fold_left (fun ret field =>
               let field := trim_space field in
               match field with
               | [] => ret
               | _ => match split_kv field with
                      | Some (k, v) => aset bytes_eqb k v ret
                      | None => ret
                      end
               end) (split_on c_semi h) [].

(* attrs[name] : missing key gives "" *)
Definition attr (name : bytes) (attrs : list (bytes * bytes)) : bytes :=
  match alookup bytes_eqb name attrs with Some v => v | None => [] end.

(* strconv.ParseInt(s, 10, 64) / strconv.Atoi on a 64-bit platform: optional sign, at least one
   digit, only digits, value within int64; None = error *)
Definition is_digit (c : N) : bool := ((48 <=? c) && (c <=? 57))%N.
Fixpoint digits_val (acc : Z) (s : bytes) : option Z :=
  match s with
  | [] => Some acc
  | c :: r => if is_digit c then digits_val (acc * 10 + (Z.of_N c - 48)) r else None
  end.
Definition parse_int_body (neg : bool) (d : bytes) : option Z :=
  match d with
  | [] => None
  | _ => match digits_val 0 d with
         | Some v => let v := if neg then - v else v in
                     if (- 2^63 <=? v) && (v <=? 2^63 - 1) then Some v else None
         | None => None
         end
  end.
Definition parse_int64 (s : bytes) : option Z :=
  match s with
  | [] => None
  | c :: r => if (c =? 43)%N then parse_int_body false r
              else if (c =? 45)%N then parse_int_body true r
              else parse_int_body false s
  end.

(* field names, contentsecurity.go:20-33 *)
Fixpoint bytes_of_string (s : string) : bytes :=
  match s with
  | EmptyString => []
  | String a r => N_of_ascii a :: bytes_of_string r
  end.
Definition f_fingerprint := bytes_of_string "fingerprint".
Definition f_secret := bytes_of_string "secret".
Definition f_signature := bytes_of_string "signature".
Definition f_type := bytes_of_string "type".
Definition f_key := bytes_of_string "key".
Definition f_time := bytes_of_string "time".
Definition encryption_type : Z := 1.

(* httpx/vars.go:17-24 *)
Definition code_pass : Z := 0.
Definition code_invalid_header : Z := 1.
Definition code_wrong_time : Z := 2.
Definition code_invalid_token : Z := 3.

Inductive cs_error := ErrInvalidHeader | ErrInvalidPublicKey | ErrInvalidSecret | ErrInvalidKey | ErrInvalidContentType.

Record cs_header := mkh { h_key : bytes; h_ts : bytes; h_ctype : Z; h_sig : bytes }.

(* the parts of *http.Request the gate looks at *)
Record request := mkr {
  r_method : bytes;
  r_path : bytes;            (* r.URL.Path *)
  r_query : bytes;           (* r.URL.RawQuery *)
  r_xuri : bytes;            (* X-Request-Uri header, "" when absent *)
  r_cs : bytes;              (* X-Content-Security header, "" when absent *)
  r_body : bytes;
  r_clen : Z                 (* r.ContentLength *)
}.

(* outcome of cryptohandler.decryptBody: nil error, an error, or a run-time panic inside it
   (codec.EcbDecrypt -> pkcs5UnPadding indexes src[len(src)-1] without a length check) *)
Inductive dec_res := DecOk | DecErr | DecPanic.

Section Sig.
  Variable decryptors : list bytes.                       (* keys of the decryptors map *)
  Variable rsa_dec : bytes -> bytes -> option bytes.      (* decryptors[fp].DecryptBase64(secret) *)
  Variable b64_dec : bytes -> option bytes.               (* base64.StdEncoding.DecodeString *)
  Variable hmac_b64 : bytes -> bytes -> bytes.            (* codec.HmacBase64(key, content) *)
  Variable sha_hex : bytes -> bytes.                      (* fmt.Sprintf("%x", sha256(body)) *)
  Variable url_parse : bytes -> option (bytes * bytes).   (* url.Parse(s): (Path, RawQuery) *)
  Variable body_dec : bytes -> request -> dec_res.        (* cryptohandler.decryptBody(key, r): nil / error / panics *)

  (* ParseContentSecurity :62-104 *)
  Definition parse_content_security (r : request) : cs_header + cs_error :=
    let attrs := parse_header (r_cs r) in
    let fingerprint := attr f_fingerprint attrs in
    let secret := attr f_secret attrs in
    let signature := attr f_signature attrs in
    match fingerprint, secret, signature with
    | [], _, _ | _, [], _ | _, _, [] => inr ErrInvalidHeader
    | _, _, _ =>
        if negb (existsb (bytes_eqb fingerprint) decryptors) then inr ErrInvalidPublicKey
        else match rsa_dec fingerprint secret with
             | None => inr ErrInvalidSecret
             | Some plain =>
                 let attrs := parse_header plain in
                 let base64_key := attr f_key attrs in
                 let timestamp := attr f_time attrs in
                 let content_type := attr f_type attrs in
                 match b64_dec base64_key with
                 | None => inr ErrInvalidKey
                 | Some key =>
                     match parse_int64 content_type with        (* strconv.Atoi *)
                     | None => inr ErrInvalidContentType
                     | Some ct => inl (mkh key timestamp ct signature)
                     end
                 end
             end
    end.

  (* getPathQuery :148-160 *)
  Definition get_path_query (r : request) : bytes * bytes :=
    match r_xuri r with
    | [] => (r_path r, r_query r)
    | u => match url_parse u with
           | None => (r_path r, r_query r)
           | Some pq => pq
           end
    end.

  (* VerifySignature :107-136 ; tol = int64(tolerance.Seconds()), now = time.Now().Unix() *)
  Definition verify_signature (tol now : Z) (r : request) (h : cs_header) : Z :=
    match parse_int64 (h_ts h) with
    | None => code_invalid_header
    | Some seconds =>
        if (wrap64 (seconds + tol) <? now) || (wrap64 (now + tol) <? seconds) then code_wrong_time
        else
          let '(req_path, req_query) := get_path_query r in
          let sign_content := join c_nl [h_ts h; r_method r; req_path; req_query; sha_hex (r_body r)] in
          let actual := hmac_b64 (h_key h) sign_content in
          if bytes_eqb (h_sig h) actual then code_pass else code_invalid_token
    end.

  (* contentsecurityhandler.go:24 *)
  Definition checked_methods : list bytes :=
    map bytes_of_string ["DELETE"; "GET"; "POST"; "PUT"]%string.

  (* value of the response header "Signature" set by handleVerificationFailure *)
  Inductive sig_hdr := SigNone | SigWrongTime | SigInvalid.

  (* s_panic: the middleware panicked (no answer of its own; s_status is then meaningless, written 0) *)
  Record sout := mks { s_status : Z; s_ran : bool; s_hdr : sig_hdr; s_panic : bool }.

  Definition ran_ok : sout := mks 200 true SigNone false.       (* inner handler answers 200 *)

  (* handleVerificationFailure :51-62 (the default callback) *)
  Definition handle_verification_failure (strict : bool) (code : Z) : sout :=
    if strict then
      mks 403 false (if code =? code_wrong_time then SigWrongTime
                     else if code =? code_invalid_header then SigInvalid else SigNone) false
    else ran_ok.

  (* ContentSecurityHandler :21-41 *)
  Definition content_security_gate (strict : bool) (tol now : Z) (r : request) : sout :=
    if existsb (bytes_eqb (r_method r)) checked_methods then
      match parse_content_security r with
      | inr _ => handle_verification_failure strict code_invalid_header
      | inl h =>
          let code := verify_signature tol now r h in
          if negb (code =? code_pass) then handle_verification_failure strict code
          else if (0 <? r_clen r) && (h_ctype h =? encryption_type) then
            (* CryptoHandler(header.Key): 400 when the body does not decrypt *)
            match body_dec (h_key h) r with
            | DecOk => ran_ok
            | DecErr => mks 400 false SigNone false
            | DecPanic => mks 0 false SigNone true
            end
          else ran_ok
      end
    else ran_ok.
  (* the inner handler is handed the DEcrypted body (CryptoHandler replaced r.Body) *)
  Definition sees_decrypted_body (tol now : Z) (r : request) : bool :=
    existsb (bytes_eqb (r_method r)) checked_methods &&
    match parse_content_security r with
    | inr _ => false
    | inl h => (verify_signature tol now r h =? code_pass) && (0 <? r_clen r) && (h_ctype h =? encryption_type) &&
               match body_dec (h_key h) r with DecOk => true | _ => false end
    end.
End Sig.

(* ------------------------------------------------------------------------------------------ *)
(* (SIG) lib/codec/rsa.go: a secret may span several PKCS#1 v1.5 blocks                         *)

(* rsaBase.crypt :127-148 with bytesLimit = k: the input is cut into pieces of k bytes (the last one
   may be shorter), each piece is decrypted on its own, the results are appended; the first failing
   piece fails the whole. fuel bounds the number of pieces (the caller passes the input length). *)
Fixpoint crypt (k : nat) (block_dec : bytes -> option bytes) (fuel : nat) (input : bytes) : option bytes :=
  match input, fuel with
  | [], _ => Some []                                     (* i*limit < inputLen fails: result so far *)
  | _, O => None
  | _, S fuel' =>
      match block_dec (firstn k input) with
      | None => None
      | Some bs => match crypt k block_dec fuel' (skipn k input) with
                   | None => None
                   | Some rest => Some (bs ++ rest)
                   end
      end
  end.

(* rsaDecryptor.DecryptBase64 :80-91: "" gives (nil, nil); otherwise base64-decode, then Decrypt = crypt *)
Definition decrypt_base64 (b64_dec : bytes -> option bytes) (k : nat) (block_dec : bytes -> option bytes)
           (input : bytes) : option bytes :=
  match input with
  | [] => Some []
  | _ => match b64_dec input with
         | None => None
         | Some raw => crypt k block_dec (List.length raw) raw
         end
  end.

(* ------------------------------------------------------------------------------------------ *)
(* (SIG) api/handler/cryptohandler.go: decryptBody                                              *)

Definition max_bytes : Z := 1048576.       (* maxBytes = 1 << 20 :16 *)

(* decryptBody :42-74: if r.ContentLength > maxBytes -> errContentLengthExceeded; else read the body,
   base64-decode and ECB-decrypt it (ecb = that second part, on the body bytes) *)
Definition decrypt_body (ecb : bytes -> request -> dec_res) (key : bytes) (r : request) : dec_res :=
  if max_bytes <? r_clen r then DecErr else ecb key r.

(* ------------------------------------------------------------------------------------------ *)
(* (SIG) api/engine.go: one signature verifier per route group                                  *)

(* SignatureConfig.PrivateKeys in configuration order: (fingerprint, private key id) *)
Definition group_conf := list (bytes * N).

(* signatureVerifier :241-252 : decryptors[key.Fingerprint] = NewRsaDecryptor(key.KeyFile); a later
   entry with the same fingerprint overwrites the earlier one *)
Definition decryptor_map (keys : group_conf) : list (bytes * N) :=
  fold_left (fun m kv => aset bytes_eqb (fst kv) (snd kv) m) keys [].

Record group := mkg { g_keys : group_conf; g_strict : bool; g_tol : Z }.   (* a featuredRoutes with WithSignature *)

Section Engine.
  Variable rsa_key_dec : N -> bytes -> option bytes.      (* DecryptBase64 under private key k *)
  Variable b64_dec : bytes -> option bytes.
  Variable hmac_b64 : bytes -> bytes -> bytes.
  Variable sha_hex : bytes -> bytes.
  Variable url_parse : bytes -> option (bytes * bytes).
  Variable body_dec : bytes -> request -> dec_res.

  (* the ContentSecurityHandler built from THIS group's decryptors map, strictness and tolerance *)
  Definition group_gate (g : group) (now : Z) (r : request) : sout :=
    let m := decryptor_map (g_keys g) in
    content_security_gate (map fst m)
      (fun fp s => match alookup bytes_eqb fp m with Some k => rsa_key_dec k s | None => None end)
      b64_dec hmac_b64 sha_hex url_parse body_dec (g_strict g) (g_tol g) now r.

  (* signatureVerifier :223-260 ; None = ErrSignatureConfig (strict without keys), no keys and
     non-strict = no gate at all *)
  Definition signature_verifier (g : group) : option (Z -> request -> sout) :=
    match g_keys g with
    | [] => if g_strict g then None else Some (fun _ _ => ran_ok)
    | _ => Some (group_gate g)
    end.

  (* bindRoutes / bindFeaturedRoutes :72-127 : the routes of the i-th registered group are bound
     behind the i-th group's verifier; None = bind error or no such group *)
  Definition engine_gate (groups : list group) (i : nat) (now : Z) (r : request) : option sout :=
    match nth_error groups i with
    | Some g => match signature_verifier g with Some gate => Some (gate now r) | None => None end
    | None => None
    end.
End Engine.

(* engine.go bindRoute :88-107: chn := ng.chain (api.WithChain) or, when nil, the default chain; in BOTH cases
   appendAuthHandler appends the group's JWT / signature gate to it. custom_chain is therefore not looked at. *)
Definition bind_route {A} (custom_chain : bool) (auth_gate : A) : A := auth_gate.

(* api/router/patrouter.go ServeHTTP :42-66: one search tree per method, looked up with r.Method exactly
   (HEAD is not served by GET's tree); a path that exists under other methods only is answered 405 by the
   router itself, no route chain is entered. registered = the methods the group's route was added with. *)
Definition route_dispatch (registered : list bytes) (r : request) (gate : option sout) : option sout :=
  if existsb (bytes_eqb (r_method r)) registered then gate else Some (mks 405 false SigNone false).

(* ------------------------------------------------------------------------------------------ *)
(* (RPC) auth.go                                                                               *)

(* grpc codes *)
Definition rpc_ok : Z := 0.
Definition rpc_internal : Z := 13.
Definition rpc_unauthenticated : Z := 16.

(* a.store.HGet(a.key, app): connection/breaker error, redis.Nil (also an error), or the value *)
Inductive store_res := SFail | SNil | SVal (tok : N).

(* md[appKey], md[tokenKey]; None = no incoming metadata; string ids, 0 = "" *)
Definition rpc_md := option (list N * list N).

(* validate :57-74 ; cache = Authenticator.cache contents (collection.Cache.Take: a hit answers from
   the cache, a miss fetches and stores the value only when the fetch succeeded) *)
Definition validate (strict : bool) (cache : list (N * N)) (store : N -> store_res) (app token : N)
  : list (N * N) * Z :=
  match alookup N.eqb app cache with
  | Some expect => (cache, if (token =? expect)%N then rpc_ok else rpc_unauthenticated)
  | None =>
      match store app with
      | SVal expect => (aset N.eqb app expect cache,
                        if (token =? expect)%N then rpc_ok else rpc_unauthenticated)
      | _ => (cache, if strict then rpc_internal else rpc_ok)
      end
  end.

(* Authenticate :39-55 *)
Definition authenticate (strict : bool) (cache : list (N * N)) (store : N -> store_res) (md : rpc_md)
  : list (N * N) * Z :=
  match md with
  | None => (cache, rpc_unauthenticated)
  | Some (apps, tokens) =>
      match apps, tokens with
      | app :: _, token :: _ =>
          if (app =? 0)%N || (token =? 0)%N then (cache, rpc_unauthenticated)
          else validate strict cache store app token
      | _, _ => (cache, rpc_unauthenticated)
      end
  end.

(* authinterceptor.go: UnaryAuthorizeInterceptor :11-19 / StreamAuthorizeInterceptor :22-30 --
   Authenticate(ctx); on error return it without calling the handler, else call the handler.
   info (FullMethod) is a parameter of both and is never read. Result: (cache, code, handler ran) *)
Inductive rpc_mode := Unary | Stream.

Definition intercept (mode : rpc_mode) (full_method : N) (strict : bool) (cache : list (N * N))
           (store : N -> store_res) (md : rpc_md) : list (N * N) * Z * bool :=
  let '(cache', code) := authenticate strict cache store md in
  if code =? rpc_ok then (cache', rpc_ok, true)     (* handler(ctx, req) / handler(srv, stream) answers nil *)
  else (cache', code, false).

(* rpc/internal/server.go Start :60-74: the built-in chain ends with the breaker interceptor and the
   user interceptors (rpc/server.go setupInterceptors: ..., authorize) come AFTER it, so the breaker of the
   called method sees the authorize interceptor's answer. breakerinterceptor.go: the answer counts as a
   failure of that breaker iff codes.Acceptable (rpc/internal/codes/accept.go) says false:
   DeadlineExceeded 4, Internal 13, Unavailable 14, DataLoss 15, Unimplemented 12. *)
Definition unacceptable_codes : list Z := [4; 13; 14; 15; 12].
Definition codes_acceptable (code : Z) : bool := negb (existsb (Z.eqb code) unacceptable_codes).

(* number of answers of a history that the method's breaker counts as failures *)
Definition breaker_failures (codes : list Z) : nat :=
  List.length (filter (fun c => negb (codes_acceptable c)) codes).

(* rpc/server.go NewServer :33-70 + setupInterceptors :111-133: the authorize interceptors are added iff
   ServerConfig.Auth, and the Authenticator is built with strict = ServerConfig.StrictControl on the store
   named by ServerConfig.Redis *)
Definition server_config_gate (auth strict_control : bool) (cache : list (N * N)) (store : N -> store_res) (md : rpc_md)
  : list (N * N) * Z :=
  if auth then authenticate strict_control cache store md else (cache, rpc_ok).

(* rpc/proxy.go TakeConn :31-62 + auth/credential.go: the proxy reads the caller's credentials with ParseCredential
   (first app / token values, both non-empty, else the empty credential), keys its backend connections by
   app + "/" + token, and the connection sends exactly that credential with every call *)
Definition proxy_md (md : rpc_md) : rpc_md :=
  match md with
  | Some (app :: _, token :: _) => if (app =? 0)%N || (token =? 0)%N then Some ([0%N], [0%N]) else Some ([app], [token])
  | _ => Some ([0%N], [0%N])
  end.
