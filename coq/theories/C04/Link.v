(* C04 Link: what gogen regenerates from the repository is what the model, the Spec and the
   checkers use. A behaviour-changing edit of the Go constants, of the method / claim switches or of
   the call structure of the gates breaks one of these lemmas. *)
From God Require Import Base.Prelude C04.Model C04.Spec C04.Proofs C04.Exec.
From Coq Require Import String Ascii.
From GodGen Require C04_Gen.
Local Open Scope Z_scope.
Local Open Scope string_scope.

(* ---- (JWT) ---- *)
Definition claim_const (name : string) : string :=
  if name =? "jwtAudience" then C04_Gen.jwtAudience
  else if name =? "jwtExpire" then C04_Gen.jwtExpire
  else if name =? "jwtId" then C04_Gen.jwtId
  else if name =? "jwtIssueAt" then C04_Gen.jwtIssueAt
  else if name =? "jwtIssuer" then C04_Gen.jwtIssuer
  else if name =? "jwtNotBefore" then C04_Gen.jwtNotBefore
  else if name =? "jwtSubject" then C04_Gen.jwtSubject
  else name.

(* the claims Authorize does not copy: the first clause of its switch, resolved through the constants;
   its second clause is the default one (copy) *)
Lemma link_registered :
  map (fun row => map claim_const (fst row)) C04_Gen.skipped_claims = [Model.registered; []].
Proof. reflexivity. Qed.

Lemma link_registered_spec : forall k, In k Model.registered <-> In k registered_claims.
Proof. intro k. unfold Model.registered, registered_claims. simpl. tauto. Qed.

Lemma link_reset_duration :
  C04_Gen.claimHistoryResetDuration = claim_history_reset_duration /\ claim_history_reset_duration = 24 * 3600 * 1000000000.
Proof. split; reflexivity. Qed.

Lemma link_authorize_calls : C04_Gen.authorize_calls =
  ["token.NewParser"; "opt"; "parser.ParseToken";
   "unauthorized"; "return";          (* err != nil *)
   "unauthorized"; "return";          (* !tok.Valid *)
   "unauthorized"; "return";          (* claims not MapClaims *)
   "r.Context"; "context.WithValue"; "r.WithContext"; "next.ServeHTTP";
   "http.HandlerFunc"; "return"; "return"].
Proof. reflexivity. Qed.

Lemma link_unauthorized_calls : C04_Gen.unauthorized_calls =
  ["response.NewHeaderOnceResponseWriter"; "err.Error"; "detailAuthLog"; "detailAuthLog"; "callback"; "writer.WriteHeader"].
Proof. reflexivity. Qed.

Lemma link_parse_token_calls : C04_Gen.parse_token_calls =
  ["len"; "p.loadCount"; "p.loadCount";
   "p.doParseToken"; "p.doParseToken"; "return"; "p.incrCount"; "p.incrCount";
   "p.doParseToken"; "return"; "return"].
Proof. reflexivity. Qed.

Lemma link_incr_count_calls : C04_Gen.incr_count_calls =
  ["timex.Now"; "p.history.Delete"; "return"; "p.history.Range"; "p.history.Load"; "atomic.AddUint64"; "p.history.Store"].
Proof. reflexivity. Qed.

Lemma link_do_parse_calls : C04_Gen.do_parse_calls =
  ["<*ast.ArrayType>"; "return"; "newParser"; "request.WithParser"; "request.ParseFromRequest"; "return"].
Proof. reflexivity. Qed.

(* ---- (SIG) ---- *)
Definition method_const (name : string) : string :=
  if name =? "http.MethodDelete" then "DELETE"
  else if name =? "http.MethodGet" then "GET"
  else if name =? "http.MethodPost" then "POST"
  else if name =? "http.MethodPut" then "PUT"
  else name.

Lemma link_checked_methods :
  map (fun row => map (fun n => bytes_of_string (method_const n)) (fst row)) C04_Gen.csh_methods = [checked_methods; []].
Proof. reflexivity. Qed.

Lemma link_guarded m : guarded m = existsb (bytes_eqb m) checked_methods.
Proof.
  unfold guarded, guarded_methods, checked_methods. simpl.
  repeat match goal with |- context [bytes_eqb m ?x] => destruct (bytes_eqb m x) end; reflexivity.
Qed.

Lemma link_fields :
  f_fingerprint = bytes_of_string C04_Gen.fingerprintField /\
  f_secret = bytes_of_string C04_Gen.secretField /\
  f_signature = bytes_of_string C04_Gen.signatureField /\
  f_type = bytes_of_string C04_Gen.typeField /\
  f_key = bytes_of_string C04_Gen.keyField /\
  f_time = bytes_of_string C04_Gen.timeField /\
  [c_semi] = bytes_of_string C04_Gen.separator /\
  C04_Gen.tokensInAttribute = 2.
Proof. repeat split; reflexivity. Qed.

Lemma link_header_names :
  C04_Gen.ContentSecurity = "X-Content-Security" /\ C04_Gen.requestUriHeader = "X-Request-Uri".
Proof. split; reflexivity. Qed.

Lemma link_codes :
  code_pass = C04_Gen.CodeSignaturePass /\ code_invalid_header = C04_Gen.CodeSignatureInvalidHeader /\
  code_wrong_time = C04_Gen.CodeSignatureWrongTime /\ code_invalid_token = C04_Gen.CodeSignatureInvalidToken.
Proof. repeat split; reflexivity. Qed.

Lemma link_encrypted : forall ct, C04_Gen.encrypted ct = (ct =? encryption_type)%Z.
Proof. reflexivity. Qed.

Lemma link_csh_calls : C04_Gen.csh_calls =
  ["len"; "append";
   "security.ParseContentSecurity"; "r.Header.Get"; "err.Error"; "logx.Errorf"; "executeCallbacks";
   "security.VerifySignature"; "r.Header.Get"; "logx.Errorf"; "executeCallbacks";
   "header.Encrypted"; "CryptoHandler(header.Key)(next).ServeHTTP";
   "next.ServeHTTP"; "next.ServeHTTP"; "http.HandlerFunc"; "return"; "return"].
Proof. reflexivity. Qed.

Lemma link_failure_calls :
  C04_Gen.hvf_calls = ["w.Header().Set"; "w.Header().Set"; "w.WriteHeader"; "next.ServeHTTP"] /\
  C04_Gen.exec_cb_calls = ["callback"].
Proof. split; reflexivity. Qed.

Lemma link_verify_calls : C04_Gen.verify_calls =
  ["strconv.ParseInt"; "return"; "time.Now().Unix"; "tolerance.Seconds"; "int64"; "return";
   "getPathQuery"; "computeBodySignature"; "strings.Join"; "codec.HmacBase64"; "return"; "logx.Infof"; "return"].
Proof. reflexivity. Qed.

Lemma link_parse_cs_calls : C04_Gen.parse_cs_calls =
  ["r.Header.Get"; "httpx.ParseHeader"; "len"; "len"; "len"; "return"; "return";
   "decryptor.DecryptBase64"; "return"; "string"; "httpx.ParseHeader";
   "base64.StdEncoding.DecodeString"; "return"; "strconv.Atoi"; "return"; "return"].
Proof. reflexivity. Qed.

Lemma link_path_query_calls : C04_Gen.path_query_calls =
  ["r.Header.Get"; "len"; "return"; "url.Parse"; "return"; "return"].
Proof. reflexivity. Qed.

(* ---- (RPC) ---- *)
Lemma link_rpc_consts :
  C04_Gen.appKey = "app" /\ C04_Gen.tokenKey = "token" /\ C04_Gen.defaultExpiration = 5 * 60 * 1000000000.
Proof. repeat split; reflexivity. Qed.

Lemma link_authenticate_calls : C04_Gen.authenticate_calls =
  ["metadata.FromIncomingContext"; "status.Error"; "return";
   "len"; "len"; "status.Error"; "return";
   "len"; "len"; "status.Error"; "return";
   "a.validate"; "return"].
Proof. reflexivity. Qed.

Lemma link_validate_calls : C04_Gen.validate_calls =
  ["a.store.HGet"; "return"; "a.cache.Take"; "err.Error"; "status.Error"; "return"; "return";
   "status.Error"; "return"; "return"].
Proof. reflexivity. Qed.

Lemma link_interceptors :
  C04_Gen.unary_calls = ["authenticator.Authenticate"; "return"; "handler"; "return"; "return"] /\
  C04_Gen.stream_calls = ["stream.Context"; "authenticator.Authenticate"; "return"; "handler"; "return"; "return"].
Proof. split; reflexivity. Qed.

(* ---- checkers ---- *)
Lemma link_creds md : creds md = md_creds md.
Proof. reflexivity. Qed.

Lemma link_stored s app : stored_of s app = to_stored (store_of s app).
Proof. unfold stored_of, store_of. destruct (rs_down s); [reflexivity|]. destruct (alookup N.eqb app (rs_store s)); reflexivity. Qed.

(* the RPC model checker accepts exactly the runs of the model *)
Lemma rpc_rows_run strict : forall steps cache,
  rpc_rows strict cache steps = true <->
  run_rpc strict cache (map (fun s => (store_of s, rs_md s)) steps) = map rs_code steps.
Proof.
  induction steps as [|s r IH]; intro cache; simpl; [tauto|].
  destruct (authenticate strict cache (store_of s) (rs_md s)) as [cache' code].
  rewrite andb_true_iff, IH, Z.eqb_eq. split; [intros [-> ->]; reflexivity | intro H; inversion H; auto].
Qed.

(* the jwt Spec oracle read off a table coincides with the one the theorems use *)
Lemma link_jwt_ok t jt s tok : jwt_ok_of t jt s tok = jwt_ok (jwt_of t jt) s tok.
Proof. reflexivity. Qed.

(* the engine wires one verifier per route group: bindFeaturedRoutes asks signatureVerifier once per
   group and passes the result to every bindRoute of that group *)
Lemma link_bind_featured_routes : C04_Gen.bind_featured_calls = ["ng.signatureVerifier"; "return"; "ng.bindRoute"; "return"; "return"].
Proof. reflexivity. Qed.

Lemma link_bind_routes : C04_Gen.bind_routes_calls = ["ng.createMetrics"; "ng.bindFeaturedRoutes"; "return"; "return"].
Proof. reflexivity. Qed.

(* a group's configured pairs are what its decryptor map holds when fingerprints are not repeated *)
Lemma link_configured_for g fp k :
  configured_for g fp k = true -> exists fp', bytes_eqb fp' fp = true /\ In (fp', k) (g_keys g).
Proof.
  unfold configured_for. rewrite existsb_exists. intros [[fp' k'] [Hin H]]. simpl in H.
  apply andb_true_iff in H as [H1 H2]. apply N.eqb_eq in H2. subst. exists fp'. auto.
Qed.

(* cryptohandler's size limit is the 1 MiB of the statement and of the model *)
Lemma link_max_bytes : C04_Gen.maxBytes = max_bytes /\ max_bytes = 1024 * 1024 /\ enc_body_limit = max_bytes.
Proof. repeat split; reflexivity. Qed.

(* codes.Acceptable: the first clause of its switch lists exactly the codes the model counts as breaker
   failures (grpc numbering), and Unauthenticated (16) is not among them *)
Definition grpc_code (name : string) : Z :=
  if name =? "codes.DeadlineExceeded" then 4 else if name =? "codes.Internal" then 13
  else if name =? "codes.Unavailable" then 14 else if name =? "codes.DataLoss" then 15
  else if name =? "codes.Unimplemented" then 12 else if name =? "codes.Unauthenticated" then 16 else -1.

Lemma link_acceptable :
  map (fun row => (map grpc_code (fst row), snd row)) C04_Gen.acceptable_cases = [(unacceptable_codes, "false"); ([], "true")].
Proof. reflexivity. Qed.

Lemma link_unauthenticated_acceptable : codes_acceptable rpc_unauthenticated = true /\ codes_acceptable rpc_internal = false.
Proof. split; reflexivity. Qed.

(* the built-in chains end with the breaker interceptor, user interceptors are appended after them *)
Lemma link_breaker_interceptor : C04_Gen.unary_breaker_calls = ["handler"; "return"; "breaker.DoWithAcceptable"; "return"].
Proof. reflexivity. Qed.
