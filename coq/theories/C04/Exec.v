(* C04 Exec: the checkers evaluated by vm_compute on every correspondence case.
   Four kinds of case: parser histories (api/token), JWT gate histories and signed requests
   (api/handler), RPC authenticator histories (rpc/internal/auth). Crypto oracles come as the
   finite tables the drivers computed with the real libraries.
   Nothing here (nor in Model/Spec/Proofs) depends on the regenerated module GodGen.C04_Gen: the numbers and
   strings are written out by hand and Link.v proves them equal to the regenerated ones. *)
From God Require Import Base.Prelude.
From God Require Export C04.Model C04.Spec.
From Coq Require Import String Ascii.
Local Open Scope Z_scope.

Fixpoint all2 {A B} (f : A -> B -> bool) (l1 : list A) (l2 : list B) : bool :=
  match l1, l2 with
  | [], [] => true
  | a :: r1, b :: r2 => f a b && all2 f r1 r2
  | _, _ => false
  end.

Definition pair_eqb {A B} (fa : A -> A -> bool) (fb : B -> B -> bool) (x y : A * B) : bool :=
  fa (fst x) (fst y) && fb (snd x) (snd y).

(* ------------------------------------------------------------------ JWT oracle table *)
(* ((time index, secret id, header id), library verdict): the verdict of the jwt library at the clock
   reading with that index (readings are numbered in increasing order within a case) *)
Definition jtable := list ((N * N * N) * jverdict).

Definition triple_eqb (x y : N * N * N) : bool :=
  (fst (fst x) =? fst (fst y))%N && (snd (fst x) =? snd (fst y))%N && (snd x =? snd y)%N.

Definition jwt_of (t : jtable) (jt : Z) (s tok : N) : jverdict :=
  match alookup triple_eqb (Z.to_N jt, s, tok) t with Some v => v | None => JErr end.

(* Spec-level reading of the table: signature verifies and time claims valid at jt = the library accepted *)
Definition jwt_ok_of (t : jtable) (jt : Z) (s tok : N) : bool :=
  match jwt_of t jt s tok with JTok true true _ => true | _ => false end.

Definition claims_of (t : jtable) (jt : Z) (secret prev tok : N) : list (string * N) :=
  match jwt_of t jt secret tok with
  | JTok true true c => c
  | _ => match jwt_of t jt prev tok with JTok _ _ c => c | JErr => [] end
  end.

Definition claims_eqb : list (string * N) -> list (string * N) -> bool :=
  list_eqb (pair_eqb String.eqb N.eqb).

(* ------------------------------------------------------------------ parser histories *)
Record prow := mkprow {
  pr_now : Z; pr_jt : Z; pr_tok : N;
  pr_ok : bool;                 (* observed: err == nil *)
  pr_valid : bool;              (* observed: token.Valid *)
  pr_counts : list (N * N)      (* observed: Parser.history after the request *)
}.

Record parser_case := mkpc {
  pc_secret : N; pc_prev : N;
  pc_reset_time : Z; pc_reset_dur : Z;     (* observed fields of the fresh Parser *)
  pc_default_dur : bool;                   (* no WithResetDuration option was given *)
  pc_table : jtable;
  pc_rows : list prow
}.

Definition hist_eqb (obs model : list (N * N)) : bool :=
  Nat.eqb (List.length obs) (List.length model) &&
  forallb (fun kv => option_eqb N.eqb (alookup N.eqb (fst kv) model) (Some (snd kv))) obs.

Fixpoint parser_rows (t : jtable) (secret prev : N) (p : pstate) (rows : list prow) : bool :=
  match rows with
  | [] => true
  | r :: rest =>
      let '(p', v) := parse_token (jwt_of t (pr_jt r)) (pr_now r) p secret prev (pr_tok r) in
      Bool.eqb (pr_ok r) (match v with Some _ => true | None => false end) &&
      Bool.eqb (pr_valid r) (match v with Some (JTok valid _ _) => valid | _ => false end) &&
      hist_eqb (pr_counts r) (hist p') &&
      parser_rows t secret prev p' rest
  end.

Definition parser_model_ok (c : parser_case) : bool :=
  (if pc_default_dur c then pc_reset_dur c =? claim_history_reset_duration else true) &&
  parser_rows (pc_table c) (pc_secret c) (pc_prev c) (new_parser (pc_reset_time c) (pc_reset_dur c)) (pc_rows c).

(* Spec on observations: ParseToken succeeds iff the library accepts under the current or the
   previous secret; only the two configured secrets are ever counted *)
Definition parser_spec_ok (c : parser_case) : bool :=
  forallb (fun r =>
    Bool.eqb (pr_ok r) (jwt_accept (jwt_ok_of (pc_table c) (pr_jt r)) (pc_secret c) (pc_prev c) (pr_tok r)) &&
    Bool.eqb (pr_valid r) (pr_ok r) &&
    forallb (fun kv => (fst kv =? pc_secret c)%N || (fst kv =? pc_prev c)%N) (pr_counts r)) (pc_rows c).

(* ------------------------------------------------------------------ JWT gate histories *)
Record jrow := mkjrow {
  jr_now : Z; jr_jt : Z; jr_tok : N;
  jr_status : Z; jr_ran : bool; jr_ctx : list (string * N); jr_cb : bool;
  jr_expect : N   (* what the token's maker knows by construction: 1 = HMAC-family alg (HS256/384/512), signed with the current
                     or the previous secret, time claims valid: must be accepted; 2 = none / non-HMAC alg / foreign secret /
                     expired: must be refused; 0 = no statement *)
}.

Record jwt_case := mkjc {
  jc_secret : N; jc_prev : N; jc_cb : callback;
  jc_start : Z;                           (* virtual clock when Authorize was called *)
  jc_table : jtable;
  jc_rows : list jrow
}.

Definition jout_eqb (o : jout) (r : jrow) : bool :=
  (j_status o =? jr_status r) && Bool.eqb (j_ran o) (jr_ran r) &&
  claims_eqb (j_ctx o) (jr_ctx r) && Bool.eqb (j_cb o) (jr_cb r).

Definition jwt_model_ok (c : jwt_case) : bool :=
  let reqs := map (fun r => (jr_now r, jr_jt r, jr_tok r)) (jc_rows c) in
  let p0 := new_parser (jc_start c) claim_history_reset_duration in
  all2 jout_eqb (snd (run_jwt (jwt_of (jc_table c)) (jc_cb c) p0 (jc_secret c) (jc_prev c) reqs)) (jc_rows c).

Definition jwt_spec_ok (c : jwt_case) : bool :=
  forallb (fun r =>
    let adm := jwt_accept (jwt_ok_of (jc_table c) (jr_jt r)) (jc_secret c) (jc_prev c) (jr_tok r) in
    Bool.eqb (jr_ran r) adm &&
    (match jr_expect r with 1%N => jr_ran r | 2%N => negb (jr_ran r) | _ => true end) &&
    if adm then
      (jr_status r =? 200) &&
      claims_eqb (jr_ctx r) (visible_claims (claims_of (jc_table c) (jr_jt r) (jc_secret c) (jc_prev c) (jr_tok r)))
    else
      (jr_status r =? match jc_cb c with CbStatus s => s | _ => 401 end) &&
      claims_eqb (jr_ctx r) []) (jc_rows c).

(* ------------------------------------------------------------------ signed requests *)
Record sig_case := mksc {
  sc_strict : bool; sc_tol : Z;
  sc_now0 : Z; sc_now1 : Z;                        (* time.Now().Unix() before / after the call *)
  sc_decryptors : list bytes;
  sc_req : request;
  sc_rsa : list (bytes * option bytes);            (* one RSA block (raw bytes) |-> its PKCS#1 v1.5 decryption under the test key *)
  sc_rsak : nat;                                   (* the decryptor's bytesLimit (key size in bytes) *)
  sc_b64 : list (bytes * option bytes);
  sc_mac : list ((bytes * bytes) * bytes);         (* (key, content) |-> HmacBase64 *)
  sc_sha : list (bytes * bytes);
  sc_url : option (bytes * bytes);                 (* url.Parse of the X-Request-Uri value *)
  sc_decbody : dec_res;                            (* base64 + ECB decryption of the body bytes under the announced key *)
  (* the request as its maker describes it (for the Spec) *)
  sc_q : signed_request;
  sc_enc : bool;                                   (* announced type=1 and a body is present *)
  sc_skip_spec : bool;                             (* header shape the statement does not speak about *)
  (* observed *)
  sc_status : Z; sc_ran : bool; sc_hdr : N;        (* Signature response header: 0 none 1 wrong-time 2 invalid *)
  sc_panic : bool;                                 (* the middleware panicked *)
  sc_seen : N                                      (* body the handler read: 0 as sent, 1 its decryption, 2 anything else *)
}.

Definition opt_bytes_tab (t : list (bytes * option bytes)) (k : bytes) : option bytes :=
  match alookup bytes_eqb k t with Some v => v | None => None end.

Definition mac_of (c : sig_case) (k content : bytes) : bytes :=
  match alookup (pair_eqb bytes_eqb bytes_eqb) (k, content) (sc_mac c) with Some m => m | None => [] end.
Definition sha_of (c : sig_case) (b : bytes) : bytes :=
  match alookup bytes_eqb b (sc_sha c) with Some m => m | None => [] end.

Definition hdr_code (h : sig_hdr) : N :=
  match h with SigNone => 0 | SigWrongTime => 1 | SigInvalid => 2 end%N.

Definition sout_eqb (c : sig_case) (o : sout) : bool :=
  Bool.eqb (s_panic o) (sc_panic c) && Bool.eqb (s_ran o) (sc_ran c) &&
  (if sc_panic c then true else (s_status o =? sc_status c) && (hdr_code (s_hdr o) =? sc_hdr c)%N).

Definition sig_rsa (c : sig_case) (s : bytes) : option bytes :=
  decrypt_base64 (opt_bytes_tab (sc_b64 c)) (sc_rsak c) (opt_bytes_tab (sc_rsa c)) s.

Definition sig_gate (c : sig_case) (now : Z) : sout :=
  content_security_gate (sc_decryptors c) (fun _ s => sig_rsa c s) (opt_bytes_tab (sc_b64 c))
    (mac_of c) (sha_of c) (fun _ => sc_url c) (decrypt_body (fun _ _ => sc_decbody c))
    (sc_strict c) (sc_tol c) now (sc_req c).

Definition sig_sees_dec (c : sig_case) (now : Z) : bool :=
  sees_decrypted_body (sc_decryptors c) (fun _ s => sig_rsa c s) (opt_bytes_tab (sc_b64 c))
    (mac_of c) (sha_of c) (fun _ => sc_url c) (decrypt_body (fun _ _ => sc_decbody c))
    (sc_tol c) now (sc_req c).

(* the wall clock may tick during the call: the observed answer must be the model's for one of the
   two readings *)
Definition seen_ok (c : sig_case) (dec : bool) : bool :=
  if sc_ran c then (sc_seen c =? (if dec then 1 else 0))%N else true.

Definition sig_model_ok (c : sig_case) : bool :=
  (sout_eqb c (sig_gate c (sc_now0 c)) && seen_ok c (sig_sees_dec c (sc_now0 c))) ||
  (sout_eqb c (sig_gate c (sc_now1 c)) && seen_ok c (sig_sees_dec c (sc_now1 c))).

Definition guarded (m : bytes) : bool :=
  existsb (fun s => bytes_eqb m (bytes_of_string s)) guarded_methods.

Definition sig_spec_at (c : sig_case) (now : Z) : bool :=
  if negb (guarded (q_method (sc_q c))) then sc_ran c
  else
    let adm := sig_accept (mac_of c) (sha_of c) (sc_tol c) now (sc_q c) in
    if adm then
      (* accepted: the handler runs (behind the body decryption when the request announces one) *)
      (* ... only bodies ABOVE the size limit are refused; an accepted one is handed over decrypted *)
      if sc_enc c then
        Bool.eqb (sc_ran c) (negb (enc_body_limit <? r_clen (sc_req c)) && match sc_decbody c with DecOk => true | _ => false end) &&
        (negb (sc_ran c) || (sc_seen c =? 1)%N)
      else sc_ran c
    else if sc_strict c then negb (sc_ran c) && (sc_status c =? 403)
    else sc_ran c.

(* a gate that panics neither accepts nor refuses: always a violation *)
Definition sig_spec_ok (c : sig_case) : bool :=
  negb (sc_panic c) && (sc_skip_spec c || sig_spec_at c (sc_now0 c) || sig_spec_at c (sc_now1 c)).

(* ------------------------------------------------------------------ RPC histories *)
Record rstep := mkrs {
  rs_down : bool;                  (* store unreachable at the time of the call *)
  rs_store : list (N * N);         (* hash contents at the time of the call *)
  rs_md : rpc_md;
  rs_code : Z                      (* observed grpc code *)
}.

Record rpc_case := mkrc { rc_strict : bool; rc_steps : list rstep }.

Definition store_of (s : rstep) (app : N) : store_res :=
  if rs_down s then SFail else match alookup N.eqb app (rs_store s) with Some t => SVal t | None => SNil end.

Fixpoint rpc_rows (strict : bool) (cache : list (N * N)) (steps : list rstep) : bool :=
  match steps with
  | [] => true
  | s :: r =>
      let '(cache', code) := authenticate strict cache (store_of s) (rs_md s) in
      (code =? rs_code s) && rpc_rows strict cache' r
  end.

Definition rpc_model_ok (c : rpc_case) : bool := rpc_rows (rc_strict c) [] (rc_steps c).

(* Spec on observations. The "token stored for its app" is read through the server's cache view. *)
Definition creds (md : rpc_md) : option (N * N) :=
  match md with
  | Some (app :: _, token :: _) => if (app =? 0)%N || (token =? 0)%N then None else Some (app, token)
  | _ => None
  end.

Definition stored_of (s : rstep) (app : N) : stored :=
  if rs_down s then StFail else match alookup N.eqb app (rs_store s) with Some t => StTok t | None => StNone end.

Fixpoint rpc_spec_rows (strict : bool) (memo : list (N * N)) (steps : list rstep) : bool :=
  match steps with
  | [] => true
  | s :: r =>
      match creds (rs_md s) with
      | None => negb (rs_code s =? 0) && rpc_spec_rows strict memo r
      | Some (app, token) =>
          let st := stored_of s app in
          Bool.eqb (rs_code s =? 0) (rpc_accept strict true (rpc_view memo st app) token) &&
          rpc_spec_rows strict (rpc_memo memo st app) r
      end
  end.

Definition rpc_spec_ok (c : rpc_case) : bool := rpc_spec_rows (rc_strict c) [] (rc_steps c).

(* ------------------------------------------------------------------ route groups on one engine *)
Record grp_req := mkgr {
  gr_target : nat;                                 (* the group whose route the request is sent to *)
  gr_rsa : list ((N * bytes) * option bytes);      (* (private key id, secret text) |-> DecryptBase64 *)
  gr_fp : bytes; gr_enckey : N;                    (* what the client did: announced fingerprint, public key used *)
  gr_sig : sig_case;                               (* request, remaining tables, description, observation *)
  gr_registered : list bytes                       (* methods the target group's route is registered with *)
}.

Record grp_case := mkgc {
  gc_groups : list group;                          (* in registration order *)
  gc_reqs : list grp_req
}.

Definition grp_rsa (c : grp_req) (k : N) (s : bytes) : option bytes :=
  match alookup (pair_eqb N.eqb bytes_eqb) (k, s) (gr_rsa c) with Some v => v | None => None end.

Definition grp_gate (groups : list group) (c : grp_req) (now : Z) : option sout :=
  let s := gr_sig c in
  route_dispatch (gr_registered c) (sc_req s) (engine_gate (grp_rsa c) (opt_bytes_tab (sc_b64 s)) (mac_of s) (sha_of s) (fun _ => sc_url s) (decrypt_body (fun _ _ => sc_decbody s))
    groups (gr_target c) now (sc_req s)).

Definition grp_model_ok (c : grp_case) : bool :=
  forallb (fun rq =>
    let s := gr_sig rq in
    match grp_gate (gc_groups c) rq (sc_now0 s), grp_gate (gc_groups c) rq (sc_now1 s) with
    | Some o0, Some o1 => sout_eqb s o0 || sout_eqb s o1
    | _, _ => false
    end) (gc_reqs c).

(* Spec: the (fingerprint, key) pair the client used is configured FOR THE TARGET GROUP; everything else
   (tolerance, strictness) is the target group's own setting *)
Definition configured_for (g : group) (fp : bytes) (k : N) : bool :=
  existsb (fun kv => bytes_eqb (fst kv) fp && (snd kv =? k)%N) (g_keys g).

Definition grp_spec_ok (c : grp_case) : bool :=
  forallb (fun rq =>
    let s := gr_sig rq in
    match nth_error (gc_groups c) (gr_target rq) with
    | None => false
    | Some g =>
        if negb (existsb (bytes_eqb (q_method (sc_q s))) (gr_registered rq)) then negb (sc_ran s)   (* not this route's method: the protected handler never runs *)
        else
        let q := sc_q s in
        let q' := mkq (q_decrypts q && configured_for g (gr_fp rq) (gr_enckey rq)) (q_key q) (q_ts_text q) (q_ts q)
                      (q_sig q) (q_method q) (q_path q) (q_query q) (q_body q) in
        sig_spec_ok (mksc (g_strict g) (g_tol g) (sc_now0 s) (sc_now1 s) (sc_decryptors s) (sc_req s) (sc_rsa s) (sc_rsak s)
                          (sc_b64 s) (sc_mac s) (sc_sha s) (sc_url s) (sc_decbody s) q' (sc_enc s) (sc_skip_spec s)
                          (sc_status s) (sc_ran s) (sc_hdr s) (sc_panic s) (sc_seen s))
    end) (gc_reqs c).

(* ------------------------------------------------------------------ RPC through the interceptors *)
Record istep := mkis {
  is_step : rstep;                 (* store state, metadata, observed code *)
  is_mode : rpc_mode; is_method : N;
  is_ran : bool                    (* observed: the handler was called *)
}.

Record rpci_case := mkri { ri_strict : bool; ri_steps : list istep }.

Fixpoint rpci_rows (strict : bool) (cache : list (N * N)) (steps : list istep) : bool :=
  match steps with
  | [] => true
  | s :: r =>
      let '(cache', code, ran) := intercept (is_mode s) (is_method s) strict cache (store_of (is_step s)) (rs_md (is_step s)) in
      (code =? rs_code (is_step s)) && Bool.eqb ran (is_ran s) && rpci_rows strict cache' r
  end.

Definition rpci_model_ok (c : rpci_case) : bool := rpci_rows (ri_strict c) [] (ri_steps c).

(* Spec: the decision is rpc_accept (which has no method-name input) and the handler runs iff accepted *)
Definition rpci_spec_ok (c : rpci_case) : bool :=
  rpc_spec_rows (ri_strict c) [] (map is_step (ri_steps c)) &&
  forallb (fun s => Bool.eqb (is_ran s) (rs_code (is_step s) =? 0)) (ri_steps c).

(* ------------------------------------------------------------------ JWT routes through the engine *)
Record erow := mker { er_group : nat; er_tok : N; er_status : Z; er_ran : bool }.

Record ejwt_case := mkej {
  ej_groups : list jwt_opt;              (* route options per group, in registration order *)
  ej_panics : list bool;                 (* observed: applying the option panicked *)
  ej_table : jtable;
  ej_rows : list erow
}.

Fixpoint upd_nth {A} (i : nat) (x : A) (l : list A) : list A :=
  match l, i with
  | [], _ => []
  | _ :: r, O => x :: r
  | a :: r, S j => a :: upd_nth j x r
  end.

Fixpoint ejwt_rows (t : jtable) (groups : list jwt_opt) (states : list pstate) (rows : list erow) : bool :=
  match rows with
  | [] => true
  | r :: rest =>
      match nth_error groups (er_group r), nth_error states (er_group r) with
      | Some o, Some p =>
          match jwt_setting o with
          | None => false                      (* no route was registered for a panicking option *)
          | Some setting =>
              let '(p', out) := engine_jwt_gate (jwt_of t 0) setting 0 p (er_tok r) in
              (j_status out =? er_status r) && Bool.eqb (j_ran out) (er_ran r) &&
              ejwt_rows t groups (upd_nth (er_group r) p' states) rest
          end
      | _, _ => false
      end
  end.

Definition ejwt_model_ok (c : ejwt_case) : bool :=
  list_eqb Bool.eqb (ej_panics c) (map (fun o => match jwt_setting o with None => true | Some _ => false end) (ej_groups c)) &&
  ejwt_rows (ej_table c) (ej_groups c) (map (fun _ => new_parser 0 claim_history_reset_duration) (ej_groups c)) (ej_rows c).

(* Spec: a JWT-protected group runs its handler iff the token verifies under the group's current secret, or under its
   (non-empty, arbitrarily short) previous secret; an unprotected group always runs it *)
Definition ejwt_spec_ok (c : ejwt_case) : bool :=
  forallb (fun r =>
    match nth_error (ej_groups c) (er_group r) with
    | Some JNone => er_ran r
    | Some (JJwt secret _) =>
        let adm := jwt_accept (jwt_ok_of (ej_table c) 0) secret 0%N (er_tok r) in
        Bool.eqb (er_ran r) adm && (adm || (er_status r =? 401))
    | Some (JTransition secret _ prev _) =>
        let adm := jwt_accept (jwt_ok_of (ej_table c) 0) secret prev (er_tok r) in
        Bool.eqb (er_ran r) adm && (adm || (er_status r =? 401))
    | None => false
    end) (ej_rows c).

(* ------------------------------------------------------------------ RPC histories with floods of unknown apps *)
Inductive rop :=
| OCall (s : rstep)
| OFlood (down : bool) (n : N) (app0 token : N) (store : list (N * N)) (code : Z)
| OBurst (n : N) (s : rstep).     (* n identical calls, all observed with rs_code s *)
  (* n calls for the fresh apps app0, app0+1, ... (no stored token; down: the store fails every lookup), all observed with this code *)

Record rpcf_case := mkrf { rf_strict : bool; rf_ops : list rop }.

Definition flood_step (strict down : bool) (store : list (N * N)) (token : N) (code : Z) (st : list (N * N) * bool * N) :=
  let '(cache, ok, app) := st in
  let '(cache', c) := authenticate strict cache
                        (fun a => if down then SFail else match alookup N.eqb a store with Some t => SVal t | None => SNil end)
                        (Some ([app], [token])) in
  (cache', ok && (c =? code), (app + 1)%N).

Fixpoint rpcf_rows (strict : bool) (cache : list (N * N)) (ops : list rop) : bool :=
  match ops with
  | [] => true
  | OCall s :: r =>
      let '(cache', code) := authenticate strict cache (store_of s) (rs_md s) in
      (code =? rs_code s) && rpcf_rows strict cache' r
  | OFlood down n app0 token store code :: r =>
      let '(cache', ok, _) := N.iter n (flood_step strict down store token code) (cache, true, app0) in
      ok && rpcf_rows strict cache' r
  | OBurst n s :: r =>
      let '(cache', ok) := N.iter n (fun st => let '(cache', code) := authenticate strict (fst st) (store_of s) (rs_md s) in
                                               (cache', snd st && (code =? rs_code s))) (cache, true) in
      ok && rpcf_rows strict cache' r
  end.

Definition rpcf_model_ok (c : rpcf_case) : bool := rpcf_rows (rf_strict c) [] (rf_ops c).

Definition flood_spec_step (strict down : bool) (store : list (N * N)) (token : N) (code : Z) (st : list (N * N) * bool * N) :=
  let '(memo, ok, app) := st in
  let stv := if down then StFail else match alookup N.eqb app store with Some t => StTok t | None => StNone end in
  (rpc_memo memo stv app, ok && Bool.eqb (code =? 0) (rpc_accept strict true (rpc_view memo stv app) token), (app + 1)%N).

Fixpoint rpcf_spec_rows (strict : bool) (memo : list (N * N)) (ops : list rop) : bool :=
  match ops with
  | [] => true
  | OCall s :: r =>
      match creds (rs_md s) with
      | None => negb (rs_code s =? 0) && rpcf_spec_rows strict memo r
      | Some (app, token) =>
          let st := stored_of s app in
          Bool.eqb (rs_code s =? 0) (rpc_accept strict true (rpc_view memo st app) token) &&
          rpcf_spec_rows strict (rpc_memo memo st app) r
      end
  | OFlood down n app0 token store code :: r =>
      let '(memo', ok, _) := N.iter n (flood_spec_step strict down store token code) (memo, true, app0) in
      ok && rpcf_spec_rows strict memo' r
  | OBurst n s :: r =>
      (* a burst is n copies of one call: same verdict each time (the first one decides the memo) *)
      match creds (rs_md s) with
      | None => negb (rs_code s =? 0) && rpcf_spec_rows strict memo r
      | Some (app, token) =>
          let st := stored_of s app in
          ((n =? 0)%N || Bool.eqb (rs_code s =? 0) (rpc_accept strict true (rpc_view memo st app) token)) &&
          rpcf_spec_rows strict (if (n =? 0)%N then memo else rpc_memo memo st app) r
      end
  end.

Definition rpcf_spec_ok (c : rpcf_case) : bool := rpcf_spec_rows (rf_strict c) [] (rf_ops c).

(* ------------------------------------------------------------------ RPC through rpc.NewServer(ServerConfig) *)
Record rpcn_case := mkrn { rn_auth : bool; rn_strict : bool; rn_proxy : bool; rn_steps : list rstep }.

Fixpoint rpcn_rows (auth strict proxy : bool) (cache : list (N * N)) (steps : list rstep) : bool :=
  match steps with
  | [] => true
  | s :: r =>
      let md := if proxy then proxy_md (rs_md s) else rs_md s in
      let '(cache', code) := server_config_gate auth strict cache (store_of s) md in
      (code =? rs_code s) && rpcn_rows auth strict proxy cache' r
  end.

Definition rpcn_model_ok (c : rpcn_case) : bool := rpcn_rows (rn_auth c) (rn_strict c) (rn_proxy c) [] (rn_steps c).

(* Spec: without auth every call is served; with auth the decision table, strict = StrictControl *)
Definition rpcn_spec_ok (c : rpcn_case) : bool :=
  if rn_auth c then rpc_spec_rows (rn_strict c) [] (rn_steps c)
  else forallb (fun s => rs_code s =? 0) (rn_steps c).

(* ------------------------------------------------------------------ dispatch *)
Inductive case :=
| CParser (c : parser_case)
| CJwt (c : jwt_case)
| CSig (c : sig_case)
| CRpc (c : rpc_case)
| CGrp (c : grp_case)
| CRpcI (c : rpci_case)
| CEJwt (c : ejwt_case)
| CRpcF (c : rpcf_case)
| CRpcN (c : rpcn_case).

Definition model_ok (c : case) : bool :=
  match c with
  | CParser c => parser_model_ok c
  | CJwt c => jwt_model_ok c
  | CSig c => sig_model_ok c
  | CRpc c => rpc_model_ok c
  | CGrp c => grp_model_ok c
  | CRpcI c => rpci_model_ok c
  | CEJwt c => ejwt_model_ok c
  | CRpcF c => rpcf_model_ok c
  | CRpcN c => rpcn_model_ok c
  end.

Definition spec_ok (c : case) : bool :=
  match c with
  | CParser c => parser_spec_ok c
  | CJwt c => jwt_spec_ok c
  | CSig c => sig_spec_ok c
  | CRpc c => rpc_spec_ok c
  | CGrp c => grp_spec_ok c
  | CRpcI c => rpci_spec_ok c
  | CEJwt c => ejwt_spec_ok c
  | CRpcF c => rpcf_spec_ok c
  | CRpcN c => rpcn_spec_ok c
  end.
