(* C18 ProofsPool: pool.go -- bound on live resources, single holder, destruction of over-age
   resources; for all schedules (including arbitrary clock advances) and any number of threads. *)
From God Require Import Base.Prelude C18.Conc C18.Spec C18.Model.
Import POOL.

Record PI (limit : Z) (s : state) : Prop := mkPI {
  p_cnt : created s = (ncreate s - ndestroy s)%Z /\ (created s <= limit)%Z;
  p_hold : forall t r, In r (holding (ts s t)) -> loc s r = 3 + t;
  p_head : forall r lu, In (r, lu) (head s) -> loc s r = 1;
  p_nd_head : NoDup (map fst (head s));
  p_nd_hold : forall t, NoDup (holding (ts s t));
  p_fresh : forall r, nextres s <= r -> loc s r = 0
}.

Lemma pinit limit scripts : (0 <= limit)%Z -> PI limit (init scripts).
Proof. intro H. constructor; simpl; intros; try contradiction; auto; try constructor; lia. Qed.

Ltac pcase u t :=
  let E := fresh "E" in
  destruct (Nat.eq_dec u t) as [E|E];
  [ try rewrite !E in *; rewrite ?upd_same in * | rewrite ?(upd_other _ _ _ _ E) in * ].

(* steps that move no resource *)
Lemma PI_frame limit s s' t :
  PI limit s ->
  created s' = created s -> ncreate s' = ncreate s -> ndestroy s' = ndestroy s ->
  head s' = head s -> nextres s' = nextres s -> loc s' = loc s ->
  (forall u, u <> t -> ts s' u = ts s u) ->
  holding (ts s' t) = holding (ts s t) ->
  PI limit s'.
Proof.
  intros [C H Hd N1 N2 F] E1 E2 E3 E4 E5 E6 Ets Eh.
  constructor; rewrite ?E1, ?E2, ?E3, ?E4, ?E5, ?E6; auto.
  - intros u r. destruct (Nat.eq_dec u t) as [->|Hne]; [rewrite Eh|rewrite (Ets _ Hne)]; apply H.
  - intros u. destruct (Nat.eq_dec u t) as [->|Hne]; [rewrite Eh|rewrite (Ets _ Hne)]; apply N2.
Qed.

Ltac pframe HI t Hpc :=
  eapply (PI_frame _ _ _ t HI); cbn [lock created head waiters nextres now ts trace loc ncreate ndestroy];
  try reflexivity; [ intros ? ?; apply upd_other; assumption | rewrite upd_same; unfold holding; rewrite ?Hpc; cbn [t_pc t_held]; try reflexivity ].

Lemma pstep_I limit maxage l s s' : PI limit s -> step limit maxage l s = Some s' -> PI limit s'.
Proof.
  intros HI Hs. destruct l as [t|g|d]; [| discriminate | injection Hs as <-; destruct HI; constructor; simpl; auto ].
  unfold step in Hs.
  destruct (t_pc (ts s t)) eqn:Hpc.
  - (* Idle *) destruct (t_todo (ts s t)) as [|o rest]; [discriminate|].
    destruct (o_code o).
    + injection Hs as <-. pframe HI t Hpc.
    + destruct (t_held (ts s t)) as [|r h'] eqn:Hh; injection Hs as <-; pframe HI t Hpc; rewrite Hh; reflexivity.
  - (* GLock *) destruct (lock s); [discriminate|]. injection Hs as <-. pframe HI t Hpc.
  - (* GLoop *)
    pose proof HI as [[C1 C2] H Hd N1 N2 F].
    destruct (head s) as [|[r lu] rest] eqn:Hhead.
    + destruct (Z.ltb (created s) limit) eqn:Hlt.
      * (* create *) apply Z.ltb_lt in Hlt. injection Hs as <-.
        assert (Hr0 : loc s (nextres s) = 0) by (apply F; lia).
        constructor; cbn [lock created head waiters nextres now ts trace loc ncreate ndestroy].
        -- split; lia.
        -- intros u r. pcase u t.
           ++ unfold holding; cbn [t_pc t_held]. intros [<-|Hin]; [apply upd_same|].
              assert (Hl : loc s r = 3 + t) by (apply H; unfold holding; rewrite Hpc; assumption).
              rewrite upd_other; [assumption|]. intro; subst r. lia.
           ++ intro Hin. pose proof (H _ _ Hin) as Hl. rewrite upd_other; [assumption|]. intro; subst r. lia.
        -- intros r lu []. 
        -- constructor.
        -- intros u. pcase u t; [|apply N2]. unfold holding; cbn [t_pc t_held]. constructor.
           ++ intro Hin. assert (Hl : loc s (nextres s) = 3 + t) by (apply H; unfold holding; rewrite Hpc; assumption). lia.
           ++ specialize (N2 t). unfold holding in N2. rewrite Hpc in N2. assumption.
        -- intros r Hr. rewrite upd_other by lia. apply F. lia.
      * (* wait *) injection Hs as <-. rewrite <- Hhead. pframe HI t Hpc.
    + destruct (expired maxage lu (now s)) eqn:Hex; injection Hs as <-.
      * (* destroy *)
        assert (Hr1 : loc s r = 1) by (apply (Hd r lu); left; reflexivity).
        simpl in N1. apply NoDup_cons_iff in N1 as [Nr N1].
        constructor; cbn [lock created head waiters nextres now ts trace loc ncreate ndestroy].
        -- split; lia.
        -- intros u r' Hin. pose proof (H _ _ Hin) as Hl. rewrite upd_other; [assumption|]. intro; subst r'. lia.
        -- intros r' lu' Hin. rewrite upd_other; [apply (Hd r' lu'); right; assumption|].
           intro; subst r'. apply Nr. apply in_map_iff. exists (r, lu'). auto.
        -- assumption.
        -- apply N2.
        -- intros r' Hr'. rewrite upd_other; [apply F; assumption|]. intro; subst r'. specialize (F _ Hr'). lia.
      * (* hand out *)
        assert (Hr1 : loc s r = 1) by (apply (Hd r lu); left; reflexivity).
        simpl in N1. apply NoDup_cons_iff in N1 as [Nr N1].
        constructor; cbn [lock created head waiters nextres now ts trace loc ncreate ndestroy].
        -- split; lia.
        -- intros u r'. pcase u t.
           ++ unfold holding; cbn [t_pc t_held]. intros [<-|Hin]; [apply upd_same|].
              assert (Hl : loc s r' = 3 + t) by (apply H; unfold holding; rewrite Hpc; assumption).
              rewrite upd_other; [assumption|]. intro; subst r'. lia.
           ++ intro Hin. pose proof (H _ _ Hin) as Hl. rewrite upd_other; [assumption|]. intro; subst r'. lia.
        -- intros r' lu' Hin. rewrite upd_other; [apply (Hd r' lu'); right; assumption|].
           intro; subst r'. apply Nr. apply in_map_iff. exists (r, lu'). auto.
        -- assumption.
        -- intros u. pcase u t; [|apply N2]. unfold holding; cbn [t_pc t_held]. constructor.
           ++ intro Hin. assert (Hl : loc s r = 3 + t) by (apply H; unfold holding; rewrite Hpc; assumption). lia.
           ++ specialize (N2 t). unfold holding in N2. rewrite Hpc in N2. assumption.
        -- intros r' Hr'. rewrite upd_other; [apply F; assumption|]. intro; subst r'. specialize (F _ Hr'). lia.
  - (* GWait *) destruct (existsb (Nat.eqb t) (waiters s)); [discriminate|]. injection Hs as <-. pframe HI t Hpc.
  - (* GRelock *) destruct (lock s); [discriminate|]. injection Hs as <-. pframe HI t Hpc.
  - (* GRet *) injection Hs as <-. pframe HI t Hpc.
  - (* PLock *) destruct (lock s); [discriminate|]. injection Hs as <-. pframe HI t Hpc.
  - (* PPush *) injection Hs as <-.
    pose proof HI as [[C1 C2] H Hd N1 N2 F].
    assert (Hx : loc s x = 3 + t) by (apply H; unfold holding; rewrite Hpc; left; reflexivity).
    pose proof (N2 t) as N2t. unfold holding in N2t. rewrite Hpc in N2t. apply NoDup_cons_iff in N2t as [Nx N2t].
    constructor; cbn [lock created head waiters nextres now ts trace loc ncreate ndestroy].
    + split; lia.
    + intros u r. pcase u t.
      * unfold holding; cbn [t_pc t_held]. intro Hin.
        rewrite upd_other; [apply H; unfold holding; rewrite Hpc; right; assumption|]. intro; subst r. contradiction.
      * intro Hin. pose proof (H _ _ Hin) as Hl. rewrite upd_other; [assumption|]. intro; subst r. lia.
    + intros r lu [Heq|Hin]; [injection Heq as <- <-; apply upd_same|].
      pose proof (Hd _ _ Hin) as Hl. rewrite upd_other; [assumption|]. intro; subst r. lia.
    + simpl. constructor; [|assumption]. intro Hin. apply in_map_iff in Hin as ([r lu] & Heq & Hin). simpl in Heq; subst r.
      specialize (Hd _ _ Hin). lia.
    + intros u. pcase u t; [|apply N2]. unfold holding; cbn [t_pc t_held]. assumption.
    + intros r Hr. rewrite upd_other; [apply F; assumption|]. intro; subst r. specialize (F _ Hr). lia.
  - (* PSignal *) injection Hs as <-. pframe HI t Hpc.
  - (* PUnlock *) injection Hs as <-. pframe HI t Hpc.
Qed.

Lemma prun_I limit maxage scripts sched : (0 <= limit)%Z ->
  PI limit (run (step limit maxage) sched (init scripts)).
Proof. intro H. apply run_inv; [apply pstep_I|apply pinit; assumption]. Qed.

(* created = #create - #destroy <= limit *)
Lemma pool_bound limit maxage scripts sched : (0 <= limit)%Z ->
  let s := run (step limit maxage) sched (init scripts) in
  created s = (ncreate s - ndestroy s)%Z /\ (ncreate s - ndestroy s <= limit)%Z.
Proof. intros H s. destruct (prun_I limit maxage scripts sched H) as [[C1 C2] _ _ _ _ _]. subst s. lia. Qed.

(* a resource is never in the hands of two threads, never both held and idle, never twice in the idle list *)
Lemma pool_single_holder limit maxage scripts sched : (0 <= limit)%Z ->
  let s := run (step limit maxage) sched (init scripts) in
  (forall t u r, In r (holding (ts s t)) -> In r (holding (ts s u)) -> t = u) /\
  (forall t r lu, In r (holding (ts s t)) -> ~ In (r, lu) (head s)) /\
  NoDup (map fst (head s)) /\ (forall t, NoDup (holding (ts s t))).
Proof.
  intros H s. destruct (prun_I limit maxage scripts sched H) as [_ Hh Hd N1 N2 _]. subst s.
  repeat split; auto.
  - intros t u r A B. pose proof (Hh _ _ A). pose proof (Hh _ _ B). lia.
  - intros t r lu A B. pose proof (Hh _ _ A). pose proof (Hd _ _ B). lia.
Qed.

(* an idle resource older than maxAge met by Get is destroyed, not handed out; and a destroyed
   resource is nowhere (neither idle nor held) ever after *)
Lemma pool_max_age_step limit maxage s t r lu rest :
  t_pc (ts s t) = GLoop -> head s = (r, lu) :: rest -> 0 < maxage -> lu + maxage < now s ->
  exists s', step limit maxage (Thr t) s = Some s' /\ loc s' r = 2 /\ head s' = rest /\
             t_pc (ts s' t) = GLoop /\ ts s' = ts s /\ ndestroy s' = (ndestroy s + 1)%Z /\ created s' = (created s - 1)%Z.
Proof.
  intros Hpc Hh Hm Hlt. unfold step. rewrite Hpc, Hh. unfold expired.
  assert (Nat.ltb 0 maxage = true) as -> by (apply Nat.ltb_lt; assumption).
  assert (Nat.ltb (lu + maxage) (now s) = true) as -> by (apply Nat.ltb_lt; assumption).
  simpl. eexists. split; [reflexivity|]. simpl. rewrite upd_same. repeat split; auto.
Qed.

Lemma pool_not_expired_step limit maxage s t r lu rest s' :
  t_pc (ts s t) = GLoop -> head s = (r, lu) :: rest -> step limit maxage (Thr t) s = Some s' ->
  t_pc (ts s' t) = GRet r -> maxage = 0 \/ now s <= lu + maxage.
Proof.
  intros Hpc Hh Hs Hr. unfold step in Hs. rewrite Hpc, Hh in Hs. unfold expired in Hs.
  destruct (Nat.ltb 0 maxage) eqn:E1; [|apply Nat.ltb_ge in E1; left; lia].
  destruct (Nat.ltb (lu + maxage) (now s)) eqn:E2; [|apply Nat.ltb_ge in E2; right; lia].
  simpl in Hs. injection Hs as <-. simpl in Hr. rewrite Hpc in Hr. discriminate.
Qed.

Lemma pool_destroyed_gone limit maxage scripts sched r : (0 <= limit)%Z ->
  let s := run (step limit maxage) sched (init scripts) in
  loc s r = 2 -> (forall t, ~ In r (holding (ts s t))) /\ (forall lu, ~ In (r, lu) (head s)).
Proof.
  intros H s Hl. destruct (prun_I limit maxage scripts sched H) as [_ Hh Hd _ _ _]. subst s.
  split; [intros t A; specialize (Hh _ _ A); lia | intros lu A; specialize (Hd _ _ A); lia].
Qed.

(* destroyed is final: loc never leaves 2 *)
Lemma pool_destroyed_stable limit maxage l s s' r : PI limit s -> step limit maxage l s = Some s' -> loc s r = 2 -> loc s' r = 2.
Proof.
  intros HI Hs Hl. destruct HI as [_ Hh Hd _ _ F].
  destruct l as [t|g|d]; [| discriminate | injection Hs as <-; assumption ].
  unfold step in Hs. destruct (t_pc (ts s t)) eqn:Hpc.
  - destruct (t_todo (ts s t)) as [|o rest]; [discriminate|]. destruct (o_code o); [injection Hs as <-; assumption|].
    destruct (t_held (ts s t)); injection Hs as <-; assumption.
  - destruct (lock s); [discriminate|]. injection Hs as <-; assumption.
  - destruct (head s) as [|[r' lu] rest] eqn:Hhead.
    + destruct (Z.ltb (created s) limit); injection Hs as <-; [|assumption]. simpl.
      rewrite upd_other; [assumption|]. intro; subst r. rewrite F in Hl by lia. discriminate.
    + assert (loc s r' = 1) by (apply (Hd r' lu); left; reflexivity).
      destruct (expired maxage lu (now s)); injection Hs as <-; simpl; (destruct (Nat.eq_dec r r') as [->|Hne]; [lia|rewrite upd_other by assumption; assumption]).
  - destruct (existsb (Nat.eqb t) (waiters s)); [discriminate|]. injection Hs as <-; assumption.
  - destruct (lock s); [discriminate|]. injection Hs as <-; assumption.
  - injection Hs as <-; assumption.
  - destruct (lock s); [discriminate|]. injection Hs as <-; assumption.
  - injection Hs as <-. simpl. assert (loc s x = 3 + t) by (apply Hh; unfold holding; rewrite Hpc; left; reflexivity).
    destruct (Nat.eq_dec r x) as [->|Hne]; [lia|rewrite upd_other by assumption; assumption].
  - injection Hs as <-; assumption.
  - injection Hs as <-; assumption.
Qed.
