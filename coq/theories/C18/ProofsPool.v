(* C18 ProofsPool: pool.go -- bound on live resources, single holder, destruction of over-age
   resources; for all schedules (including arbitrary clock advances) and any number of threads. *)
From God Require Import Base.Prelude C18.Conc C18.Spec C18.Model.
Import POOL.

Record PI (limit : Z) (s : state) : Prop := mkPI {
  p_lock1 : forall t, holds (t_pc (ts s t)) = true -> lock s = Some t;
  p_lock2 : forall t, lock s = Some t -> holds (t_pc (ts s t)) = true;
  p_cnt : created s = (ncreate s + nleak s - ndestroy s)%Z /\ (created s <= limit)%Z /\ (0 <= nleak s)%Z /\
          (forall t, t_pc (ts s t) = GCb -> (1 <= nleak s)%Z);
  p_hold : forall t r, In r (holding (ts s t)) -> loc s r = 3 + t;
  p_head : forall r lu, In (r, lu) (head s) -> loc s r = 1;
  p_nd_head : NoDup (map fst (head s));
  p_nd_hold : forall t, NoDup (holding (ts s t));
  p_fresh : forall r, nextres s <= r -> loc s r = 0
}.

Lemma pinit limit scripts : (0 <= limit)%Z -> PI limit (init scripts).
Proof. intro H. constructor; simpl; intros; try contradiction; try discriminate; auto; try constructor; try lia. repeat split; try lia. intros; discriminate. Qed.

Ltac pcase u t :=
  let E := fresh "E" in
  destruct (Nat.eq_dec u t) as [E|E];
  [ try rewrite !E in *; rewrite ?upd_same in * | rewrite ?(upd_other _ _ _ _ E) in * ].

(* steps that move no resource and change no counter *)
Lemma PI_frame limit s s' t :
  PI limit s ->
  created s' = created s -> ncreate s' = ncreate s -> ndestroy s' = ndestroy s -> nleak s' = nleak s ->
  head s' = head s -> nextres s' = nextres s -> loc s' = loc s ->
  (forall u, u <> t -> ts s' u = ts s u) ->
  holding (ts s' t) = holding (ts s t) ->
  let p := t_pc (ts s t) in let p' := t_pc (ts s' t) in
  (p' = GCb -> p = GCb) ->
  ((holds p' = true /\ lock s' = Some t /\ (lock s = None \/ lock s = Some t)) \/
   (holds p' = false /\ ((holds p = true /\ lock s' = None) \/ (holds p = false /\ lock s' = lock s)))) ->
  PI limit s'.
Proof.
  intros [L1 L2 C H Hd N1 N2 F] E1 E2 E3 E3' E4 E5 E6 Ets Eh p p' Hcb Hlock.
  constructor; rewrite ?E1, ?E2, ?E3, ?E3', ?E4, ?E5, ?E6; auto.
  - intros u Hu. destruct (Nat.eq_dec u t) as [->|Hne].
    + fold p' in Hu. destruct Hlock as [(A & B & _)|(A & _)]; congruence.
    + rewrite (Ets _ Hne) in Hu. pose proof (L1 _ Hu) as L1u.
      destruct Hlock as [(A & B & [D|D])|(A & [(B & D)|(B & D)])]; try congruence.
      pose proof (L1 t B). congruence.
  - intros u Hu. destruct (Nat.eq_dec u t) as [->|Hne].
    + fold p'. destruct Hlock as [(A & B & D)|(A & [(B & D)|(B & D)])]; try congruence.
      rewrite D in Hu. specialize (L2 _ Hu). fold p in L2. congruence.
    + rewrite (Ets _ Hne). apply L2. destruct Hlock as [(A & B & D)|(A & [(B & D)|(B & D)])]; congruence.
  - destruct C as (C1 & C2 & C3 & C4). repeat split; auto. intros u. destruct (Nat.eq_dec u t) as [->|Hne].
    + fold p'. intro A. apply (C4 t). apply Hcb. assumption.
    + rewrite (Ets _ Hne). apply C4.
  - intros u r. destruct (Nat.eq_dec u t) as [->|Hne]; [rewrite Eh|rewrite (Ets _ Hne)]; apply H.
  - intros u. destruct (Nat.eq_dec u t) as [->|Hne]; [rewrite Eh|rewrite (Ets _ Hne)]; apply N2.
Qed.

Ltac pframe HI t Hpc :=
  eapply (PI_frame _ _ _ t HI); cbn [lock created head waiters nextres now open ts trace loc ncreate ndestroy nleak];
  try reflexivity;
  [ intros ? ?; apply upd_other; assumption
  | rewrite upd_same; unfold holding; rewrite ?Hpc; cbn [t_pc t_held setpc]; try reflexivity
  | rewrite ?upd_same, ?Hpc; cbn [t_pc setpc]; try (intros; discriminate)
  | rewrite ?upd_same, ?Hpc; cbn [t_pc setpc holds] ].

Ltac plk HI t Hpc :=
  let L := fresh "L" in
  first [ solve [right; split; [reflexivity|]; right; split; reflexivity]
        | solve [left; repeat split; auto]
        | (pose proof (p_lock1 _ _ HI t) as L; rewrite Hpc in L; specialize (L eq_refl);
           first [ solve [left; repeat split; auto] | solve [right; split; [reflexivity|]; left; split; reflexivity] ]) ].

(* a step of t from a lock-holding pc to a lock-holding pc, with the lock untouched *)
Lemma keep_lock limit s t (x' : tstate) :
  PI limit s -> holds (t_pc (ts s t)) = true -> holds (t_pc x') = true ->
  (forall u, holds (t_pc (upd (ts s) t x' u)) = true -> lock s = Some u) /\
  (forall u, lock s = Some u -> holds (t_pc (upd (ts s) t x' u)) = true).
Proof.
  intros HI Ht Hx. split; intros u Hu.
  - destruct (Nat.eq_dec u t) as [->|Hne]; [apply (p_lock1 _ _ HI); assumption|].
    rewrite upd_other in Hu by assumption. apply (p_lock1 _ _ HI); assumption.
  - destruct (Nat.eq_dec u t) as [->|Hne]; [rewrite upd_same; assumption|].
    rewrite upd_other by assumption. apply (p_lock2 _ _ HI); assumption.
Qed.

Lemma pstep_I limit maxage l s s' : PI limit s -> step limit maxage l s = Some s' -> PI limit s'.
Proof.
  intros HI Hs. destruct l as [t|g|d]; [| injection Hs as <-; destruct HI; constructor; simpl; auto | injection Hs as <-; destruct HI; constructor; simpl; auto ].
  unfold step in Hs.
  destruct (t_pc (ts s t)) eqn:Hpc.
  - (* Idle *) destruct (t_todo (ts s t)) as [|o rest]; [discriminate|].
    destruct (o_code o) as [|[|[|k]]].
    + injection Hs as <-. pframe HI t Hpc. plk HI t Hpc.
    + destruct (t_held (ts s t)) as [|r h'] eqn:Hh; injection Hs as <-; pframe HI t Hpc; try (rewrite Hh; reflexivity); plk HI t Hpc.
    + injection Hs as <-. pframe HI t Hpc. plk HI t Hpc.
    + destruct (t_held (ts s t)) as [|r h'] eqn:Hh; injection Hs as <-; pframe HI t Hpc; try (rewrite Hh; reflexivity); plk HI t Hpc.
  - (* GLock *) destruct (lock s) eqn:Hl; [discriminate|]. injection Hs as <-. pframe HI t Hpc. plk HI t Hpc.
  - (* GLoop *)
    pose proof HI as [L1 L2 (C1 & C2 & C3 & C4) H Hd N1 N2 F].
    assert (Hhold : holds (t_pc (ts s t)) = true) by (rewrite Hpc; reflexivity).
    destruct (head s) as [|[r lu] rest] eqn:Hhead.
    + destruct (Z.ltb (created s) limit) eqn:Hlt.
      * (* p.created++, then create() *) apply Z.ltb_lt in Hlt. injection Hs as <-.
        destruct (keep_lock limit s t (setpc (ts s t) GCb) HI Hhold eq_refl) as [K1 K2].
        constructor; cbn [lock created head waiters nextres now open ts trace loc ncreate ndestroy nleak]; auto.
        -- repeat split; lia.
        -- intros u r. pcase u t; [|apply H]. unfold holding; cbn [t_pc t_held setpc]. intro Hin. apply H. unfold holding. rewrite Hpc. assumption.
        -- intros u. pcase u t; [|apply N2]. specialize (N2 t). unfold holding in *. rewrite Hpc in N2. cbn [t_pc t_held setpc]. assumption.
      * (* wait *) injection Hs as <-. rewrite <- Hhead. pframe HI t Hpc. plk HI t Hpc.
    + assert (Hr1 : loc s r = 1) by (apply (Hd r lu); left; reflexivity).
      simpl in N1. apply NoDup_cons_iff in N1 as [Nr N1].
      destruct (expired maxage lu (now s)) eqn:Hex; [destruct (negb (gate_open (open s) (if Nat.eqb (t_dpan (ts s t)) 2 then 80 + r else 0))); [discriminate|]|]; injection Hs as <-.
      * (* destroy *)
        assert (Hx : holds (t_pc (setpc (ts s t) (if Nat.eqb (t_dpan (ts s t)) 1 then GPanic else GLoop))) = true)
          by (cbn [setpc t_pc]; destruct (Nat.eqb (t_dpan (ts s t)) 1); reflexivity).
        destruct (keep_lock limit s t _ HI Hhold Hx) as [K1 K2].
        constructor; cbn [lock created head waiters nextres now open ts trace loc ncreate ndestroy nleak]; auto.
        -- repeat split; try lia. intros u. pcase u t; [|apply C4]. cbn [setpc t_pc]. destruct (Nat.eqb (t_dpan (ts s t)) 1); discriminate.
        -- intros u r' Hin. assert (Hin' : In r' (holding (ts s u))).
           { pcase u t; [|assumption]. unfold holding in *. rewrite Hpc. cbn [setpc t_pc t_held] in Hin.
             destruct (Nat.eqb (t_dpan (ts s t)) 1); assumption. }
           pose proof (H _ _ Hin') as Hl. rewrite upd_other; [assumption|]. intro; subst r'. lia.
        -- intros r' lu' Hin. rewrite upd_other; [apply (Hd r' lu'); right; assumption|].
           intro; subst r'. apply Nr. apply in_map_iff. exists (r, lu'). auto.
        -- intros u. pcase u t; [|apply N2]. specialize (N2 t). unfold holding in *. rewrite Hpc in N2. cbn [setpc t_pc t_held].
           destruct (Nat.eqb (t_dpan (ts s t)) 1); assumption.
        -- intros r' Hr'. rewrite upd_other; [apply F; assumption|]. intro; subst r'. specialize (F _ Hr'). lia.
      * (* hand out *)
        destruct (keep_lock limit s t (setpc (ts s t) (GRet r)) HI Hhold eq_refl) as [K1 K2].
        constructor; cbn [lock created head waiters nextres now open ts trace loc ncreate ndestroy nleak]; auto.
        -- repeat split; try lia. intros u. pcase u t; [discriminate|apply C4].
        -- intros u r'. pcase u t.
           ++ unfold holding; cbn [t_pc t_held setpc]. intros [<-|Hin]; [apply upd_same|].
              assert (Hl : loc s r' = 3 + t) by (apply H; unfold holding; rewrite Hpc; assumption).
              rewrite upd_other; [assumption|]. intro; subst r'. lia.
           ++ intro Hin. pose proof (H _ _ Hin) as Hl. rewrite upd_other; [assumption|]. intro; subst r'. lia.
        -- intros r' lu' Hin. rewrite upd_other; [apply (Hd r' lu'); right; assumption|].
           intro; subst r'. apply Nr. apply in_map_iff. exists (r, lu'). auto.
        -- intros u. pcase u t; [|apply N2]. unfold holding; cbn [t_pc t_held setpc]. constructor.
           ++ intro Hin. assert (Hl : loc s r = 3 + t) by (apply H; unfold holding; rewrite Hpc; assumption). lia.
           ++ specialize (N2 t). unfold holding in N2. rewrite Hpc in N2. assumption.
        -- intros r' Hr'. rewrite upd_other; [apply F; assumption|]. intro; subst r'. specialize (F _ Hr'). lia.
  - (* GCb *) destruct (gate_open (open s) (t_gate (ts s t))); [|discriminate].
    destruct (Nat.eqb (t_cpan (ts s t)) 0); injection Hs as <-.
    + (* create() returns a new resource *)
      pose proof HI as [L1 L2 (C1 & C2 & C3 & C4) H Hd N1 N2 F].
      assert (Hhold : holds (t_pc (ts s t)) = true) by (rewrite Hpc; reflexivity).
      destruct (keep_lock limit s t (setpc (ts s t) (GRet (nextres s))) HI Hhold eq_refl) as [K1 K2].
      assert (Hr0 : loc s (nextres s) = 0) by (apply F; lia).
      pose proof (C4 t Hpc) as Hn1.
      constructor; cbn [lock created head waiters nextres now open ts trace loc ncreate ndestroy nleak]; auto.
      * repeat split; try lia. intros u. pcase u t; [discriminate|]. intro A.
        (* no other thread is inside create(): the lock is exclusive *)
        exfalso. apply E. assert (lock s = Some u) by (apply L1; rewrite A; reflexivity).
        assert (lock s = Some t) by (apply L1; assumption). congruence.
      * intros u r. pcase u t.
        -- unfold holding; cbn [t_pc t_held setpc]. intros [<-|Hin]; [apply upd_same|].
           assert (Hl : loc s r = 3 + t) by (apply H; unfold holding; rewrite Hpc; assumption).
           rewrite upd_other; [assumption|]. intro; subst r. lia.
        -- intro Hin. pose proof (H _ _ Hin) as Hl. rewrite upd_other; [assumption|]. intro; subst r. lia.
      * intros r lu Hin. pose proof (Hd _ _ Hin) as Hl. rewrite upd_other; [assumption|]. intro; subst r. lia.
      * intros u. pcase u t; [|apply N2]. unfold holding; cbn [t_pc t_held setpc]. constructor.
        -- intro Hin. assert (Hl : loc s (nextres s) = 3 + t) by (apply H; unfold holding; rewrite Hpc; assumption). lia.
        -- specialize (N2 t). unfold holding in N2. rewrite Hpc in N2. assumption.
      * intros r Hr. rewrite upd_other by lia. apply F. lia.
    + (* create() panics *) pframe HI t Hpc. plk HI t Hpc.
  - (* GWait *) destruct (existsb (Nat.eqb t) (waiters s)); [discriminate|]. injection Hs as <-. pframe HI t Hpc. plk HI t Hpc.
  - (* GRelock *) destruct (lock s) eqn:Hl; [discriminate|]. injection Hs as <-. pframe HI t Hpc. plk HI t Hpc.
  - (* GRet *) injection Hs as <-. pframe HI t Hpc. plk HI t Hpc.
  - (* GPanic *) injection Hs as <-. pframe HI t Hpc. plk HI t Hpc.
  - (* PNil *) injection Hs as <-. pframe HI t Hpc. plk HI t Hpc.
  - (* PLock *) destruct (lock s) eqn:Hl; [discriminate|]. injection Hs as <-. pframe HI t Hpc. plk HI t Hpc.
  - (* PPush *) injection Hs as <-.
    pose proof HI as [L1 L2 (C1 & C2 & C3 & C4) H Hd N1 N2 F].
    assert (Hhold : holds (t_pc (ts s t)) = true) by (rewrite Hpc; reflexivity).
    destruct (keep_lock limit s t (mkt PSignal (t_cpan (ts s t)) (t_gate (ts s t)) (t_dpan (ts s t)) (t_todo (ts s t)) ((x, 0) :: t_res (ts s t)) (t_held (ts s t))) HI Hhold eq_refl) as [K1 K2].
    assert (Hx : loc s x = 3 + t) by (apply H; unfold holding; rewrite Hpc; left; reflexivity).
    pose proof (N2 t) as N2t. unfold holding in N2t. rewrite Hpc in N2t. apply NoDup_cons_iff in N2t as [Nx N2t].
    constructor; cbn [lock created head waiters nextres now open ts trace loc ncreate ndestroy nleak]; auto.
    + repeat split; try lia. intros u. pcase u t; [discriminate|apply C4].
    + intros u r. pcase u t.
      * unfold holding; cbn [t_pc t_held]. intro Hin.
        rewrite upd_other; [apply H; unfold holding; rewrite Hpc; right; assumption|]. intro; subst r. contradiction.
      * intro Hin. pose proof (H _ _ Hin) as Hl. rewrite upd_other; [assumption|]. intro; subst r. lia.
    + intros r lu [Heq|Hin]; [injection Heq as <- <-; apply upd_same|].
      pose proof (Hd _ _ Hin) as Hl. rewrite upd_other; [assumption|]. intro; subst r. lia.
    + simpl. constructor; [|assumption]. intro Hin. apply in_map_iff in Hin as ([r lu] & Heq & Hin). simpl in Heq; subst r.
      specialize (Hd _ _ Hin). lia.
    + intros u. pcase u t; [|apply N2]. unfold holding; cbn [t_pc t_held]. assumption.
    + intros r Hr. rewrite upd_other; [apply F; assumption|]. intro; subst r. specialize (F _ Hr). lia.
  - (* PSignal *) injection Hs as <-. pframe HI t Hpc. plk HI t Hpc.
  - (* PUnlock *) injection Hs as <-. pframe HI t Hpc. plk HI t Hpc.
Qed.

Lemma prun_I limit maxage scripts sched : (0 <= limit)%Z ->
  PI limit (run (step limit maxage) sched (init scripts)).
Proof. intro H. apply run_inv; [apply pstep_I|apply pinit; assumption]. Qed.

(* live resources = #(create returned) - #destroy <= p.created <= limit; p.created additionally counts
   create() calls that are running or panicked (the code increments before calling create) *)
Lemma pool_bound limit maxage scripts sched : (0 <= limit)%Z ->
  let s := run (step limit maxage) sched (init scripts) in
  created s = (ncreate s + nleak s - ndestroy s)%Z /\ (0 <= nleak s)%Z /\ (ncreate s - ndestroy s <= limit)%Z.
Proof. intros H s. destruct (prun_I limit maxage scripts sched H) as [_ _ (C1 & C2 & C3 & _) _ _ _ _ _]. subst s. lia. Qed.

(* a resource is never in the hands of two threads, never both held and idle, never twice in the idle list *)
Lemma pool_single_holder limit maxage scripts sched : (0 <= limit)%Z ->
  let s := run (step limit maxage) sched (init scripts) in
  (forall t u r, In r (holding (ts s t)) -> In r (holding (ts s u)) -> t = u) /\
  (forall t r lu, In r (holding (ts s t)) -> ~ In (r, lu) (head s)) /\
  NoDup (map fst (head s)) /\ (forall t, NoDup (holding (ts s t))).
Proof.
  intros H s. destruct (prun_I limit maxage scripts sched H) as [_ _ _ Hh Hd N1 N2 _]. subst s.
  repeat split; auto.
  - intros t u r A B. pose proof (Hh _ _ A). pose proof (Hh _ _ B). lia.
  - intros t r lu A B. pose proof (Hh _ _ A). pose proof (Hd _ _ B). lia.
Qed.

(* the pool's mutex is exclusive; in particular the create/destroy callbacks run while no other
   Get/Put is inside the pool *)
Lemma pool_mutex limit maxage scripts sched t u : (0 <= limit)%Z ->
  let s := run (step limit maxage) sched (init scripts) in
  holds (t_pc (ts s t)) = true -> holds (t_pc (ts s u)) = true -> t = u.
Proof.
  intros H s A B. destruct (prun_I limit maxage scripts sched H) as [L1 _ _ _ _ _ _ _]. subst s.
  pose proof (L1 _ A). pose proof (L1 _ B). congruence.
Qed.

(* an idle resource older than maxAge met by Get is destroyed, not handed out (Get then continues,
   or is unwound if the destroy callback panics); and a destroyed resource is nowhere ever after *)
Lemma pool_max_age_step limit maxage s t r lu rest :
  t_pc (ts s t) = GLoop -> head s = (r, lu) :: rest -> 0 < maxage -> lu + maxage < now s ->
  gate_open (open s) (if Nat.eqb (t_dpan (ts s t)) 2 then 80 + r else 0) = true ->   (* the destroy callback returns *)
  exists s', step limit maxage (Thr t) s = Some s' /\ loc s' r = 2 /\ head s' = rest /\
             t_pc (ts s' t) = (if Nat.eqb (t_dpan (ts s t)) 1 then GPanic else GLoop) /\
             t_held (ts s' t) = t_held (ts s t) /\ t_res (ts s' t) = t_res (ts s t) /\
             ndestroy s' = (ndestroy s + 1)%Z /\ created s' = (created s - 1)%Z.
Proof.
  intros Hpc Hh Hm Hlt Hg. unfold step. rewrite Hpc, Hh, Hg. unfold expired.
  assert (Nat.ltb 0 maxage = true) as -> by (apply Nat.ltb_lt; assumption).
  assert (Nat.ltb (lu + maxage) (now s) = true) as -> by (apply Nat.ltb_lt; assumption).
  simpl. eexists. split; [reflexivity|]. simpl. rewrite !upd_same. repeat split; auto.
Qed.

Lemma pool_not_expired_step limit maxage s t r lu rest s' :
  t_pc (ts s t) = GLoop -> head s = (r, lu) :: rest -> step limit maxage (Thr t) s = Some s' ->
  t_pc (ts s' t) = GRet r -> maxage = 0 \/ now s <= lu + maxage.
Proof.
  intros Hpc Hh Hs Hr. unfold step in Hs. rewrite Hpc, Hh in Hs. unfold expired in Hs.
  destruct (Nat.ltb 0 maxage) eqn:E1; [|apply Nat.ltb_ge in E1; left; lia].
  destruct (Nat.ltb (lu + maxage) (now s)) eqn:E2; [|apply Nat.ltb_ge in E2; right; lia].
  cbn [andb] in Hs. destruct (negb (gate_open (open s) (if Nat.eqb (t_dpan (ts s t)) 2 then 80 + r else 0))); [discriminate|].
  injection Hs as <-. simpl in Hr. rewrite upd_same in Hr. simpl in Hr.
  destruct (Nat.eqb (t_dpan (ts s t)) 1); discriminate.
Qed.

Lemma pool_destroyed_gone limit maxage scripts sched r : (0 <= limit)%Z ->
  let s := run (step limit maxage) sched (init scripts) in
  loc s r = 2 -> (forall t, ~ In r (holding (ts s t))) /\ (forall lu, ~ In (r, lu) (head s)).
Proof.
  intros H s Hl. destruct (prun_I limit maxage scripts sched H) as [_ _ _ Hh Hd _ _ _]. subst s.
  split; [intros t A; specialize (Hh _ _ A); lia | intros lu A; specialize (Hd _ _ A); lia].
Qed.

(* destroyed is final: loc never leaves 2 *)
Lemma pool_destroyed_stable limit maxage l s s' r : PI limit s -> step limit maxage l s = Some s' -> loc s r = 2 -> loc s' r = 2.
Proof.
  intros HI Hs Hl. destruct HI as [_ _ _ Hh Hd _ _ F].
  destruct l as [t|g|d]; [| injection Hs as <-; assumption | injection Hs as <-; assumption ].
  unfold step in Hs. destruct (t_pc (ts s t)) eqn:Hpc.
  - destruct (t_todo (ts s t)) as [|o rest]; [discriminate|]. destruct (o_code o) as [|[|[|k]]]; try (injection Hs as <-; assumption);
      (destruct (t_held (ts s t)); injection Hs as <-; assumption).
  - destruct (lock s); [discriminate|]. injection Hs as <-; assumption.
  - destruct (head s) as [|[r' lu] rest] eqn:Hhead.
    + destruct (Z.ltb (created s) limit); injection Hs as <-; assumption.
    + assert (loc s r' = 1) by (apply (Hd r' lu); left; reflexivity).
      destruct (expired maxage lu (now s)); [destruct (negb (gate_open (open s) (if Nat.eqb (t_dpan (ts s t)) 2 then 80 + r' else 0))); [discriminate|]|];
        injection Hs as <-; simpl; (destruct (Nat.eq_dec r r') as [->|Hne]; [lia|rewrite upd_other by assumption; assumption]).
  - destruct (gate_open (open s) (t_gate (ts s t))); [|discriminate].
    destruct (Nat.eqb (t_cpan (ts s t)) 0); injection Hs as <-; [|assumption]. simpl.
    rewrite upd_other; [assumption|]. intro; subst r. rewrite F in Hl by lia. discriminate.
  - destruct (existsb (Nat.eqb t) (waiters s)); [discriminate|]. injection Hs as <-; assumption.
  - destruct (lock s); [discriminate|]. injection Hs as <-; assumption.
  - injection Hs as <-; assumption.
  - injection Hs as <-; assumption.
  - injection Hs as <-; assumption.
  - destruct (lock s); [discriminate|]. injection Hs as <-; assumption.
  - injection Hs as <-. simpl. assert (loc s x = 3 + t) by (apply Hh; unfold holding; rewrite Hpc; left; reflexivity).
    destruct (Nat.eq_dec r x) as [->|Hne]; [lia|rewrite upd_other by assumption; assumption].
  - injection Hs as <-; assumption.
  - injection Hs as <-; assumption.
Qed.

(* resources whose create callback is in progress count: live + in progress (+ slots lost to panicked
   creates) never exceeds the limit; in particular while some thread is inside create there is room
   for the resource it is making *)
Lemma pool_bound_in_progress limit maxage scripts sched : (0 <= limit)%Z ->
  let s := run (step limit maxage) sched (init scripts) in
  ((ncreate s - ndestroy s) + nleak s <= limit)%Z /\
  (forall t, t_pc (ts s t) = GCb -> ((ncreate s - ndestroy s) + 1 <= limit)%Z) /\
  (forall t u, t_pc (ts s t) = GCb -> t_pc (ts s u) = GCb -> t = u).
Proof.
  intros H s. destruct (prun_I limit maxage scripts sched H) as [L1 _ (C1 & C2 & C3 & C4) _ _ _ _ _]. subst s.
  repeat split.
  - lia.
  - intros t A. specialize (C4 t A). lia.
  - intros t u A B. assert (lock (run (step limit maxage) sched (init scripts)) = Some t) by (apply L1; rewrite A; reflexivity).
    assert (lock (run (step limit maxage) sched (init scripts)) = Some u) by (apply L1; rewrite B; reflexivity). congruence.
Qed.

(* Put(nil) gives nothing back: the state of the pool is untouched, in particular p.created *)
Lemma pool_put_nil_noop limit maxage s t : t_pc (ts s t) = PNil ->
  exists s', step limit maxage (Thr t) s = Some s' /\ created s' = created s /\ head s' = head s /\
             waiters s' = waiters s /\ lock s' = lock s /\ t_pc (ts s' t) = Idle /\ t_held (ts s' t) = t_held (ts s t).
Proof.
  intro Hpc. unfold step. rewrite Hpc. eexists. split; [reflexivity|]. cbn [created head waiters lock ts]. rewrite upd_same. auto 10.
Qed.

(* a slow destroy callback: while it has not returned, Get stays where it is, holding p.lock -- so no
   replacement is created or handed out before the expired resource is gone *)
Lemma pool_destroy_blocks limit maxage s t r lu rest :
  t_pc (ts s t) = GLoop -> head s = (r, lu) :: rest -> expired maxage lu (now s) = true ->
  gate_open (open s) (if Nat.eqb (t_dpan (ts s t)) 2 then 80 + r else 0) = false ->
  step limit maxage (Thr t) s = None.
Proof. intros Hpc Hh He Hg. unfold step. rewrite Hpc, Hh, He, Hg. reflexivity. Qed.
