(* C18 ProofsSpin: SpinLock with the contended path as separate steps, DoneChan.Close through
   sync.Once -- for all schedules; and computed counter-examples for the non-atomic variants. *)
From God Require Import Base.Prelude C18.Conc C18.Spec C18.Model.

Module SPINLP.
Import SPINL.

Definition no_obs (p : pc) : bool := match p with Obs _ _ => false | _ => true end.

Definition SI (s : state) : Prop :=
  (misuse s = true \/ (lockw s = false /\ cs s = []) \/ (lockw s = true /\ exists t, cs s = [t])) /\
  (forall t, no_obs (t_pc (ts s t)) = true).

Lemma si_step l s s' : SI s -> step true l s = Some s' -> SI s'.
Proof.
  intros [H N] Hs. destruct l as [t| |]; [|discriminate|discriminate].
  unfold step in Hs.
  assert (Hn : forall x' , no_obs (t_pc x') = true -> forall u, no_obs (t_pc (upd (ts s) t x' u)) = true).
  { intros x' Hx u. unfold upd. destruct (Nat.eqb u t); [assumption|apply N]. }
  destruct (t_pc (ts s t)) eqn:Hpc.
  - destruct (t_todo (ts s t)) as [|o rest]; [discriminate|]. injection Hs as <-. split; [exact H|].
    simpl. apply Hn. simpl. destruct (o_code o) as [|[|k]]; reflexivity.
  - destruct (lockw s) eqn:Hl; injection Hs as <-; (split; [|simpl; apply Hn; reflexivity]); simpl.
    + exact H.
    + destruct H as [H|[[_ H]|[H _]]]; [auto| |congruence]. right; right. rewrite H. eauto.
  - injection Hs as <-. split; [exact H|]. simpl. apply Hn. reflexivity.
  - destruct (lockw s) eqn:Hl; injection Hs as <-; (split; [|simpl; apply Hn; reflexivity]); simpl.
    + exact H.
    + destruct H as [H|[[_ H]|[H _]]]; [auto| |congruence]. right; right. rewrite H. eauto.
  - specialize (N t). rewrite Hpc in N. discriminate.
  - injection Hs as <-. split; [|simpl; apply Hn; reflexivity]. simpl.
    destruct H as [H|[[H0 H]|[H0 [u H]]]].
    + left. rewrite H. reflexivity.
    + left. rewrite H. simpl. apply orb_true_r.
    + rewrite H. simpl. destruct (Nat.eqb u t) eqn:E; simpl.
      * right; left. auto.
      * left. rewrite Nat.eqb_sym, E. simpl. apply orb_true_r.
Qed.

(* however many goroutines spin or arrive while the holder unlocks: at most one holder *)
Lemma spinl_mutex scripts sched :
  let s := run (step true) sched (init scripts) in
  misuse s = true \/ (lockw s = false /\ cs s = []) \/ (lockw s = true /\ exists t, cs s = [t]).
Proof.
  intros s. assert (H : SI s); [|apply H]. subst s. apply run_inv; [apply si_step|].
  split; [right; left; auto|reflexivity].
Qed.

(* "load, see 0, then store 1" is not a lock: two goroutines end up holding it, nobody misused it *)
Lemma spinl_load_store_refuted :
  exists scripts sched, let s := run (step false) sched (init scripts) in misuse s = false /\ cs s = [1; 0].
Proof.
  exists (fun t => match t with 0 | 1 => [mkop 0 0 0 0] | _ => [] end).
  exists [Thr 0; Thr 1; Thr 0; Thr 1; Thr 0; Thr 1]. vm_compute. split; reflexivity.
Qed.
End SPINLP.

Module DONELP.
Import DONEL.

Definition no_w (p : pc) : bool := match p with WCas | WClose => false | _ => true end.

Definition DI (s : state) : Prop :=
  closed s = flag s /\ ncloses s = (if closed s then 1 else 0) /\ early s = false /\
  (returned s = true -> closed s = true) /\
  (forall t, t_pc (ts s t) = OUnlock -> closed s = true) /\
  (forall t, no_w (t_pc (ts s t)) = true).

Lemma di_step l s s' : DI s -> step true l s = Some s' -> DI s'.
Proof.
  intros (C & N & E & R & U & W) Hs. destruct l as [t| |]; [|discriminate|discriminate].
  unfold step in Hs.
  assert (Hw : forall x', no_w (t_pc x') = true -> forall u, no_w (t_pc (upd (ts s) t x' u)) = true).
  { intros x' Hx u. unfold upd. destruct (Nat.eqb u t); [assumption|apply W]. }
  assert (Hu : forall x' cl, (t_pc x' = OUnlock -> cl = true) -> (closed s = true -> cl = true) ->
                forall u, t_pc (upd (ts s) t x' u) = OUnlock -> cl = true).
  { intros x' cl Hx Hc u. unfold upd. destruct (Nat.eqb u t); [assumption|]. intro A. apply Hc. apply (U u A). }
  Ltac dfin E C Hu Hw :=
    repeat split; simpl; auto; try (rewrite E, C; reflexivity); try congruence;
    try (apply Hu; auto; try discriminate; try congruence); try (apply Hw; reflexivity).
  destruct (t_pc (ts s t)) eqn:Hpc.
  - destruct (t_todo (ts s t)) as [|o rest]; [discriminate|]. injection Hs as <-. dfin E C Hu Hw.
    + simpl. destruct (o_code o); discriminate.
    + apply Hw. simpl. destruct (o_code o); reflexivity.
  - destruct (flag s) eqn:Hf; injection Hs as <-; dfin E C Hu Hw.
  - destruct (mu s); [discriminate|]. injection Hs as <-. dfin E C Hu Hw.
  - destruct (flag s) eqn:Hf; injection Hs as <-.
    + dfin E C Hu Hw.
    + rewrite C in N. dfin E C Hu Hw. rewrite C, N. reflexivity.
  - injection Hs as <-. assert (Hc : closed s = true) by (apply (U t); assumption). dfin E Hc Hu Hw.
  - specialize (W t). rewrite Hpc in W. discriminate.
  - specialize (W t). rewrite Hpc in W. discriminate.
  - injection Hs as <-. dfin E C Hu Hw.
Qed.

(* once ANY Close has returned the channel is closed -- in particular for a caller that lost the
   race; close(dc.done) runs exactly once *)
Lemma donel_closed_after_return scripts sched :
  let s := run (step true) sched (init scripts) in
  (returned s = true -> closed s = true) /\ early s = false /\ ncloses s = (if closed s then 1 else 0).
Proof.
  intros s. assert (H : DI s).
  { subst s. apply run_inv; [apply di_step|]. repeat split; simpl; auto; intros; discriminate. }
  destruct H as (C & N & E & R & _). auto.
Qed.

(* "CAS a flag, the winner closes": the loser's Close returns while Done() is still open *)
Lemma donel_flag_refuted :
  exists scripts sched, let s := run (step false) sched (init scripts) in returned s = true /\ closed s = false /\ early s = true.
Proof.
  exists (fun t => match t with 0 | 1 => [mkop 0 0 0 0] | _ => [] end).
  exists [Thr 0; Thr 1; Thr 0; Thr 1]. vm_compute. repeat split; reflexivity.
Qed.
End DONELP.

(* ---- TimeoutLimit: a Borrow woken by a Return takes the freed slot, whatever its timeout ---- *)
Lemma tl_woken_takes_slot timeout spent e r : TL.loop timeout spent (TL.Signal e true :: r) = Some (0, (spent + e)%Z).
Proof. reflexivity. Qed.
