(* C18 Proofs: the lemmas live in one file per primitive; this file re-exports them. *)
From God Require Export C18.ProofsSF C18.ProofsLC C18.ProofsAO C18.ProofsPool C18.ProofsRM C18.ProofsTL.
From God Require Export C18.ProofsRef.
