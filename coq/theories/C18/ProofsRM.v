(* C18 ProofsRM: resourcemanager.go -- at most one flight (hence one create in progress) per key,
   at most one successful create per key while the manager is open, Close closes every stored
   resource; for all schedules and any number of threads. *)
From God Require Import Base.Prelude C18.Conc C18.Spec C18.Model C18.ProofsSF.
Import RM.

Definition rown_of (p : pc) : option nat :=
  match p with
  | FRLock c | FRead c | FRUnlockHit c | FRUnlockMiss c | CrB c | CrE c | FWLock c | FPut c | FWUnlock c | SDel c => Some c
  | _ => None
  end.

Definition cons (s : state) (k : nat) : Prop :=
  ncre s k = match alookup Nat.eqb k (resources s) with Some _ => 1 | None => 0 end.

Definition stage_ok (s : state) (x : tstate) : Prop :=
  match t_pc x with
  | FRUnlockMiss _ | CrB _ | CrE _ => alookup Nat.eqb (t_key x) (resources s) = None /\ ncre s (t_key x) = 0
  | FWLock _ | FPut _ => alookup Nat.eqb (t_key x) (resources s) = None /\ ncre s (t_key x) = 1
  | FRLock _ | FRead _ | FRUnlockHit _ | FWUnlock _ | SDel _ => cons s (t_key x)
  | _ => True
  end.

Record RI (s : state) : Prop := mkRI {
  r_map : forall k c, alookup Nat.eqb k (calls s) = Some c ->
                      rown_of (t_pc (ts s (cre s c))) = Some c /\ t_key (ts s (cre s c)) = k;
  r_map' : forall t c, rown_of (t_pc (ts s t)) = Some c -> alookup Nat.eqb (t_key (ts s t)) (calls s) = Some c;
  r_own : forall t c, rown_of (t_pc (ts s t)) = Some c -> cre s c = t /\ c < next s;
  r_free : closed s = false -> forall k, alookup Nat.eqb k (calls s) = None -> cons s k;
  r_stage : closed s = false -> forall t, stage_ok s (ts s t);
  r_done : forall c, wg s c = 0 \/ rown_of (t_pc (ts s (cre s c))) = Some c
}.

Lemma rinit scripts : RI (init scripts).
Proof. constructor; simpl; intros; try discriminate; auto; reflexivity. Qed.

Lemma r_unique s t u c d : RI s ->
  rown_of (t_pc (ts s t)) = Some c -> rown_of (t_pc (ts s u)) = Some d ->
  t_key (ts s t) = t_key (ts s u) -> t = u.
Proof.
  intros HI Ht Hu Hk.
  pose proof (r_map' _ HI _ _ Ht) as A. pose proof (r_map' _ HI _ _ Hu) as B. rewrite Hk in A.
  assert (c = d) by congruence. subst d.
  destruct (r_own _ HI _ _ Ht) as (E1 & _). destruct (r_own _ HI _ _ Hu) as (E2 & _). congruence.
Qed.

Lemma stage_ok_ext s s' x : resources s' = resources s -> ncre s' = ncre s -> stage_ok s x -> stage_ok s' x.
Proof. unfold stage_ok, cons. intros -> ->. auto. Qed.

Lemma RI_frame s s' t :
  RI s ->
  calls s' = calls s -> wg s' = wg s -> next s' = next s -> cre s' = cre s -> resources s' = resources s ->
  closed s' = closed s -> ncre s' = ncre s ->
  (forall u, u <> t -> ts s' u = ts s u) ->
  let p := t_pc (ts s t) in let p' := t_pc (ts s' t) in
  (t_key (ts s' t) = t_key (ts s t) \/ rown_of p' = None) ->
  rown_of p' = rown_of p ->
  (closed s = false -> stage_ok s (ts s t) -> stage_ok s (ts s' t)) ->
  RI s'.
Proof.
  intros [M M' O F St Dn] Ec Ew En Ecr Er Ecl Enc Ets p p' Hkey Hown Hst.
  constructor; rewrite ?Ec, ?Ew, ?En, ?Ecr, ?Ecl; auto.
  - intros k c Hk. destruct (M _ _ Hk) as [A B]. destruct (Nat.eq_dec (cre s c) t) as [E|Hne].
    + rewrite E in *. fold p in A. fold p'. rewrite Hown. split; [assumption|].
      destruct Hkey as [Hkey|Hkey]; [congruence|]. rewrite Hown in Hkey. congruence.
    + rewrite (Ets _ Hne). auto.
  - intros u c. destruct (Nat.eq_dec u t) as [->|Hne].
    + fold p'. rewrite Hown. intro A. destruct Hkey as [Hkey|Hkey]; [rewrite Hkey; auto|]. rewrite Hown in Hkey. congruence.
    + rewrite (Ets _ Hne). auto.
  - intros u c. destruct (Nat.eq_dec u t) as [->|Hne].
    + fold p'. rewrite Hown. apply O.
    + rewrite (Ets _ Hne). auto.
  - intros Hc k Hk. unfold cons. rewrite Er, Enc. apply F; assumption.
  - intros Hc u. apply (stage_ok_ext s); auto. destruct (Nat.eq_dec u t) as [->|Hne].
    + apply Hst; auto.
    + rewrite (Ets _ Hne). auto.
  - intros c. destruct (Dn c) as [D|D]; [auto|]. right.
    destruct (Nat.eq_dec (cre s c) t) as [E|Hne]; [|rewrite (Ets _ Hne); assumption].
    rewrite E in *. fold p in D. fold p'. congruence.
Qed.

Ltac rsp := cbn [setpc setpcr t_pc t_key t_gate t_fail t_rv t_re t_todo t_res rown_of].

Ltac rframe HI t Hpc :=
  eapply (RI_frame _ _ t HI); cbn [calls wg cval cerr next resources closed readers writer nextid open ts trace cre ncre closedids];
  try reflexivity; try (symmetry; assumption); [ intros ? ?; apply upd_other; assumption | rewrite ?upd_same, ?Hpc; rsp .. ];
  try solve [ auto | reflexivity | (intros _; unfold stage_ok; rewrite ?Hpc; rsp; auto) ].

Lemma rstep_I l s s' : RI s -> step l s = Some s' -> RI s'.
Proof.
  intros HI Hs. destruct l as [t|g|d]; [| injection Hs as <-; destruct HI; constructor; simpl; auto | discriminate].
  unfold step in Hs.
  destruct (t_pc (ts s t)) eqn:Hpc.
  - (* Idle *) destruct (t_todo (ts s t)) as [|o rest]; [discriminate|].
    destruct (o_code o) as [|[|[|k]]]; injection Hs as <-; rframe HI t Hpc.
  - (* SGate *) destruct (gate_open (open s) (t_gate (ts s t))); [|discriminate]. injection Hs as <-. rframe HI t Hpc.
  - (* SReg *) destruct (alookup Nat.eqb (t_key (ts s t)) (calls s)) as [c|] eqn:Hlk; injection Hs as <-.
    + rframe HI t Hpc.
    + pose proof HI as [M M' O F St Dn].
      assert (Hmapc : forall k c, alookup Nat.eqb k (calls s) = Some c -> c < next s /\ cre s c <> t).
      { intros k c Hk. destruct (M _ _ Hk) as [A B]. destruct (O _ _ A) as (O1 & O2). split; [assumption|].
        intro E. rewrite E, Hpc in A. discriminate. }
      constructor; cbn [calls wg cval cerr next resources closed readers writer nextid open ts trace cre ncre closedids].
      * intros k c. destruct (Nat.eq_dec k (t_key (ts s t))) as [->|Hk].
        -- rewrite alookup_aset_eq. intro E'; injection E' as <-. rewrite !upd_same. rsp. auto.
        -- rewrite alookup_aset_neq by assumption. intro Hk'. destruct (Hmapc _ _ Hk') as [A B].
           rewrite (upd_other (cre s)) by lia. rewrite upd_other by assumption. apply M; assumption.
      * intros u c. case_t u t; rsp.
        -- intro E'; injection E' as <-. apply alookup_aset_eq.
        -- intro A. specialize (M' _ _ A). rewrite alookup_aset_neq; [assumption|]. intro E'. rewrite E' in M'. congruence.
      * intros u c. case_t u t; rsp.
        -- intro E'; injection E' as <-. rewrite !upd_same. auto.
        -- intro A. destruct (O _ _ A) as (O1 & O2). rewrite !upd_other by lia. auto.
      * intros Hc k. destruct (Nat.eq_dec k (t_key (ts s t))) as [->|Hk].
        -- rewrite alookup_aset_eq. discriminate.
        -- rewrite alookup_aset_neq by assumption. apply F. assumption.
      * intros Hc u. case_t u t.
        -- unfold stage_ok. rsp. apply (F Hc). assumption.
        -- apply (St Hc).
      * intros c. destruct (Nat.eq_dec c (next s)) as [->|Hn].
        -- right. rewrite !upd_same. reflexivity.
        -- rewrite !(upd_other _ (next s)) by assumption. destruct (Dn c) as [D|D]; [auto|]. right.
           case_t (cre s c) t; [rewrite Hpc in D; discriminate|assumption].
  - (* SWait *) destruct (Nat.eqb (wg s c) 0); [|discriminate]. injection Hs as <-. rframe HI t Hpc.
  - (* FRLock *) destruct (writer s); [discriminate|]. injection Hs as <-. rframe HI t Hpc.
  - (* FRead *) destruct (alookup Nat.eqb (t_key (ts s t)) (resources s)) as [id|] eqn:Hr; injection Hs as <-; rframe HI t Hpc.
    intros _. unfold stage_ok, cons. rewrite Hpc. rsp. rewrite Hr. auto.
  - (* FRUnlockHit *) injection Hs as <-. rframe HI t Hpc.
  - (* FRUnlockMiss *) injection Hs as <-. rframe HI t Hpc.
  - (* CrB *) injection Hs as <-. rframe HI t Hpc.
  - (* CrE *) destruct (gate_open (open s) (t_gate (ts s t))); [|discriminate].
    destruct (Nat.eqb (t_fail (ts s t)) 0 || Nat.eqb (t_fail (ts s t)) 3); injection Hs as <-.
    + pose proof HI as [M M' O F St Dn].
      assert (Hmine : alookup Nat.eqb (t_key (ts s t)) (calls s) = Some c) by (apply M'; rewrite Hpc; reflexivity).
      constructor; cbn [calls wg cval cerr next resources closed readers writer nextid open ts trace cre ncre closedids].
      * intros k c' Hk. destruct (M _ _ Hk) as [A B]. case_t (cre s c') t; rsp; [|auto]. rewrite Hpc in A. auto.
      * intros u c'. case_t u t; rsp; [|apply M']. intro A. apply M'. rewrite Hpc. assumption.
      * intros u c'. case_t u t; rsp; [|apply O]. intro A. apply O. rewrite Hpc. assumption.
      * intros Hc k Hk. unfold cons. cbn [ncre resources]. rewrite upd_other; [apply F; assumption|]. intro; subst k. congruence.
      * intros Hc u. case_t u t.
        -- pose proof (St Hc t) as S1. unfold stage_ok in *. rewrite Hpc in S1. rsp. cbn [ncre resources]. rewrite upd_same. destruct S1 as [S1 S2]. split; [assumption|lia].
        -- pose proof (St Hc u) as S1. unfold stage_ok, cons in *. cbn [ncre resources].
           destruct (Nat.eq_dec (t_key (ts s u)) (t_key (ts s t))) as [Ek|Ek]; [|rewrite upd_other by assumption; assumption].
           destruct (rown_of (t_pc (ts s u))) as [d|] eqn:Hou.
           ++ exfalso. apply E. apply (r_unique s u t d c HI Hou); [rewrite Hpc; reflexivity|assumption].
           ++ destruct (t_pc (ts s u)); simpl in Hou; try discriminate; exact Logic.I.
      * intros c'. destruct (Dn c') as [D|D]; [auto|]. right. case_t (cre s c') t; rsp; [rewrite Hpc in D; assumption|assumption].
    + rframe HI t Hpc. intros _. unfold stage_ok, cons. rewrite Hpc. rsp. intros [-> ->]. reflexivity.
  - (* FWLock *) destruct (writer s); [discriminate|]. destruct (readers s); [|discriminate]. injection Hs as <-. rframe HI t Hpc.
  - (* FPut *) destruct (closed s) eqn:Hcl; injection Hs as <-.
    + rframe HI t Hpc. congruence.
    + pose proof HI as [M M' O F St Dn].
      assert (Hmine : alookup Nat.eqb (t_key (ts s t)) (calls s) = Some c) by (apply M'; rewrite Hpc; reflexivity).
      constructor; cbn [calls wg cval cerr next resources closed readers writer nextid open ts trace cre ncre closedids].
      * intros k c' Hk. destruct (M _ _ Hk) as [A B]. case_t (cre s c') t; rsp; [|auto]. rewrite Hpc in A. auto.
      * intros u c'. case_t u t; rsp; [|apply M']. intro A. apply M'. rewrite Hpc. assumption.
      * intros u c'. case_t u t; rsp; [|apply O]. intro A. apply O. rewrite Hpc. assumption.
      * intros Hc k Hk. unfold cons. cbn [ncre resources]. rewrite alookup_aset_neq; [apply (F Hcl); assumption|]. intro; subst k. congruence.
      * intros Hc u. case_t u t.
        -- pose proof (St Hcl t) as S1. unfold stage_ok, cons in *. rewrite Hpc in S1. rsp. cbn [ncre resources]. rewrite alookup_aset_eq. apply S1.
        -- pose proof (St Hcl u) as S1. unfold stage_ok, cons in *. cbn [ncre resources].
           destruct (Nat.eq_dec (t_key (ts s u)) (t_key (ts s t))) as [Ek|Ek]; [|rewrite alookup_aset_neq by assumption; assumption].
           destruct (rown_of (t_pc (ts s u))) as [d|] eqn:Hou.
           ++ exfalso. apply E. apply (r_unique s u t d c HI Hou); [rewrite Hpc; reflexivity|assumption].
           ++ destruct (t_pc (ts s u)); simpl in Hou; try discriminate; exact Logic.I.
      * intros c'. destruct (Dn c') as [D|D]; [auto|]. right. case_t (cre s c') t; rsp; [rewrite Hpc in D; assumption|assumption].
  - (* FWUnlock *) injection Hs as <-. rframe HI t Hpc.
  - (* SDel *) injection Hs as <-.
    pose proof HI as [M M' O F St Dn].
    assert (Hmine : alookup Nat.eqb (t_key (ts s t)) (calls s) = Some c) by (apply M'; rewrite Hpc; reflexivity).
    constructor; cbn [calls wg cval cerr next resources closed readers writer nextid open ts trace cre ncre closedids].
    + intros k c'. destruct (Nat.eq_dec k (t_key (ts s t))) as [->|Hk].
      * rewrite alookup_aremove_eq. discriminate.
      * rewrite alookup_aremove_neq by assumption. intro Hk'. destruct (M _ _ Hk') as [A B].
        case_t (cre s c') t; [congruence|auto].
    + intros u c'. case_t u t; rsp; [discriminate|]. intro A. pose proof (M' _ _ A) as B.
      rewrite alookup_aremove_neq; [assumption|]. intro E'.
      apply E. apply (r_unique s u t c' c HI A); [rewrite Hpc; reflexivity|assumption].
    + intros u c'. case_t u t; rsp; [discriminate|apply O].
    + intros Hc k. destruct (Nat.eq_dec k (t_key (ts s t))) as [->|Hk].
      * intros _. pose proof (St Hc t) as S1. unfold stage_ok in S1. rewrite Hpc in S1. exact S1.
      * rewrite alookup_aremove_neq by assumption. apply (F Hc).
    + intros Hc u. case_t u t; [exact Logic.I|]. apply (St Hc).
    + intros c'. destruct (Nat.eq_dec c' c) as [->|Hn]; [left; apply upd_same|].
      rewrite upd_other by assumption. destruct (Dn c') as [D|D]; [auto|]. right.
      case_t (cre s c') t; [rewrite Hpc in D; simpl in D; congruence|assumption].
  - (* CLock *) destruct (writer s); [discriminate|]. destruct (readers s); [|discriminate]. injection Hs as <-. rframe HI t Hpc.
  - (* CClose *) injection Hs as <-. destruct HI as [M M' O F St Dn].
    constructor; cbn [calls wg cval cerr next resources closed readers writer nextid open ts trace cre ncre closedids]; try discriminate.
    + intros k c' Hk. destruct (M _ _ Hk) as [A B]. case_t (cre s c') t; rsp; [rewrite Hpc in A; discriminate|auto].
    + intros u c'. case_t u t; rsp; [discriminate|apply M'].
    + intros u c'. case_t u t; rsp; [discriminate|apply O].
    + intros c'. destruct (Dn c') as [D|D]; [auto|]. right. case_t (cre s c') t; [rewrite Hpc in D; discriminate|assumption].
  - (* CUnlock *) injection Hs as <-. rframe HI t Hpc.
Qed.

Lemma rrun_I scripts sched : RI (run step sched (init scripts)).
Proof. apply run_inv; [apply rstep_I|apply rinit]. Qed.

(* at most one flight, hence at most one create() in progress, per key *)
Lemma rm_one_flight scripts sched t u c d :
  let s := run step sched (init scripts) in
  rown_of (t_pc (ts s t)) = Some c -> rown_of (t_pc (ts s u)) = Some d ->
  t_key (ts s t) = t_key (ts s u) -> t = u.
Proof. intros s; subst s. apply r_unique. apply rrun_I. Qed.

(* while the manager is open, create() succeeds at most once per key, and exactly when the key
   has (or is about to get) its stored resource *)
Lemma rm_one_create scripts sched k :
  let s := run step sched (init scripts) in
  closed s = false -> ncre s k <= 1.
Proof.
  intros s; subst s. set (s := run step sched (init scripts)). intro Hc.
  assert (HI : RI s) by apply rrun_I. clearbody s.
  destruct (alookup Nat.eqb k (calls s)) as [c|] eqn:Hk.
  - destruct (r_map _ HI _ _ Hk) as [A B]. pose proof (r_stage _ HI Hc (cre s c)) as S1.
    unfold stage_ok, cons in S1. rewrite B in S1.
    destruct (t_pc (ts s (cre s c))); simpl in A; try discriminate;
      try (destruct S1 as [_ S1]; lia); destruct (alookup Nat.eqb k (resources s)); lia.
  - pose proof (r_free _ HI Hc k Hk) as S1. unfold cons in S1. destruct (alookup Nat.eqb k (resources s)); lia.
Qed.

(* Close closes every stored resource exactly once -- whether or not its Close() returns an error
   (close_fails is arbitrary per resource) -- empties the table, and reports an error iff some
   resource failed *)
Lemma rm_close_all s t :
  t_pc (ts s t) = CClose ->
  exists s', step (Thr t) s = Some s' /\ resources s' = [] /\ closed s' = true /\
             closedids s' = map snd (resources s) ++ closedids s /\
             trace s' = rev (close_events t (resources s)) ++ trace s /\
             map e_a (close_events t (resources s)) = map snd (resources s) /\
             t_pc (ts s' t) = CUnlock /\ t_re (ts s' t) = close_err (resources s) /\
             (forall kv, In kv (resources s) ->
                In (mkev t KEnd 1 (snd kv) 0 (if close_fails (snd kv) then 1 else 0)) (trace s')).
Proof.
  intro Hpc. unfold step. rewrite Hpc. eexists. split; [reflexivity|].
  cbn [resources closed closedids trace ts]. rewrite upd_same. cbn [setpcr t_pc t_re]. repeat split; auto.
  - unfold close_events. rewrite map_map. reflexivity.
  - intros kv Hin. apply in_or_app. left. apply in_rev. rewrite rev_involutive.
    unfold close_events. apply in_map_iff. exists kv. auto.
Qed.

(* Close then returns what it collected *)
Lemma rm_close_result s t :
  t_pc (ts s t) = CUnlock ->
  exists s', step (Thr t) s = Some s' /\ t_res (ts s' t) = (t_re (ts s t), 0) :: t_res (ts s t) /\ writer s' = None.
Proof.
  intro Hpc. unfold step. rewrite Hpc. eexists. split; [reflexivity|]. cbn [ts writer]. rewrite upd_same. auto.
Qed.

(* the order in which the map is traversed does not matter *)
From Coq Require Import Sorting.Permutation.
Lemma rm_close_order t rs rs' : Permutation rs rs' ->
  Permutation (close_events t rs) (close_events t rs') /\ close_err rs = close_err rs' /\
  Permutation (map snd rs) (map snd rs').
Proof.
  intro H. repeat split.
  - unfold close_events. apply Permutation_map. assumption.
  - unfold close_err.
    assert (E : existsb (fun kv : nat * nat => close_fails (snd kv)) rs = existsb (fun kv => close_fails (snd kv)) rs').
    { induction H; simpl; auto.
      - rewrite IHPermutation. reflexivity.
      - destruct (close_fails (snd x)), (close_fails (snd y)); reflexivity.
      - congruence. }
    rewrite E. reflexivity.
  - apply Permutation_map. assumption.
Qed.

(* a create() that fails or panics winds the flight up like a successful one: once the call that
   ran the flight is gone, its waiters are released and the key has no entry *)
Lemma rm_panic_safe scripts sched :
  let s := run step sched (init scripts) in
  (forall u c, t_pc (ts s u) = SWait c -> rown_of (t_pc (ts s (cre s c))) <> Some c ->
               exists s', step (Thr u) s = Some s' /\ t_pc (ts s' u) = Idle) /\
  (forall k c, alookup Nat.eqb k (calls s) = Some c -> rown_of (t_pc (ts s (cre s c))) = Some c).
Proof.
  intros s; subst s. set (s := run step sched (init scripts)).
  assert (HI : RI s) by apply rrun_I. clearbody s. split.
  - intros u c Hpc Hgone. destruct (r_done _ HI c) as [W|W]; [|contradiction].
    unfold step. rewrite Hpc, W. simpl. eexists. split; [reflexivity|]. cbn [ts]. rewrite upd_same. reflexivity.
  - intros k c Hk. apply (r_map _ HI _ _ Hk).
Qed.
