(* C18 ProofsRef: refresource.go at the granularity of the code (lock; test/flag; callback under
   the lock; deferred unlock), for all schedules, any number of threads, callbacks that block on
   gates or panic. *)
From God Require Import Base.Prelude C18.Conc C18.Spec C18.Model.
Import REFL.

Record RL (s : state) : Prop := mkRL {
  rl_lock1 : forall t, holds (t_pc (ts s t)) = true -> lock s = Some t;
  rl_lock2 : forall t, lock s = Some t -> holds (t_pc (ts s t)) = true;
  rl_ncb : ncb s = if cleaned s then 1 else 0;
  rl_zero : cleaned s = true -> ref s = 0%Z;
  rl_cnt : ref s = (Z.of_nat (nuse s) - Z.of_nat (ncl s))%Z;
  (* the cleaned decision is taken before the callback starts *)
  rl_cb : forall t, (t_pc (ts s t) = CCb \/ exists r, 1 <= r /\ t_pc (ts s t) = CUnlock r) -> cleaned s = true
}.

Ltac rcase u t :=
  let E := fresh "E" in
  destruct (Nat.eq_dec u t) as [E|E];
  [ try rewrite !E in *; rewrite ?upd_same in * | rewrite ?(upd_other _ _ _ _ E) in * ].

(* a step of t that changes only t's program counter (and the mutex) *)
Lemma RL_pc s t lk x' tr :
  RL s -> let p' := t_pc x' in
  ((holds p' = true /\ lk = Some t /\ (lock s = None \/ lock s = Some t)) \/
   (holds p' = false /\ ((holds (t_pc (ts s t)) = true /\ lk = None) \/ (holds (t_pc (ts s t)) = false /\ lk = lock s)))) ->
  ((p' = CCb \/ exists r, 1 <= r /\ p' = CUnlock r) -> cleaned s = true) ->
  RL (mk lk (ref s) (cleaned s) (ncb s) (nuse s) (ncl s) (open s) (upd (ts s) t x') tr).
Proof.
  intros [L1 L2 N Z C B] p' Hlock Hcb. assert (Hp : t_pc x' = p') by reflexivity. clearbody p'. constructor; simpl; auto.
  - intros u Hu. rcase u t.
    + rewrite Hp in Hu. destruct Hlock as [(A & B' & _)|(A & _)]; congruence.
    + pose proof (L1 _ Hu) as L1u. destruct Hlock as [(A & B' & [D|D])|(A & [(B' & D)|(B' & D)])]; try congruence.
      pose proof (L1 t B'). congruence.
  - intros u Hu. rcase u t.
    + rewrite Hp. destruct Hlock as [(A & B' & D)|(A & [(B' & D)|(B' & D)])]; try congruence.
      rewrite D in Hu. specialize (L2 _ Hu). congruence.
    + apply L2. destruct Hlock as [(A & B' & D)|(A & [(B' & D)|(B' & D)])]; congruence.
  - intros u Hu. rcase u t; [rewrite Hp in Hu; auto|apply (B u); assumption].
Qed.

Ltac rlpc HI := apply RL_pc; [exact HI | cbv zeta; cbn [t_pc holds] | cbv zeta; cbn [t_pc]].

Lemma rl_step l s s' : RL s -> step l s = Some s' -> RL s'.
Proof.
  intros HI Hs. destruct l as [t|g|d]; [| injection Hs as <-; destruct HI; constructor; simpl; auto | discriminate].
  unfold step in Hs. pose proof HI as [L1 L2 N Z C B].
  destruct (t_pc (ts s t)) eqn:Hpc.
  - (* Idle *) destruct (t_todo (ts s t)) as [|o rest]; [discriminate|]. injection Hs as <-.
    constructor; cbn [lock ref cleaned ncb nuse ncl open ts trace]; auto.
    + intros u Hu. rcase u t; [simpl in Hu; destruct (o_code o); discriminate|auto].
    + intros u Hu. specialize (L2 _ Hu). rcase u t; [rewrite Hpc in L2; discriminate|auto].
    + intros u Hu. rcase u t; [simpl in Hu; destruct (o_code o); destruct Hu as [Hu|(r & _ & Hu)]; discriminate|apply (B u); assumption].
  - (* ULock *) destruct (lock s) eqn:Hl; [discriminate|]. injection Hs as <-.
    rlpc HI; [left; auto | intros [A|(r & _ & A)]; discriminate].
  - (* UBody *) assert (Hlk : lock s = Some t) by (apply L1; rewrite Hpc; reflexivity).
    destruct (cleaned s) eqn:Hc; injection Hs as <-.
    + rewrite <- Hc. rlpc HI; [left; rewrite Hlk; auto | intros [A|(r & _ & A)]; discriminate].
    + constructor; cbn [lock ref cleaned ncb nuse ncl open ts trace]; auto.
      * intros u Hu. rcase u t; auto.
      * intros u Hu. specialize (L2 _ Hu). rcase u t; auto.
      * discriminate.
      * lia.
      * intros u Hu. rcase u t; [destruct Hu as [Hu|(r & Hr & Hu)]; simpl in Hu; discriminate|].
        apply (B u); assumption.
  - (* UUnlock *) injection Hs as <-.
    rlpc HI; [right; split; [reflexivity|left; rewrite Hpc; auto] | intros [A|(r' & _ & A)]; discriminate].
  - (* CLock *) destruct (lock s) eqn:Hl; [discriminate|]. injection Hs as <-.
    rlpc HI; [left; auto | intros [A|(r & _ & A)]; discriminate].
  - (* CBody *) assert (Hlk : lock s = Some t) by (apply L1; rewrite Hpc; reflexivity).
    destruct (cleaned s) eqn:Hc.
    + injection Hs as <-. rewrite <- Hc. rlpc HI; [left; rewrite Hlk; auto | intros [A|(r & Hr & A)]; [discriminate|injection A as <-; lia]].
    + destruct (Z.eqb (ref s - 1) 0) eqn:Ez; injection Hs as <-.
      * constructor; cbn [lock ref cleaned ncb nuse ncl open ts trace]; auto.
        -- intros u Hu. rcase u t; auto.
        -- intros u Hu. specialize (L2 _ Hu). rcase u t; auto.
        -- lia.
      * constructor; cbn [lock ref cleaned ncb nuse ncl open ts trace]; auto.
        -- intros u Hu. rcase u t; auto.
        -- intros u Hu. specialize (L2 _ Hu). rcase u t; auto.
        -- discriminate.
        -- lia.
        -- intros u Hu. rcase u t; [destruct Hu as [Hu|(r & Hr & Hu)]; simpl in Hu; [discriminate|injection Hu as <-; lia]|].
           apply (B u); assumption.
  - (* CCb *) destruct (gate_open (open s) (t_gate (ts s t))); [|discriminate]. injection Hs as <-.
    assert (Hlk : lock s = Some t) by (apply L1; rewrite Hpc; reflexivity).
    rlpc HI; [left; rewrite Hlk; auto | intros _; apply (B t); left; assumption].
  - (* CUnlock *) injection Hs as <-.
    rlpc HI; [right; split; [reflexivity|left; rewrite Hpc; auto] | intros [A|(r' & _ & A)]; discriminate].
Qed.

Lemma rl_init scripts : RL (init scripts).
Proof. constructor; simpl; intros; try discriminate; auto. destruct H as [H|(r & _ & H)]; discriminate. Qed.

Lemma rl_run scripts sched : RL (run step sched (init scripts)).
Proof. apply run_inv; [apply rl_step|apply rl_init]. Qed.

(* the callback has started once if the resource is marked cleaned and never otherwise; cleaned
   implies count zero; count = successful Use - effective Clean; the mutex is exclusive; while the
   callback runs (or after it panicked) the resource is already marked *)
Lemma refl_clean_once scripts sched :
  let s := run step sched (init scripts) in
  ncb s = (if cleaned s then 1 else 0) /\ (cleaned s = true -> ref s = 0%Z) /\
  ref s = (Z.of_nat (nuse s) - Z.of_nat (ncl s))%Z /\
  (forall t u, holds (t_pc (ts s t)) = true -> holds (t_pc (ts s u)) = true -> t = u) /\
  (forall t, t_pc (ts s t) = CCb -> cleaned s = true).
Proof.
  intros s. destruct (rl_run scripts sched) as [L1 L2 N Z C B]. subst s. repeat split; auto.
  - intros t u A A'. pose proof (L1 _ A). pose proof (L1 _ A'). congruence.
  - intros t A. apply (B t). left. assumption.
Qed.

(* once cleaned: every Use that reaches its test is refused, no Clean decrements or starts the
   callback again, and nothing un-marks the resource -- whatever else is going on, including a
   callback that is still running or has panicked *)
Lemma refl_refuses_after l s s' : cleaned s = true -> step l s = Some s' ->
  cleaned s' = true /\ ncb s' = ncb s /\ ref s' = ref s /\ nuse s' = nuse s /\
  (forall t, l = Thr t -> t_pc (ts s t) = UBody -> t_pc (ts s' t) = UUnlock 1) /\
  (forall t, l = Thr t -> t_pc (ts s t) = CBody -> t_pc (ts s' t) = CUnlock 0).
Proof.
  intros Hc Hs. destruct l as [t|g|d]; [| injection Hs as <-; simpl; repeat split; auto; discriminate | discriminate].
  unfold step in Hs.
  Ltac fin_ra Hpc :=
    simpl; repeat split; auto;
    (let u := fresh "u" in let E := fresh "E" in let H' := fresh "H" in
     intros u E; injection E as <-; intro H'; first [ rewrite Hpc in H'; discriminate | rewrite upd_same; reflexivity ]).
  destruct (t_pc (ts s t)) eqn:Hpc.
  - destruct (t_todo (ts s t)); [discriminate|]. injection Hs as <-. fin_ra Hpc.
  - destruct (lock s); [discriminate|]. injection Hs as <-. fin_ra Hpc.
  - rewrite Hc in Hs. injection Hs as <-. fin_ra Hpc.
  - injection Hs as <-. fin_ra Hpc.
  - destruct (lock s); [discriminate|]. injection Hs as <-. fin_ra Hpc.
  - rewrite Hc in Hs. injection Hs as <-. fin_ra Hpc.
  - destruct (gate_open (open s) (t_gate (ts s t))); [|discriminate]. injection Hs as <-. fin_ra Hpc.
  - injection Hs as <-. fin_ra Hpc.
Qed.

(* the deferred Unlock runs whether the callback returns or panics *)
Lemma refl_unlock_after_callback s t :
  t_pc (ts s t) = CCb -> gate_open (open s) (t_gate (ts s t)) = true ->
  exists s1 s2 r, step (Thr t) s = Some s1 /\ t_pc (ts s1 t) = CUnlock r /\ 1 <= r /\
                  step (Thr t) s1 = Some s2 /\ lock s2 = None /\ t_pc (ts s2 t) = Idle.
Proof.
  intros Hpc Hg. unfold step at 1. rewrite Hpc, Hg. eexists. eexists. eexists. split; [reflexivity|].
  cbn [ts]. rewrite upd_same. cbn [t_pc]. split; [reflexivity|]. split; [destruct (Nat.eqb (t_pan (ts s t)) 0); lia|].
  unfold step. cbn [ts]. rewrite upd_same. cbn [t_pc]. split; [reflexivity|]. cbn [lock ts]. rewrite upd_same. auto.
Qed.
