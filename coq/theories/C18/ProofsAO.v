(* C18 ProofsAO: Limit, RefResource, OnceGuard, SpinLock, DoneChan -- invariants over all
   schedules and any number of threads. *)
From God Require Import Base.Prelude C18.Conc C18.Spec C18.Model.

Section Generic.
  Context {Ob : Type} (sstep : Ob -> nat -> op -> option (Ob * nat)).
  Notation step := (AO.step sstep).

  (* an invariant of the sequential steps is an invariant of every reachable state *)
  Lemma ao_inv (P : Ob -> Prop) o0 scripts :
    P o0 -> (forall ob t o ob' r, P ob -> sstep ob t o = Some (ob', r) -> P ob') ->
    forall sched, P (AO.obj (run step sched (AO.init o0 scripts))).
  Proof.
    intros H0 Hs sched. apply (run_inv step (fun s => P (AO.obj s))); [|exact H0].
    intros l s s' HP Hst. destruct l as [t| |]; simpl in Hst; try discriminate.
    destruct (AO.t_pend (AO.ts s t)) as [o|].
    - destruct (sstep (AO.obj s) t o) as [[ob' r]|] eqn:E; [|discriminate]. injection Hst as <-. simpl. eauto.
    - destruct (AO.t_todo (AO.ts s t)); [discriminate|]. injection Hst as <-. assumption.
  Qed.

  (* every response in every trace is the one the sequential step gives, in response order *)
  Lemma ao_trace o0 scripts sched :
    accepts (ao_mon_step sstep) (o0, fun _ => None) (rev (AO.trace (run step sched (AO.init o0 scripts)))) = true.
  Proof.
    set (Q := fun s : AO.state => exists pend, mon_run (ao_mon_step sstep) (o0, fun _ => None) (rev (AO.trace s)) = Some (AO.obj s, pend)
                                 /\ forall t, pend t = AO.t_pend (AO.ts s t)).
    assert (HQ : Q (run step sched (AO.init o0 scripts))).
    { apply (run_inv step Q).
      - intros l s s' (pend & Hm & Hp) Hst. destruct l as [t| |]; simpl in Hst; try discriminate.
        destruct (AO.t_pend (AO.ts s t)) as [o|] eqn:Hpend.
        + destruct (sstep (AO.obj s) t o) as [[ob' r]|] eqn:E; [|discriminate]. injection Hst as <-.
          exists (upd pend t None). split.
          * simpl. rewrite mon_run_app, Hm. simpl. rewrite Hp, Hpend, E, !Nat.eqb_refl. reflexivity.
          * intros u. simpl. unfold upd. destruct (Nat.eqb u t); [reflexivity|apply Hp].
        + destruct (AO.t_todo (AO.ts s t)) as [|o rest]; [discriminate|]. injection Hst as <-.
          exists (upd pend t (Some o)). split.
          * simpl. rewrite mon_run_app, Hm. simpl. rewrite Hp, Hpend. destruct o; reflexivity.
          * intros u. simpl. unfold upd. destruct (Nat.eqb u t); [reflexivity|apply Hp].
      - exists (fun _ => None). split; [reflexivity|]. intros; reflexivity. }
    destruct HQ as (pend & Hm & _). unfold accepts. now rewrite Hm.
  Qed.
End Generic.

(* ------------------------------------------------------------------ Limit *)
Definition lim_ok (n : nat) (s : LIM.st) : Prop := LIM.out s <= n /\ LIM.out s + LIM.nr s = LIM.nb s.

Lemma lim_step_ok n s t o s' r : lim_ok n s -> LIM.sstep n s t o = Some (s', r) -> lim_ok n s'.
Proof.
  unfold lim_ok, LIM.sstep. intros [H1 H2] H.
  destruct (o_code o) as [|[|k]].
  - destruct (Nat.ltb (LIM.out s) n) eqn:E; [|discriminate]. apply Nat.ltb_lt in E. injection H as <- <-. simpl. lia.
  - destruct (Nat.ltb (LIM.out s) n) eqn:E; injection H as <- <-; [apply Nat.ltb_lt in E; simpl; lia|auto].
  - destruct (Nat.eqb n 0); [injection H as <- <-; auto|]. destruct (LIM.out s) eqn:E; injection H as <- <-; simpl; [rewrite E|]; lia.
Qed.

Lemma lim_bound n scripts sched :
  lim_ok n (AO.obj (run (AO.step (LIM.sstep n)) sched (AO.init LIM.init scripts))).
Proof. apply ao_inv; [unfold lim_ok; simpl; lia|]. intros; eapply lim_step_ok; eauto. Qed.

(* Return answers ErrLimitReturn exactly when there is no outstanding borrow (on a limit of 0: always) *)
Lemma lim_return n s t : forall o, 2 <= o_code o ->
  exists s', LIM.sstep n s t o = Some (s', if Nat.eqb n 0 || Nat.eqb (LIM.out s) 0 then 1 else 0) /\
             (n = 0 \/ LIM.out s = 0 -> s' = s).
Proof.
  intros o Ho. unfold LIM.sstep. destruct (o_code o) as [|[|k]]; try lia.
  destruct (Nat.eqb n 0) eqn:En; simpl.
  - eexists; split; [reflexivity|auto].
  - apply Nat.eqb_neq in En. destruct (LIM.out s) eqn:E; simpl; eexists; split; try reflexivity; auto.
    intros [?|?]; [contradiction|discriminate].
Qed.

(* ------------------------------------------------------------------ RefResource *)
Definition ref_ok (s : REF.st) : Prop :=
  REF.ncb s = (if REF.cleaned s then 1 else 0) /\
  (REF.cleaned s = true -> REF.ref s = 0%Z) /\
  REF.ref s = (Z.of_nat (REF.nuse s) - Z.of_nat (REF.ncl s))%Z.

Lemma ref_step_ok s t o s' r : ref_ok s -> REF.sstep s t o = Some (s', r) -> ref_ok s'.
Proof.
  unfold ref_ok, REF.sstep. intros (H1 & H2 & H3) H.
  destruct (o_code o) as [|k]; destruct (REF.cleaned s) eqn:Ec; rewrite ?Ec in *.
  - injection H as <- <-. rewrite Ec. auto.
  - injection H as <- <-. cbn [REF.ref REF.cleaned REF.ncb REF.nuse REF.ncl]. repeat split; [assumption|discriminate|lia].
  - injection H as <- <-. rewrite Ec. auto.
  - destruct (Z.eqb (REF.ref s - 1) 0) eqn:Ez; injection H as <- <-; cbn [REF.ref REF.cleaned REF.ncb REF.nuse REF.ncl].
    + apply Z.eqb_eq in Ez. repeat split; lia.
    + repeat split; [assumption|discriminate|lia].
Qed.

Lemma ref_inv scripts sched : ref_ok (AO.obj (run (AO.step REF.sstep) sched (AO.init REF.init scripts))).
Proof. apply ao_inv; [unfold ref_ok; simpl; auto|]. intros; eapply ref_step_ok; eauto. Qed.

(* the callback runs in a Clean call (result 1, or 2 if it panics) exactly when that call takes the
   count to zero, and then the resource is marked cleaned for good *)
Lemma ref_clean_step s t o s' r : 1 <= o_code o -> REF.sstep s t o = Some (s', r) ->
  (1 <= r <-> REF.cleaned s = false /\ (REF.ref s - 1 = 0)%Z) /\
  (1 <= r -> REF.cleaned s' = true /\ REF.ncb s' = S (REF.ncb s)) /\
  (r = 0 -> REF.ncb s' = REF.ncb s) /\
  (REF.cleaned s = true -> s' = s).
Proof.
  unfold REF.sstep. intros Ho H. destruct (o_code o) as [|k]; [lia|].
  destruct (REF.cleaned s) eqn:Ec.
  - injection H as <- <-. repeat split; auto; try discriminate; try lia; try (intros [? _]; discriminate).
  - destruct (Z.eqb (REF.ref s - 1) 0) eqn:Ez; injection H as <- <-; cbn [REF.ref REF.cleaned REF.ncb REF.nuse REF.ncl].
    + apply Z.eqb_eq in Ez. repeat split; auto; try discriminate; destruct (Nat.eqb (o_a o) 0); lia.
    + apply Z.eqb_neq in Ez. repeat split; auto; try discriminate; try lia; try (intros [_ ?]; contradiction).
Qed.

Lemma ref_use_step s t o : o_code o = 0 ->
  REF.sstep s t o = Some (if REF.cleaned s then (s, 1) else (REF.mk (REF.ref s + 1) false (REF.ncb s) (S (REF.nuse s)) (REF.ncl s), 0)).
Proof. unfold REF.sstep. intros ->. destruct (REF.cleaned s); reflexivity. Qed.

Lemma ref_cleaned_stable s t o s' r : REF.cleaned s = true -> REF.sstep s t o = Some (s', r) -> s' = s.
Proof.
  unfold REF.sstep. intros Ec H. rewrite Ec in H. destruct (o_code o); injection H as <- <-; reflexivity.
Qed.

(* ------------------------------------------------------------------ OnceGuard *)
Definition once_ok (s : ONCE.st) : Prop := ONCE.ntaken s = if ONCE.done s then 1 else 0.
Lemma once_inv scripts sched : once_ok (AO.obj (run (AO.step ONCE.sstep) sched (AO.init ONCE.init scripts))).
Proof.
  apply ao_inv; [reflexivity|]. unfold once_ok, ONCE.sstep. intros ob t o ob' r H H1.
  destruct (o_code o); [destruct (ONCE.done ob) eqn:E|]; injection H1 as <- <-; simpl; try rewrite E; auto.
Qed.

(* ------------------------------------------------------------------ SpinLock *)
Definition spin_ok (s : SPIN.st) : Prop :=
  SPIN.misuse s = true \/ (SPIN.locked s = false /\ SPIN.cs s = []) \/ (SPIN.locked s = true /\ exists t, SPIN.cs s = [t]).
Lemma spin_inv scripts sched : spin_ok (AO.obj (run (AO.step SPIN.sstep) sched (AO.init SPIN.init scripts))).
Proof.
  apply ao_inv; [right; left; auto|]. unfold spin_ok, SPIN.sstep. intros ob t o ob' r H H1.
  destruct (o_code o) as [|[|k]].
  - destruct (SPIN.locked ob) eqn:E; [discriminate|]. injection H1 as <- <-. simpl.
    destruct H as [H|[[_ H]|[H _]]]; [auto| |congruence]. right; right. rewrite H. eauto.
  - destruct (SPIN.locked ob) eqn:E; injection H1 as <- <-; simpl; [rewrite E; auto|].
    destruct H as [H|[[_ H]|[H _]]]; [auto| |congruence]. right; right. rewrite H. eauto.
  - injection H1 as <- <-. simpl. destruct H as [H|[[H0 H]|[H0 [u H]]]].
    + left. rewrite H. reflexivity.
    + left. rewrite H. simpl. apply orb_true_r.
    + rewrite H. simpl. destruct (Nat.eqb u t) eqn:E; simpl.
      * right; left. auto.
      * left. rewrite Nat.eqb_sym, E. simpl. apply orb_true_r.
Qed.

(* ------------------------------------------------------------------ DoneChan *)
Definition done_ok (s : DONE.st) : Prop := DONE.ncloses s = if DONE.closed s then 1 else 0.
Lemma done_inv scripts sched : done_ok (AO.obj (run (AO.step DONE.sstep) sched (AO.init DONE.init scripts))).
Proof.
  apply ao_inv; [reflexivity|]. unfold done_ok, DONE.sstep. intros ob t o ob' r H H1.
  destruct (o_code o); [destruct (DONE.closed ob) eqn:E|]; injection H1 as <- <-; simpl; try rewrite E; auto.
Qed.
Lemma done_stable s t o s' r : DONE.closed s = true -> DONE.sstep s t o = Some (s', r) -> s' = s.
Proof. unfold DONE.sstep. intros E H. rewrite E in H. destruct (o_code o); injection H as <- <-; reflexivity. Qed.

(* ------------------------------------------------------------------ OnceGuard over histories of any length *)
Definition once_true_ret (e : ev) : bool := ekind_eqb (e_k e) KRet && Nat.eqb (e_op e) 0 && Nat.eqb (e_a e) 1.

(* the number of Take responses "true" in the trace is the ghost counter, hence at most one, for
   every schedule and every script length (no bound: in particular beyond 2^32 calls) *)
Lemma once_trace_count scripts sched :
  let s := run (AO.step ONCE.sstep) sched (AO.init ONCE.init scripts) in
  count_occ_b once_true_ret (AO.trace s) = ONCE.ntaken (AO.obj s).
Proof.
  apply (run_inv (AO.step ONCE.sstep) (fun s => count_occ_b once_true_ret (AO.trace s) = ONCE.ntaken (AO.obj s))); [|reflexivity].
  intros l s s' H Hs. destruct l as [t| |]; simpl in Hs; try discriminate.
  destruct (AO.t_pend (AO.ts s t)) as [o|].
  - unfold ONCE.sstep in Hs. destruct (o_code o) eqn:Ho.
    + destruct (ONCE.done (AO.obj s)) eqn:Hd; injection Hs as <-; simpl; unfold once_true_ret in *; simpl; lia.
    + injection Hs as <-. simpl. unfold once_true_ret in *. simpl. assumption.
  - destruct (AO.t_todo (AO.ts s t)); [discriminate|]. injection Hs as <-. simpl. assumption.
Qed.

Lemma once_exactly_one_true scripts sched :
  let s := run (AO.step ONCE.sstep) sched (AO.init ONCE.init scripts) in
  count_occ_b once_true_ret (AO.trace s) = (if ONCE.done (AO.obj s) then 1 else 0).
Proof. intros s. subst s. rewrite once_trace_count. apply once_inv. Qed.

(* the flag implementation, as a plain sequence of n Takes: the first and only the first is true *)
Lemma oncec_flag_takes n c : count_occ_b (fun b : bool => b) (ONCEC.takes 0 c n) <= (if Nat.eqb c 0 then 1 else 0).
Proof.
  revert c. induction n as [|k IH]; intros c; simpl; [destruct (Nat.eqb c 0); lia|].
  specialize (IH 1). simpl in IH. destruct (Nat.eqb c 0); simpl; lia.
Qed.

(* a wrapping call counter hands the guard out a second time after one wrap *)
Lemma oncec_counter_refuted w : count_occ_b (fun b : bool => b) (ONCEC.takes (S (S w)) 0 (S (S (S w)))) >= 2.
Proof.
  assert (Hwrap : Nat.modulo (S (S w)) (S (S w)) = 0) by (apply Nat.mod_same; discriminate).
  assert (Hone : Nat.modulo 1 (S (S w)) = 1) by (apply Nat.mod_small; lia).
  assert (Hstep : forall c n, ONCEC.takes (S (S w)) c (S n) =
            (Nat.eqb (Nat.modulo (S c) (S (S w))) 1) :: ONCEC.takes (S (S w)) (Nat.modulo (S c) (S (S w))) n) by reflexivity.
  (* from counter value c >= 1: k calls bring it to the modulus minus one, the next wraps to 0, the next reads 1 *)
  assert (G : forall k c, c + k = S w -> 1 <= c ->
            exists l, ONCEC.takes (S (S w)) c (S (S k)) = l ++ [true]).
  { induction k as [|k IH]; intros c Hc H1.
    - assert (c = S w) by (clear Hwrap Hone Hstep; lia). subst c.
      exists [false]. rewrite !Hstep, Hwrap, Hone. reflexivity.
    - assert (Hm : Nat.modulo (S c) (S (S w)) = S c) by (apply Nat.mod_small; clear Hwrap Hone Hstep IH; lia).
      destruct (IH (S c)) as [l Hl]; [clear Hwrap Hone Hstep Hm IH; lia|clear Hwrap Hone Hstep Hm IH; lia|].
      exists (Nat.eqb (S c) 1 :: l). rewrite (Hstep c (S (S k))), Hm, Hl. reflexivity. }
  rewrite (Hstep 0 (S (S w))), Hone. cbn [Nat.eqb count_occ_b].
  destruct (G w 1) as [l Hl]; [clear; lia|clear; lia|]. rewrite Hl.
  assert (Hc : forall l', count_occ_b (fun b : bool => b) (l' ++ [true]) >= 1).
  { induction l' as [|a l' IHl]; [simpl; lia|]. cbn [app count_occ_b]. destruct a; lia. }
  specialize (Hc l). clear - Hc. lia.
Qed.
