(* C18 Props: synchronisation primitives keep their exclusion and sharing contracts.
   Every theorem quantifies over ALL schedules (lists of labels: a thread performs its next
   synchronisation action / a gate of a user callback opens / the clock advances; picks of blocked
   threads are skipped) and over ALL script assignments [scripts : nat -> list op], i.e. any number
   of threads.  Models: Model.v; contracts as history monitors: Spec.v. *)
From God Require Import Base.Prelude C18.Conc C18.Spec C18.Model.
From Coq Require Import Sorting.Permutation.
From God Require Import C18.ProofsSF C18.ProofsLC C18.ProofsAO C18.ProofsPool C18.ProofsRM C18.ProofsTL C18.ProofsRef C18.ProofsMR C18.ProofsSpin.

(* ---------------------------------------------------------------- SingleFlight *)
(* every history is accepted by the sharing contract (Spec.sf_mon_step): a call that reports a
   shared result did not execute fn and returns the value of one finished execution of the same
   key by a call that had not returned when it was invoked; a call that reports fresh executed fn
   exactly once and returns that value; the WaitGroup counter never goes negative *)
Theorem c18_singleflight_share : forall scripts sched,
  let s := run SF.step sched (SF.init scripts) in
  sf_accepts (rev (SF.trace s)) = true /\ SF.panicked s = false.
Proof. exact sf_share. Qed.
Print Assumptions c18_singleflight_share.

(* exactly one flight (registered, executing call) per key at any time *)
Theorem c18_singleflight_one_flight : forall scripts sched t u c d,
  let s := run SF.step sched (SF.init scripts) in
  inmap_of (SF.t_pc (SF.ts s t)) = Some c -> inmap_of (SF.t_pc (SF.ts s u)) = Some d ->
  SF.t_key (SF.ts s t) = SF.t_key (SF.ts s u) -> t = u.
Proof. exact sf_one_flight_per_key. Qed.
Print Assumptions c18_singleflight_one_flight.

(* a map entry belongs to a call that is still inside Do (before its delete) ... *)
Theorem c18_singleflight_entry_live : forall scripts sched k c,
  let s := run SF.step sched (SF.init scripts) in
  alookup Nat.eqb k (SF.calls s) = Some c ->
  inmap_of (SF.t_pc (SF.ts s (SF.cre s c))) = Some c /\ SF.t_key (SF.ts s (SF.cre s c)) = k.
Proof. exact sf_entry_live. Qed.
Print Assumptions c18_singleflight_entry_live.

(* ... hence a call whose lookup happens when every earlier flight of the key has deleted its entry
   misses and registers a new flight, i.e. executes afresh *)
Theorem c18_singleflight_fresh_after : forall scripts sched t,
  let s := run SF.step sched (SF.init scripts) in
  SF.t_pc (SF.ts s t) = SF.CLook ->
  (forall u c, inmap_of (SF.t_pc (SF.ts s u)) = Some c -> SF.t_key (SF.ts s u) <> SF.t_key (SF.ts s t)) ->
  exists s', SF.step (Thr t) s = Some s' /\ SF.t_pc (SF.ts s' t) = SF.CPut /\ SF.calls s' = SF.calls s /\
             alookup Nat.eqb (SF.t_key (SF.ts s t)) (SF.calls s) = None.
Proof. exact sf_fresh_after. Qed.
Print Assumptions c18_singleflight_fresh_after.

(* user functions that PANIC (scripted value 0, Model.pan_flag): c18_singleflight_share already covers
   them -- the panicking caller ends with the panic (KRet c=2), its sharers return nil, and nobody
   invoked after that caller was unwound can share its flight.  On states: makeCall's deferred
   function is taken whatever fn did, ... *)
Theorem c18_singleflight_panic_cleanup : forall s t c,
  (SF.t_pc (SF.ts s t) = SF.FnE c -> gate_open (SF.open s) (SF.t_gate (SF.ts s t)) = true ->
     exists s', SF.step (Thr t) s = Some s' /\ SF.t_pc (SF.ts s' t) = SF.DLock c) /\
  (SF.t_pc (SF.ts s t) = SF.DLock c -> SF.lock s = None -> exists s', SF.step (Thr t) s = Some s' /\ SF.t_pc (SF.ts s' t) = SF.DDel c) /\
  (SF.t_pc (SF.ts s t) = SF.DDel c -> exists s', SF.step (Thr t) s = Some s' /\ SF.t_pc (SF.ts s' t) = SF.DUnlock c /\
     alookup Nat.eqb (SF.t_key (SF.ts s t)) (SF.calls s') = None) /\
  (SF.t_pc (SF.ts s t) = SF.DUnlock c -> exists s', SF.step (Thr t) s = Some s' /\ SF.t_pc (SF.ts s' t) = SF.DDone c /\ SF.lock s' = None) /\
  (SF.t_pc (SF.ts s t) = SF.DDone c -> exists s', SF.step (Thr t) s = Some s' /\ SF.t_pc (SF.ts s' t) = SF.Idle /\ SF.wg s' c = SF.wg s c - 1).
Proof. exact sf_cleanup_unconditional. Qed.
Print Assumptions c18_singleflight_panic_cleanup.

(* ... and once the executing call of a flight is gone (returned or unwound), its waiters can return
   (with the flight's value, nil after a panic) and no map entry refers to it, so the next call of
   the key misses and executes afresh (c18_singleflight_fresh_after) *)
Theorem c18_singleflight_panic_safe : forall scripts sched,
  let s := run SF.step sched (SF.init scripts) in
  (forall u c, SF.t_pc (SF.ts s u) = SF.CWait c -> own_of (SF.t_pc (SF.ts s (SF.cre s c))) <> Some c ->
               exists s', SF.step (Thr u) s = Some s' /\ SF.t_pc (SF.ts s' u) = SF.Idle /\
                          SF.t_res (SF.ts s' u) = (0, SF.cval s c) :: SF.t_res (SF.ts s u)) /\
  (forall k c, alookup Nat.eqb k (SF.calls s) = Some c -> own_of (SF.t_pc (SF.ts s (SF.cre s c))) = Some c).
Proof. exact sf_panic_safe. Qed.
Print Assumptions c18_singleflight_panic_safe.

(* ---------------------------------------------------------------- LockedCalls *)
(* every history is accepted by Spec.lc_mon_step: executions of fn for one key never overlap, each
   call executes fn exactly once and returns its own fn's result *)
Theorem c18_locked_exclusive : forall scripts sched,
  let s := run LC.step sched (LC.init scripts) in
  lc_accepts (rev (LC.trace s)) = true /\ LC.panicked s = false.
Proof. exact lc_exclusive. Qed.
Print Assumptions c18_locked_exclusive.

Theorem c18_locked_exclusive_state : forall scripts sched t u c d,
  let s := run LC.step sched (LC.init scripts) in
  linmap_of (LC.t_pc (LC.ts s t)) = Some c -> linmap_of (LC.t_pc (LC.ts s u)) = Some d ->
  LC.t_key (LC.ts s t) = LC.t_key (LC.ts s u) -> t = u.
Proof. exact lc_exclusive_state. Qed.
Print Assumptions c18_locked_exclusive_state.

(* a panicking fn releases the key: the deferred function of makeCall is taken whatever fn did, and
   once the call holding the key is gone the waiters retry and find no entry *)
Theorem c18_locked_panic_cleanup : forall s t c,
  (LC.t_pc (LC.ts s t) = LC.FnE c -> gate_open (LC.open s) (LC.t_gate (LC.ts s t)) = true ->
     exists s', LC.step (Thr t) s = Some s' /\ LC.t_pc (LC.ts s' t) = LC.DLock c) /\
  (LC.t_pc (LC.ts s t) = LC.DLock c -> LC.lock s = None -> exists s', LC.step (Thr t) s = Some s' /\ LC.t_pc (LC.ts s' t) = LC.DDel c) /\
  (LC.t_pc (LC.ts s t) = LC.DDel c -> exists s', LC.step (Thr t) s = Some s' /\ LC.t_pc (LC.ts s' t) = LC.DUnlock c /\
     alookup Nat.eqb (LC.t_key (LC.ts s t)) (LC.calls s') = None) /\
  (LC.t_pc (LC.ts s t) = LC.DUnlock c -> exists s', LC.step (Thr t) s = Some s' /\ LC.t_pc (LC.ts s' t) = LC.DDone c /\ LC.lock s' = None) /\
  (LC.t_pc (LC.ts s t) = LC.DDone c -> exists s', LC.step (Thr t) s = Some s' /\ LC.t_pc (LC.ts s' t) = LC.Idle /\ LC.wg s' c = LC.wg s c - 1).
Proof. exact lc_cleanup_unconditional. Qed.
Print Assumptions c18_locked_panic_cleanup.

Theorem c18_locked_panic_safe : forall scripts sched,
  let s := run LC.step sched (LC.init scripts) in
  (forall u c, LC.t_pc (LC.ts s u) = LC.LWait c -> lown_of (LC.t_pc (LC.ts s (LC.cre s c))) <> Some c ->
               exists s', LC.step (Thr u) s = Some s' /\ LC.t_pc (LC.ts s' u) = LC.LLock) /\
  (forall k c, alookup Nat.eqb k (LC.calls s) = Some c -> lown_of (LC.t_pc (LC.ts s (LC.cre s c))) = Some c).
Proof. exact lc_panic_safe. Qed.
Print Assumptions c18_locked_panic_safe.

(* ---------------------------------------------------------------- Limit *)
(* 0 <= outstanding <= n, and outstanding = successful borrows - successful returns *)
Theorem c18_limit_bound : forall n scripts sched,
  let ob := AO.obj (run (AO.step (LIM.sstep n)) sched (AO.init LIM.init scripts)) in
  LIM.out ob <= n /\ LIM.out ob + LIM.nr ob = LIM.nb ob.
Proof. exact lim_bound. Qed.
Print Assumptions c18_limit_bound.

(* Return answers ErrLimitReturn (1) exactly when nothing is outstanding -- on a limit of 0 always --
   and then changes nothing *)
Theorem c18_limit_return_error : forall n s t o, 2 <= o_code o ->
  exists s', LIM.sstep n s t o = Some (s', if Nat.eqb n 0 || Nat.eqb (LIM.out s) 0 then 1 else 0) /\
             (n = 0 \/ LIM.out s = 0 -> s' = s).
Proof. exact lim_return. Qed.
Print Assumptions c18_limit_return_error.

(* every response of Limit/RefResource/OnceGuard/SpinLock/DoneChan in every trace is the one the
   sequential step function gives at the moment of the response *)
Theorem c18_atomic_objects_trace : forall (Ob : Type) (sstep : Ob -> nat -> op -> option (Ob * nat)) o0 scripts sched,
  accepts (ao_mon_step sstep) (o0, fun _ => None) (rev (AO.trace (run (AO.step sstep) sched (AO.init o0 scripts)))) = true.
Proof. exact @ao_trace. Qed.
Print Assumptions c18_atomic_objects_trace.

(* ---------------------------------------------------------------- TimeoutLimit *)
(* ErrTimeout (1) is reported only when the time spent in the call is at least the timeout,
   provided timers do not fire early *)
Theorem c18_timeout_only_after_elapsed : forall timeout first_ok outs total,
  TL.timers_ok timeout outs -> TL.borrow timeout first_ok outs = Some (1, total) -> (timeout <= total)%Z.
Proof. exact tl_only_after_elapsed. Qed.
Print Assumptions c18_timeout_only_after_elapsed.

(* ---------------------------------------------------------------- Pool *)
(* live resources = #(create returned) - #destroy <= limit; p.created also counts create() calls
   that are still running or that panicked (it is incremented before create is called) *)
Theorem c18_pool_bound : forall limit maxage scripts sched, (0 <= limit)%Z ->
  let s := run (POOL.step limit maxage) sched (POOL.init scripts) in
  POOL.created s = (POOL.ncreate s + POOL.nleak s - POOL.ndestroy s)%Z /\ (0 <= POOL.nleak s)%Z /\
  (POOL.ncreate s - POOL.ndestroy s <= limit)%Z.
Proof. exact pool_bound. Qed.
Print Assumptions c18_pool_bound.

(* resources whose create callback is still running count: live + in progress (+ slots lost to
   panicked creates) never exceeds the limit; while a thread is inside create there is room for the
   resource it is making; and at most one create is in progress at a time *)
Theorem c18_pool_bound_in_progress : forall limit maxage scripts sched, (0 <= limit)%Z ->
  let s := run (POOL.step limit maxage) sched (POOL.init scripts) in
  ((POOL.ncreate s - POOL.ndestroy s) + POOL.nleak s <= limit)%Z /\
  (forall t, POOL.t_pc (POOL.ts s t) = POOL.GCb -> ((POOL.ncreate s - POOL.ndestroy s) + 1 <= limit)%Z) /\
  (forall t u, POOL.t_pc (POOL.ts s t) = POOL.GCb -> POOL.t_pc (POOL.ts s u) = POOL.GCb -> t = u).
Proof. exact pool_bound_in_progress. Qed.
Print Assumptions c18_pool_bound_in_progress.

(* the create/destroy callbacks run under the pool's mutex: no other Get/Put is inside the pool *)
Theorem c18_pool_mutex : forall limit maxage scripts sched t u, (0 <= limit)%Z ->
  let s := run (POOL.step limit maxage) sched (POOL.init scripts) in
  POOL.holds (POOL.t_pc (POOL.ts s t)) = true -> POOL.holds (POOL.t_pc (POOL.ts s u)) = true -> t = u.
Proof. exact pool_mutex. Qed.
Print Assumptions c18_pool_mutex.

Theorem c18_pool_single_holder : forall limit maxage scripts sched, (0 <= limit)%Z ->
  let s := run (POOL.step limit maxage) sched (POOL.init scripts) in
  (forall t u r, In r (POOL.holding (POOL.ts s t)) -> In r (POOL.holding (POOL.ts s u)) -> t = u) /\
  (forall t r lu, In r (POOL.holding (POOL.ts s t)) -> ~ In (r, lu) (POOL.head s)) /\
  NoDup (map fst (POOL.head s)) /\ (forall t, NoDup (POOL.holding (POOL.ts s t))).
Proof. exact pool_single_holder. Qed.
Print Assumptions c18_pool_single_holder.

(* an idle resource older than maxAge met by Get is destroyed (Get continues with the rest, or is
   unwound if the destroy callback panics -- the resource is gone either way) *)
Theorem c18_pool_max_age : forall limit maxage s t r lu rest,
  POOL.t_pc (POOL.ts s t) = POOL.GLoop -> POOL.head s = (r, lu) :: rest -> 0 < maxage -> lu + maxage < POOL.now s ->
  gate_open (POOL.open s) (if Nat.eqb (POOL.t_dpan (POOL.ts s t)) 2 then 80 + r else 0) = true ->
  exists s', POOL.step limit maxage (Thr t) s = Some s' /\ POOL.loc s' r = 2 /\ POOL.head s' = rest /\
             POOL.t_pc (POOL.ts s' t) = (if Nat.eqb (POOL.t_dpan (POOL.ts s t)) 1 then POOL.GPanic else POOL.GLoop) /\
             POOL.t_held (POOL.ts s' t) = POOL.t_held (POOL.ts s t) /\ POOL.t_res (POOL.ts s' t) = POOL.t_res (POOL.ts s t) /\
             POOL.ndestroy s' = (POOL.ndestroy s + 1)%Z /\ POOL.created s' = (POOL.created s - 1)%Z.
Proof. exact pool_max_age_step. Qed.
Print Assumptions c18_pool_max_age.

(* while a slow destroy callback has not returned, the Get that called it does not move and keeps p.lock
   (c18_pool_mutex): the replacement of an expired resource is created only after it is destroyed *)
Theorem c18_pool_destroy_before_replace : forall limit maxage s t r lu rest,
  POOL.t_pc (POOL.ts s t) = POOL.GLoop -> POOL.head s = (r, lu) :: rest -> POOL.expired maxage lu (POOL.now s) = true ->
  gate_open (POOL.open s) (if Nat.eqb (POOL.t_dpan (POOL.ts s t)) 2 then 80 + r else 0) = false ->
  POOL.step limit maxage (Thr t) s = None.
Proof. exact pool_destroy_blocks. Qed.
Print Assumptions c18_pool_destroy_before_replace.

(* conversely a resource is handed out from the idle list only if it is not over age *)
Theorem c18_pool_handout_not_expired : forall limit maxage s t r lu rest s',
  POOL.t_pc (POOL.ts s t) = POOL.GLoop -> POOL.head s = (r, lu) :: rest -> POOL.step limit maxage (Thr t) s = Some s' ->
  POOL.t_pc (POOL.ts s' t) = POOL.GRet r -> maxage = 0 \/ POOL.now s <= lu + maxage.
Proof. exact pool_not_expired_step. Qed.
Print Assumptions c18_pool_handout_not_expired.

(* a destroyed resource is neither idle nor held in any reachable state *)
Theorem c18_pool_destroyed_gone : forall limit maxage scripts sched r, (0 <= limit)%Z ->
  let s := run (POOL.step limit maxage) sched (POOL.init scripts) in
  POOL.loc s r = 2 -> (forall t, ~ In r (POOL.holding (POOL.ts s t))) /\ (forall lu, ~ In (r, lu) (POOL.head s)).
Proof. exact pool_destroyed_gone. Qed.
Print Assumptions c18_pool_destroyed_gone.

(* ---------------------------------------------------------------- RefResource
   (REFL: lock; test / counter / flag; callback under the lock, possibly blocking or panicking;
   deferred unlock -- every interleaving of these actions) *)
(* the clean callback has started once if the resource is marked cleaned and never otherwise; cleaned
   implies the count is zero; the count is (successful Use) - (effective Clean); the mutex is
   exclusive; while the callback runs the resource is already marked *)
Theorem c18_ref_clean_once : forall scripts sched,
  let s := run REFL.step sched (REFL.init scripts) in
  REFL.ncb s = (if REFL.cleaned s then 1 else 0) /\ (REFL.cleaned s = true -> REFL.ref s = 0%Z) /\
  REFL.ref s = (Z.of_nat (REFL.nuse s) - Z.of_nat (REFL.ncl s))%Z /\
  (forall t u, REFL.holds (REFL.t_pc (REFL.ts s t)) = true -> REFL.holds (REFL.t_pc (REFL.ts s u)) = true -> t = u) /\
  (forall t, REFL.t_pc (REFL.ts s t) = REFL.CCb -> REFL.cleaned s = true).
Proof. exact refl_clean_once. Qed.
Print Assumptions c18_ref_clean_once.

(* once cleaned (from the moment the flag is set, i.e. before the callback starts): every Use that
   reaches its test is refused, no Clean decrements or starts the callback again, nothing un-marks
   the resource -- also while the callback is running or after it panicked *)
Theorem c18_ref_refuses_after : forall l s s', REFL.cleaned s = true -> REFL.step l s = Some s' ->
  REFL.cleaned s' = true /\ REFL.ncb s' = REFL.ncb s /\ REFL.ref s' = REFL.ref s /\ REFL.nuse s' = REFL.nuse s /\
  (forall t, l = Thr t -> REFL.t_pc (REFL.ts s t) = REFL.UBody -> REFL.t_pc (REFL.ts s' t) = REFL.UUnlock 1) /\
  (forall t, l = Thr t -> REFL.t_pc (REFL.ts s t) = REFL.CBody -> REFL.t_pc (REFL.ts s' t) = REFL.CUnlock 0).
Proof. exact refl_refuses_after. Qed.
Print Assumptions c18_ref_refuses_after.

(* the deferred Unlock runs whether the callback returns or panics *)
Theorem c18_ref_unlock_after_callback : forall s t,
  REFL.t_pc (REFL.ts s t) = REFL.CCb -> gate_open (REFL.open s) (REFL.t_gate (REFL.ts s t)) = true ->
  exists s1 s2 r, REFL.step (Thr t) s = Some s1 /\ REFL.t_pc (REFL.ts s1 t) = REFL.CUnlock r /\ 1 <= r /\
                  REFL.step (Thr t) s1 = Some s2 /\ REFL.lock s2 = None /\ REFL.t_pc (REFL.ts s2 t) = REFL.Idle.
Proof. exact refl_unlock_after_callback. Qed.
Print Assumptions c18_ref_unlock_after_callback.

(* the sequential specification used for the linearizability check of recorded histories says the
   same: the callback runs (result 1, or 2 when it panics) in exactly the Clean call that takes the
   count to zero, and cleaned is set in that very step *)
Theorem c18_ref_clean_when_zero : forall s t o s' r, 1 <= o_code o -> REF.sstep s t o = Some (s', r) ->
  (1 <= r <-> REF.cleaned s = false /\ (REF.ref s - 1 = 0)%Z) /\
  (1 <= r -> REF.cleaned s' = true /\ REF.ncb s' = S (REF.ncb s)) /\
  (r = 0 -> REF.ncb s' = REF.ncb s) /\ (REF.cleaned s = true -> s' = s).
Proof. exact ref_clean_step. Qed.
Print Assumptions c18_ref_clean_when_zero.

(* ---------------------------------------------------------------- ResourceManager *)
(* at most one flight, hence one create() in progress, per key *)
Theorem c18_rm_one_flight : forall scripts sched t u c d,
  let s := run RM.step sched (RM.init scripts) in
  rown_of (RM.t_pc (RM.ts s t)) = Some c -> rown_of (RM.t_pc (RM.ts s u)) = Some d ->
  RM.t_key (RM.ts s t) = RM.t_key (RM.ts s u) -> t = u.
Proof. exact rm_one_flight. Qed.
Print Assumptions c18_rm_one_flight.

(* while the manager is open, create() succeeds at most once per key *)
Theorem c18_rm_one_create : forall scripts sched k,
  let s := run RM.step sched (RM.init scripts) in
  RM.closed s = false -> RM.ncre s k <= 1.
Proof. exact rm_one_create. Qed.
Print Assumptions c18_rm_one_create.

(* a create() that fails or panics winds the flight up like a successful one *)
Theorem c18_rm_panic_safe : forall scripts sched,
  let s := run RM.step sched (RM.init scripts) in
  (forall u c, RM.t_pc (RM.ts s u) = RM.SWait c -> rown_of (RM.t_pc (RM.ts s (RM.cre s c))) <> Some c ->
               exists s', RM.step (Thr u) s = Some s' /\ RM.t_pc (RM.ts s' u) = RM.Idle) /\
  (forall k c, alookup Nat.eqb k (RM.calls s) = Some c -> rown_of (RM.t_pc (RM.ts s (RM.cre s c))) = Some c).
Proof. exact rm_panic_safe. Qed.
Print Assumptions c18_rm_panic_safe.

(* Close closes every stored resource exactly once -- whether or not a resource's own Close() returns
   an error (RM.close_fails is an arbitrary property of the handle) --, empties the table, and
   reports an error iff some resource failed *)
Theorem c18_rm_close_all : forall s t, RM.t_pc (RM.ts s t) = RM.CClose ->
  exists s', RM.step (Thr t) s = Some s' /\ RM.resources s' = [] /\ RM.closed s' = true /\
             RM.closedids s' = map snd (RM.resources s) ++ RM.closedids s /\
             RM.trace s' = rev (RM.close_events t (RM.resources s)) ++ RM.trace s /\
             map e_a (RM.close_events t (RM.resources s)) = map snd (RM.resources s) /\
             RM.t_pc (RM.ts s' t) = RM.CUnlock /\ RM.t_re (RM.ts s' t) = RM.close_err (RM.resources s) /\
             (forall kv, In kv (RM.resources s) ->
                In (mkev t KEnd 1 (snd kv) 0 (if RM.close_fails (snd kv) then 1 else 0)) (RM.trace s')).
Proof. exact rm_close_all. Qed.
Print Assumptions c18_rm_close_all.

Theorem c18_rm_close_result : forall s t, RM.t_pc (RM.ts s t) = RM.CUnlock ->
  exists s', RM.step (Thr t) s = Some s' /\ RM.t_res (RM.ts s' t) = (RM.t_re (RM.ts s t), 0) :: RM.t_res (RM.ts s t) /\ RM.writer s' = None.
Proof. exact rm_close_result. Qed.
Print Assumptions c18_rm_close_result.

(* ... whatever the order in which the map is traversed *)
Theorem c18_rm_close_any_order : forall t rs rs', Permutation rs rs' ->
  Permutation (RM.close_events t rs) (RM.close_events t rs') /\ RM.close_err rs = RM.close_err rs' /\
  Permutation (map snd rs) (map snd rs').
Proof. exact rm_close_order. Qed.
Print Assumptions c18_rm_close_any_order.

(* ---------------------------------------------------------------- SpinLock, OnceGuard, DoneChan, Barrier *)
(* unless somebody unlocked a lock he did not hold, at most one thread is between Lock and Unlock *)
Theorem c18_spin_mutex : forall scripts sched,
  let ob := AO.obj (run (AO.step SPIN.sstep) sched (AO.init SPIN.init scripts)) in
  SPIN.misuse ob = true \/ (SPIN.locked ob = false /\ SPIN.cs ob = []) \/ (SPIN.locked ob = true /\ exists t, SPIN.cs ob = [t]).
Proof. exact spin_inv. Qed.
Print Assumptions c18_spin_mutex.

Theorem c18_once_take_once : forall scripts sched,
  let ob := AO.obj (run (AO.step ONCE.sstep) sched (AO.init ONCE.init scripts)) in
  ONCE.ntaken ob = if ONCE.done ob then 1 else 0.
Proof. exact once_inv. Qed.
Print Assumptions c18_once_take_once.

Theorem c18_done_close_once : forall scripts sched,
  let ob := AO.obj (run (AO.step DONE.sstep) sched (AO.init DONE.init scripts)) in
  DONE.ncloses ob = if DONE.closed ob then 1 else 0.
Proof. exact done_inv. Qed.
Print Assumptions c18_done_close_once.

Theorem c18_barrier_exclusive : forall scripts sched t u,
  let s := run BAR.step sched (BAR.init scripts) in
  BAR.inside (BAR.t_pc (BAR.ts s t)) = true -> BAR.inside (BAR.t_pc (BAR.ts s u)) = true -> t = u.
Proof. exact bar_exclusive. Qed.
Print Assumptions c18_barrier_exclusive.

(* ---------------------------------------------------------------- SpinLock and DoneChan, contended paths step by step *)
(* Lock() = for !TryLock() { Gosched() } with every attempt and every yield a separate step: however
   many goroutines are spinning or arriving when the holder unlocks, there is at most one holder
   (unless somebody unlocked a lock he did not hold) *)
Theorem c18_spin_mutex_contended : forall scripts sched,
  let s := run (SPINL.step true) sched (SPINL.init scripts) in
  SPINL.misuse s = true \/ (SPINL.lockw s = false /\ SPINL.cs s = []) \/ (SPINL.lockw s = true /\ exists t, SPINL.cs s = [t]).
Proof. exact SPINLP.spinl_mutex. Qed.
Print Assumptions c18_spin_mutex_contended.

(* the atomicity of TryLock is what this rests on: "load, observe 0, then store 1" lets two goroutines hold the lock *)
Theorem c18_spin_load_then_store_refuted :
  exists scripts sched, let s := run (SPINL.step false) sched (SPINL.init scripts) in SPINL.misuse s = false /\ SPINL.cs s = [1; 0].
Proof. exact SPINLP.spinl_load_store_refuted. Qed.
Print Assumptions c18_spin_load_then_store_refuted.

(* Close through sync.Once: once ANY Close call has returned, Done() is closed -- also for the callers
   that lost the race (they wait for the winner); close(dc.done) runs exactly once *)
Theorem c18_done_closed_after_any_close : forall scripts sched,
  let s := run (DONEL.step true) sched (DONEL.init scripts) in
  (DONEL.returned s = true -> DONEL.closed s = true) /\ DONEL.early s = false /\
  DONEL.ncloses s = (if DONEL.closed s then 1 else 0).
Proof. exact DONELP.donel_closed_after_return. Qed.
Print Assumptions c18_done_closed_after_any_close.

(* ... which a "CAS a flag, the winner closes" Close does not give: the loser returns too early *)
Theorem c18_done_flag_variant_refuted :
  exists scripts sched, let s := run (DONEL.step false) sched (DONEL.init scripts) in
    DONEL.returned s = true /\ DONEL.closed s = false /\ DONEL.early s = true.
Proof. exact DONELP.donel_flag_refuted. Qed.
Print Assumptions c18_done_flag_variant_refuted.

(* a Borrow that is woken by a Return and finds the slot free takes it, whatever its timeout
   (in particular "wait for ever" timeouts): no timeout is reported on that path *)
Theorem c18_timeout_woken_takes_slot : forall timeout spent e r,
  TL.loop timeout spent (TL.Signal e true :: r) = Some (0, (spent + e)%Z).
Proof. exact tl_woken_takes_slot. Qed.
Print Assumptions c18_timeout_woken_takes_slot.

(* ---------------------------------------------------------------- OnceGuard over histories of any length *)
(* in every trace -- any schedule, any number of threads, scripts of ANY length, 2^32 calls and
   beyond -- the number of Take responses "true" is 1 if the guard is taken and 0 otherwise:
   exactly one Take ever returns true.  (The model keeps a flag, as the code does: Link pins
   Take = CompareAndSwapUint32 on the flag, no call counter.) *)
Theorem c18_once_exactly_one_true : forall scripts sched,
  let s := run (AO.step ONCE.sstep) sched (AO.init ONCE.init scripts) in
  count_occ_b once_true_ret (AO.trace s) = (if ONCE.done (AO.obj s) then 1 else 0).
Proof. exact once_exactly_one_true. Qed.
Print Assumptions c18_once_exactly_one_true.

Theorem c18_once_flag_any_length : forall n c,
  count_occ_b (fun b : bool => b) (ONCEC.takes 0 c n) <= (if Nat.eqb c 0 then 1 else 0).
Proof. exact oncec_flag_takes. Qed.
Print Assumptions c18_once_flag_any_length.

(* a call counter that wraps (modulus w + 2; 2^32 for a uint32) hands the guard out again after one wrap *)
Theorem c18_once_counter_variant_refuted : forall w,
  count_occ_b (fun b : bool => b) (ONCEC.takes (S (S w)) 0 (S (S (S w)))) >= 2.
Proof. exact oncec_counter_refuted. Qed.
Print Assumptions c18_once_counter_variant_refuted.

(* ---------------------------------------------------------------- Pool.Put(nil) *)
(* a nil is not a resource: Put(nil) touches nothing, in particular it gives no slot back *)
Theorem c18_pool_put_nil_noop : forall limit maxage s t, POOL.t_pc (POOL.ts s t) = POOL.PNil ->
  exists s', POOL.step limit maxage (Thr t) s = Some s' /\ POOL.created s' = POOL.created s /\ POOL.head s' = POOL.head s /\
             POOL.waiters s' = POOL.waiters s /\ POOL.lock s' = POOL.lock s /\ POOL.t_pc (POOL.ts s' t) = POOL.Idle /\
             POOL.t_held (POOL.ts s' t) = POOL.t_held (POOL.ts s t).
Proof. exact pool_put_nil_noop. Qed.
Print Assumptions c18_pool_put_nil_noop.

(* ---------------------------------------------------------------- Barrier.Guard / syncx.Guard with a panicking function *)
Theorem c18_barrier_panic_releases : forall s t,
  (BAR.t_pc (BAR.ts s t) = BAR.FnE -> gate_open (BAR.open s) (BAR.t_gate (BAR.ts s t)) = true ->
     exists s', BAR.step (Thr t) s = Some s' /\ BAR.t_pc (BAR.ts s' t) = BAR.BUnlock /\ BAR.lock s' = BAR.lock s) /\
  (BAR.t_pc (BAR.ts s t) = BAR.BUnlock -> exists s', BAR.step (Thr t) s = Some s' /\ BAR.lock s' = None /\ BAR.t_pc (BAR.ts s' t) = BAR.Idle).
Proof. exact bar_panic_releases. Qed.
Print Assumptions c18_barrier_panic_releases.

(* ---------------------------------------------------------------- ManagedResource *)
(* the current resource is always the latest one generated (generate runs only when there is none, so
   a freshly generated resource that nobody reported is never discarded and never regenerated); the
   write lock -- under which the user's equal callback runs, however long it blocks -- is exclusive;
   a MarkBroken discards the current resource only if it is the one it was given; Take's slow path
   returns the current resource *)
Theorem c18_managed_no_discard : forall scripts sched,
  let s := run MR.step sched (MR.init scripts) in
  (MR.cur s = 0 \/ MR.cur s = MR.ngen s) /\
  (forall t u, MR.wholds (MR.t_pc (MR.ts s t)) = true -> MR.wholds (MR.t_pc (MR.ts s u)) = true -> t = u) /\
  (forall t, MR.t_pc (MR.ts s t) = MR.MSet true -> MR.cur s = MR.t_arg (MR.ts s t) /\ MR.cur s <> 0) /\
  (forall t r, MR.t_pc (MR.ts s t) = MR.TWUnlock r -> MR.cur s = r /\ r <> 0).
Proof. exact MRP.mr_no_discard. Qed.
Print Assumptions c18_managed_no_discard.

Theorem c18_managed_generate_when_empty : forall s t, MR.t_pc (MR.ts s t) = MR.TGen ->
  exists s', MR.step (Thr t) s = Some s' /\
    ((MR.cur s = 0 /\ MR.ngen s' = S (MR.ngen s) /\ MR.cur s' = S (MR.ngen s)) \/
     (MR.cur s <> 0 /\ MR.ngen s' = MR.ngen s /\ MR.cur s' = MR.cur s)).
Proof. exact MRP.mr_generate_step. Qed.
Print Assumptions c18_managed_generate_when_empty.

(* ---------------------------------------------------------------- ImmutableResource
   (not named in the sentences of the statement; attached to its title, "sharing contracts", and to
   the anchored file immutableresource.go) *)
(* only a value returned by a SUCCESSFUL fetch is ever stored as the shared resource *)
Theorem c18_immutable_only_success_shared : forall interval scripts sched,
  let s := run (IR.step interval) sched (IR.init scripts) in IR.res s = 0 \/ In (IR.res s) (IR.goods s).
Proof. exact IRP.ir_only_success_shared. Qed.
Print Assumptions c18_immutable_only_success_shared.

(* a failing fetch records the error and leaves the resource alone, whatever value came with the error *)
Theorem c18_immutable_failed_fetch_keeps : forall s t interval, IR.t_pc (IR.ts s t) = IR.IStore -> IR.t_fail (IR.ts s t) <> 0 ->
  exists s', IR.step interval (Thr t) s = Some s' /\ IR.res s' = IR.res s /\ IR.err s' = 1.
Proof. exact IRP.ir_failed_fetch_keeps. Qed.
Print Assumptions c18_immutable_failed_fetch_keeps.

(* a fetch is attempted only if none was attempted before or the refresh interval has passed *)
Theorem c18_immutable_retry_interval : forall s t interval l n, IR.t_pc (IR.ts s t) = IR.IDecide l n ->
  exists s', IR.step interval (Thr t) s = Some s' /\
    (IR.t_pc (IR.ts s' t) = IR.IFetchB <-> (l = 0 \/ l + interval < n)) /\ (IR.t_pc (IR.ts s' t) = IR.IFetchB -> IR.last s' = n).
Proof. exact IRP.ir_retry_interval. Qed.
Print Assumptions c18_immutable_retry_interval.

(* ---------------------------------------------------------------- non-vacuity *)
(* three threads, same key, forced overlap: the two late-comers share thread 0's execution; a later
   call by thread 0 executes afresh *)
Example c18_sf_sharing_happens :
  let scr := fun t => match t with 0 => [mkop 0 7 1 100; mkop 0 7 0 101] | 1 => [mkop 0 7 0 200] | 2 => [mkop 0 7 0 300] | _ => [] end in
  let fin := replay SF.step SF.busy 50 [0;1;2] [Thr 0; Thr 1; Thr 2; Open 1; Thr 0] (SF.init scr) in
  map (fun t => SF.t_res (SF.ts fin t)) [0;1;2] = [[(1, 101); (1, 100)]; [(0, 100)]; [(0, 100)]].
Proof. vm_compute. reflexivity. Qed.

(* the monitors are not trivially true: a stale share and an overlapping locked execution are rejected *)
Example c18_sf_monitor_rejects_stale :
  sf_accepts [mkev 0 KInv 0 7 0 0; mkev 0 KBegin 0 7 0 0; mkev 0 KEnd 0 7 100 0; mkev 0 KRet 0 7 100 1;
              mkev 1 KInv 0 7 0 0; mkev 1 KRet 0 7 100 0] = false.
Proof. vm_compute. reflexivity. Qed.
Example c18_lc_monitor_rejects_overlap :
  lc_accepts [mkev 0 KInv 1 7 0 0; mkev 1 KInv 1 7 0 0; mkev 0 KBegin 1 7 0 0; mkev 1 KBegin 1 7 0 0] = false.
Proof. vm_compute. reflexivity. Qed.

(* a panicking flight: the sharer returns nil, the caller sees the panic (2), the next call is fresh *)
Example c18_sf_panic_then_fresh :
  let scr := fun t => match t with 0 => [mkop 0 7 1 0; mkop 0 7 0 101] | 1 => [mkop 0 7 0 200] | _ => [] end in
  let fin := replay SF.step SF.busy 50 [0;1] [Thr 0; Thr 1; Open 1; Thr 0] (SF.init scr) in
  (map (fun t => SF.t_res (SF.ts fin t)) [0;1], sf_accepts (rev (SF.trace fin))) = ([[(1, 101); (2, 0)]; [(0, 0)]], true).
Proof. vm_compute. reflexivity. Qed.

(* a later call sharing a panicked flight is rejected by the monitor *)
Example c18_sf_monitor_rejects_stale_after_panic :
  sf_accepts [mkev 0 KInv 0 7 0 0; mkev 0 KBegin 0 7 0 0; mkev 0 KEnd 0 7 0 1; mkev 0 KRet 0 7 0 2;
              mkev 1 KInv 0 7 0 0; mkev 1 KRet 0 7 0 0] = false.
Proof. vm_compute. reflexivity. Qed.

(* Use issued while the clean callback is blocked inside Clean: it waits for the lock and is refused *)
Example c18_ref_use_during_callback :
  let scr := fun t => match t with 0 => [mkop 0 0 0 0; mkop 1 0 1 0] | 1 => [mkop 0 0 0 0; mkop 1 0 0 0] | _ => [] end in
  let fin := replay REFL.step REFL.busy 50 [0;1] [Thr 0; Thr 0; Thr 1; Open 1; Thr 1] (REFL.init scr) in
  map (fun t => REFL.t_res (REFL.ts fin t)) [0;1] = [[(1, 0); (0, 0)]; [(0, 0); (1, 0)]].
Proof. vm_compute. reflexivity. Qed.

(* two stored resources, the first one's Close fails: both are closed, Close reports the error *)
Example c18_rm_close_with_failing_resource :
  let scr := fun t => match t with 0 => [mkop 0 1 0 3; mkop 0 2 0 0; mkop 1 0 0 0] | _ => [] end in
  let fin := replay RM.step RM.busy 80 [0] [Thr 0; Thr 0; Thr 0] (RM.init scr) in
  (RM.t_res (RM.ts fin 0), RM.closedids fin) = ([(1, 0); (2, 0); (1001, 0)], [2; 1001]).
Proof. vm_compute. reflexivity. Qed.

(* two holders report the same r1 while the first equal call blocks, a Take lands in between: generate
   runs exactly twice, everybody ends up with r2 *)
Example c18_managed_two_reports_one_take :
  let scr := fun t => match t with 0 => [mkop 0 0 0 0; mkop 1 1 1 0; mkop 0 0 0 0] | 1 => [mkop 1 1 0 0; mkop 0 0 0 0] | 2 => [mkop 0 0 0 0] | _ => [] end in
  let fin := replay MR.step MR.busy 80 [0;1;2] [Thr 0; Thr 0; Thr 1; Thr 2; Open 1; Thr 0; Thr 1] (MR.init scr) in
  (MR.ngen fin, MR.cur fin, map (fun t => MR.t_res (MR.ts fin t)) [0;1;2]) = (2, 2, [[(2, 0); (0, 0); (1, 0)]; [(2, 0); (0, 0)]; [(2, 0)]]).
Proof. vm_compute. reflexivity. Qed.

(* boundary size 0: TryBorrow fails, Return is an error *)
Example c18_limit_zero :
  (LIM.sstep 0 LIM.init 0 (mkop 1 0 0 0), LIM.sstep 0 LIM.init 0 (mkop 2 0 0 0), LIM.sstep 0 LIM.init 0 (mkop 0 0 0 0))
  = (Some (LIM.init, 0), Some (LIM.init, 1), None).
Proof. reflexivity. Qed.

(* two Gets of a new key, the second held up just before it enters the single flight until the first
   one's whole flight (lookup, create, register) is over: create runs once, both get resource 1 *)
Example c18_rm_second_flight_after_first :
  let scr := fun t => match t with 0 => [mkop 0 1 0 0] | 1 => [mkop 2 1 1 0] | _ => [] end in
  let fin := replay RM.step RM.busy 80 [0;1] [Thr 1; Thr 0; Open 1] (RM.init scr) in
  (RM.ncre fin 1, map (fun t => RM.t_res (RM.ts fin t)) [0;1]) = (1, [[(1, 0)]; [(1, 0)]]).
Proof. vm_compute. reflexivity. Qed.

Example c18_limit_return_without_borrow :
  LIM.sstep 2 LIM.init 0 (mkop 2 0 0 0) = Some (LIM.init, 1).
Proof. reflexivity. Qed.

Example c18_pool_destroys_old :
  let scr := fun t => match t with 0 => [mkop 0 0 0 0; mkop 1 0 0 0; mkop 0 0 0 0] | _ => [] end in
  let fin := replay (POOL.step 1 10) POOL.busy 50 [0] [Thr 0; Thr 0; Adv 50; Thr 0] (POOL.init scr) in
  (POOL.t_res (POOL.ts fin 0), POOL.loc fin 1, POOL.ndestroy fin) = ([(2, 0); (1, 0); (1, 0)], 2, 1%Z).
Proof. vm_compute. reflexivity. Qed.

Example c18_timeout_hypothesis_satisfiable :
  TL.timers_ok 100 [TL.Signal 30 false; TL.Timer 70] /\ TL.borrow 100 false [TL.Signal 30 false; TL.Timer 70] = Some (1, 100%Z).
Proof. vm_compute. split; [intro; discriminate|reflexivity]. Qed.
