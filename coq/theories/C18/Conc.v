(* C18 Conc: the common vocabulary of the synchronisation-primitive models.
   - labels of a schedule: a thread id (that thread performs its next synchronisation action),
     or an environment action (a gate that a user callback waits on is opened; time advances);
   - scripts: each thread executes a list of generic operations;
   - events: the externally visible history (invocation / response / callback begin / callback end);
   - run: executes a schedule, SKIPPING picks whose thread is blocked or finished, so that every
     list of labels is a meaningful schedule.
   Threads are natural numbers and thread-local states are functions nat -> tstate: the theorems
   therefore hold for any number of threads. *)
From God Require Import Base.Prelude.

Inductive lbl := Thr (t : nat) | Open (g : nat) | Adv (d : nat).

(* generic operation of a script; the meaning of the fields is per primitive *)
Record op := mkop { o_code : nat; o_a : nat; o_b : nat; o_c : nat }.

Inductive ekind := KInv | KRet | KBegin | KEnd.
Record ev := mkev { e_t : nat; e_k : ekind; e_op : nat; e_a : nat; e_b : nat; e_c : nat }.

Definition ekind_eqb (a b : ekind) : bool :=
  match a, b with KInv, KInv | KRet, KRet | KBegin, KBegin | KEnd, KEnd => true | _, _ => false end.

Definition upd {A} (f : nat -> A) (k : nat) (v : A) : nat -> A :=
  fun x => if Nat.eqb x k then v else f x.

Lemma upd_same {A} (f : nat -> A) k v : upd f k v k = v.
Proof. unfold upd. now rewrite Nat.eqb_refl. Qed.

Lemma upd_other {A} (f : nat -> A) k v x : x <> k -> upd f k v x = f x.
Proof. unfold upd. intro H. apply Nat.eqb_neq in H. now rewrite H. Qed.

(* a gate is open when it is in the list; gate 0 means "no gate" and is always open *)
Definition gate_open (open : list nat) (g : nat) : bool :=
  Nat.eqb g 0 || existsb (Nat.eqb g) open.

Section LTS.
  Context {St : Type} (step : lbl -> St -> option St).

  Definition step' (l : lbl) (s : St) : St :=
    match step l s with Some s' => s' | None => s end.

  Fixpoint run (sched : list lbl) (s : St) : St :=
    match sched with
    | [] => s
    | l :: r => run r (step' l s)
    end.

  Lemma run_app a b s : run (a ++ b) s = run b (run a s).
  Proof. revert s; induction a; simpl; auto. Qed.

  (* invariants are lifted from single steps to all schedules *)
  Lemma run_inv (P : St -> Prop) :
    (forall l s s', P s -> step l s = Some s' -> P s') ->
    forall sched s, P s -> P (run sched s).
  Proof.
    intros H sched; induction sched as [|l r IH]; simpl; intros s Hs; [assumption|].
    apply IH. unfold step'. destruct (step l s) eqn:E; eauto.
  Qed.

  (* --- replay of a driver-forced schedule ---
     The driver performs one label, then lets every thread that is inside a call run until it is
     blocked (parked, at a closed gate) or has returned; threads start their next call only when
     picked.  [busy s t] says that thread t is inside a call. *)
  Context (busy : St -> nat -> bool).

  Fixpoint settle_round (ts : list nat) (s : St) : St * bool :=
    match ts with
    | [] => (s, false)
    | t :: r =>
        if busy s t then
          match step (Thr t) s with
          | Some s' => let (s'', _) := settle_round r s' in (s'', true)
          | None => settle_round r s
          end
        else settle_round r s
    end.

  Fixpoint settle (fuel : nat) (ts : list nat) (s : St) : St :=
    match fuel with
    | O => s
    | S f => let (s', moved) := settle_round ts s in if moved then settle f ts s' else s'
    end.

  Fixpoint replay (fuel : nat) (ts : list nat) (sched : list lbl) (s : St) : St :=
    match sched with
    | [] => s
    | l :: r => replay fuel ts r (settle fuel ts (step' l s))
    end.

  (* a replay is a particular schedule: everything proved for all schedules holds for replays *)
  Lemma settle_round_inv (P : St -> Prop) :
    (forall l s s', P s -> step l s = Some s' -> P s') ->
    forall ts s, P s -> P (fst (settle_round ts s)).
  Proof.
    intros H ts; induction ts as [|t r IH]; simpl; intros s Hs; [assumption|].
    destruct (busy s t); [|auto].
    destruct (step (Thr t) s) eqn:E; [|auto].
    specialize (IH s0 (H _ _ _ Hs E)). destruct (settle_round r s0); assumption.
  Qed.

  Lemma settle_inv (P : St -> Prop) :
    (forall l s s', P s -> step l s = Some s' -> P s') ->
    forall fuel ts s, P s -> P (settle fuel ts s).
  Proof.
    intros H fuel; induction fuel as [|f IH]; simpl; intros ts s Hs; [assumption|].
    pose proof (settle_round_inv P H ts s Hs) as H1.
    destruct (settle_round ts s) as [s' m]; simpl in H1. destruct m; auto.
  Qed.

  Lemma replay_inv (P : St -> Prop) :
    (forall l s s', P s -> step l s = Some s' -> P s') ->
    forall fuel ts sched s, P s -> P (replay fuel ts sched s).
  Proof.
    intros H fuel ts sched; induction sched as [|l r IH]; simpl; intros s Hs; [assumption|].
    apply IH. apply settle_inv; [assumption|]. unfold step'. destruct (step l s) eqn:E; eauto.
  Qed.
End LTS.

Fixpoint count_occ_b {A} (f : A -> bool) (l : list A) : nat :=
  match l with [] => 0 | a :: r => (if f a then 1 else 0) + count_occ_b f r end.
