(* C18 Link: the synchronisation/call skeletons regenerated from lib/syncx by gogen are the ones the
   models transcribe.  Any added, removed or moved Lock/Unlock/Wait/Done/delete/send/receive/callback
   in these methods changes a generated list and breaks the corresponding lemma. The comment after
   each lemma names the model steps that the skeleton entries correspond to. *)
From Coq Require Import String List.
Import ListNotations.
From GodGen Require C18_Gen.
Local Open Scope string_scope.

Lemma link_sk_sf_Do : C18_Gen.sk_sf_Do =
  ["g.createCall"; "return"; "g.makeCall"; "return"].
Proof. reflexivity. Qed. (* SF: Idle -> createCall ... -> makeCall ... -> return c.val *)

Lemma link_sk_sf_DoEx : C18_Gen.sk_sf_DoEx =
  ["g.createCall"; "return"; "g.makeCall"; "return"].
Proof. reflexivity. Qed. (* same control flow as Do; returns the fresh flag *)

Lemma link_sk_sf_createCall : C18_Gen.sk_sf_createCall =
  ["g.lock.Lock"; "g.lock.Unlock"; "c.wg.Wait"; "return"; "new"; "c.wg.Add"; "g.lock.Unlock"; "return"].
Proof. reflexivity. Qed. (* SF.CLock, (CLook) hit: CHitUnlock, CWait | miss: CPut (new, Add, map put), CMissUnlock *)

Lemma link_sk_sf_makeCall : C18_Gen.sk_sf_makeCall =
  ["defer:func"; "{"; "g.lock.Lock"; "delete"; "g.lock.Unlock"; "c.wg.Done"; "}"; "fn"].
Proof. reflexivity. Qed. (* deferred SF.DLock, DDel, DUnlock, DDone; body FnB/FnE *)

Lemma link_sk_lc_Do : C18_Gen.sk_lc_Do =
  ["lg.mu.Lock"; "lg.mu.Unlock"; "wg.Wait"; "lg.makeCall"; "return"].
Proof. reflexivity. Qed. (* LC.LLock, (LLook) hit: LHitUnlock, LWait, goto begin | miss: makeCall *)

Lemma link_sk_lc_makeCall : C18_Gen.sk_lc_makeCall =
  ["wg.Add"; "lg.mu.Unlock"; "defer:func"; "{"; "lg.mu.Lock"; "delete"; "lg.mu.Unlock"; "wg.Done"; "}"; "fn"; "return"].
Proof. reflexivity. Qed. (* LC.LPut (Add, map put), LMissUnlock, deferred DLock, DDel, DUnlock, DDone; FnB/FnE *)

Lemma link_sk_lim_Borrow : C18_Gen.sk_lim_Borrow =
  ["send:l.pool"].
Proof. reflexivity. Qed. (* LIM.sstep code 0: blocking send *)

Lemma link_sk_lim_TryBorrow : C18_Gen.sk_lim_TryBorrow =
  ["select"; "case:"; "send:l.pool"; "return"; "default:"; "return"].
Proof. reflexivity. Qed. (* LIM.sstep code 1: select send/default *)

Lemma link_sk_lim_Return : C18_Gen.sk_lim_Return =
  ["cap"; "return"; "select"; "case:"; "recv:l.pool"; "return"; "default:"; "return"].
Proof. reflexivity. Qed. (* LIM.sstep code 2: capacity-0 test (always ErrLimitReturn), then select receive/default *)

Lemma link_sk_tl_Borrow : C18_Gen.sk_tl_Borrow =
  ["l.TryBorrow"; "return"; "l.cond.WaitWithTimeout"; "l.TryBorrow"; "return"; "return"].
Proof. reflexivity. Qed. (* TL.borrow: TryBorrow; loop WaitWithTimeout; TryBorrow *)

Lemma link_sk_tl_Return : C18_Gen.sk_tl_Return =
  ["l.limit.Return"; "return"; "l.cond.Signal"; "return"].
Proof. reflexivity. Qed. (* Limit.Return then Signal *)

Lemma link_sk_cond_WaitWithTimeout : C18_Gen.sk_cond_WaitWithTimeout =
  ["time.NewTimer"; "defer:timer.Stop"; "timex.Now"; "select"; "case:"; "recv:c.signal"; "timex.Since"; "return"; "case:"; "recv:timer.C"; "return"].
Proof. reflexivity. Qed. (* TL.outcome: select signal (Since) | timer *)

Lemma link_sk_cond_Signal : C18_Gen.sk_cond_Signal =
  ["select"; "case:"; "send:c.signal"; "default:"].
Proof. reflexivity. Qed. (* non-blocking send *)

Lemma link_sk_pool_Get : C18_Gen.sk_pool_Get =
  ["p.lock.Lock"; "defer:p.lock.Unlock"; "timex.Now"; "p.destroy"; "return"; "p.create"; "return"; "p.cond.Wait"].
Proof. reflexivity. Qed. (* POOL.GLock, GLoop (Now, destroy | return | create, return | cond.Wait), deferred unlock = GRet *)

Lemma link_sk_pool_Put : C18_Gen.sk_pool_Put =
  ["return"; "p.lock.Lock"; "defer:p.lock.Unlock"; "timex.Now"; "p.cond.Signal"].
Proof. reflexivity. Qed. (* POOL.PLock, PPush (Now), PSignal, PUnlock *)

Lemma link_sk_ref_Use : C18_Gen.sk_ref_Use =
  ["r.lock.Lock"; "defer:r.lock.Unlock"; "return"; "return"].
Proof. reflexivity. Qed. (* REF.sstep code 0 under r.lock *)

Lemma link_sk_ref_Clean : C18_Gen.sk_ref_Clean =
  ["r.lock.Lock"; "defer:r.lock.Unlock"; "return"; "r.clean"].
Proof. reflexivity. Qed. (* REF.sstep code 1 under r.lock, clean callback *)

Lemma link_sk_rm_Get : C18_Gen.sk_rm_Get =
  ["m.lock.RLock"; "m.lock.RUnlock"; "return"; "create"; "return"; "m.lock.Lock"; "defer:m.lock.Unlock"; "return"; "m.singleFlight.Do"; "return"; "return"].
Proof. reflexivity. Qed. (* RM: fn = FRLock, FRead/FRUnlock, CrB/CrE (create), FWLock, FPut, FWUnlock; around it singleFlight.Do = SReg .. SDel/SWait *)

Lemma link_sk_rm_Close : C18_Gen.sk_rm_Close =
  ["m.lock.Lock"; "defer:m.lock.Unlock"; "resource.Close"; "be.Add"; "be.Err"; "return"].
Proof. reflexivity. Qed. (* RM.CLock, CClose (resource.Close for each), CUnlock *)

Lemma link_sk_spin_Lock : C18_Gen.sk_spin_Lock =
  ["l.TryLock"; "runtime.Gosched"].
Proof. reflexivity. Qed. (* SPIN code 0: loop TryLock/Gosched *)

Lemma link_sk_spin_TryLock : C18_Gen.sk_spin_TryLock =
  ["atomic.CompareAndSwapUint32"; "return"].
Proof. reflexivity. Qed. (* SPIN code 1: CAS *)

Lemma link_sk_spin_Unlock : C18_Gen.sk_spin_Unlock =
  ["atomic.SwapUint32"].
Proof. reflexivity. Qed. (* SPIN code 2: swap *)

Lemma link_sk_once_Take : C18_Gen.sk_once_Take =
  ["atomic.CompareAndSwapUint32"; "return"].
Proof. reflexivity. Qed. (* ONCE code 0: CAS *)

Lemma link_sk_done_Close : C18_Gen.sk_done_Close =
  ["close"; "dc.once.Do"].
Proof. reflexivity. Qed. (* DONE code 0: once.Do(close) *)

Lemma link_sk_bar_Guard : C18_Gen.sk_bar_Guard =
  ["Guard"].
Proof. reflexivity. Qed. (* BAR.BLock, deferred BUnlock, FnB/FnE *)

Lemma link_sk_bar_BarrierGuard : C18_Gen.sk_bar_BarrierGuard =
  ["Guard"].
Proof. reflexivity. Qed. (* Barrier.Guard delegates to Guard *)

Lemma link_sk_mr_Take : C18_Gen.sk_mr_Take =
  ["mr.lock.RLock"; "mr.lock.RUnlock"; "return"; "mr.lock.Lock"; "defer:mr.lock.Unlock"; "mr.generate"; "return"].
Proof. reflexivity. Qed. (* MR.TRLock, TRead/TRUnlock, TWLock, TGen, deferred unlock = TWUnlock *)

Lemma link_sk_mr_MarkBroken : C18_Gen.sk_mr_MarkBroken =
  ["mr.lock.Lock"; "defer:mr.lock.Unlock"; "mr.equal"].
Proof. reflexivity. Qed. (* MR.MLock, MEq (equal under the write lock), MSet, deferred unlock = MUnlock *)

Lemma link_sk_ir_Get : C18_Gen.sk_ir_Get =
  ["ir.lock.RLock"; "ir.lock.RUnlock"; "return"; "ir.fetch"; "ir.lock.Lock"; "ir.lock.Unlock"; "ir.maybeRefresh";
   "ir.lock.RLock"; "ir.lock.RUnlock"; "return"].
Proof. reflexivity. Qed. (* IR.IRead1; closure = IFetchB/IFetchE, IStore; maybeRefresh; IRead2 *)

Lemma link_sk_ir_maybeRefresh : C18_Gen.sk_ir_maybeRefresh =
  ["timex.Now"; "ir.lastTime.Load"; "ir.lastTime.Set"; "execute"].
Proof. reflexivity. Qed. (* IR.ILoad, IDecide (Set), execute = the closure *)
