(* C18 Spec: what each primitive promises, as small executable monitors over histories.
   A history is the list of events (invocation, response, callback begin/end) in real-time order.
   The same monitors are (a) proved to accept every trace of the models, for all schedules
   (Proofs*.v), and (b) evaluated on the histories recorded from the Go code (Exec.spec_ok). *)
From God Require Import Base.Prelude C18.Conc.

Section Mon.
  Context {M : Type} (mstep : M -> ev -> option M).
  Fixpoint mon_run (m : M) (h : list ev) : option M :=
    match h with
    | [] => Some m
    | e :: r => match mstep m e with Some m' => mon_run m' r | None => None end
    end.
  Lemma mon_run_app m h1 h2 :
    mon_run m (h1 ++ h2) = match mon_run m h1 with Some m' => mon_run m' h2 | None => None end.
  Proof. revert m; induction h1 as [|e r IH]; simpl; intros m; [reflexivity|]. destruct (mstep m e); auto. Qed.
  Definition accepts (m : M) (h : list ev) : bool :=
    match mon_run m h with Some _ => true | None => false end.
End Mon.

(* ------------------------------------------------------------------ SingleFlight
   events: KInv a=key | KBegin a=key (fn starts) | KEnd a=key b=value c=1 if fn panicked (else it
           returned value) | KRet a=key b=value c=1 if the call executed itself (DoEx's fresh) and
           returned, c=2 if it executed itself and ended with fn's panic, c=0 if it shared.
   Contract: a call that returns fresh executed fn exactly once itself and returns that value;
   a call that returns shared did not execute fn, and returns the value of ONE finished
   execution of the same key by another call which had not yet returned when this call was invoked
   (the two calls overlap in time; in particular a call invoked after the executing call returned
   can never receive its result: it executes afresh or joins a later flight).
   A panicking fn is an execution like any other: its flight's value is nil (0), its sharers return
   nil, its caller sees the panic, and after the caller is gone nobody can share it any more. *)
Record sf_cur := mkcur { cu_key : nat; cu_inv : nat; cu_ex : nat (* 0 none, 1 running, 2 done *); cu_val : nat }.
Record sf_exec := mkexec { x_val : nat; x_key : nat; x_t : nat; x_ret : option nat }.
Record sf_mon := mksfm { m_now : nat; m_cur : nat -> option sf_cur; m_exs : list sf_exec }.

Definition sf_mon0 : sf_mon := mksfm 0 (fun _ => None) [].

Definition sf_retire (t now : nat) (x : sf_exec) : sf_exec :=
  match x_ret x with
  | None => if Nat.eqb (x_t x) t then mkexec (x_val x) (x_key x) (x_t x) (Some now) else x
  | Some _ => x
  end.

Definition sf_share_ok (t k v inv : nat) (x : sf_exec) : bool :=
  Nat.eqb (x_val x) v && Nat.eqb (x_key x) k && negb (Nat.eqb (x_t x) t) &&
  match x_ret x with None => true | Some r => Nat.ltb inv r end.

(* execution state after fn ended: 2 = returned, 3 = panicked (flag c of the KEnd event) *)
Definition end_ex (flag : nat) : nat := if Nat.eqb flag 1 then 3 else 2.
Definition end_val (flag v : nat) : nat := if Nat.eqb flag 1 then 0 else v.

Definition sf_mon_step (m : sf_mon) (e : ev) : option sf_mon :=
  let t := e_t e in
  let now := m_now m in
  match e_k e, m_cur m t with
  | KInv, None =>
      Some (mksfm (S now) (upd (m_cur m) t (Some (mkcur (e_a e) now 0 0))) (m_exs m))
  | KBegin, Some c =>
      if Nat.eqb (cu_key c) (e_a e) && Nat.eqb (cu_ex c) 0
      then Some (mksfm (S now) (upd (m_cur m) t (Some (mkcur (cu_key c) (cu_inv c) 1 0))) (m_exs m))
      else None
  | KEnd, Some c =>
      (* c = 1: fn panicked; the flight's value stays nil (0) *)
      if Nat.eqb (cu_key c) (e_a e) && Nat.eqb (cu_ex c) 1
      then Some (mksfm (S now) (upd (m_cur m) t (Some (mkcur (cu_key c) (cu_inv c) (end_ex (e_c e)) (end_val (e_c e) (e_b e)))))
                       (mkexec (end_val (e_c e) (e_b e)) (cu_key c) t None :: m_exs m))
      else None
  | KRet, Some c =>
      if Nat.eqb (cu_key c) (e_a e) then
        if Nat.eqb (e_c e) 0 then
          if Nat.eqb (cu_ex c) 0 && existsb (sf_share_ok t (cu_key c) (e_b e) (cu_inv c)) (m_exs m)
          then Some (mksfm (S now) (upd (m_cur m) t None) (m_exs m))
          else None
        else
          (* c = 1: executed and returned normally; c = 2: the call ended with fn's panic *)
          if Nat.eqb (cu_ex c) (S (e_c e)) && Nat.eqb (cu_val c) (e_b e) && Nat.leb (e_c e) 2
          then Some (mksfm (S now) (upd (m_cur m) t None) (map (sf_retire t now) (m_exs m)))
          else None
      else None
  | _, _ => None
  end.

Definition sf_accepts (h : list ev) : bool := accepts sf_mon_step sf_mon0 h.

(* ------------------------------------------------------------------ LockedCalls
   events as for SingleFlight (KRet c=1 returned, c=2 panicked).  Contract: executions of fn for
   the same key never overlap; every call executes fn exactly once and returns what its own fn
   returned, or ends with its panic. *)
Record lc_mon := mklcm { l_cur : nat -> option sf_cur; l_running : list nat (* keys with fn running *) }.
Definition lc_mon0 : lc_mon := mklcm (fun _ => None) [].

Definition lc_mon_step (m : lc_mon) (e : ev) : option lc_mon :=
  let t := e_t e in
  match e_k e, l_cur m t with
  | KInv, None => Some (mklcm (upd (l_cur m) t (Some (mkcur (e_a e) 0 0 0))) (l_running m))
  | KBegin, Some c =>
      if Nat.eqb (cu_key c) (e_a e) && Nat.eqb (cu_ex c) 0 && negb (existsb (Nat.eqb (cu_key c)) (l_running m))
      then Some (mklcm (upd (l_cur m) t (Some (mkcur (cu_key c) 0 1 0))) (cu_key c :: l_running m))
      else None
  | KEnd, Some c =>
      if Nat.eqb (cu_key c) (e_a e) && Nat.eqb (cu_ex c) 1
      then Some (mklcm (upd (l_cur m) t (Some (mkcur (cu_key c) 0 (end_ex (e_c e)) (end_val (e_c e) (e_b e)))))
                       (filter (fun k => negb (Nat.eqb k (cu_key c))) (l_running m)))
      else None
  | KRet, Some c =>
      (* c = 1: returned fn's result; c = 2: ended with fn's panic *)
      if Nat.eqb (cu_key c) (e_a e) && Nat.eqb (cu_ex c) (S (e_c e)) && Nat.eqb (cu_val c) (e_b e) &&
         Nat.leb 1 (e_c e) && Nat.leb (e_c e) 2
      then Some (mklcm (upd (l_cur m) t None) (l_running m))
      else None
  | _, _ => None
  end.

Definition lc_accepts (h : list ev) : bool := accepts lc_mon_step lc_mon0 h.

(* ------------------------------------------------------------------ atomic objects
   (Limit, RefResource, OnceGuard, SpinLock, DoneChan): the sequential specification is a function
   [sstep : S -> thread -> op -> option (S * result)] (None = the call blocks).
   events: KInv op=code a b c = arguments | KRet op=code a=result. *)
Section AOSpec.
  Context {Ob : Type} (sstep : Ob -> nat -> op -> option (Ob * nat)).

  (* responses justified in response order (what the models do) *)
  Definition ao_mon_step (m : Ob * (nat -> option op)) (e : ev) : option (Ob * (nat -> option op)) :=
    let (ob, pend) := m in
    match e_k e, pend (e_t e) with
    | KInv, None => Some (ob, upd pend (e_t e) (Some (mkop (e_op e) (e_a e) (e_b e) (e_c e))))
    | KRet, Some o =>
        match sstep ob (e_t e) o with
        | Some (ob', r) => if Nat.eqb r (e_a e) && Nat.eqb (o_code o) (e_op e) then Some (ob', upd pend (e_t e) None) else None
        | None => None
        end
    | _, _ => None
    end.

  (* linearizability of a recorded history: calls are (thread, op, result, invocation index,
     response index); search for an order that respects real time (a call may be taken next only if
     no other remaining call responded before it was invoked) and is a run of sstep. *)
  Record lcall := mklcall { lc_t : nat; lc_op : op; lc_res : nat; lc_inv : nat; lc_ret : nat }.

  Fixpoint remove_nth {A} (i : nat) (l : list A) : list A :=
    match i, l with
    | _, [] => []
    | O, _ :: r => r
    | S j, a :: r => a :: remove_nth j r
    end.

  Definition minimal (c : lcall) (l : list lcall) : bool :=
    forallb (fun d => negb (Nat.ltb (lc_ret d) (lc_inv c))) l.

  (* (vm_compute is call-by-value: the search uses if-then-else, not && / ||, to stay lazy) *)
  Fixpoint first_ok {A} (f : A -> bool) (l : list A) : bool :=
    match l with [] => false | a :: r => if f a then true else first_ok f r end.

  Fixpoint lin (fuel : nat) (ob : Ob) (l : list lcall) : bool :=
    match l with
    | [] => true
    | _ =>
        match fuel with
        | O => false
        | S f =>
            first_ok (fun ic : nat * lcall =>
                        let (i, c) := ic in
                        if minimal c l then
                          match sstep ob (lc_t c) (lc_op c) with
                          | Some (ob', r) => if Nat.eqb r (lc_res c) then lin f ob' (remove_nth i l) else false
                          | None => false
                          end
                        else false)
                     (combine (seq 0 (List.length l)) l)
        end
    end.
End AOSpec.

(* pairing of KInv/KRet events of a history into calls (indices = positions in the history) *)
Fixpoint calls_of (h : list ev) (i : nat) (pend : list (nat * (op * nat))) : option (list lcall) :=
  match h with
  | [] => match pend with [] => Some [] | _ => None end
  | e :: r =>
      match e_k e with
      | KInv =>
          match alookup Nat.eqb (e_t e) pend with
          | Some _ => None
          | None => calls_of r (S i) ((e_t e, (mkop (e_op e) (e_a e) (e_b e) (e_c e), i)) :: pend)
          end
      | KRet =>
          match alookup Nat.eqb (e_t e) pend with
          | Some (o, j) =>
              if Nat.eqb (o_code o) (e_op e) then
                match calls_of r (S i) (aremove Nat.eqb (e_t e) pend) with
                | Some cs => Some (mklcall (e_t e) o (e_a e) j i :: cs)
                | None => None
                end
              else None
          | None => None
          end
      | _ => calls_of r (S i) pend   (* callback events are not calls *)
      end
  end.

Definition linearizable {Ob} (sstep : Ob -> nat -> op -> option (Ob * nat)) (o0 : Ob) (h : list ev) : bool :=
  match calls_of h 0 [] with
  | Some cs => lin sstep (S (List.length cs)) o0 cs
  | None => false
  end.

(* the same for a history in which calls are still pending at the end because they block for ever
   (a blocking Borrow on a limit of 0): a pending call has no response and is left out -- it must not
   have had any effect, which the rest of the history then has to confirm *)
Fixpoint drop_pending (h : list ev) (answered : list nat) : list ev :=
  match h with
  | [] => []
  | e :: r =>
      match e_k e with
      | KInv => if existsb (fun e' => ekind_eqb (e_k e') KRet && Nat.eqb (e_t e') (e_t e)) r
                then e :: drop_pending r answered else drop_pending r answered
      | _ => e :: drop_pending r answered
      end
  end.
Definition linearizable_pending {Ob} (sstep : Ob -> nat -> op -> option (Ob * nat)) (o0 : Ob) (h : list ev) : bool :=
  linearizable sstep o0 (drop_pending h []).

(* ------------------------------------------------------------------ Pool (history monitor)
   events: KInv 0 b=now (Get) | KRet 0 a=id b=now | KInv 1 a=id b=now (Put) | KRet 1 b=now | KInv 2 / KRet 2 (Put(nil))
           | KBegin 3 c=2 (the create callback starts) | KBegin 3 a=id c=0 (it returns resource id)
           | KBegin 3 c=1 (it panicked, no resource) | KEnd 3 a=id (destroy callback; c=1: it panicked)
           | KRet 0 c=2: Get ended with a callback's panic.
   status of a resource id: 1 created, not yet returned by a Get | 2 held | 3 idle, put finished at
   time b | 4 idle, put still in progress | 5 destroyed.
   Contract: live resources (created - destroyed) PLUS resources whose create callback is still
   running never exceed limit; a Get never returns a resource that is held
   or destroyed; an idle resource whose Put had finished more than maxAge before the Get was even
   invoked is never handed out; only idle resources are destroyed. *)
Record pool_mon := mkpm { pm_live : nat; pm_st : list (nat * (nat * nat)); pm_getinv : list (nat * nat);
                          pm_pput : list (nat * nat); pm_inprog : nat (* create callbacks that have started and not ended *) }.
Definition pool_mon0 : pool_mon := mkpm 0 [] [] [] 0.

Definition pool_mon_step (limit maxage : nat) (m : pool_mon) (e : ev) : option pool_mon :=
  let t := e_t e in
  let st := pm_st m in
  match e_k e, e_op e with
  | KBegin, _ =>
      match e_c e with
      | 2 => (* a create callback starts: the resource it is making already counts *)
          if Nat.leb (S (pm_live m + pm_inprog m)) limit
          then Some (mkpm (pm_live m) st (pm_getinv m) (pm_pput m) (S (pm_inprog m))) else None
      | 1 => (* it panicked: no resource came into being *)
          Some (mkpm (pm_live m) st (pm_getinv m) (pm_pput m) (pm_inprog m - 1))
      | _ => (* it returned resource a *)
          match alookup Nat.eqb (e_a e) st with
          | None => if Nat.leb (S (pm_live m + (pm_inprog m - 1))) limit
                    then Some (mkpm (S (pm_live m)) (aset Nat.eqb (e_a e) (1, 0) st) (pm_getinv m) (pm_pput m) (pm_inprog m - 1)) else None
          | Some _ => None
          end
      end
  | KEnd, _ =>
      match alookup Nat.eqb (e_a e) st with
      | Some (3, _) | Some (4, _) => Some (mkpm (pm_live m - 1) (aset Nat.eqb (e_a e) (5, 0) st) (pm_getinv m) (pm_pput m) (pm_inprog m))
      | _ => None
      end
  | KInv, 2 | KRet, 2 => Some m     (* Put(nil): not a resource, nothing changes *)
  | KInv, 0 => Some (mkpm (pm_live m) st (aset Nat.eqb t (e_b e) (pm_getinv m)) (pm_pput m) (pm_inprog m))
  | KRet, 0 =>
      if Nat.eqb (e_c e) 2 then Some m else   (* Get was unwound by a panicking callback: nothing handed out *)
      match alookup Nat.eqb (e_a e) st, alookup Nat.eqb t (pm_getinv m) with
      | Some (1, _), Some _ | Some (4, _), Some _ =>
          Some (mkpm (pm_live m) (aset Nat.eqb (e_a e) (2, t) st) (pm_getinv m) (pm_pput m) (pm_inprog m))
      | Some (3, p), Some gi =>
          if Nat.ltb 0 maxage && Nat.ltb (p + maxage) gi then None
          else Some (mkpm (pm_live m) (aset Nat.eqb (e_a e) (2, t) st) (pm_getinv m) (pm_pput m) (pm_inprog m))
      | _, _ => None
      end
  | KInv, _ =>
      match alookup Nat.eqb (e_a e) st with
      | Some (2, _) => Some (mkpm (pm_live m) (aset Nat.eqb (e_a e) (4, 0) st) (pm_getinv m) (aset Nat.eqb t (e_a e) (pm_pput m)) (pm_inprog m))
      | _ => None   (* the driver only puts what is held *)
      end
  | KRet, _ =>
      match alookup Nat.eqb t (pm_pput m) with
      | Some id =>
          match alookup Nat.eqb id st with
          | Some (4, _) => Some (mkpm (pm_live m) (aset Nat.eqb id (3, e_b e) st) (pm_getinv m) (pm_pput m) (pm_inprog m))
          | _ => Some m   (* already taken again (or destroyed) by somebody else *)
          end
      | None => None
      end
  end.

Definition pool_accepts (limit maxage : nat) (h : list ev) : bool := accepts (pool_mon_step limit maxage) pool_mon0 h.

(* ------------------------------------------------------------------ ResourceManager (history monitor)
   events: KInv 0 a=key (Get) | KBegin 0 a=key (create starts) | KEnd 0 a=key b=id c=1 if it failed
           | KRet 0 a=key b=id c=0 ok / 1 error / 2 panic | KInv 1 (Close) | KEnd 1 a=id c=1 if it failed (a
           resource's Close ran) | KRet 1 a=1 if Close reports an error.
   Contract (while the manager is open): creates of one key never overlap; after a successful
   create of a key there is no further create of it; every successful Get of the key returns that
   resource; when Close returns, every resource created before Close was invoked has been closed
   exactly once. *)
Record rm_mon := mkrm { rm_creating : list nat; rm_made : list (nat * nat); rm_closed_ids : list nat;
                        rm_toclose : list nat; rm_closing : bool; rm_errs : nat (* resource Close calls that returned an error *) }.
Definition rm_mon0 : rm_mon := mkrm [] [] [] [] false 0.

Fixpoint remove_one (k : nat) (l : list nat) : list nat :=
  match l with [] => [] | a :: r => if Nat.eqb a k then r else a :: remove_one k r end.

Definition rm_mon_step (m : rm_mon) (e : ev) : option rm_mon :=
  match e_k e, e_op e with
  | KInv, 0 => Some m
  | KBegin, _ =>
      if rm_closing m then Some m
      else if existsb (Nat.eqb (e_a e)) (rm_creating m) || existsb (fun kv => Nat.eqb (fst kv) (e_a e)) (rm_made m) then None
      else Some (mkrm (e_a e :: rm_creating m) (rm_made m) (rm_closed_ids m) (rm_toclose m) false (rm_errs m))
  | KEnd, 0 =>
      Some (mkrm (remove_one (e_a e) (rm_creating m))
                 (if Nat.eqb (e_c e) 0 then (e_a e, e_b e) :: rm_made m else rm_made m)
                 (rm_closed_ids m) (rm_toclose m) (rm_closing m) (rm_errs m))
  | KRet, 0 =>
      if Nat.eqb (e_c e) 0
      then if existsb (fun kv => Nat.eqb (fst kv) (e_a e) && Nat.eqb (snd kv) (e_b e)) (rm_made m) then Some m else None
      else Some m
  | KInv, _ => Some (mkrm (rm_creating m) (rm_made m) (rm_closed_ids m) (map snd (rm_made m)) true (rm_errs m))
  | KEnd, _ => (* a resource's Close ran; c = 1: it returned an error *)
      Some (mkrm (rm_creating m) (rm_made m) (e_a e :: rm_closed_ids m) (rm_toclose m) (rm_closing m)
                 (if Nat.eqb (e_c e) 0 then rm_errs m else S (rm_errs m)))
  | KRet, _ =>
      (* every resource made before Close was invoked has been closed exactly once -- also when some
         of them failed to close -- and Close reports an error (a = 1) iff one of them failed *)
      if forallb (fun id => Nat.eqb (count_occ_b (Nat.eqb id) (rm_closed_ids m)) 1) (rm_toclose m) &&
         Nat.eqb (e_a e) (if Nat.ltb 0 (rm_errs m) then 1 else 0)
      then Some m else None
  end.

Definition rm_accepts (h : list ev) : bool := accepts rm_mon_step rm_mon0 h.

(* ------------------------------------------------------------------ TimeoutLimit (history check)
   events: KInv op a=timeout(ms) b=virtual now | KRet op a=result b=virtual now c=real ms spent.
   a Borrow that reports ErrTimeout (result 1) has spent at least its timeout, on the clock that
   made it give up (timex for signalled waits, the timer's real clock otherwise). *)
Fixpoint tl_timeouts_ok (h : list ev) (pend : list (nat * (nat * nat))) : bool :=
  match h with
  | [] => true
  | e :: r =>
      match e_k e with
      | KInv => tl_timeouts_ok r (aset Nat.eqb (e_t e) (e_a e, e_b e) pend)
      | KRet =>
          (if Nat.eqb (e_op e) 0 && Nat.eqb (e_a e) 1 then
             match alookup Nat.eqb (e_t e) pend with
             | Some (timeout, b0) => Nat.leb (b0 + timeout) (e_b e) || Nat.leb timeout (e_c e)
             | None => false
             end
           else true) && tl_timeouts_ok r pend
      | _ => tl_timeouts_ok r pend
      end
  end.

(* ------------------------------------------------------------------ completeness of a recorded history
   The driver ends every run by opening all gates and releasing whoever it can.  For SingleFlight,
   LockedCalls, ResourceManager and Barrier nothing can then legitimately stay blocked: a call that
   never returns did not "receive the result" / did not "execute" (e.g. a sharer or a later call
   hanging on a flight whose executing call was unwound by a panic without deregistering it). *)
Definition complete (h : list ev) : bool :=
  Nat.eqb (count_occ_b (fun e => ekind_eqb (e_k e) KInv) h) (count_occ_b (fun e => ekind_eqb (e_k e) KRet) h).

(* Pool: after the wind-down (every held resource has been put back) a Get can only still be blocked
   if the slots were used up by create callbacks that panicked (p.created is incremented before
   create is called and stays incremented) -- not because a panicking callback left p.lock locked *)
Definition pool_final_ok (limit : nat) (h : list ev) : bool :=
  complete h ||
  Nat.leb limit (count_occ_b (fun e => ekind_eqb (e_k e) KBegin && Nat.eqb (e_op e) 3 && Nat.eqb (e_c e) 1) h).

(* ------------------------------------------------------------------ ImmutableResource (history monitor)
   events: KInv 0 b=now | KBegin 0 b=now (the user fetch starts) | KEnd 0 a=value c=1 if fetch
           returned an error (a may be non-nil all the same) | KRet 0 a=resource (0 = nil) b=1 if an
           error is returned.
   Sharing contract (what the code documents: "return the resource if there is one, else try to
   fetch it"; refresh interval on failure): a Get only ever hands out a resource that a SUCCESSFUL
   fetch returned; once some Get has returned a resource without error, every Get invoked later
   returns a (successfully fetched) resource without error and does not fetch; a fetch is attempted
   only if none was attempted before or more than the refresh interval has passed since the last
   attempt.  (Not demanded: that the resource handed out never changes -- two overlapping fetches
   that both succeed replace it on the unchanged code; out-of-statement observation, see c18.py.) *)
Record ir_mon := mkirm { im_goods : list nat; im_shared : option nat; im_snap : list (nat * option nat);
                         im_lastb : option nat }.
Definition ir_mon0 : ir_mon := mkirm [] None [] None.

Definition ir_mon_step (interval : nat) (m : ir_mon) (e : ev) : option ir_mon :=
  let t := e_t e in
  match e_k e with
  | KInv => Some (mkirm (im_goods m) (im_shared m) (aset Nat.eqb t (im_shared m) (im_snap m)) (im_lastb m))
  | KBegin =>
      match alookup Nat.eqb t (im_snap m) with Some (Some _) => None | _ =>   (* no fetch once a resource is shared *)
      match im_lastb m with
      | None => Some (mkirm (im_goods m) (im_shared m) (im_snap m) (Some (e_b e)))
      | Some l => if Nat.ltb (l + interval) (e_b e)
                  then Some (mkirm (im_goods m) (im_shared m) (im_snap m) (Some (e_b e))) else None
      end end
  | KEnd => Some (mkirm (if Nat.eqb (e_c e) 0 then e_a e :: im_goods m else im_goods m) (im_shared m) (im_snap m) (im_lastb m))
  | KRet =>
      if (Nat.eqb (e_a e) 0 || existsb (Nat.eqb (e_a e)) (im_goods m)) &&
         match alookup Nat.eqb t (im_snap m) with
         | Some (Some _) => negb (Nat.eqb (e_a e) 0) && Nat.eqb (e_b e) 0
         | _ => true
         end
      then Some (mkirm (im_goods m)
                       (match im_shared m with
                        | None => if Nat.eqb (e_b e) 0 && negb (Nat.eqb (e_a e) 0) then Some (e_a e) else None
                        | sh => sh
                        end) (im_snap m) (im_lastb m))
      else None
  end.

Definition ir_accepts (interval : nat) (h : list ev) : bool := accepts (ir_mon_step interval) ir_mon0 h.

(* ------------------------------------------------------------------ SingleFlight under a FORCED schedule
   The driver lets every started call run until it is blocked before it does anything else.  So a
   call invoked while an execution of its key is running (its KBegin seen, its KEnd not yet: the
   flight is registered throughout) has certainly found that flight: it is a follower and must be
   served by it -- it must not execute fn itself, whatever the leader's fn returns (a value, nil,
   an error wrapping context.Canceled / DeadlineExceeded, a panic).  Not valid for free-running
   histories (a call may reach its lookup late), hence not part of sf_mon_step. *)
Fixpoint sf_forced_ok (h : list ev) (running : list nat) (must : list nat) : bool :=
  match h with
  | [] => true
  | e :: r =>
      match e_k e with
      | KInv => sf_forced_ok r running (if existsb (Nat.eqb (e_a e)) running then e_t e :: must else must)
      | KBegin => if existsb (Nat.eqb (e_t e)) must then false else sf_forced_ok r (e_a e :: running) must
      | KEnd => sf_forced_ok r (remove_one (e_a e) running) must
      | KRet => sf_forced_ok r running (filter (fun u => negb (Nat.eqb u (e_t e))) must)
      end
  end.
